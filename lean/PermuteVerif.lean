-- Root of the `PermuteVerif` library: executable model, lemmas, property theorems.
import PermuteVerif.Model.Basic
import PermuteVerif.Model.Shuffle
import PermuteVerif.Model.Tests
import PermuteVerif.Model.NPC
import PermuteVerif.Model.Tails
import PermuteVerif.Model.Sprt
import PermuteVerif.Model.QA
import PermuteVerif.Model.Incidence
import PermuteVerif.Model.Experiment
