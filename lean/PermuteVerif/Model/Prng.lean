/-
  Model/Prng.lean — utils.get_prng as decision logic: which generator a `seed` argument turns into.
-/
namespace PV

/-- the kinds of `seed` argument the code distinguishes -/
inductive SeedArg where
  | none            -- seed=None
  | npRandomModule  -- the module numpy.random itself
  | number          -- int, numpy integer, float
  | string
  | randomState     -- an instance of numpy.random.RandomState
  | sha256          -- an instance of cryptorandom's SHA256
  | other           -- anything else
  deriving DecidableEq, Repr

/-- what comes back -/
inductive PrngOut where
  | freshSHA256FromGlobalDraw   -- SHA256 seeded with an integer drawn from numpy's global generator
  | globalRandomState           -- numpy.random.mtrand._rand
  | freshSHA256OfSeed           -- SHA256(seed), counter 0
  | sameObject                  -- the instance that was passed in, untouched
  | valueError
  deriving DecidableEq, Repr

def getPrng : SeedArg → PrngOut
  | .none => .freshSHA256FromGlobalDraw
  | .npRandomModule => .globalRandomState
  | .number => .freshSHA256OfSeed
  | .string => .freshSHA256OfSeed
  | .randomState => .sameObject
  | .sha256 => .sameObject
  | .other => .valueError

/-- does serving this seed argument read numpy's global generator? -/
def readsGlobalState : SeedArg → Bool
  | .none => true
  | .npRandomModule => true
  | _ => false

end PV
