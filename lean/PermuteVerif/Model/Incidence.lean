/-
  Model/Incidence.lean — utils.permute_incidence_fixed_sums (after repairs D6/D6b: the row pair is
  drawn from the seeded generator; entries other than 0/1 are rejected).
-/
import PermuteVerif.Model.Shuffle
import PermuteVerif.Model.NPC
namespace PV

abbrev Mat := List (List Int)

def matGet (m : Mat) (i j : Nat) : Int := (m.getD i []).getD j 0
def matSet (m : Mat) (i j : Nat) (v : Int) : Mat := m.set i ((m.getD i []).set j v)

def isBinary (m : Mat) : Bool := m.all (fun r => r.all (fun v => v == 0 || v == 1))
def matMin (m : Mat) : Option Int := (m.flatten).min?
def matMax (m : Mat) : Option Int := (m.flatten).max?

/-- columns where row s0 has `a` and row s1 has `b` -/
def colsWith (m : Mat) (s0 s1 : Nat) (a b : Int) : List Nat :=
  (List.range ((m.headD []).length)).filter (fun j => matGet m s0 j == a && matGet m s1 j == b)

/-- one attempt: rows (s0, s1); `pick0`, `pick1` index into the candidate column lists.
    Returns `none` when the pair admits no checkerboard (the code draws again); a pick outside the
    candidate list cannot come from `prng.choice` and is treated the same way. -/
def swapAttempt (m : Mat) (s0 s1 pick0 pick1 : Nat) : Option Mat :=
  let c0 := colsWith m s0 s1 1 0
  let c1 := colsWith m s0 s1 0 1
  match c0[pick0]?, c1[pick1]? with
  | some p0, some p1 =>
    some (matSet (matSet (matSet (matSet m s0 p0 0) s0 p1 1) s1 p0 1) s1 p1 0)
  | _, _ => none

structure Attempt where
  s0 : Nat
  s1 : Nat
  pick0 : Nat
  pick1 : Nat
  deriving Repr

/-- perform attempts until `k` swaps have succeeded (attempt list supplied by the recorded run) -/
def incidenceRun (m : Mat) : Nat → List Attempt → Mat
  | 0, _ => m
  | _ + 1, [] => m
  | k + 1, a :: rest =>
    match swapAttempt m a.s0 a.s1 a.pick0 a.pick1 with
    | none => incidenceRun m (k + 1) rest
    | some m' => incidenceRun m' k rest

/-- input validation (the 2-D check is on the array rank and lives in the harness) -/
def incidenceValid (m : Mat) : Bool :=
  isBinary m && matMin m == some 0 && matMax m == some 1

def rowSums (m : Mat) : List Int := m.map (fun r => r.foldl (· + ·) 0)
def colSumsI (m : Mat) : List Int :=
  (List.range ((m.headD []).length)).map (fun j => (m.map (fun r => r.getD j 0)).foldl (· + ·) 0)

/-- number of cells in which two matrices differ -/
def cellDiff (a b : Mat) : Nat :=
  ((List.zipWith (fun r s => ((List.zipWith (fun (u v : Int) => if u = v then 0 else 1) r s).foldl (· + ·) 0)) a b).foldl (· + ·) 0)

/-- row pair from `random_sample(rows, 2)` = first two picks of sample_by_index -/
def rowPair (n : Nat) (w1 w2 : Nat) : Nat × Nat :=
  match sbi (List.range n) [w1, w2] with
  | [a, b] => (a, b)
  | _ => (0, 0)

end PV
