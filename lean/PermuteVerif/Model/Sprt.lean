/-
  Model/Sprt.lean — sprt.py (after the D13 repair: the prefixes examined are x[:1] … x[:n]).
-/
import PermuteVerif.Model.Basic
namespace PV

/-- the `while` loop of sprt.py with `fuel` iterations left -/
def sprtGo {α : Type} (lr : List α → Rat) (A B : Rat) (x : List α) : Nat → Nat → Rat → Rat
  | 0, _, ts => ts
  | fuel+1, index, ts =>
    if A < ts ∧ ts < B ∧ index < x.length then
      sprtGo lr A B x fuel (index + 1) (lr (x.take (index + 1)))
    else ts

structure SprtOut where
  rejectH0 : Bool
  rejectHa : Bool
  ts : Rat
  deriving Repr, DecidableEq

def sprtDecide (A B ts : Rat) : SprtOut :=
  if B ≤ ts then ⟨true, false, ts⟩
  else if ts ≤ A then ⟨false, true, ts⟩
  else ⟨false, false, ts⟩

def sprt {α : Type} (lr : List α → Rat) (alpha beta : Rat) (x : List α) (randomOrder : Bool) :
    SprtOut :=
  let A := beta / (1 - alpha)
  let B := (1 - beta) / alpha
  let ts := if randomOrder then sprtGo lr A B x (x.length + 1) 0 1 else lr x
  sprtDecide A B ts

/-- specification: the first prefix x[:k], k = 1..n, whose ratio leaves (A, B); else the last one -/
def sprtSpecFrom {α : Type} (lr : List α → Rat) (A B : Rat) (x : List α) : Nat → Nat → Rat
  | 0, k => lr (x.take k)
  | m+1, k =>
    let v := lr (x.take k)
    if A < v ∧ v < B then sprtSpecFrom lr A B x m (k + 1) else v

/-- value reported for a non-empty sample: scan k = 1 … n -/
def sprtSpec {α : Type} (lr : List α → Rat) (A B : Rat) (x : List α) : Rat :=
  if x.length = 0 then 1 else sprtSpecFrom lr A B x (x.length - 1) 1

/-- bernoulli_lh_ratio -/
def bernoulliLR (po pa : Rat) (x : List Nat) : Rat :=
  let s := x.foldl (· + ·) 0
  let n := x.length
  (pa ^ s * (1 - pa) ^ (n - s)) / (po ^ s * (1 - po) ^ (n - s))

/-- product over observations of (pa/po)^x ((1-pa)/(1-po))^(1-x) -/
def bernoulliLRProd (po pa : Rat) (x : List Nat) : Rat :=
  (x.map (fun b => if b = 1 then pa / po else (1 - pa) / (1 - po))).foldl (· * ·) 1

end PV
