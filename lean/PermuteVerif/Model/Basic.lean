/-
  Model/Basic.lean — shared definitions of the executable model (core Lean only, no Mathlib).

  Numbers are exact rationals (`Rat`, core).  Every finite IEEE double is a dyadic rational, so the
  harness can hand any value the implementation produced to the model without loss.
-/
namespace PV

/-- the three alternatives of the randomisation tests -/
inductive Alt where
  | greater | less | twoSided
  deriving DecidableEq, Repr, Inhabited

/-- `plus1` as the integer the code adds (`True` is 1 in Python arithmetic) -/
def c1 (plus1 : Bool) : Nat := if plus1 then 1 else 0

/-- `np.sum(dist >= t)` -/
def cntGe (dist : List Rat) (t : Rat) : Nat := dist.countP (fun v => decide (t ≤ v))

/-- `np.sum(dist <= t)` -/
def cntLe (dist : List Rat) (t : Rat) : Nat := dist.countP (fun v => decide (v ≤ t))

/-- stable insertion (before the first element that is not smaller) -/
def ins {α : Type} (le : α → α → Bool) (a : α) : List α → List α
  | [] => [a]
  | b :: t => if le a b then a :: b :: t else b :: ins le a t

/-- stable insertion sort; `isort le (a :: t) = ins le a (isort le t)` -/
def isort {α : Type} (le : α → α → Bool) (l : List α) : List α := l.foldr (ins le) []

/-- stable argsort: indices `0..n-1` sorted by the value they point to (ties keep index order) -/
def argsortStable (p : List Rat) : List Nat :=
  (isort (fun (a b : Rat × Nat) => decide (a.1 ≤ b.1)) p.zipIdx).map Prod.snd

/-- sorted distinct values of a list of integer labels (`np.unique`) -/
def uniqSorted (l : List Int) : List Int :=
  (isort (fun a b => decide (a ≤ b)) l).eraseDups

/-- positions `i` with `l[i] = g` (boolean mask `l == g`) -/
def positionsOf (l : List Int) (g : Int) : List Nat :=
  (l.zipIdx.filter (fun p => p.1 == g)).map Prod.snd

/-- `x[idx]` (fancy indexing with an index list); out-of-range never occurs for masks -/
def gather {α : Type} [Inhabited α] (x : List α) (idx : List Nat) : List α :=
  idx.map (fun i => x.getD i default)

/-- `x[idx] = vals` (assignment through an index list) -/
def scatter {α : Type} (x : List α) (idx : List Nat) (vals : List α) : List α :=
  (idx.zip vals).foldl (fun acc p => acc.set p.1 p.2) x

/-- sum of a list of rationals -/
def rsum (l : List Rat) : Rat := l.foldl (· + ·) 0

/-- arithmetic mean (`np.mean`); the empty mean is never requested by the modelled paths -/
def mean (l : List Rat) : Rat := rsum l / (l.length : Rat)

/-- factorial -/
def fact : Nat → Nat
  | 0 => 1
  | n + 1 => (n + 1) * fact n

/-- binomial coefficient n!/(k!(n−k)!) (own definition: the model does not import Mathlib;
    `Lemmas/Choose.lean` proves it equal to `Nat.choose`) -/
def choose (n k : Nat) : Nat := if k ≤ n then fact n / (fact k * fact (n - k)) else 0

end PV
