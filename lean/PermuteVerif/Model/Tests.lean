/-
  Model/Tests.lean — the randomisation tests of core.py, ksample.py, stratified.py and irr.py.

  Every function takes the statistic as a parameter and the random draws as an explicit list (one
  entry per repetition), and follows the code: same slices, same counters, same tail formulas.
-/
import PermuteVerif.Model.Shuffle
namespace PV

/-! ### p-value formulas -/

/-- core.py `thePvalue` (two_sample_core, one_sample): `pUp = hitsUp/(reps+plus1)` etc. -/
def corePValue (alt : Alt) (plus1 : Bool) (reps hitsUp hitsDn : Nat) : Rat :=
  let c : Rat := (c1 plus1 : Nat)
  let d : Rat := (reps : Rat) + c
  let up := (hitsUp : Rat) / d + c / d
  let dn := (hitsDn : Rat) / d + c / d
  match alt with
  | .greater => up
  | .less => dn
  | .twoSided => 2 * min (1/2) (min up dn)

/-- core.py `corr`: `(count+plus1)/(reps+plus1)`, two-sided `min(1, 2 min(left, right))` -/
def corrPValue (alt : Alt) (plus1 : Bool) (reps hitsUp hitsDn : Nat) : Rat :=
  let c : Rat := (c1 plus1 : Nat)
  let right := ((hitsUp : Rat) + c) / ((reps : Rat) + c)
  let left := ((hitsDn : Rat) + c) / ((reps : Rat) + c)
  match alt with
  | .greater => right
  | .less => left
  | .twoSided => min 1 (2 * min left right)

/-- ksample.py / irr.py: `(plus1 + hits)/(plus1 + reps)` -/
def upperPValue (plus1 : Bool) (reps hits : Nat) : Rat :=
  ((c1 plus1 : Nat) + (hits : Rat)) / ((c1 plus1 : Nat) + (reps : Rat))

/-- stratified.py `thePvalue` of sim_corr and stratified_permutationtest: everything is derived
    from the upper-tail count (`'less'` is `1 - upper`).  Known finding D5: this is not the lower
    tail when a simulated value ties the observed one or `plus1` is on. -/
def stratUpperOnlyPValue (alt : Alt) (plus1 : Bool) (reps hitsUp : Nat) : Rat :=
  let c : Rat := (c1 plus1 : Nat)
  let d : Rat := (reps : Rat) + c
  let p := (hitsUp : Rat) / d + c / d
  match alt with
  | .greater => p
  | .less => 1 - p
  | .twoSided => 2 * min p (1 - p)

/-! ### two_sample_core / two_sample / two_sample_shift -/

/-- one repetition: shuffle the persisting index list, `np.take` the rows, statistic of the first
    `nx` rows' treatment column and the other rows' control column -/
def tsArgs (table : List (Rat × Rat)) (nx : Nat) (rr : List Nat) : List Rat × List Rat :=
  let pp := rr.map (fun i => table.getD i (0, 0))
  ((pp.take nx).map Prod.fst, (pp.drop nx).map Prod.snd)

structure TSOut where
  p : Rat
  hitsUp : Nat
  hitsDn : Nat
  obs : Rat
  dist : List Rat
  args : List (List Rat × List Rat)
  rr : List Nat

/-- the list of index orders seen over the repetitions (each shuffle starts from the previous
    order) -/
def tsOrders (rr : List Nat) : List (List Nat) → List (List Nat)
  | [] => []
  | js :: rest => let rr' := pyShuffle rr js; rr' :: tsOrders rr' rest

def twoSampleCore (table : List (Rat × Rat)) (nx : Nat) (stat : List Rat → List Rat → Rat)
    (alt : Alt) (plus1 : Bool) (draws : List (List Nat)) : TSOut :=
  let reps := draws.length
  let rr0 := List.range table.length
  let obsArgs := tsArgs table nx rr0
  let obs := stat obsArgs.1 obsArgs.2
  let orders := tsOrders rr0 draws
  let args := orders.map (tsArgs table nx)
  let dist := args.map (fun a => stat a.1 a.2)
  let up := cntGe dist obs
  let dn := cntLe dist obs
  { p := corePValue alt plus1 reps up dn, hitsUp := up, hitsDn := dn, obs := obs, dist := dist,
    args := args, rr := orders.getLastD rr0 }

/-- two_sample: both columns are the pooled data -/
def twoSampleTable (x y : List Rat) : List (Rat × Rat) := (x ++ y).map (fun v => (v, v))

/-- two_sample_shift with a scalar shift: (x, y+d | x-d, y) -/
def shiftTable (x y : List Rat) (d : Rat) : List (Rat × Rat) :=
  x.map (fun v => (v, v - d)) ++ y.map (fun v => (v + d, v))

/-- potential_outcomes(x, y, f, finv): (x, f(y) | finv(x), y) -/
def potentialOutcomes (x y : List Rat) (f finv : Rat → Rat) : List (Rat × Rat) :=
  x.map (fun v => (v, finv v)) ++ y.map (fun v => (f v, v))

/-- the inverse sanity check on 1..5 (np.allclose replaced by equality: the harness only uses
    exactly invertible pairs or clearly non-inverse ones) -/
def inverseCheck (f finv : Rat → Rat) : Bool :=
  [1, 2, 3, 4, 5].all (fun (t : Rat) => finv (f t) == t && f (finv t) == t)

def twoSample (x y : List Rat) (stat : List Rat → List Rat → Rat) (alt : Alt) (plus1 : Bool)
    (draws : List (List Nat)) : TSOut :=
  twoSampleCore (twoSampleTable x y) x.length stat alt plus1 draws

def twoSampleShift (x y : List Rat) (d : Rat) (stat : List Rat → List Rat → Rat) (alt : Alt)
    (plus1 : Bool) (draws : List (List Nat)) : TSOut :=
  twoSampleCore (shiftTable x y d) x.length stat alt plus1 draws

/-! ### statistics -/

def meanDiff (u v : List Rat) : Rat := mean u - mean v

/-- sum of squared deviations from the mean -/
def ssd (u : List Rat) : Rat := let m := mean u; rsum (u.map (fun t => (t - m) * (t - m)))

/-- strictly increasing re-coding `r ↦ sign(r)·r²` of a ratio `num/√densq` (densq > 0): lets the
    exact model order t statistics and correlation coefficients without square roots -/
def sgnSq (num densq : Rat) : Rat :=
  if 0 ≤ num then num * num / densq else -(num * num / densq)

/-- pooled-variance two-sample t (scipy ttest_ind equal_var=True), re-coded by `sgnSq` -/
def tKey (u v : List Rat) : Rat :=
  let nu : Rat := u.length; let nv : Rat := v.length
  let sp2 := (ssd u + ssd v) / (nu + nv - 2)
  sgnSq (mean u - mean v) (sp2 * (1 / nu + 1 / nv))

/-- one-sample t against 0 (scipy ttest_1samp), re-coded -/
def t1Key (u : List Rat) : Rat :=
  let n : Rat := u.length
  sgnSq (mean u) (ssd u / (n - 1) / n)

/-- Pearson r re-coded -/
def pearsonKey (x y : List Rat) : Rat :=
  let mx := mean x; let my := mean y
  let cov := rsum (List.zipWith (fun a b => (a - mx) * (b - my)) x y)
  sgnSq cov (ssd x * ssd y)

/-- integer-weighted, order-sensitive statistic family used by the harness callables -/
def wsum (w : List Int) (u : List Rat) : Rat := rsum (List.zipWith (fun (a : Int) (b : Rat) => (a : Rat) * b) w u)
def wsum2 (wx wy : List Int) (u v : List Rat) : Rat := wsum wx u + wsum wy v

/-! ### one_sample -/

structure OSOut where
  p : Rat
  hitsUp : Nat
  hitsDn : Nat
  obs : Rat
  dist : List Rat
  args : List (List Rat)

def oneSample (z : List Rat) (stat : List Rat → Rat) (alt : Alt) (plus1 : Bool)
    (draws : List (List Nat)) : OSOut :=
  let reps := draws.length
  let obs := stat z
  let args := draws.map (signFlip z)
  let dist := args.map stat
  let up := cntGe dist obs
  let dn := cntLe dist obs
  { p := corePValue alt plus1 reps up dn, hitsUp := up, hitsDn := dn, obs := obs, dist := dist,
    args := args }

/-- paired form: z = x - y -/
def pairedDiff (x y : List Rat) : List Rat := List.zipWith (· - ·) x y

/-! ### corr / spearman_corr -/

def corrTest (x y : List Rat) (stat : List Rat → List Rat → Rat) (alt : Alt) (plus1 : Bool)
    (draws : List (List Nat)) : OSOut :=
  let reps := draws.length
  let obs := stat x y
  let args := draws.map (fy x)
  let dist := args.map (fun xp => stat xp y)
  let up := cntGe dist obs
  let dn := cntLe dist obs
  { p := corrPValue alt plus1 reps up dn, hitsUp := up, hitsDn := dn, obs := obs, dist := dist,
    args := args }

/-- scipy `rankdata` (method 'average'): number of strictly smaller entries plus the mean position inside the
    block of entries equal to the value — `#{u < v} + (#{u = v} + 1)/2`; for tie-free data `1 + #{u < v}` -/
def ranks (x : List Rat) : List Rat :=
  x.map (fun v => ((x.countP (fun u => decide (u < v)) : Nat) : Rat)
                  + (((x.countP (fun u => decide (u = v)) : Nat) : Rat) + 1) / 2)

def spearmanTest (x y : List Rat) (alt : Alt) (plus1 : Bool) (draws : List (List Nat)) : OSOut :=
  corrTest (ranks x) (ranks y) pearsonKey alt plus1 draws

/-! ### k_sample / bivariate_k_sample -/

/-- one_way_anova(x, group, overall_mean): Σ_k n_k (mean_k − overall_mean)² over np.unique(group) -/
def oneWayAnova (x : List Rat) (group : List Int) (overall : Rat) : Rat :=
  rsum ((uniqSorted group).map (fun k =>
    let gk := gather x (positionsOf group k)
    (mean gk - overall) * (mean gk - overall) * (gk.length : Rat)))

/-- two_way_anova(x, group1, group2, overall_mean) = ss2/(sst − ss2) with
    ss2 = Σ_g (mean of x over group2 == g − overall)²  (unweighted, as coded) -/
def twoWayAnova (x : List Rat) (group2 : List Int) (overall : Rat) : Rat :=
  let sst := rsum (x.map (fun t => (t - overall) * (t - overall)))
  let ss2 := rsum ((uniqSorted group2).map (fun g =>
    let xx := gather x (positionsOf group2 g)
    (mean xx - overall) * (mean xx - overall)))
  ss2 / (sst - ss2)

structure KSOut where
  p : Rat
  hits : Nat
  obs : Rat
  dist : List Rat
  args : List (List Int)

def kSample (x : List Rat) (group : List Int) (stat : List Rat → List Int → Rat → Rat)
    (plus1 : Bool) (draws : List (List Nat)) : KSOut :=
  let reps := draws.length
  let xbar := mean x
  let obs := stat x group xbar
  let args := draws.map (fy group)
  let dist := args.map (fun g => stat x g xbar)
  let hits := cntGe dist obs
  { p := upperPValue plus1 reps hits, hits := hits, obs := obs, dist := dist, args := args }

def bivariateKSample (x : List Rat) (group1 group2 : List Int)
    (stat : List Rat → List Int → List Int → Rat → Rat) (plus1 : Bool)
    (draws : List (List (List Nat))) : KSOut :=
  let reps := draws.length
  let xbar := mean x
  let obs := stat x group1 group2 xbar
  let args := draws.map (permuteWithinGroups group2 group1)
  let dist := args.map (fun g2 => stat x group1 g2 xbar)
  let hits := cntGe dist obs
  { p := upperPValue plus1 reps hits, hits := hits, obs := obs, dist := dist, args := args }

/-! ### stratified.py -/

/-- stratified_permutationtest_mean for **two** conditions: Σ_g |mean(cond 0 in g) − mean(cond 1 in g)|
    (the more-than-two form is a sum of standard deviations and is not a rational function) -/
def stratMean2 (group condition : List Int) (response : List Rat) : Rat :=
  let conds := uniqSorted condition
  rsum ((uniqSorted group).map (fun g =>
    let ms := conds.map (fun c =>
      mean (gather response ((List.range group.length).filter
        (fun i => group.getD i 0 == g && condition.getD i 0 == c))))
    let d := ms.getD 0 0 - ms.getD 1 0
    if 0 ≤ d then d else -d))

structure STOut where
  p : Rat
  hitsUp : Nat
  hitsDn : Nat
  obs : Rat
  dist : List Rat

/-- stratified_permutationtest: the *condition* labels are permuted within groups -/
def stratPermTest (group condition : List Int) (stat : List Int → Rat) (alt : Alt) (plus1 : Bool)
    (draws : List (List (List Nat))) : STOut × List (List Int) :=
  let reps := draws.length
  let obs := stat condition
  let args := draws.map (permuteWithinGroups condition group)
  let dist := args.map stat
  let up := cntGe dist obs
  ({ p := stratUpperOnlyPValue alt plus1 reps up, hitsUp := up, hitsDn := cntLe dist obs,
     obs := obs, dist := dist }, args)

/-- sim_corr: x permuted within groups -/
def simCorr (x : List Rat) (group : List Int) (stat : List Rat → Rat) (alt : Alt) (plus1 : Bool)
    (draws : List (List (List Nat))) : STOut × List (List Rat) :=
  let reps := draws.length
  let obs := stat x
  let args := draws.map (permuteWithinGroups x group)
  let dist := args.map stat
  let up := cntGe dist obs
  ({ p := stratUpperOnlyPValue alt plus1 reps up, hitsUp := up, hitsDn := cntLe dist obs,
     obs := obs, dist := dist }, args)

/-- stable argsort of integer labels (`condition.argsort()` is only used on data whose order the
    harness makes unambiguous or checks up to the property's freedom) -/
def argsortInt (l : List Int) : List Nat :=
  (isort (fun (a b : Int × Nat) => decide (a.1 ≤ b.1)) l.zipIdx).map Prod.snd

/-- stratified_two_sample after the D5 repair: both tails counted (core formula).  The arrays are
    given already in the order `condition.argsort()` produced (the harness passes the ordering). -/
def stratTwoSample (group : List Int) (response : List Rat) (stat : List Rat → Rat)
    (alt : Alt) (plus1 : Bool) (draws : List (List (List Nat))) : STOut × List (List Rat) :=
  let reps := draws.length
  let obs := stat response
  let args := draws.map (permuteWithinGroups response group)
  let dist := args.map stat
  let up := cntGe dist obs
  let dn := cntLe dist obs
  ({ p := corePValue alt plus1 reps up dn, hitsUp := up, hitsDn := dn, obs := obs, dist := dist },
   args)

/-! ### irr.py -/

/-- compute_ts numerator: Σ_items y(y−1) + (R−y)(R−y−1), y = column sum -/
def colSums : List (List Nat) → List Nat
  | [] => []
  | [r] => r
  | r :: rest => List.zipWith (· + ·) r (colSums rest)

def computeTsNum (ratings : List (List Nat)) : Nat :=
  let R := ratings.length
  ((colSums ratings).map (fun y => y * (y - 1) + (R - y) * (R - y - 1))).foldl (· + ·) 0

def computeTs (ratings : List (List Nat)) : Rat :=
  let R := ratings.length
  let Ns := (ratings.headD []).length
  (computeTsNum ratings : Rat) / ((Ns * R * (R - 1) : Nat) : Rat)

/-- number of (item, unordered rater pair) combinations on which the two raters agree -/
def agreeingPairs (ratings : List (List Nat)) : Nat :=
  let Ns := (ratings.headD []).length
  let rec pairs : List (List Nat) → Nat
    | [] => 0
    | r :: rest => (rest.map (fun s =>
        ((List.range Ns).filter (fun i => r.getD i 0 == s.getD i 0)).length)).foldl (· + ·) 0 + pairs rest
  pairs ratings

structure IRROut where
  obs : Rat
  geq : Nat
  p : Rat
  dist : List Rat

/-- simulate_ts_dist: rows permuted cumulatively (r = permute_rows(r)) -/
def tsDistMatrices (r : List (List Nat)) : List (List (List Nat)) → List (List (List Nat))
  | [] => []
  | d :: rest => let r' := permuteRows r d; r' :: tsDistMatrices r' rest

def simulateTsDist (ratings : List (List Nat)) (obsTs : Option Rat) (plus1 : Bool)
    (draws : List (List (List Nat))) : IRROut :=
  let obs := match obsTs with | some t => t | none => computeTs ratings
  let dist := (tsDistMatrices ratings draws).map computeTs
  let geq := cntGe dist obs
  { obs := obs, geq := geq, p := upperPValue plus1 draws.length geq, dist := dist }

end PV
