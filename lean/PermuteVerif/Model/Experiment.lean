/-
  Model/Experiment.lean — npc.Experiment: randomize / sim_npc / westfall_young histories and the
  built-in test functions.
-/
import PermuteVerif.Model.Shuffle
import PermuteVerif.Model.Tests
import PermuteVerif.Model.NPC
namespace PV

structure Exp where
  group : List Int
  response : List (List Rat)      -- one row per unit
  strata : List Int               -- first covariate (only read by the stratified randomizer)
  deriving Repr

/-- randomize_group: random_sample(group, len(group)) -/
def randomizeGroup (g : List Int) (ws : List Nat) : List Int := sbi g ws

/-- randomize_in_strata: per stratum (sorted unique values of the first covariate) resample the
    masked labels; one draw vector per stratum -/
def randomizeInStrata (g : List Int) (strata : List Int) (draws : List (List Nat)) : List Int :=
  ((uniqSorted strata).zip draws).foldl
    (fun acc sd =>
      let idx := positionsOf strata sd.1
      scatter acc idx (sbi (gather acc idx) sd.2))
    g

/-- draws for one randomisation: a single vector (unstratified) or one per stratum -/
def randomizeOnce (stratified : Bool) (e : Exp) (d : List (List Nat)) : Exp :=
  if stratified then { e with group := randomizeInStrata e.group e.strata d }
  else { e with group := randomizeGroup e.group (d.headD []) }

/-- successive assignments over `reps` randomisations of the working copy -/
def groupSeq (stratified : Bool) (e : Exp) : List (List (List Nat)) → List Exp
  | [] => []
  | d :: rest => let e' := randomizeOnce stratified e d; e' :: groupSeq stratified e' rest

inductive Op where
  | randomize (inPlace : Bool) (d : List (List Nat))
  | simNpc (inPlace : Bool) (ds : List (List (List Nat)))
  | westfallYoung (inPlace : Bool) (ds : List (List (List Nat)))

/-- effect of an operation on the caller's Experiment: only in-place operations change it, and
    they leave it at the last assignment drawn -/
def stepExp (stratified : Bool) (e : Exp) : Op → Exp
  | .randomize ip d => if ip then randomizeOnce stratified e d else e
  | .simNpc ip ds => if ip then (groupSeq stratified e ds).getLastD e else e
  | .westfallYoung ip ds => if ip then (groupSeq stratified e ds).getLastD e else e

def runHistory (stratified : Bool) (e : Exp) (ops : List Op) : Exp :=
  ops.foldl (stepExp stratified) e

/-- the states after each operation -/
def historyStates (stratified : Bool) (e : Exp) : List Op → List Exp
  | [] => []
  | o :: rest => let e' := stepExp stratified e o; e' :: historyStates stratified e' rest

/-! built-in test functions on response column `index` -/

def respCol (e : Exp) (index : Nat) : List Rat := e.response.map (fun r => r.getD index 0)

/-- TestFunc.mean_diff: first group (sorted label order) minus second; two groups required -/
def tfMeanDiff (e : Exp) (index : Nat) : Res Rat :=
  match uniqSorted e.group with
  | [g0, g1] =>
    let col := respCol e index
    .ok (mean (gather col (positionsOf e.group g0)) - mean (gather col (positionsOf e.group g1)))
  | _ => .valueError

/-- TestFunc.ttest, re-coded by `sgnSq` -/
def tfTTestKey (e : Exp) (index : Nat) : Res Rat :=
  match uniqSorted e.group with
  | [g0, g1] =>
    let col := respCol e index
    .ok (tKey (gather col (positionsOf e.group g0)) (gather col (positionsOf e.group g1)))
  | _ => .valueError

/-- TestFunc.one_way_anova -/
def tfOneWayAnova (e : Exp) (index : Nat) : Rat :=
  let col := respCol e index
  oneWayAnova col e.group (mean col)

end PV
