/-
  Model/Nan.lean — stratified_two_sample with NaN-coded non-responders (`stat='mean'` is
  `np.nanmean(u[:ntreat]) - np.nanmean(u[ntreat:])`).  A response is `none` when it is NaN; a
  statistic is `none` when it is NaN (an arm with no responder).  IEEE comparisons with NaN are
  false, so a NaN statistic is counted in neither tail.
-/
import PermuteVerif.Model.Tests
namespace PV

/-- `np.nanmean`: mean of the non-NaN entries; NaN when there is none -/
def nanMean (l : List (Option Rat)) : Option Rat :=
  match l.filterMap id with
  | [] => none
  | v :: vs => some (mean (v :: vs))

/-- the `'mean'` statistic of stratified_two_sample -/
def nanMeanDiff (nt : Nat) (u : List (Option Rat)) : Option Rat :=
  match nanMean (u.take nt), nanMean (u.drop nt) with
  | some a, some b => some (a - b)
  | _, _ => none

/-- the `'t'` statistic of stratified_two_sample: `ttest_ind` of the non-NaN entries of the two samples (re-coded as
    sign·t², see `tKey`); NaN when a sample has no responder -/
def nanT (nt : Nat) (u : List (Option Rat)) : Option Rat :=
  let a := (u.take nt).filterMap id
  let b := (u.drop nt).filterMap id
  if a.isEmpty || b.isEmpty then none else some (tKey a b)

/-- `np.sum(dist >= t)` with NaNs on either side: never counted -/
def cntGeN (dist : List (Option Rat)) (t : Option Rat) : Nat :=
  dist.countP (fun d => match d, t with
    | some a, some b => decide (b ≤ a)
    | _, _ => false)

/-- `np.sum(dist <= t)` with NaNs on either side: never counted -/
def cntLeN (dist : List (Option Rat)) (t : Option Rat) : Nat :=
  dist.countP (fun d => match d, t with
    | some a, some b => decide (a ≤ b)
    | _, _ => false)

structure STNOut where
  p : Rat
  hitsUp : Nat
  hitsDn : Nat
  obs : Option Rat
  dist : List (Option Rat)

/-- stratified_two_sample on responses that may be NaN (arrays already in `condition.argsort()` order) -/
def stratTwoSampleNan (group : List Int) (response : List (Option Rat))
    (stat : List (Option Rat) → Option Rat) (alt : Alt) (plus1 : Bool)
    (draws : List (List (List Nat))) : STNOut × List (List (Option Rat)) :=
  let reps := draws.length
  let obs := stat response
  let args := draws.map (permuteWithinGroups response group)
  let dist := args.map stat
  let up := cntGeN dist obs
  let dn := cntLeN dist obs
  ({ p := corePValue alt plus1 reps up dn, hitsUp := up, hitsDn := dn, obs := obs, dist := dist },
   args)

end PV
