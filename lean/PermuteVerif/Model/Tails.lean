/-
  Model/Tails.lean — utils.py: binomial_p, hypergeometric, binom_conf_interval (certificate form),
  hypergeom_conf_interval (exact test inversion), over exact rationals.
-/
import PermuteVerif.Model.NPC
namespace PV

/-- binomial pmf -/
def binomPmf (n : Nat) (p : Rat) (k : Nat) : Rat :=
  (choose n k : Rat) * p ^ k * (1 - p) ^ (n - k)

/-- P_p(X ≤ x) -/
def binomCdf (n : Nat) (p : Rat) (x : Nat) : Rat :=
  rsum ((List.range (min x n + 1)).map (binomPmf n p))

/-- P_p(X ≥ x) -/
def binomSf (n : Nat) (p : Rat) (x : Nat) : Rat :=
  rsum (((List.range (n + 1)).filter (fun k => decide (x ≤ k))).map (binomPmf n p))

/-- `2*np.min([plower, pupper, 0.5])` -/
def twoSidedTail (lower upper : Rat) : Rat := 2 * min lower (min upper (1/2))

/-- utils.binomial_p -/
def binomialP (x n : Nat) (p : Rat) (alt : Alt) : Res Rat :=
  if n < x then .valueError
  else
    let lower := binomCdf n p x
    let upper := binomSf n p x
    .ok (match alt with
      | .twoSided => twoSidedTail lower upper
      | .greater => upper
      | .less => lower)

/-- hypergeometric pmf numerator C(G,k)·C(N−G, n−k); denominator C(N,n) -/
def hyperNum (N G n k : Nat) : Nat := choose G k * choose (N - G) (n - k)

def hyperPmf (N G n k : Nat) : Rat :=
  if n < k then 0 else (hyperNum N G n k : Rat) / (choose N n : Rat)

def hyperCdf (N G n x : Nat) : Rat := rsum ((List.range (min x n + 1)).map (hyperPmf N G n))
def hyperSf (N G n x : Nat) : Rat :=
  rsum (((List.range (n + 1)).filter (fun k => decide (x ≤ k))).map (hyperPmf N G n))

/-- utils.hypergeometric(x, N, n, G) -/
def hypergeometricP (x N n G : Nat) (alt : Alt) : Res Rat :=
  if n < x then .valueError
  else if N < n then .valueError
  else if N < G then .valueError
  else if G < x then .valueError
  else
    let lower := hyperCdf N G n x
    let upper := hyperSf N G n x
    .ok (match alt with
      | .twoSided => twoSidedTail lower upper
      | .greater => upper
      | .less => lower)

/-- interval alternatives -/
inductive CIAlt where
  | twoSided | lower | upper
  deriving DecidableEq, Repr, Inhabited

/-- tail level: `1 - cl` one-sided, `(1 - cl)/2` two-sided -/
def tailLevel (cl : Rat) (alt : CIAlt) : Rat :=
  match alt with
  | .twoSided => (1 - cl) / 2
  | _ => 1 - cl

/-- least `G ≤ N` with `P_G(X ≥ x) ≥ a` (N if none) -/
def hgLowerSearch (N n x : Nat) (a : Rat) : Nat :=
  ((List.range (N + 1)).find? (fun G => decide (a ≤ hyperSf N G n x))).getD N

/-- greatest `G ≤ N` with `P_G(X ≤ x) ≥ a` (0 if none) -/
def hgUpperSearch (N n x : Nat) (a : Rat) : Nat :=
  ((List.range (N + 1)).reverse.find? (fun G => decide (a ≤ hyperCdf N G n x))).getD 0

/-- hypergeom_conf_interval(n, x, N, cl, alternative): exact test inversion -/
def hypergeomCI (n x N : Nat) (cl : Rat) (alt : CIAlt) : Nat × Nat :=
  let a := tailLevel cl alt
  let lo := if alt != .upper && 0 < x then hgLowerSearch N n x a else 0
  let hi := if alt != .lower && x < n then hgUpperSearch N n x a else N
  (lo, hi)

/-- certificate for a Clopper–Pearson lower limit `L` at tail level `a` with slack `δ`:
    the upper-tail probability is at most `a` a hair below `L` and at least `a` a hair above -/
def cpLowerCert (n x : Nat) (a L δ : Rat) : Bool :=
  decide (binomSf n (max 0 (L - δ)) x ≤ a) && decide (a ≤ binomSf n (min 1 (L + δ)) x)

/-- certificate for an upper limit `U`: lower-tail probability ≥ a just below, ≤ a just above -/
def cpUpperCert (n x : Nat) (a U δ : Rat) : Bool :=
  decide (a ≤ binomCdf n (max 0 (U - δ)) x) && decide (binomCdf n (min 1 (U + δ)) x ≤ a)

/-- binom_conf_interval(n, x, cl, alternative) checked in certificate form: which limits are
    trivial and which must carry a certificate -/
def binomCICert (n x : Nat) (cl : Rat) (alt : CIAlt) (L U δ : Rat) : Bool :=
  let a := tailLevel cl alt
  let lowOK := if alt != .upper && 0 < x then cpLowerCert n x a L δ else L == 0
  let uppOK := if alt != .lower && x < n then cpUpperCert n x a U δ else U == 1
  lowOK && uppOK

end PV
