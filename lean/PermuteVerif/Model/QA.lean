/-
  Model/QA.lean — qa.py duplicate-row finders on integer matrices.
-/
import PermuteVerif.Model.Basic
namespace PV

/-- lexicographic `≤` on rows -/
def lexLe : List Int → List Int → Bool
  | [], _ => true
  | _ :: _, [] => false
  | a :: as, b :: bs => decide (a < b) || (a == b && lexLe as bs)

/-- `np.lexsort(x.T)`: last column is the primary key, i.e. lexicographic order of reversed rows -/
def rowLe (r s : List Int) : Bool := lexLe r.reverse s.reverse

/-- for each adjacent equal pair emit the second element -/
def adjDups : List (List Int) → List (List Int)
  | [] => []
  | [_] => []
  | a :: b :: t => if a = b then b :: adjDups (b :: t) else adjDups (b :: t)

/-- find_duplicate_rows -/
def findDuplicateRows (x : List (List Int)) : List (List Int) := adjDups (isort rowLe x)

/-- find_consecutive_duplicate_rows: for each i with x[i+1] = x[i], x[i] (equal to x[i+1]) -/
def findConsecutiveDuplicateRows : List (List Int) → List (List Int)
  | [] => []
  | [_] => []
  | a :: b :: t => if b = a then a :: findConsecutiveDuplicateRows (b :: t)
                   else findConsecutiveDuplicateRows (b :: t)

/-- as_string=True -/
def rowString (r : List Int) : String := ",".intercalate (r.map toString)

end PV
