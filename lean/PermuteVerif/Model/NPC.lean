/-
  Model/NPC.lean — npc.py: combining functions, npc, sim_npc, fwer_minp, westfall_young, adjust_p
  and irr.simulate_npc_dist, over exact rationals.  Matrices are lists of rows.
-/
import PermuteVerif.Model.Basic
namespace PV

def column (m : List (List Rat)) (j : Nat) : List Rat := m.map (fun r => r.getD j 0)

/-- `np.finfo(float).eps` -/
def floatEps : Rat := 1 / 4503599627370496

/-- npc.py:178 (after the D7 repair, one quotient of integers):
    `(B - rankdata(col, 'min') + 1 + 2*plus1)/(plus1 + B)`; `B - rank_min + 1 = #{u ≥ v}` -/
def rowPvals (distr : List (List Rat)) (plus1 : Bool) (clip : Bool) : List (List Rat) :=
  let B := distr.length
  let c := c1 plus1
  distr.map (fun row => row.zipIdx.map (fun vj =>
    let p : Rat := ((cntGe (column distr vj.2) vj.1 + 2 * c : Nat) : Rat) / ((B + c : Nat) : Rat)
    if clip && decide (1 ≤ p) then 1 - floatEps else p))

/-- result kinds shared with the harness -/
inductive Res (α : Type) where
  | ok : α → Res α
  | valueError : Res α
  deriving Repr, DecidableEq

/-- npc.py:93-116 -/
def checkMonotonic (pvalues : List Rat) (combine : List Rat → Rat) (step : Rat) : Bool :=
  let obs := combine pvalues
  (List.range pvalues.length).all (fun i =>
    !(decide (obs < combine (pvalues.set i (pvalues.getD i 0 + step)))))

/-- npc.py:154-186; `userCallable` switches the monotonicity guard on, `clip` is Liptak's -/
def npc (pvalues : List Rat) (distr : List (List Rat)) (combine : List Rat → Rat)
    (plus1 : Bool) (clip : Bool := false) (userCallable : Bool := false)
    (step : Rat := 3602879701896397 / 36028797018963968) : Res Rat :=
  let n := pvalues.length
  let B := distr.length
  if n < 2 then .valueError
  else if n != (distr.headD []).length then .valueError
  else if userCallable && !(checkMonotonic pvalues combine step) then .valueError
  else
    let comb := (rowPvals distr plus1 clip).map combine
    let obs := combine pvalues
    let c := c1 plus1
    .ok (((c + cntGe comb obs : Nat) : Rat) / ((c + B : Nat) : Rat))

/-- exact stand-ins for the built-in combiners that order p-vectors the way the real ones do:
    Fisher −2·log Π p is a decreasing function of Π p, so `−Π p` orders identically -/
def fisherKey (p : List Rat) : Rat := -(p.foldl (· * ·) 1)
/-- Tippett max(1 − p) -/
def tippett (p : List Rat) : Rat := (p.map (fun t => 1 - t)).foldl max (1 - p.headD 0)
/-- inverse_n_weight with the weights `size^(-1/2)` supplied (as the doubles NumPy computed) -/
def invNWeight (w : List Rat) (p : List Rat) : Rat := rsum (List.zipWith (fun a b => -1 * b * a) w p)

/-- sim_npc, table form: `tv` holds the simulated statistics (one row per repetition), `ts` the
    observed ones.  Returns the partial p-values and the global p-value. -/
def simNpc (ts : List Rat) (tv : List (List Rat)) (combine : List Rat → Rat)
    (clip : Bool := false) (userCallable : Bool := false) : List Rat × Res Rat :=
  let reps := tv.length
  let ps := ts.zipIdx.map (fun tc =>
    ((cntGe (column tv tc.2) tc.1 + 1 : Nat) : Rat) / ((reps + 1 : Nat) : Rat))
  (ps, npc ps (tv ++ [ts]) combine false clip userCallable)

/-! ### fwer_minp -/

/-- columns `order[jj:]` of every row -/
def selectCols (distr : List (List Rat)) (cols : List Nat) : List (List Rat) :=
  distr.map (fun r => cols.map (fun j => r.getD j 0))

def isSortingPerm (p : List Rat) (order : List Nat) : Bool :=
  order.length == p.length &&
  (List.range p.length).all (fun i => order.contains i) &&
  (List.range (order.length - 1)).all (fun k =>
    decide (p.getD (order.getD k 0) 0 ≤ p.getD (order.getD (k+1) 0) 0))

/-- running maximum -/
def runMax : List Rat → List Rat
  | [] => []
  | a :: t => a :: (runMax t).map (max a)

/-- running minimum -/
def runMin : List Rat → List Rat
  | [] => []
  | a :: t => a :: (runMin t).map (min a)

def unwrapD (r : Res Rat) : Rat := match r with | .ok v => v | .valueError => 0

/-- npc.py:491-511 after the D8 repair (`order` is the permutation `np.argsort(pvalues)` chose):
    step down through nested subsets, running maximum, adjusted value k goes to hypothesis order[k] -/
def fwerMinp (pvalues : List Rat) (distr : List (List Rat)) (order : List Nat)
    (combine : List Rat → Rat) (plus1 : Bool) (clip : Bool := false) : Res (List Rat) :=
  let j := pvalues.length
  if j < 2 then .valueError
  else if j != (distr.headD []).length then .valueError
  else
    let pOrd := order.map (fun i => pvalues.getD i 0)
    let steps := (List.range (j - 1)).map (fun jj =>
      unwrapD (npc (pOrd.drop jj) (selectCols distr (order.drop jj)) combine plus1 clip))
    -- pvalues_adjusted[0..j-2] running max of the nested npc values, last = max(p_last, previous)
    let adjSorted := runMax (steps ++ [pOrd.getD (j - 1) 0])
    .ok (scatter (List.replicate j 0) order adjSorted)

/-! ### adjust_p (after the D10 repair: ordinal ranks consistent with a stable argsort) -/

def bonferroni (p : List Rat) : List Rat := p.map (fun v => min (v * (p.length : Rat)) 1)

def holm (p : List Rat) : List Rat :=
  let n := p.length
  let order := argsortStable p
  let sorted := order.map (fun i => p.getD i 0)
  let raw := sorted.zipIdx.map (fun vk => min (vk.1 * ((n - vk.2 : Nat) : Rat)) 1)
  scatter (List.replicate n 0) order (runMax raw)

def benjaminiHochberg (p : List Rat) : List Rat :=
  let n := p.length
  let order := argsortStable p
  let sorted := order.map (fun i => p.getD i 0)
  let raw := sorted.zipIdx.map (fun vk => min (vk.1 * ((n : Rat) / ((vk.2 + 1 : Nat) : Rat))) 1)
  -- running minimum from the largest p-value down
  scatter (List.replicate n 0) order (runMin raw.reverse).reverse

/-! ### westfall_young, table form (ts observed, tv one row per repetition) -/

def absR (v : Rat) : Rat := if 0 ≤ v then v else -v

/-- successive (pointwise) minima / maxima along a list of columns:
    out[0] = c0, out[k] = f c_k out[k-1] pointwise -/
def succFoldAux (f : Rat → Rat → Rat) (prev : List Rat) : List (List Rat) → List (List Rat)
  | [] => []
  | d :: rest => let n := List.zipWith f d prev; n :: succFoldAux f n rest
def succFold (f : Rat → Rat → Rat) : List (List Rat) → List (List Rat)
  | [] => []
  | c :: rest => c :: succFoldAux f c rest

/-- stable sort of hypothesis indices by a key, ascending -/
def sortIdxAsc (key : List Rat) : List Nat := argsortStable key
/-- Python `sorted(..., reverse=True)`: descending, equal keys keep their original order -/
def sortIdxDesc (key : List Rat) : List Nat := argsortStable (key.map (fun v => -v))

/-- minP (npc.py:348-380, after repair D9a: the observed statistic is counted among the values
    at least as large as the permuted one, `ts ≥ tv[b]`).  `twoSided c` selects |·| per test. -/
def wyMinP (ts : List Rat) (tv : List (List Rat)) (twoSided : List Bool) : List Rat × List Rat :=
  let reps := tv.length
  let m := ts.length
  let val := fun (c : Nat) (v : Rat) => if twoSided.getD c false then absR v else v
  let colv := fun (c : Nat) => (column tv c).map (val c)
  let raw := (List.range m).map (fun c =>
    ((cntGe (colv c) (val c (ts.getD c 0)) + 1 : Nat) : Rat) / ((reps + 1 : Nat) : Rat))
  -- per-permutation p-values
  let ps := (List.range m).map (fun c =>
    (colv c).map (fun v =>
      ((cntGe (colv c) v + (if v ≤ val c (ts.getD c 0) then 1 else 0) : Nat) : Rat)
        / ((reps + 1 : Nat) : Rat)))
  let order := sortIdxDesc raw          -- largest raw p first
  -- successive minima along `order`, per permutation b: q[k] belongs to hypothesis order[k]
  let q : List (List Rat) := succFold min (order.map (fun i => ps.getD i []))
  -- adjusted p-values from the smallest raw p up, made monotone
  let adjRev := (order.zip q).reverse.map (fun iq =>
    ((iq.2.countP (fun v => decide (v ≤ raw.getD iq.1 0)) + 1 : Nat) : Rat) / ((reps + 1 : Nat) : Rat))
  let adjMono := runMax adjRev
  (scatter (List.replicate m 0) order.reverse adjMono, raw)

/-- maxT (npc.py:383-414, after repair D9b: signed statistics for 'greater', absolute values for
    'two-sided'); only uniform alternatives are modelled -/
def wyMaxT (ts : List Rat) (tv : List (List Rat)) (twoSided : Bool) : List Rat × List Rat :=
  let reps := tv.length
  let m := ts.length
  let val := fun (v : Rat) => if twoSided then absR v else v
  let colv := fun (c : Nat) => (column tv c).map val
  let tsv := ts.map val
  let raw := (List.range m).map (fun c =>
    ((cntGe (colv c) (tsv.getD c 0) + 1 : Nat) : Rat) / ((reps + 1 : Nat) : Rat))
  let order := sortIdxAsc tsv           -- smallest observed statistic first
  let u : List (List Rat) := succFold max (order.map colv)
  let adjRaw := (order.zip u).map (fun iu =>
    ((cntGe iu.2 (tsv.getD iu.1 0) + 1 : Nat) : Rat) / ((reps + 1 : Nat) : Rat))
  -- monotone from the largest observed statistic down
  let adjMono := (runMax adjRaw.reverse).reverse
  (scatter (List.replicate m 0) order adjMono, raw)

/-- a row of statistics on each test's own scale: |·| where the test is two-sided, signed otherwise -/
def wyTransform (two : List Bool) (row : List Rat) : List Rat :=
  row.zipIdx.map (fun vc => if two.getD vc.2 false then absR vc.1 else vc.1)

/-- maxT with a per-test list of alternatives (npc.py after repair D17): every hypothesis enters on its own scale and the
    step-down (order by observed statistic, successive maxima, counts, monotone) runs on the transformed table -/
def wyMaxTL (ts : List Rat) (tv : List (List Rat)) (two : List Bool) : List Rat × List Rat :=
  wyMaxT (wyTransform two ts) (tv.map (wyTransform two)) false

/-! ### irr.simulate_npc_dist -/

def simulateNpcDist (permDistr : List (List Rat)) (weights : List Rat)
    (obsTs : Option (List Rat)) (pvalues : Option (List Rat)) (plus1 : Bool) :
    Res (Rat × Rat × List Rat) :=
  match obsTs, pvalues with
  | none, none => .valueError
  | _, _ =>
    let B := permDistr.length
    let pv := match pvalues with
      | some p => p
      | none => ((obsTs.getD []).zipIdx.map (fun tj =>
          ((cntGe (column permDistr tj.2) tj.1 + c1 plus1 : Nat) : Rat) / ((B + c1 plus1 : Nat) : Rat)))
    let comb := invNWeight weights
    match npc pv permDistr comb true false true with
    | .ok r => .ok (comb pv, r, pv)
    | .valueError => .valueError

end PV
