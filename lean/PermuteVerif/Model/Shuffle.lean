/-
  Model/Shuffle.lean — the randomisation primitives, with the random draws as explicit parameters.

  * `fy`        cryptorandom `fykd_sample(n, n)` as used by `random_permutation`
                (permute, permute_within_groups, permute_rows): position i swaps with position
                `J_i = int(i + U_i (n-i))`; the model takes the offsets `c_i = J_i - i`.
  * `pyShuffle` CPython `random.Random.shuffle` (two_sample_core with an int/SHA256 seed):
                `for i in reversed(range(1, n)): j = randbelow(i+1); x[i], x[j] = x[j], x[i]`.
  * `sbi`       cryptorandom `sample_by_index(n, n)` as used by `random_sample(a, len(a))`
                (randomize_group, randomize_in_strata): draw w in 1..n-i, take Pop[w-1], move the
                last element into the hole.  The model takes the 0-based `w-1`.
  * `signFlip`  one_sample: `z * (1 - 2 * randint(0, 2, n))`.
  * `randbelow` rejection sampling on k-bit words (both libraries).
-/
import PermuteVerif.Model.Basic
namespace PV

/-- forward Fisher–Yates on the not-yet-fixed suffix; `c` is the offset of the swap partner -/
def fy {α : Type} : List α → List Nat → List α
  | [], _ => []
  | l, [] => l
  | x :: xs, c :: cs =>
    match c with
    | 0 => x :: fy xs cs
    | k+1 =>
      match xs[k]? with
      | none => x :: fy xs cs
      | some y => y :: fy (xs.set k x) cs

/-- valid offset vectors for a list of length n: length n and `c_i < n - i` -/
def ValidC : Nat → List Nat → Prop
  | 0, cs => cs = []
  | _+1, [] => False
  | n+1, c :: cs => c < n+1 ∧ ValidC n cs

instance : (n : Nat) → (cs : List Nat) → Decidable (ValidC n cs)
  | 0, cs => by unfold ValidC; exact inferInstance
  | _+1, [] => by unfold ValidC; exact inferInstance
  | n+1, c :: cs => by
      unfold ValidC
      have := instDecidableValidC n cs
      exact inferInstance

/-- all valid offset vectors for length n (n! of them) -/
def allValidC : Nat → List (List Nat)
  | 0 => [[]]
  | n+1 => (List.range (n+1)).flatMap (fun c => (allValidC n).map (fun cs => c :: cs))

/-- offsets for the forward form from CPython's `j` draws: the t-th draw has `i = n-1-t`,
    partner `j ≤ i`, offset `i - j` -/
def pyOffsets (n : Nat) (js : List Nat) : List Nat :=
  (js.zipIdx).map (fun p => (n - 1 - p.2) - p.1)

/-- CPython shuffle = forward Fisher–Yates on the reversed list, reversed back -/
def pyShuffle {α : Type} (x : List α) (js : List Nat) : List α :=
  (fy x.reverse (pyOffsets x.length js)).reverse

/-- pop-and-move-last sampling without replacement (one element per draw; structural in the
    draw list) -/
def sbi {α : Type} : List α → List Nat → List α
  | _, [] => []
  | l, w :: ws =>
    match l[w]? with
    | none => []
    | some y =>
      let l' := l.dropLast
      let l'' := match l.getLast? with
        | some last => if w < l'.length then l'.set w last else l'
        | none => l'
      y :: sbi l'' ws

/-- valid index vectors for `sbi` on n elements: `w_i < n - i` -/
abbrev ValidW := ValidC

/-- `z * (1 - 2*bits)` -/
def signFlip (z : List Rat) (bits : List Nat) : List Rat :=
  List.zipWith (fun (v : Rat) (b : Nat) => v * (1 - 2 * (b : Rat))) z bits

/-- rejection sampling: first word below n, and the unused words -/
def randbelow (n : Nat) : List Nat → Option (Nat × List Nat)
  | [] => none
  | w :: ws => if w < n then some (w, ws) else randbelow n ws

/-- CPython `_randbelow_with_getrandbits`: k = n.bit_length() -/
def bitLength (n : Nat) : Nat := if n = 0 then 0 else Nat.log2 n + 1
def pyWordBits (n : Nat) : Nat := bitLength n
/-- cryptorandom `randbelow_from_randbits`: k = (n-1).bit_length() -/
def crWordBits (n : Nat) : Nat := bitLength (n - 1)

/-- `permute_within_groups(x, group, prng)`: copy; for g in np.unique(group): the masked slice is
    replaced by its Fisher–Yates permutation; one offset vector per stratum, in that order. -/
def permuteWithinGroups {α : Type} [Inhabited α] (x : List α) (group : List Int)
    (draws : List (List Nat)) : List α :=
  ((uniqSorted group).zip draws).foldl
    (fun acc gd =>
      let idx := positionsOf group gd.1
      scatter acc idx (fy (gather acc idx) gd.2))
    x

/-- `permute_rows(m, prng)`: each row independently -/
def permuteRows {α : Type} (m : List (List α)) (draws : List (List Nat)) : List (List α) :=
  List.zipWith fy m draws

end PV
