/-
  Props/WY.lean — C10: Westfall–Young adjusted p-values dominate raw ones and control FWER exactly.
  Statements are fixed; only proofs (and helper lemmas above them) may change.
-/
import PermuteVerif.Model.NPC
import Mathlib.Data.List.Basic
import Mathlib.Data.List.Count
import Mathlib.Data.List.Perm.Basic
import Mathlib.Data.List.MinMax
import Mathlib.Data.Finset.Max
import Mathlib.Tactic.Linarith
import Mathlib.Tactic.Positivity
import Mathlib.Tactic.FieldSimp
import Mathlib.Algebra.Order.Field.Rat
namespace PV.WY
/-- table shape: every simulated row has one statistic per hypothesis -/
def WYShape (ts : List Rat) (tv : List (List Rat)) : Prop := ∀ r ∈ tv, r.length = ts.length

/-- the statistic as used for test c: |·| for two-sided, signed for greater -/
def wyVal (twoSided : List Bool) (c : Nat) (v : Rat) : Rat := if twoSided.getD c false then absR v else v


namespace WYAux

/-! ### generic tools -/

theorem ins_perm {α : Type} (le : α → α → Bool) (a : α) (l : List α) :
    (ins le a l).Perm (a :: l) := by
  induction l with
  | nil => exact List.Perm.refl _
  | cons b t ih =>
    unfold ins
    split
    · exact List.Perm.refl _
    · exact (List.Perm.cons b ih).trans (List.Perm.swap a b t)

theorem isort_cons {α : Type} (le : α → α → Bool) (a : α) (t : List α) :
    isort le (a :: t) = ins le a (isort le t) := rfl

theorem isort_perm {α : Type} (le : α → α → Bool) (l : List α) : (isort le l).Perm l := by
  induction l with
  | nil => exact List.Perm.refl _
  | cons a t ih => rw [isort_cons]; exact (ins_perm le a _).trans (List.Perm.cons a ih)

theorem ins_sorted {α : Type} (le : α → α → Bool) (htot : ∀ a b, le a b = true ∨ le b a = true)
    (htr : ∀ a b c, le a b = true → le b c = true → le a c = true) (a : α) (l : List α)
    (hl : l.Pairwise (fun x y => le x y = true)) :
    (ins le a l).Pairwise (fun x y => le x y = true) := by
  induction l with
  | nil => simp [ins]
  | cons b t ih =>
    unfold ins
    rw [List.pairwise_cons] at hl
    split
    · rename_i h
      refine List.Pairwise.cons ?_ (List.Pairwise.cons hl.1 hl.2)
      intro x hx
      rcases List.mem_cons.mp hx with rfl | hx
      · exact h
      · exact htr _ _ _ h (hl.1 x hx)
    · rename_i h
      have hba : le b a = true := by
        rcases htot a b with h' | h'
        · exact absurd h' h
        · exact h'
      refine List.Pairwise.cons ?_ (ih hl.2)
      intro x hx
      have := (ins_perm le a t).mem_iff.mp hx
      rcases List.mem_cons.mp this with rfl | hx
      · exact hba
      · exact hl.1 x hx

theorem isort_sorted {α : Type} (le : α → α → Bool) (htot : ∀ a b, le a b = true ∨ le b a = true)
    (htr : ∀ a b c, le a b = true → le b c = true → le a c = true) (l : List α) :
    (isort le l).Pairwise (fun x y => le x y = true) := by
  induction l with
  | nil => exact List.Pairwise.nil
  | cons a t ih => rw [isort_cons]; exact ins_sorted le htot htr a _ ih

theorem argsortStable_perm (p : List Rat) : (argsortStable p).Perm (List.range p.length) := by
  unfold argsortStable
  have := (isort_perm (fun (a b : Rat × Nat) => decide (a.1 ≤ b.1)) p.zipIdx).map Prod.snd
  rw [List.zipIdx_map_snd] at this
  simpa [List.range_eq_range'] using this

theorem argsortStable_length (p : List Rat) : (argsortStable p).length = p.length := by
  simpa using (argsortStable_perm p).length_eq

theorem argsortStable_nodup (p : List Rat) : (argsortStable p).Nodup :=
  (argsortStable_perm p).nodup_iff.mpr List.nodup_range

theorem argsortStable_mem (p : List Rat) (i : Nat) : i ∈ argsortStable p ↔ i < p.length := by
  rw [(argsortStable_perm p).mem_iff, List.mem_range]

theorem argsortStable_sorted (p : List Rat) :
    List.Pairwise (· ≤ ·) ((argsortStable p).map (fun i => p.getD i 0)) := by
  unfold argsortStable
  rw [List.map_map]
  have hs := isort_sorted (fun (a b : Rat × Nat) => decide (a.1 ≤ b.1))
    (by intro a b; simp only [decide_eq_true_eq]; exact le_total _ _)
    (by intro a b c; simp only [decide_eq_true_eq]; exact le_trans) p.zipIdx
  have hp := isort_perm (fun (a b : Rat × Nat) => decide (a.1 ≤ b.1)) p.zipIdx
  rw [List.pairwise_map]
  refine hs.imp_of_mem ?_
  intro a b ha hb hab
  have ha' := List.mem_zipIdx_iff_getElem?.mp (hp.mem_iff.mp ha)
  have hb' := List.mem_zipIdx_iff_getElem?.mp (hp.mem_iff.mp hb)
  simp only [Function.comp, List.getD_eq_getElem?_getD, ha', hb', Option.getD_some]
  simpa using hab

theorem getD_eq_getElem' {α : Type} (l : List α) (d : α) {n : Nat} (hn : n < l.length) :
    l.getD n d = l[n] := by
  simp [List.getD_eq_getElem?_getD, hn]

/-! scatter -/

theorem scatter_nil_left (base : List Rat) (vals : List Rat) : scatter base [] vals = base := by
  simp [scatter]

theorem scatter_cons (base : List Rat) (i : Nat) (idx : List Nat) (v : Rat) (vals : List Rat) :
    scatter base (i :: idx) (v :: vals) = scatter (base.set i v) idx vals := by
  simp [scatter]

theorem scatter_length (base vals : List Rat) (idx : List Nat) :
    (scatter base idx vals).length = base.length := by
  induction idx generalizing base vals with
  | nil => simp [scatter]
  | cons i idx ih =>
    cases vals with
    | nil => simp [scatter]
    | cons v vals => rw [scatter_cons, ih]; simp

theorem scatter_getD_not_mem (base vals : List Rat) (idx : List Nat) (i : Nat) (hi : i ∉ idx) :
    (scatter base idx vals).getD i 0 = base.getD i 0 := by
  induction idx generalizing base vals with
  | nil => simp [scatter]
  | cons j idx ih =>
    cases vals with
    | nil => simp [scatter]
    | cons v vals =>
      rw [scatter_cons, ih _ _ (fun h => hi (List.mem_cons_of_mem _ h))]
      have : j ≠ i := fun h => hi (h ▸ List.mem_cons_self)
      simp [List.getD_eq_getElem?_getD, List.getElem?_set_ne this]

/-- writing `vals` through a duplicate-free in-range index list and reading back -/
theorem scatter_getElem (base vals : List Rat) (idx : List Nat) (hn : idx.Nodup)
    (hr : ∀ i ∈ idx, i < base.length) (hl : vals.length = idx.length) (k : Nat) (hk : k < idx.length) :
    (scatter base idx vals).getD (idx[k]) 0 = vals[k]'(hl ▸ hk) := by
  induction idx generalizing base vals k with
  | nil => simp at hk
  | cons j idx ih =>
    cases vals with
    | nil => simp at hl
    | cons v vals =>
      rw [scatter_cons]
      rw [List.nodup_cons] at hn
      cases k with
      | zero =>
        simp only [List.getElem_cons_zero]
        rw [scatter_getD_not_mem _ _ _ _ hn.1]
        have : j < base.length := hr j List.mem_cons_self
        simp [List.getD_eq_getElem?_getD, this]
      | succ k =>
        simp only [List.getElem_cons_succ]
        exact ih _ _ hn.2 (by intro i hi; simpa using hr i (List.mem_cons_of_mem _ hi))
          (by simpa using hl) k (by simpa using hk)

/-! runMax -/

theorem runMax_length (l : List Rat) : (runMax l).length = l.length := by
  induction l with
  | nil => rfl
  | cons a t ih => simp [runMax, ih]

theorem runMax_ge (l : List Rat) (k : Nat) (hk : k < l.length) :
    l[k] ≤ (runMax l)[k]'(by rw [runMax_length]; exact hk) := by
  induction l generalizing k with
  | nil => simp at hk
  | cons a t ih =>
    cases k with
    | zero => simp [runMax]
    | succ k =>
      simp only [runMax, List.getElem_cons_succ, List.getElem_map]
      exact le_trans (ih k (by simpa using hk)) (le_max_right _ _)

theorem runMax_sorted (l : List Rat) : List.Pairwise (· ≤ ·) (runMax l) := by
  induction l with
  | nil => exact List.Pairwise.nil
  | cons a t ih =>
    simp only [runMax]
    refine List.Pairwise.cons ?_ (List.Pairwise.map _ ?_ ih)
    · intro x hx
      obtain ⟨y, _, rfl⟩ := List.mem_map.mp hx
      exact le_max_left _ _
    · intro x y hxy; exact max_le_max (le_refl a) hxy

theorem runMax_mem (l : List Rat) (x : Rat) (hx : x ∈ runMax l) : x ∈ l := by
  induction l generalizing x with
  | nil => simp [runMax] at hx
  | cons a t ih =>
    simp only [runMax, List.mem_cons, List.mem_map] at hx
    rcases hx with rfl | ⟨y, hy, rfl⟩
    · exact List.mem_cons_self
    · rcases max_choice a y with h | h
      · rw [h]; exact List.mem_cons_self
      · rw [h]; exact List.mem_cons_of_mem _ (ih y hy)

theorem runMax_head (a : Rat) (t : List Rat) : (runMax (a :: t))[0]'(by simp [runMax]) = a := by
  simp [runMax]


/-! scatter along a permutation of `range m` -/

theorem perm_range_index (m : Nat) (idx : List Nat) (hp : idx.Perm (List.range m)) (c : Nat)
    (hc : c < m) : ∃ (k : Nat) (hk : k < idx.length), idx[k] = c := by
  have : c ∈ idx := hp.mem_iff.mpr (List.mem_range.mpr hc)
  exact List.getElem_of_mem this

theorem scatter_perm_getD (m : Nat) (idx : List Nat) (vals : List Rat)
    (hp : idx.Perm (List.range m)) (hl : vals.length = m) (k : Nat) (hk : k < idx.length) :
    (scatter (List.replicate m 0) idx vals).getD (idx[k]) 0
      = vals[k]'(by rw [hl, ← hp.length_eq.trans List.length_range]; exact hk) := by
  have hlen : idx.length = m := hp.length_eq.trans List.length_range
  apply scatter_getElem
  · exact hp.nodup_iff.mpr List.nodup_range
  · intro i hi
    simpa using List.mem_range.mp (hp.mem_iff.mp hi)
  · rw [hl, hlen]

/-- running maximum from the right -/
def runMaxR (l : List Rat) : List Rat := (runMax l.reverse).reverse

theorem runMaxR_length (l : List Rat) : (runMaxR l).length = l.length := by
  simp [runMaxR, runMax_length]

theorem runMaxR_ge (l : List Rat) (k : Nat) (hk : k < l.length) :
    l[k] ≤ (runMaxR l)[k]'(by rw [runMaxR_length]; exact hk) := by
  unfold runMaxR
  rw [List.getElem_reverse]
  have h1 : (runMax l.reverse).length - 1 - k < l.reverse.length := by
    rw [runMax_length]; simp; omega
  have := runMax_ge l.reverse _ h1
  rw [List.getElem_reverse] at this
  refine le_trans (le_of_eq ?_) this
  congr 1
  simp [runMax_length]; omega

theorem runMaxR_sorted (l : List Rat) : List.Pairwise (· ≥ ·) (runMaxR l) := by
  unfold runMaxR
  rw [List.pairwise_reverse]
  exact runMax_sorted _

theorem runMaxR_mem (l : List Rat) (x : Rat) (hx : x ∈ runMaxR l) : x ∈ l := by
  unfold runMaxR at hx
  have := runMax_mem _ _ (List.mem_reverse.mp hx)
  exact List.mem_reverse.mp this

theorem runMaxR_last (l : List Rat) (h : 0 < l.length) :
    (runMaxR l)[l.length - 1]'(by rw [runMaxR_length]; omega) = l[l.length - 1] := by
  unfold runMaxR
  rw [List.getElem_reverse]
  have hne : l.reverse ≠ [] := by
    intro h'; rw [List.reverse_eq_nil_iff] at h'; simp [h'] at h
  obtain ⟨a, t, hat⟩ := List.exists_cons_of_ne_nil hne
  have h0 : (runMax l.reverse).length - 1 - (l.length - 1) = 0 := by
    rw [runMax_length]; simp
  have : ∀ (j : Nat) (hj : j < (runMax l.reverse).length), j = 0 → (runMax l.reverse)[j] = a := by
    intro j hj hj0
    subst hj0
    simp [hat, runMax]
  rw [this _ _ h0]
  have h2 : l.reverse[0]'(by simpa using h) = a := by simp [hat]
  rw [← h2, List.getElem_reverse]
  simp

/-- reading the step-down result: minP form (scatter through the reversed order) -/
theorem stepdown_rev_at (m : Nat) (idx : List Nat) (pre : List Rat)
    (hp : idx.Perm (List.range m)) (hl : pre.length = m) (k : Nat) (hk : k < idx.length) :
    (scatter (List.replicate m 0) idx.reverse (runMax pre.reverse)).getD (idx[k]) 0
      = (runMaxR pre)[k]'(by
          rw [runMaxR_length, hl, ← hp.length_eq.trans List.length_range]; exact hk) := by
  have hlen : idx.length = m := hp.length_eq.trans List.length_range
  have hp' : idx.reverse.Perm (List.range m) := (List.reverse_perm idx).trans hp
  have hl' : (runMax pre.reverse).length = m := by rw [runMax_length]; simpa using hl
  have hk0 : idx.length - 1 - k < idx.reverse.length := by simp; omega
  have := scatter_perm_getD m idx.reverse (runMax pre.reverse) hp' hl' _ hk0
  have e : idx.reverse[idx.length - 1 - k]'hk0 = idx[k] := by
    rw [List.getElem_reverse]; congr 1; omega
  rw [e] at this
  rw [this]
  unfold runMaxR
  rw [List.getElem_reverse]
  congr 1
  rw [hl', hlen]

/-- reading the step-down result: maxT form -/
theorem stepdown_at (m : Nat) (idx : List Nat) (pre : List Rat)
    (hp : idx.Perm (List.range m)) (hl : pre.length = m) (k : Nat) (hk : k < idx.length) :
    (scatter (List.replicate m 0) idx (runMax pre.reverse).reverse).getD (idx[k]) 0
      = (runMaxR pre)[k]'(by
          rw [runMaxR_length, hl, ← hp.length_eq.trans List.length_range]; exact hk) := by
  have := scatter_perm_getD m idx (runMaxR pre) hp (by rw [runMaxR_length, hl]) k hk
  exact this

/-! successive folds -/

theorem zipWith_forall₂_left (R : Rat → Rat → Prop) (f : Rat → Rat → Rat) (hf : ∀ a b, R (f a b) a) :
    ∀ (d prev : List Rat), d.length = prev.length → List.Forall₂ R (List.zipWith f d prev) d
  | [], _, _ => by simp
  | a :: d, [], h => by simp at h
  | a :: d, b :: prev, h => by
    simp only [List.zipWith_cons_cons]
    exact List.Forall₂.cons (hf a b) (zipWith_forall₂_left R f hf d prev (by simpa using h))

theorem succFoldAux_forall₂ (R : Rat → Rat → Prop) (f : Rat → Rat → Rat) (hf : ∀ a b, R (f a b) a)
    (n : Nat) (cols : List (List Rat)) (hcols : ∀ c ∈ cols, c.length = n) (prev : List Rat)
    (hprev : prev.length = n) :
    List.Forall₂ (List.Forall₂ R) (succFoldAux f prev cols) cols := by
  induction cols generalizing prev with
  | nil => simp [succFoldAux]
  | cons d rest ih =>
    simp only [succFoldAux]
    have hd : d.length = n := hcols d List.mem_cons_self
    refine List.Forall₂.cons (zipWith_forall₂_left R f hf d prev (by rw [hd, hprev])) ?_
    apply ih (fun c hc => hcols c (List.mem_cons_of_mem _ hc))
    simp [hd, hprev]

theorem succFold_forall₂ (R : Rat → Rat → Prop) (hR : ∀ a, R a a) (f : Rat → Rat → Rat)
    (hf : ∀ a b, R (f a b) a)
    (n : Nat) (cols : List (List Rat)) (hcols : ∀ c ∈ cols, c.length = n) :
    List.Forall₂ (List.Forall₂ R) (succFold f cols) cols := by
  cases cols with
  | nil => simp [succFold]
  | cons c rest =>
    simp only [succFold]
    refine List.Forall₂.cons (List.forall₂_same.mpr (fun x _ => hR x)) ?_
    exact succFoldAux_forall₂ R f hf n rest (fun c hc => hcols c (List.mem_cons_of_mem _ hc)) c
      (hcols c List.mem_cons_self)

theorem succFoldAux_getLastD (f : Rat → Rat → Rat) (prev : List Rat) (cols : List (List Rat)) :
    (succFoldAux f prev cols).getLastD prev
      = cols.foldl (fun acc d => List.zipWith f d acc) prev := by
  induction cols generalizing prev with
  | nil => rfl
  | cons d rest ih =>
    simp only [succFoldAux, List.foldl_cons]
    rw [List.getLastD_cons, ih]

/-- the final column of the successive minima is the pointwise minimum of all columns -/
theorem foldl_zipWith_min_spec (n : Nat) (cols : List (List Rat)) (hcols : ∀ c ∈ cols, c.length = n)
    (prev : List Rat) (hprev : prev.length = n) (b : Nat) (hb : b < n) :
    let L := cols.foldl (fun acc d => List.zipWith min d acc) prev
    L.length = n ∧ L.getD b 0 ≤ prev.getD b 0 ∧ (∀ d ∈ cols, L.getD b 0 ≤ d.getD b 0) ∧
      (L.getD b 0 = prev.getD b 0 ∨ ∃ d ∈ cols, L.getD b 0 = d.getD b 0) := by
  induction cols generalizing prev with
  | nil => simp [hprev]
  | cons d rest ih =>
    have hd : d.length = n := hcols d List.mem_cons_self
    have hz : (List.zipWith min d prev).length = n := by simp [hd, hprev]
    obtain ⟨h1, h2, h3, h4⟩ := ih (fun c hc => hcols c (List.mem_cons_of_mem _ hc)) _ hz
    have hzb : (List.zipWith min d prev).getD b 0 = min (d.getD b 0) (prev.getD b 0) := by
      simp [List.getD_eq_getElem?_getD, hd, hprev, hb]
    simp only [List.foldl_cons]
    rw [hzb] at h2 h4
    refine ⟨h1, le_trans h2 (min_le_right _ _), ?_, ?_⟩
    · intro c hc
      rcases List.mem_cons.mp hc with rfl | hc
      · exact le_trans h2 (min_le_left _ _)
      · exact h3 c hc
    · rcases h4 with h4 | ⟨c, hc, h4⟩
      · rcases min_choice (d.getD b 0) (prev.getD b 0) with h | h
        · right; exact ⟨d, List.mem_cons_self, by rw [h4, h]⟩
        · left; rw [h4, h]
      · right; exact ⟨c, List.mem_cons_of_mem _ hc, h4⟩

/-! `foldl min` -/

theorem foldl_min_le_init (l : List Rat) (a : Rat) : l.foldl min a ≤ a := by
  induction l generalizing a with
  | nil => exact le_refl _
  | cons x t ih => exact le_trans (ih _) (min_le_left _ _)

theorem foldl_min_le_mem (l : List Rat) (a : Rat) (x : Rat) (hx : x ∈ l) : l.foldl min a ≤ x := by
  induction l generalizing a with
  | nil => simp at hx
  | cons y t ih =>
    rcases List.mem_cons.mp hx with rfl | hx
    · exact le_trans (foldl_min_le_init t (min a x)) (min_le_right _ _)
    · exact ih _ hx

theorem foldl_min_choice (l : List Rat) (a : Rat) : l.foldl min a = a ∨ l.foldl min a ∈ l := by
  induction l generalizing a with
  | nil => left; rfl
  | cons y t ih =>
    simp only [List.foldl_cons]
    rcases ih (min a y) with h | h
    · rcases min_choice a y with h' | h'
      · left; rw [h, h']
      · right; rw [h, h']; exact List.mem_cons_self
    · right; exact List.mem_cons_of_mem _ h

theorem foldl_min_eq (l : List Rat) (a x : Rat) (hx : x ∈ l) (hxa : x ≤ a) (hmin : ∀ y ∈ l, x ≤ y) :
    l.foldl min a = x := by
  apply le_antisymm (foldl_min_le_mem l a x hx)
  rcases foldl_min_choice l a with h | h
  · rw [h]; exact hxa
  · exact hmin _ h

/-! counting -/

theorem countP_le_of_forall₂ (r : Rat) (a b : List Rat) (h : List.Forall₂ (· ≤ ·) a b) :
    b.countP (fun v => decide (v ≤ r)) ≤ a.countP (fun v => decide (v ≤ r)) := by
  induction h with
  | nil => simp
  | @cons x y _ _ hab _ ih =>
    simp only [List.countP_cons]
    by_cases hy : y ≤ r
    · have hx : x ≤ r := le_trans hab hy
      simp [hx, hy, ih]
    · simp only [hy, decide_false, Bool.false_eq_true, if_false]
      omega


end WYAux
open WYAux

/-! ### minP -/

namespace WYAux


/-! decomposition of `wyMinP` into named pieces -/

def mpColv (tv : List (List Rat)) (two : List Bool) (c : Nat) : List Rat :=
  (column tv c).map (wyVal two c)
def mpT (ts : List Rat) (two : List Bool) (c : Nat) : Rat := wyVal two c (ts.getD c 0)
def mpRawAt (ts : List Rat) (tv : List (List Rat)) (two : List Bool) (c : Nat) : Rat :=
  ((cntGe (mpColv tv two c) (mpT ts two c) + 1 : Nat) : Rat) / ((tv.length + 1 : Nat) : Rat)
def mpRaw (ts : List Rat) (tv : List (List Rat)) (two : List Bool) : List Rat :=
  (List.range ts.length).map (mpRawAt ts tv two)
def mpPsFn (ts : List Rat) (tv : List (List Rat)) (two : List Bool) (c : Nat) (v : Rat) : Rat :=
  ((cntGe (mpColv tv two c) v + (if v ≤ mpT ts two c then 1 else 0) : Nat) : Rat)
    / ((tv.length + 1 : Nat) : Rat)
def mpPsAt (ts : List Rat) (tv : List (List Rat)) (two : List Bool) (c : Nat) : List Rat :=
  (mpColv tv two c).map (mpPsFn ts tv two c)
def mpPs (ts : List Rat) (tv : List (List Rat)) (two : List Bool) : List (List Rat) :=
  (List.range ts.length).map (mpPsAt ts tv two)
def mpOrder (ts : List Rat) (tv : List (List Rat)) (two : List Bool) : List Nat :=
  sortIdxDesc (mpRaw ts tv two)
def mpCols (ts : List Rat) (tv : List (List Rat)) (two : List Bool) : List (List Rat) :=
  (mpOrder ts tv two).map (fun i => (mpPs ts tv two).getD i [])
def mpQ (ts : List Rat) (tv : List (List Rat)) (two : List Bool) : List (List Rat) :=
  succFold min (mpCols ts tv two)
def mpG (ts : List Rat) (tv : List (List Rat)) (two : List Bool) (iq : Nat × List Rat) : Rat :=
  ((iq.2.countP (fun v => decide (v ≤ (mpRaw ts tv two).getD iq.1 0)) + 1 : Nat) : Rat)
    / ((tv.length + 1 : Nat) : Rat)
def mpPre (ts : List Rat) (tv : List (List Rat)) (two : List Bool) : List Rat :=
  ((mpOrder ts tv two).zip (mpQ ts tv two)).map (mpG ts tv two)

theorem wyMinP_eq (ts : List Rat) (tv : List (List Rat)) (two : List Bool) :
    wyMinP ts tv two
      = (scatter (List.replicate ts.length 0) (mpOrder ts tv two).reverse
          (runMax (mpPre ts tv two).reverse), mpRaw ts tv two) := by
  unfold mpPre
  rw [← List.map_reverse]
  rfl

theorem mpRaw_length (ts : List Rat) (tv : List (List Rat)) (two : List Bool) :
    (mpRaw ts tv two).length = ts.length := by simp [mpRaw]

theorem mpRaw_getD (ts : List Rat) (tv : List (List Rat)) (two : List Bool) (c : Nat)
    (hc : c < ts.length) : (mpRaw ts tv two).getD c 0 = mpRawAt ts tv two c := by
  simp [mpRaw, List.getD_eq_getElem?_getD, hc]

theorem mpPs_getD (ts : List Rat) (tv : List (List Rat)) (two : List Bool) (c : Nat)
    (hc : c < ts.length) : (mpPs ts tv two).getD c [] = mpPsAt ts tv two c := by
  simp [mpPs, List.getD_eq_getElem?_getD, hc]

theorem mpPsAt_length (ts : List Rat) (tv : List (List Rat)) (two : List Bool) (c : Nat) :
    (mpPsAt ts tv two c).length = tv.length := by simp [mpPsAt, mpColv, column]

theorem mpOrder_perm (ts : List Rat) (tv : List (List Rat)) (two : List Bool) :
    (mpOrder ts tv two).Perm (List.range ts.length) := by
  have := argsortStable_perm ((mpRaw ts tv two).map (fun v => -v))
  simpa [mpOrder, sortIdxDesc, mpRaw_length] using this

theorem mpOrder_length (ts : List Rat) (tv : List (List Rat)) (two : List Bool) :
    (mpOrder ts tv two).length = ts.length :=
  (mpOrder_perm ts tv two).length_eq.trans List.length_range

theorem mpOrder_lt (ts : List Rat) (tv : List (List Rat)) (two : List Bool) (k : Nat)
    (hk : k < (mpOrder ts tv two).length) : (mpOrder ts tv two)[k] < ts.length :=
  List.mem_range.mp ((mpOrder_perm ts tv two).mem_iff.mp (List.getElem_mem hk))

/-- descending raw p-values along `order` -/
theorem mpOrder_sorted (ts : List Rat) (tv : List (List Rat)) (two : List Bool) (k k' : Nat)
    (hkk : k < k') (hk' : k' < (mpOrder ts tv two).length) :
    mpRawAt ts tv two ((mpOrder ts tv two)[k']) ≤ mpRawAt ts tv two ((mpOrder ts tv two)[k]) := by
  have hs := argsortStable_sorted ((mpRaw ts tv two).map (fun v => -v))
  rw [List.pairwise_iff_getElem] at hs
  have hk : k < (mpOrder ts tv two).length := lt_trans hkk hk'
  have := hs k k' (by simpa [mpOrder, sortIdxDesc] using hk) (by simpa [mpOrder, sortIdxDesc] using hk') hkk
  simp only [List.getElem_map] at this
  have e : ∀ (j : Nat) (hj : j < (mpOrder ts tv two).length),
      ((mpRaw ts tv two).map (fun v => -v)).getD ((mpOrder ts tv two)[j]) 0
        = - mpRawAt ts tv two ((mpOrder ts tv two)[j]) := by
    intro j hj
    have hlt := mpOrder_lt ts tv two j hj
    have hlt' : (mpOrder ts tv two)[j] < (mpRaw ts tv two).length := by rw [mpRaw_length]; exact hlt
    rw [getD_eq_getElem' _ _ (by simpa using hlt'), List.getElem_map,
      ← getD_eq_getElem' _ 0 hlt', mpRaw_getD _ _ _ _ hlt]
  have e1 := e k hk
  have e2 := e k' hk'
  simp only [mpOrder, sortIdxDesc] at e1 e2 this ⊢
  rw [e1, e2] at this
  linarith

theorem mpCols_len (ts : List Rat) (tv : List (List Rat)) (two : List Bool) :
    ∀ c ∈ mpCols ts tv two, c.length = tv.length := by
  intro c hc
  obtain ⟨i, hi, rfl⟩ := List.mem_map.mp hc
  have hlt : i < ts.length := List.mem_range.mp ((mpOrder_perm ts tv two).mem_iff.mp hi)
  rw [mpPs_getD _ _ _ _ hlt, mpPsAt_length]

theorem mpQ_forall₂ (ts : List Rat) (tv : List (List Rat)) (two : List Bool) :
    List.Forall₂ (List.Forall₂ (· ≤ ·)) (mpQ ts tv two) (mpCols ts tv two) :=
  succFold_forall₂ (· ≤ ·) (fun a => le_refl a) min (fun a b => min_le_left a b) tv.length _
    (mpCols_len ts tv two)

theorem mpCols_length (ts : List Rat) (tv : List (List Rat)) (two : List Bool) :
    (mpCols ts tv two).length = ts.length := by simp [mpCols, mpOrder_length]

theorem mpQ_length (ts : List Rat) (tv : List (List Rat)) (two : List Bool) :
    (mpQ ts tv two).length = ts.length :=
  (mpQ_forall₂ ts tv two).length_eq.trans (mpCols_length ts tv two)

theorem mpQ_le (ts : List Rat) (tv : List (List Rat)) (two : List Bool) (k : Nat)
    (hk : k < (mpOrder ts tv two).length) :
    List.Forall₂ (· ≤ ·) ((mpQ ts tv two)[k]'(by rw [mpQ_length, ← mpOrder_length ts tv two]; exact hk))
      (mpPsAt ts tv two ((mpOrder ts tv two)[k])) := by
  have h := (mpQ_forall₂ ts tv two).get (i := k)
    (by rw [mpQ_length, ← mpOrder_length ts tv two]; exact hk)
    (by rw [mpCols_length, ← mpOrder_length ts tv two]; exact hk)
  simp only [List.get_eq_getElem] at h
  have e : (mpCols ts tv two)[k]'(by rw [mpCols_length, ← mpOrder_length ts tv two]; exact hk)
      = mpPsAt ts tv two ((mpOrder ts tv two)[k]) := by
    simp only [mpCols, List.getElem_map]
    exact mpPs_getD _ _ _ _ (mpOrder_lt ts tv two k hk)
  rw [e] at h
  exact h

theorem mpQ_len (ts : List Rat) (tv : List (List Rat)) (two : List Bool) :
    ∀ qc ∈ mpQ ts tv two, qc.length = tv.length := by
  intro qc hqc
  obtain ⟨k, hk, rfl⟩ := List.getElem_of_mem hqc
  have hk' : k < (mpOrder ts tv two).length := by
    rw [mpOrder_length, ← mpQ_length ts tv two]; exact hk
  rw [(mpQ_le ts tv two k hk').length_eq, mpPsAt_length]

theorem mpPre_length (ts : List Rat) (tv : List (List Rat)) (two : List Bool) :
    (mpPre ts tv two).length = ts.length := by
  simp [mpPre, mpOrder_length, mpQ_length]

theorem mpPre_getElem (ts : List Rat) (tv : List (List Rat)) (two : List Bool) (k : Nat)
    (hk : k < (mpOrder ts tv two).length) :
    (mpPre ts tv two)[k]'(by rw [mpPre_length, ← mpOrder_length ts tv two]; exact hk)
      = mpG ts tv two ((mpOrder ts tv two)[k],
          (mpQ ts tv two)[k]'(by rw [mpQ_length, ← mpOrder_length ts tv two]; exact hk)) := by
  simp [mpPre]

/-- the adjusted value of hypothesis `order[k]` is entry `k` of the right-to-left running maximum -/
theorem mp_adj_at (ts : List Rat) (tv : List (List Rat)) (two : List Bool) (k : Nat)
    (hk : k < (mpOrder ts tv two).length) :
    (wyMinP ts tv two).1.getD ((mpOrder ts tv two)[k]) 0
      = (runMaxR (mpPre ts tv two))[k]'(by
          rw [runMaxR_length, mpPre_length, ← mpOrder_length ts tv two]; exact hk) := by
  rw [wyMinP_eq]
  exact stepdown_rev_at ts.length _ _ (mpOrder_perm ts tv two) (mpPre_length ts tv two) k hk

theorem natdiv_mono (a b d : Nat) (h : a ≤ b) : (a : Rat) / (d : Rat) ≤ (b : Rat) / (d : Rat) :=
  div_le_div_of_nonneg_right (by exact_mod_cast h) (by positivity)

/-- a permuted statistic at least as large as the observed one has a p-value at most the raw one -/
theorem mpPsFn_le (ts : List Rat) (tv : List (List Rat)) (two : List Bool) (c : Nat) (v : Rat)
    (hv : mpT ts two c ≤ v) : mpPsFn ts tv two c v ≤ mpRawAt ts tv two c := by
  unfold mpPsFn mpRawAt
  apply natdiv_mono
  by_cases h : v ≤ mpT ts two c
  · have : v = mpT ts two c := le_antisymm h hv
    subst this
    simp
  · simp only [h, if_false, Nat.add_zero]
    have : cntGe (mpColv tv two c) v ≤ cntGe (mpColv tv two c) (mpT ts two c) := by
      unfold cntGe
      apply List.countP_mono_left
      intro x _ hx
      simp only [decide_eq_true_eq] at hx ⊢
      exact le_trans hv hx
    omega

/-- pre-monotone adjusted value dominates the raw p-value -/
theorem mpPre_ge_raw (ts : List Rat) (tv : List (List Rat)) (two : List Bool) (k : Nat)
    (hk : k < (mpOrder ts tv two).length) :
    mpRawAt ts tv two ((mpOrder ts tv two)[k])
      ≤ (mpPre ts tv two)[k]'(by rw [mpPre_length, ← mpOrder_length ts tv two]; exact hk) := by
  rw [mpPre_getElem ts tv two k hk]
  have hlt := mpOrder_lt ts tv two k hk
  simp only [mpG]
  rw [mpRaw_getD _ _ _ _ hlt]
  conv_lhs => unfold mpRawAt
  apply natdiv_mono
  have h1 := countP_le_of_forall₂ (mpRawAt ts tv two (mpOrder ts tv two)[k]) _ _ (mpQ_le ts tv two k hk)
  have h2 : ∀ c, cntGe (mpColv tv two c) (mpT ts two c)
      ≤ (mpPsAt ts tv two c).countP (fun v => decide (v ≤ mpRawAt ts tv two c)) := by
    intro c
    unfold mpPsAt cntGe
    rw [List.countP_map]
    apply List.countP_mono_left
    intro x _ hx
    simp only [decide_eq_true_eq, Function.comp] at hx ⊢
    exact mpPsFn_le ts tv two c x hx
  have h3 := h2 (mpOrder ts tv two)[k]
  omega


end WYAux

/-- raw p-values are the usual (count + 1)/(reps + 1) permutation p-values -/
theorem wy_minp_raw_spec (ts : List Rat) (tv : List (List Rat)) (two : List Bool) (c : Nat)
    (hc : c < ts.length) :
    (wyMinP ts tv two).2.getD c 0
      = ((cntGe ((column tv c).map (wyVal two c)) (wyVal two c (ts.getD c 0)) + 1 : Nat) : Rat)
          / ((tv.length + 1 : Nat) : Rat) := by
  rw [wyMinP_eq]
  exact mpRaw_getD ts tv two c hc

theorem wy_minp_lengths (ts : List Rat) (tv : List (List Rat)) (two : List Bool) :
    (wyMinP ts tv two).1.length = ts.length ∧ (wyMinP ts tv two).2.length = ts.length := by
  rw [wyMinP_eq]
  exact ⟨by simp [scatter_length], mpRaw_length ts tv two⟩

/-- every adjusted p-value is at least the raw one -/
theorem wy_minp_adj_ge_raw (ts : List Rat) (tv : List (List Rat)) (two : List Bool)
    (hw : WYShape ts tv) (c : Nat) (hc : c < ts.length) :
    (wyMinP ts tv two).2.getD c 0 ≤ (wyMinP ts tv two).1.getD c 0 := by
  obtain ⟨k, hk, rfl⟩ := perm_range_index _ _ (mpOrder_perm ts tv two) c hc
  rw [mp_adj_at ts tv two k hk]
  have hraw : (wyMinP ts tv two).2.getD ((mpOrder ts tv two)[k]) 0
      = mpRawAt ts tv two ((mpOrder ts tv two)[k]) := by
    rw [wyMinP_eq]; exact mpRaw_getD ts tv two _ hc
  rw [hraw]
  exact le_trans (mpPre_ge_raw ts tv two k hk)
    (runMaxR_ge _ k (by rw [mpPre_length, ← mpOrder_length ts tv two]; exact hk))

/-- … and lies in [1/(reps+1), 1] -/
theorem wy_minp_range (ts : List Rat) (tv : List (List Rat)) (two : List Bool)
    (hw : WYShape ts tv) (c : Nat) (hc : c < ts.length) :
    1 / ((tv.length : Rat) + 1) ≤ (wyMinP ts tv two).1.getD c 0 ∧ (wyMinP ts tv two).1.getD c 0 ≤ 1 := by
  obtain ⟨k, hk, rfl⟩ := perm_range_index _ _ (mpOrder_perm ts tv two) c hc
  rw [mp_adj_at ts tv two k hk]
  have hmem := runMaxR_mem _ _ (List.getElem_mem (l := runMaxR (mpPre ts tv two)) (n := k)
    (by rw [runMaxR_length, mpPre_length, ← mpOrder_length ts tv two]; exact hk))
  generalize (runMaxR (mpPre ts tv two))[k]'_ = x at hmem ⊢
  unfold mpPre at hmem
  obtain ⟨⟨i, qc⟩, hiq, rfl⟩ := List.mem_map.mp hmem
  have hqc : qc.length = tv.length := mpQ_len ts tv two qc (List.of_mem_zip hiq).2
  have hcnt := List.countP_le_length (p := fun v => decide (v ≤ (mpRaw ts tv two).getD i 0)) (l := qc)
  have hpos : (0 : Rat) < (tv.length : Rat) + 1 := by positivity
  simp only [mpG]
  push_cast
  constructor
  · apply div_le_div_of_nonneg_right _ (le_of_lt hpos)
    have : (0 : Rat) ≤ (List.countP (fun v => decide (v ≤ (mpRaw ts tv two).getD i 0)) qc : Rat) := by
      positivity
    linarith
  · rw [div_le_one hpos]
    have : ((List.countP (fun v => decide (v ≤ (mpRaw ts tv two).getD i 0)) qc : Nat) : Rat)
        ≤ (tv.length : Rat) := by
      exact_mod_cast (hqc ▸ hcnt)
    linarith

/-- adjusted values are ordered like the raw p-values -/
theorem wy_minp_order (ts : List Rat) (tv : List (List Rat)) (two : List Bool)
    (hw : WYShape ts tv) (c c' : Nat) (hc : c < ts.length) (hc' : c' < ts.length)
    (h : (wyMinP ts tv two).2.getD c 0 < (wyMinP ts tv two).2.getD c' 0) :
    (wyMinP ts tv two).1.getD c 0 ≤ (wyMinP ts tv two).1.getD c' 0 := by
  obtain ⟨k, hk, rfl⟩ := perm_range_index _ _ (mpOrder_perm ts tv two) c hc
  obtain ⟨k', hk', rfl⟩ := perm_range_index _ _ (mpOrder_perm ts tv two) c' hc'
  rw [wyMinP_eq] at h
  simp only at h
  rw [mpRaw_getD _ _ _ _ hc, mpRaw_getD _ _ _ _ hc'] at h
  rw [mp_adj_at ts tv two k hk, mp_adj_at ts tv two k' hk']
  have hlt : k' < k := by
    by_contra hcon
    rcases Nat.lt_or_eq_of_le (Nat.le_of_not_lt hcon) with h1 | h1
    · exact absurd (mpOrder_sorted ts tv two k k' h1 hk') (not_le.mpr h)
    · subst h1; exact lt_irrefl _ h
  have hs := runMaxR_sorted (mpPre ts tv two)
  rw [List.pairwise_iff_getElem] at hs
  exact hs k' k _ _ hlt

/-- the min-P statistic of a row r of a table T (T includes r): the smallest over hypotheses of
    #{rows at least as large in that column}/#rows -/
def minPStat (T : List (List Rat)) (two : List Bool) (r : List Rat) : Rat :=
  ((List.range r.length).map (fun c =>
      ((cntGe ((column T c).map (wyVal two c)) (wyVal two c (r.getD c 0)) : Nat) : Rat) / (T.length : Rat))).foldl min 1

namespace WYAux

/-! tools for `wy_minp_min_is_rank` -/

theorem getLastD_eq_getElem {α : Type} (l : List α) (d : α) (h : 0 < l.length) :
    l.getLastD d = l[l.length - 1] := by
  have hne : l ≠ [] := by intro h'; simp [h'] at h
  rw [List.getLastD_eq_getLast?, List.getLast?_eq_some_getLast hne, Option.getD_some,
    List.getLast_eq_getElem]

/-- the final column of the successive minima is the pointwise minimum of all columns -/
theorem succFold_min_last (n : Nat) (cols : List (List Rat)) (hne : cols ≠ [])
    (hcols : ∀ c ∈ cols, c.length = n) (b : Nat) (hb : b < n) :
    ((succFold min cols).getLastD []).length = n ∧
    (∀ d ∈ cols, ((succFold min cols).getLastD []).getD b 0 ≤ d.getD b 0) ∧
      ∃ d ∈ cols, ((succFold min cols).getLastD []).getD b 0 = d.getD b 0 := by
  cases cols with
  | nil => exact absurd rfl hne
  | cons c rest =>
    simp only [succFold]
    rw [List.getLastD_cons, succFoldAux_getLastD]
    obtain ⟨h0, h1, h2, h3⟩ := foldl_zipWith_min_spec n rest
      (fun d hd => hcols d (List.mem_cons_of_mem _ hd)) c (hcols c List.mem_cons_self) b hb
    refine ⟨h0, ?_, ?_⟩
    · intro d hd
      rcases List.mem_cons.mp hd with rfl | hd
      · exact h1
      · exact h2 d hd
    · rcases h3 with h3 | ⟨d, hd, h3⟩
      · exact ⟨c, List.mem_cons_self, h3⟩
      · exact ⟨d, List.mem_cons_of_mem _ hd, h3⟩

theorem cntGe_le_length (l : List Rat) (t : Rat) : cntGe l t ≤ l.length := List.countP_le_length

theorem mpColv_length (tv : List (List Rat)) (two : List Bool) (c : Nat) :
    (mpColv tv two c).length = tv.length := by simp [mpColv, column]

theorem mpPsFn_le_one (ts : List Rat) (tv : List (List Rat)) (two : List Bool) (c : Nat) (v : Rat) :
    mpPsFn ts tv two c v ≤ 1 := by
  unfold mpPsFn
  have hpos : (0 : Rat) < ((tv.length + 1 : Nat) : Rat) := by positivity
  rw [div_le_one hpos]
  have h1 := cntGe_le_length (mpColv tv two c) v
  rw [mpColv_length] at h1
  have h2 : (if v ≤ mpT ts two c then 1 else 0) ≤ 1 := by split <;> omega
  exact_mod_cast (by omega : cntGe (mpColv tv two c) v + (if v ≤ mpT ts two c then 1 else 0) ≤ tv.length + 1)

theorem mpPsFn_obs (ts : List Rat) (tv : List (List Rat)) (two : List Bool) (c : Nat) :
    mpPsFn ts tv two c (mpT ts two c) = mpRawAt ts tv two c := by
  simp [mpPsFn, mpRawAt]

theorem minPStat_entry (ts : List Rat) (tv : List (List Rat)) (two : List Bool) (c : Nat) (v : Rat) :
    ((cntGe ((column (tv ++ [ts]) c).map (wyVal two c)) v : Nat) : Rat) / ((tv ++ [ts]).length : Rat)
      = mpPsFn ts tv two c v := by
  have : (column (tv ++ [ts]) c).map (wyVal two c) = mpColv tv two c ++ [mpT ts two c] := by
    simp [column, mpColv, mpT]
  rw [this]
  unfold mpPsFn cntGe
  rw [List.countP_append, List.countP_singleton]
  simp

theorem minPStat_eq (ts : List Rat) (tv : List (List Rat)) (two : List Bool) (r : List Rat)
    (hr : r.length = ts.length) :
    minPStat (tv ++ [ts]) two r
      = ((List.range ts.length).map
          (fun c => mpPsFn ts tv two c (wyVal two c (r.getD c 0)))).foldl min 1 := by
  unfold minPStat
  rw [hr]
  congr 1
  apply List.map_congr_left
  intro c _
  exact minPStat_entry ts tv two c _

/-- the min-P statistic of the observed row is the smallest raw p-value -/
theorem minPStat_obs (ts : List Rat) (tv : List (List Rat)) (two : List Bool)
    (hm : 0 < ts.length) :
    minPStat (tv ++ [ts]) two ts
      = mpRawAt ts tv two ((mpOrder ts tv two)[ts.length - 1]'(by
          rw [mpOrder_length]; omega)) := by
  rw [minPStat_eq ts tv two ts rfl]
  have hk0 : ts.length - 1 < (mpOrder ts tv two).length := by rw [mpOrder_length]; omega
  have hc0 := mpOrder_lt ts tv two _ hk0
  apply foldl_min_eq
  · refine List.mem_map.mpr ⟨_, List.mem_range.mpr hc0, ?_⟩
    exact mpPsFn_obs ts tv two _
  · rw [← mpPsFn_obs]; exact mpPsFn_le_one _ _ _ _ _
  · intro y hy
    obtain ⟨c, hc, rfl⟩ := List.mem_map.mp hy
    obtain ⟨k, hk, rfl⟩ := perm_range_index _ _ (mpOrder_perm ts tv two) c (List.mem_range.mp hc)
    change _ ≤ mpPsFn ts tv two _ (mpT ts two _)
    rw [mpPsFn_obs]
    have hkm : k < ts.length := by rw [← mpOrder_length ts tv two]; exact hk
    rcases Nat.lt_or_eq_of_le (Nat.le_sub_one_of_lt hkm) with h | h
    · exact mpOrder_sorted ts tv two k _ h hk0
    · subst h; exact le_refl _

theorem mpPsAt_getD (ts : List Rat) (tv : List (List Rat)) (two : List Bool) (c b : Nat)
    (hb : b < tv.length) :
    (mpPsAt ts tv two c).getD b 0 = mpPsFn ts tv two c (wyVal two c ((tv[b]).getD c 0)) := by
  simp [mpPsAt, mpColv, column, List.getD_eq_getElem?_getD, hb]

/-- the last column of successive minima holds the min-P statistics of the simulated rows -/
theorem mpQ_last (ts : List Rat) (tv : List (List Rat)) (two : List Bool)
    (hw : WYShape ts tv) (hm : 0 < ts.length) :
    (mpQ ts tv two)[ts.length - 1]'(by rw [mpQ_length]; omega)
      = tv.map (minPStat (tv ++ [ts]) two) := by
  have hne : mpCols ts tv two ≠ [] := by
    intro h; have := mpCols_length ts tv two; rw [h] at this; simp at this; omega
  have hlast : (mpQ ts tv two)[ts.length - 1]'(by rw [mpQ_length]; omega)
      = (mpQ ts tv two).getLastD [] := by
    rw [getLastD_eq_getElem _ _ (by rw [mpQ_length]; exact hm)]
    simp only [mpQ_length]
  apply List.ext_getElem
  · rw [mpQ_len ts tv two _ (List.getElem_mem _)]; simp
  · intro b h1 h2
    have hb : b < tv.length := by simpa using h2
    rw [← getD_eq_getElem' _ 0 h1, hlast]
    obtain ⟨_, hle, d, hd, heq⟩ := succFold_min_last tv.length _ hne (mpCols_len ts tv two) b hb
    have hmemcols : ∀ c, c < ts.length → mpPsAt ts tv two c ∈ mpCols ts tv two := by
      intro c hc
      refine List.mem_map.mpr ⟨c, (mpOrder_perm ts tv two).mem_iff.mpr (List.mem_range.mpr hc), ?_⟩
      exact mpPs_getD ts tv two c hc
    rw [List.getElem_map, minPStat_eq ts tv two _ (hw _ (List.getElem_mem _))]
    symm
    unfold mpQ
    apply foldl_min_eq
    · obtain ⟨i, hi, rfl⟩ := List.mem_map.mp hd
      have hlt : i < ts.length := List.mem_range.mp ((mpOrder_perm ts tv two).mem_iff.mp hi)
      refine List.mem_map.mpr ⟨i, List.mem_range.mpr hlt, ?_⟩
      rw [heq, mpPs_getD _ _ _ _ hlt, mpPsAt_getD _ _ _ _ _ hb]
    · obtain ⟨i, hi, rfl⟩ := List.mem_map.mp hd
      have hlt : i < ts.length := List.mem_range.mp ((mpOrder_perm ts tv two).mem_iff.mp hi)
      rw [heq, mpPs_getD _ _ _ _ hlt, mpPsAt_getD _ _ _ _ _ hb]
      exact mpPsFn_le_one _ _ _ _ _
    · intro y hy
      obtain ⟨c, hc, rfl⟩ := List.mem_map.mp hy
      have := hle _ (hmemcols c (List.mem_range.mp hc))
      rw [mpPsAt_getD _ _ _ _ _ hb] at this
      exact this

end WYAux

/-- the smallest adjusted p-value is the rank p-value of the observed row's min-P statistic among
    all reps+1 rows (observed row included) -/
theorem wy_minp_min_is_rank (ts : List Rat) (tv : List (List Rat)) (two : List Bool)
    (hw : WYShape ts tv) (hm : 0 < ts.length) :
    (wyMinP ts tv two).1.foldl min 1
      = ((cntLe ((tv ++ [ts]).map (minPStat (tv ++ [ts]) two)) (minPStat (tv ++ [ts]) two ts) : Nat) : Rat)
          / ((tv.length + 1 : Nat) : Rat) := by
  have hk0 : ts.length - 1 < (mpOrder ts tv two).length := by rw [mpOrder_length]; omega
  have hc0 := mpOrder_lt ts tv two _ hk0
  have hadjlen : (wyMinP ts tv two).1.length = ts.length := (wy_minp_lengths ts tv two).1
  have hx := mp_adj_at ts tv two _ hk0
  have hlast := runMaxR_last (mpPre ts tv two) (by rw [mpPre_length]; exact hm)
  simp only [mpPre_length] at hlast
  rw [hlast] at hx
  have h1 : (wyMinP ts tv two).1.foldl min 1
      = (mpPre ts tv two)[ts.length - 1]'(by rw [mpPre_length]; omega) := by
    apply foldl_min_eq
    · rw [← hx, getD_eq_getElem' _ 0 (by rw [hadjlen]; exact hc0)]
      exact List.getElem_mem _
    · rw [← hx]; exact (wy_minp_range ts tv two hw _ hc0).2
    · intro y hy
      obtain ⟨c, hc, rfl⟩ := List.getElem_of_mem hy
      rw [← getD_eq_getElem' _ 0 hc]
      rw [hadjlen] at hc
      obtain ⟨k, hk, rfl⟩ := perm_range_index _ _ (mpOrder_perm ts tv two) c hc
      rw [mp_adj_at ts tv two k hk, ← hlast]
      have hkm : k < ts.length := by rw [← mpOrder_length ts tv two]; exact hk
      rcases Nat.lt_or_eq_of_le (Nat.le_sub_one_of_lt hkm) with h | h
      · have hs := runMaxR_sorted (mpPre ts tv two)
        rw [List.pairwise_iff_getElem] at hs
        exact hs k (ts.length - 1) _ _ h
      · subst h; exact le_refl _
  rw [h1, mpPre_getElem ts tv two _ hk0]
  simp only [mpG]
  rw [mpRaw_getD _ _ _ _ hc0, ← minPStat_obs ts tv two hm, mpQ_last ts tv two hw hm]
  simp [cntLe, List.countP_append]

/-- exact validity of "≤"-rank p-values: at most k entries have at most k entries ≤ themselves -/
theorem rank_valid_le (T : List Rat) (k : Nat) :
    (T.filter (fun t => decide (cntLe T t ≤ k))).length ≤ k := by
  set S := T.filter (fun t => decide (cntLe T t ≤ k)) with hS
  by_cases hne : S = []
  · simp [hne]
  · -- a maximal element of S
    obtain ⟨m, hmS, hmax⟩ : ∃ m ∈ S, ∀ s ∈ S, s ≤ m := by
      have hfin : S.toFinset.Nonempty := by
        obtain ⟨a, ha⟩ := List.exists_mem_of_ne_nil S hne
        exact ⟨a, List.mem_toFinset.mpr ha⟩
      obtain ⟨m, hm, hle⟩ := Finset.exists_max_image S.toFinset id hfin
      exact ⟨m, List.mem_toFinset.mp hm, fun s hs => hle s (List.mem_toFinset.mpr hs)⟩
    have hmT : m ∈ T ∧ cntLe T m ≤ k := by
      have := List.mem_filter.mp hmS
      exact ⟨this.1, by simpa using this.2⟩
    have hsub : S.length ≤ cntLe T m := by
      have hcongr : S = (T.filter (fun u => decide (u ≤ m))).filter
          (fun t => decide (cntLe T t ≤ k)) := by
        rw [hS, List.filter_filter]
        apply List.filter_congr
        intro x hx
        by_cases hP : cntLe T x ≤ k
        · have hxS : x ∈ S := by rw [hS]; exact List.mem_filter.mpr ⟨hx, by simpa using hP⟩
          have := hmax x hxS
          simp [hP, this]
        · simp [hP]
      rw [hcongr, cntLe, List.countP_eq_length_filter]
      exact List.length_filter_le _ _
    exact le_trans hsub hmT.2

/-- exact family-wise error control under the complete null, counting form: of the rows of any
    table, at most k would obtain a smallest adjusted p-value ≤ k/#rows when taken as the observed
    row -/
theorem wy_minp_fwer_exact (T : List (List Rat)) (two : List Bool) (k : Nat) :
    (T.filter (fun r =>
        decide (cntLe (T.map (minPStat T two)) (minPStat T two r) ≤ k))).length ≤ k := by
  have h := rank_valid_le (T.map (minPStat T two)) k
  rw [List.filter_map, List.length_map] at h
  exact h

/-! ### maxT (uniform alternatives) -/

namespace WYAux

/-! decomposition of `wyMaxT` into named pieces -/

def mtVal (two : Bool) (v : Rat) : Rat := if two then absR v else v
def mtColv (tv : List (List Rat)) (two : Bool) (c : Nat) : List Rat := (column tv c).map (mtVal two)
def mtTsv (ts : List Rat) (two : Bool) : List Rat := ts.map (mtVal two)
def mtRawAt (ts : List Rat) (tv : List (List Rat)) (two : Bool) (c : Nat) : Rat :=
  ((cntGe (mtColv tv two c) ((mtTsv ts two).getD c 0) + 1 : Nat) : Rat) / ((tv.length + 1 : Nat) : Rat)
def mtRaw (ts : List Rat) (tv : List (List Rat)) (two : Bool) : List Rat :=
  (List.range ts.length).map (mtRawAt ts tv two)
def mtOrder (ts : List Rat) (two : Bool) : List Nat := sortIdxAsc (mtTsv ts two)
def mtCols (ts : List Rat) (tv : List (List Rat)) (two : Bool) : List (List Rat) :=
  (mtOrder ts two).map (mtColv tv two)
def mtU (ts : List Rat) (tv : List (List Rat)) (two : Bool) : List (List Rat) :=
  succFold max (mtCols ts tv two)
def mtG (ts : List Rat) (tv : List (List Rat)) (two : Bool) (iu : Nat × List Rat) : Rat :=
  ((cntGe iu.2 ((mtTsv ts two).getD iu.1 0) + 1 : Nat) : Rat) / ((tv.length + 1 : Nat) : Rat)
def mtPre (ts : List Rat) (tv : List (List Rat)) (two : Bool) : List Rat :=
  ((mtOrder ts two).zip (mtU ts tv two)).map (mtG ts tv two)

theorem wyMaxT_eq (ts : List Rat) (tv : List (List Rat)) (two : Bool) :
    wyMaxT ts tv two
      = (scatter (List.replicate ts.length 0) (mtOrder ts two)
          (runMax (mtPre ts tv two).reverse).reverse, mtRaw ts tv two) := rfl

theorem mtTsv_length (ts : List Rat) (two : Bool) : (mtTsv ts two).length = ts.length := by
  simp [mtTsv]

theorem mtTsv_getD (ts : List Rat) (two : Bool) (c : Nat) (hc : c < ts.length) :
    (mtTsv ts two).getD c 0 = mtVal two (ts.getD c 0) := by
  simp [mtTsv, List.getD_eq_getElem?_getD, hc]

theorem mtRaw_length (ts : List Rat) (tv : List (List Rat)) (two : Bool) :
    (mtRaw ts tv two).length = ts.length := by simp [mtRaw]

theorem mtRaw_getD (ts : List Rat) (tv : List (List Rat)) (two : Bool) (c : Nat)
    (hc : c < ts.length) : (mtRaw ts tv two).getD c 0 = mtRawAt ts tv two c := by
  simp [mtRaw, List.getD_eq_getElem?_getD, hc]

theorem mtColv_length (tv : List (List Rat)) (two : Bool) (c : Nat) :
    (mtColv tv two c).length = tv.length := by simp [mtColv, column]

theorem mtOrder_perm (ts : List Rat) (two : Bool) :
    (mtOrder ts two).Perm (List.range ts.length) := by
  have := argsortStable_perm (mtTsv ts two)
  simpa [mtOrder, sortIdxAsc, mtTsv_length] using this

theorem mtOrder_length (ts : List Rat) (two : Bool) : (mtOrder ts two).length = ts.length :=
  (mtOrder_perm ts two).length_eq.trans List.length_range

theorem mtOrder_lt (ts : List Rat) (two : Bool) (k : Nat)
    (hk : k < (mtOrder ts two).length) : (mtOrder ts two)[k] < ts.length :=
  List.mem_range.mp ((mtOrder_perm ts two).mem_iff.mp (List.getElem_mem hk))

/-- ascending observed statistics along `order` -/
theorem mtOrder_sorted (ts : List Rat) (two : Bool) (k k' : Nat)
    (hkk : k < k') (hk' : k' < (mtOrder ts two).length) :
    (mtTsv ts two).getD ((mtOrder ts two)[k]) 0 ≤ (mtTsv ts two).getD ((mtOrder ts two)[k']) 0 := by
  have hs := argsortStable_sorted (mtTsv ts two)
  rw [List.pairwise_iff_getElem] at hs
  have hk : k < (mtOrder ts two).length := lt_trans hkk hk'
  have := hs k k' (by simpa [mtOrder, sortIdxAsc] using hk) (by simpa [mtOrder, sortIdxAsc] using hk') hkk
  simp only [List.getElem_map] at this
  exact this

theorem mtCols_len (ts : List Rat) (tv : List (List Rat)) (two : Bool) :
    ∀ c ∈ mtCols ts tv two, c.length = tv.length := by
  intro c hc
  obtain ⟨i, _, rfl⟩ := List.mem_map.mp hc
  exact mtColv_length tv two i

theorem mtU_forall₂ (ts : List Rat) (tv : List (List Rat)) (two : Bool) :
    List.Forall₂ (List.Forall₂ (fun x y => y ≤ x)) (mtU ts tv two) (mtCols ts tv two) :=
  succFold_forall₂ (fun x y => y ≤ x) (fun a => le_refl a) max (fun a b => le_max_left a b)
    tv.length _ (mtCols_len ts tv two)

theorem mtCols_length (ts : List Rat) (tv : List (List Rat)) (two : Bool) :
    (mtCols ts tv two).length = ts.length := by simp [mtCols, mtOrder_length]

theorem mtU_length (ts : List Rat) (tv : List (List Rat)) (two : Bool) :
    (mtU ts tv two).length = ts.length :=
  (mtU_forall₂ ts tv two).length_eq.trans (mtCols_length ts tv two)

theorem mtU_ge (ts : List Rat) (tv : List (List Rat)) (two : Bool) (k : Nat)
    (hk : k < (mtOrder ts two).length) :
    List.Forall₂ (fun x y => y ≤ x)
      ((mtU ts tv two)[k]'(by rw [mtU_length, ← mtOrder_length ts two]; exact hk))
      (mtColv tv two ((mtOrder ts two)[k])) := by
  have h := (mtU_forall₂ ts tv two).get (i := k)
    (by rw [mtU_length, ← mtOrder_length ts two]; exact hk)
    (by rw [mtCols_length, ← mtOrder_length ts two]; exact hk)
  simp only [List.get_eq_getElem] at h
  have e : (mtCols ts tv two)[k]'(by rw [mtCols_length, ← mtOrder_length ts two]; exact hk)
      = mtColv tv two ((mtOrder ts two)[k]) := by
    simp only [mtCols, List.getElem_map]
  rw [e] at h
  exact h

theorem mtU_len (ts : List Rat) (tv : List (List Rat)) (two : Bool) :
    ∀ uc ∈ mtU ts tv two, uc.length = tv.length := by
  intro uc huc
  obtain ⟨k, hk, rfl⟩ := List.getElem_of_mem huc
  have hk' : k < (mtOrder ts two).length := by
    rw [mtOrder_length, ← mtU_length ts tv two]; exact hk
  rw [(mtU_ge ts tv two k hk').length_eq, mtColv_length]

theorem mtPre_length (ts : List Rat) (tv : List (List Rat)) (two : Bool) :
    (mtPre ts tv two).length = ts.length := by
  simp [mtPre, mtOrder_length, mtU_length]

theorem mtPre_getElem (ts : List Rat) (tv : List (List Rat)) (two : Bool) (k : Nat)
    (hk : k < (mtOrder ts two).length) :
    (mtPre ts tv two)[k]'(by rw [mtPre_length, ← mtOrder_length ts two]; exact hk)
      = mtG ts tv two ((mtOrder ts two)[k],
          (mtU ts tv two)[k]'(by rw [mtU_length, ← mtOrder_length ts two]; exact hk)) := by
  simp [mtPre]

theorem mt_adj_at (ts : List Rat) (tv : List (List Rat)) (two : Bool) (k : Nat)
    (hk : k < (mtOrder ts two).length) :
    (wyMaxT ts tv two).1.getD ((mtOrder ts two)[k]) 0
      = (runMaxR (mtPre ts tv two))[k]'(by
          rw [runMaxR_length, mtPre_length, ← mtOrder_length ts two]; exact hk) := by
  rw [wyMaxT_eq]
  exact stepdown_at ts.length _ _ (mtOrder_perm ts two) (mtPre_length ts tv two) k hk

theorem cntGe_le_of_forall₂ (r : Rat) (a b : List Rat) (h : List.Forall₂ (fun x y => y ≤ x) a b) :
    cntGe b r ≤ cntGe a r := by
  unfold cntGe
  induction h with
  | nil => simp
  | @cons x y _ _ hab _ ih =>
    simp only [List.countP_cons]
    by_cases hy : r ≤ y
    · have hx : r ≤ x := le_trans hy hab
      simp [hx, hy, ih]
    · simp only [hy, decide_false, Bool.false_eq_true, if_false]
      omega

theorem mtPre_ge_raw (ts : List Rat) (tv : List (List Rat)) (two : Bool) (k : Nat)
    (hk : k < (mtOrder ts two).length) :
    mtRawAt ts tv two ((mtOrder ts two)[k])
      ≤ (mtPre ts tv two)[k]'(by rw [mtPre_length, ← mtOrder_length ts two]; exact hk) := by
  rw [mtPre_getElem ts tv two k hk]
  simp only [mtG, mtRawAt]
  apply natdiv_mono
  have h1 := cntGe_le_of_forall₂ ((mtTsv ts two).getD ((mtOrder ts two)[k]) 0) _ _ (mtU_ge ts tv two k hk)
  omega


end WYAux

theorem wy_maxt_raw_spec (ts : List Rat) (tv : List (List Rat)) (two : Bool) (c : Nat)
    (hc : c < ts.length) :
    (wyMaxT ts tv two).2.getD c 0
      = ((cntGe ((column tv c).map (fun v => if two then absR v else v))
            (if two then absR (ts.getD c 0) else ts.getD c 0) + 1 : Nat) : Rat)
          / ((tv.length + 1 : Nat) : Rat) := by
  rw [wyMaxT_eq]
  simp only
  rw [mtRaw_getD ts tv two c hc, mtRawAt, mtTsv_getD ts two c hc]
  rfl

theorem wy_maxt_lengths (ts : List Rat) (tv : List (List Rat)) (two : Bool) :
    (wyMaxT ts tv two).1.length = ts.length ∧ (wyMaxT ts tv two).2.length = ts.length := by
  rw [wyMaxT_eq]
  exact ⟨by simp [scatter_length], mtRaw_length ts tv two⟩

theorem wy_maxt_adj_ge_raw (ts : List Rat) (tv : List (List Rat)) (two : Bool)
    (hw : WYShape ts tv) (c : Nat) (hc : c < ts.length) :
    (wyMaxT ts tv two).2.getD c 0 ≤ (wyMaxT ts tv two).1.getD c 0 := by
  obtain ⟨k, hk, rfl⟩ := perm_range_index _ _ (mtOrder_perm ts two) c hc
  rw [mt_adj_at ts tv two k hk]
  have hraw : (wyMaxT ts tv two).2.getD ((mtOrder ts two)[k]) 0
      = mtRawAt ts tv two ((mtOrder ts two)[k]) := by
    rw [wyMaxT_eq]; exact mtRaw_getD ts tv two _ hc
  rw [hraw]
  exact le_trans (mtPre_ge_raw ts tv two k hk)
    (runMaxR_ge _ k (by rw [mtPre_length, ← mtOrder_length ts two]; exact hk))

theorem wy_maxt_range (ts : List Rat) (tv : List (List Rat)) (two : Bool)
    (hw : WYShape ts tv) (c : Nat) (hc : c < ts.length) :
    1 / ((tv.length : Rat) + 1) ≤ (wyMaxT ts tv two).1.getD c 0 ∧ (wyMaxT ts tv two).1.getD c 0 ≤ 1 := by
  obtain ⟨k, hk, rfl⟩ := perm_range_index _ _ (mtOrder_perm ts two) c hc
  rw [mt_adj_at ts tv two k hk]
  have hmem := runMaxR_mem _ _ (List.getElem_mem (l := runMaxR (mtPre ts tv two)) (n := k)
    (by rw [runMaxR_length, mtPre_length, ← mtOrder_length ts two]; exact hk))
  generalize (runMaxR (mtPre ts tv two))[k]'_ = x at hmem ⊢
  unfold mtPre at hmem
  obtain ⟨⟨i, uc⟩, hiu, rfl⟩ := List.mem_map.mp hmem
  have huc : uc.length = tv.length := mtU_len ts tv two uc (List.of_mem_zip hiu).2
  have hcnt := List.countP_le_length (p := fun v => decide ((mtTsv ts two).getD i 0 ≤ v)) (l := uc)
  have hpos : (0 : Rat) < (tv.length : Rat) + 1 := by positivity
  simp only [mtG, cntGe]
  push_cast
  constructor
  · apply div_le_div_of_nonneg_right _ (le_of_lt hpos)
    have : (0 : Rat) ≤ (List.countP (fun v => decide ((mtTsv ts two).getD i 0 ≤ v)) uc : Rat) := by
      positivity
    linarith
  · rw [div_le_one hpos]
    have : ((List.countP (fun v => decide ((mtTsv ts two).getD i 0 ≤ v)) uc : Nat) : Rat)
        ≤ (tv.length : Rat) := by
      exact_mod_cast (huc ▸ hcnt)
    linarith

/-- adjusted values are ordered like the observed statistics: a larger statistic never gets a
    larger adjusted p-value -/
theorem wy_maxt_order (ts : List Rat) (tv : List (List Rat)) (two : Bool)
    (hw : WYShape ts tv) (c c' : Nat) (hc : c < ts.length) (hc' : c' < ts.length)
    (h : (if two then absR (ts.getD c 0) else ts.getD c 0) < (if two then absR (ts.getD c' 0) else ts.getD c' 0)) :
    (wyMaxT ts tv two).1.getD c' 0 ≤ (wyMaxT ts tv two).1.getD c 0 := by
  obtain ⟨k, hk, rfl⟩ := perm_range_index _ _ (mtOrder_perm ts two) c hc
  obtain ⟨k', hk', rfl⟩ := perm_range_index _ _ (mtOrder_perm ts two) c' hc'
  have h' : (mtTsv ts two).getD ((mtOrder ts two)[k]) 0 < (mtTsv ts two).getD ((mtOrder ts two)[k']) 0 := by
    rw [mtTsv_getD _ _ _ hc, mtTsv_getD _ _ _ hc']; exact h
  rw [mt_adj_at ts tv two k hk, mt_adj_at ts tv two k' hk']
  have hlt : k < k' := by
    by_contra hcon
    rcases Nat.lt_or_eq_of_le (Nat.le_of_not_lt hcon) with h1 | h1
    · exact absurd (mtOrder_sorted ts two k' k h1 hk) (not_le.mpr h')
    · subst h1; exact lt_irrefl _ h'
  have hs := runMaxR_sorted (mtPre ts tv two)
  rw [List.pairwise_iff_getElem] at hs
  exact hs k k' _ _ hlt

/-- non-vacuity: the table on which the unrepaired minP returned 0.2 for the hypothesis whose
    correct adjusted value is 0.6 -/
example : wyMinP [1, 3, -2] [[0, 0, -1], [-2, 2, 1], [1, 2, 3], [3, 0, 0]] [true, true, true]
    = ([4/5, 3/5, 4/5], [4/5, 1/5, 2/5]) := by decide +kernel
example : wyMaxT [-211/1000] [[-224/1000]] false = ([1/2], [1/2]) := by decide +kernel

end PV.WY