import PermuteVerif.Props.Tails

/-!
# Degenerate hypergeometric populations: the outcome is certain

When every item is good (G = N) the sample contains exactly n good items, and when no item is good (G = 0) it contains
none: the point mass sits at n resp. 0.  Hence for an admissible observation x *below* the certain value the lower
tail P(X ≤ x) is 0 (not 1), and `less(x) + greater(x+1) = 1` still holds.  (A "the outcome is certain, return 1"
shortcut — seed C14-16 — is wrong exactly there.)
-/

namespace PV.HyperCertain
open PV PV.Tails

theorem hyperPmf_all_good (N n k : Nat) (hn : n ≤ N) :
    hyperPmf N N n k = if k = n then 1 else 0 := by
  unfold hyperPmf hyperNum
  have hpos : (0 : Rat) < (Nat.choose N n : Rat) := by exact_mod_cast Nat.choose_pos hn
  by_cases hk : n < k
  · have : k ≠ n := by omega
    simp [hk, this]
  · rw [if_neg hk, Nat.sub_self, choose_eq, choose_eq, choose_eq]
    by_cases hkn : k = n
    · subst hkn
      simp [hpos.ne']
    · have hlt : 0 < n - k := by omega
      rw [if_neg hkn, Nat.choose_eq_zero_of_lt hlt]
      simp

theorem hyperPmf_none_good (N n k : Nat) (hn : n ≤ N) :
    hyperPmf N 0 n k = if k = 0 then 1 else 0 := by
  unfold hyperPmf hyperNum
  have hpos : (0 : Rat) < (Nat.choose N n : Rat) := by exact_mod_cast Nat.choose_pos hn
  by_cases hk : n < k
  · have : k ≠ 0 := by omega
    simp [hk, this]
  · rw [if_neg hk, choose_eq, choose_eq, choose_eq, Nat.sub_zero]
    by_cases hk0 : k = 0
    · subst hk0
      simp [hpos.ne']
    · rw [if_neg hk0, Nat.choose_eq_zero_of_lt (Nat.pos_of_ne_zero hk0)]
      simp

/-- all items good: an observation below n has lower tail 0 -/
theorem hyperCdf_all_good_below (N n x : Nat) (hn : n ≤ N) (hx : x < n) : hyperCdf N N n x = 0 := by
  rw [hyperCdf_fin' N N n x hx.le]
  apply Finset.sum_eq_zero
  intro k hk
  rw [hyperPmf_all_good N n k hn, if_neg]
  have := Finset.mem_range.1 hk
  omega

/-- all items good: the upper tail at any x ≤ n is 1 -/
theorem hyperSf_all_good (N n x : Nat) (hn : n ≤ N) (hx : x ≤ n) : hyperSf N N n x = 1 := by
  rw [hyperSf_fin, Finset.sum_eq_single n]
  · rw [hyperPmf_all_good N n n hn, if_pos rfl]
  · intro k _ hkn
    rw [hyperPmf_all_good N n k hn, if_neg hkn]
  · intro h
    exact absurd (Finset.mem_Ico.2 ⟨hx, Nat.lt_succ_self n⟩) h

/-- the library function on a population of good items only: 'less' below the certain value is 0, 'greater' is 1 -/
theorem hypergeometricP_all_good (x N n : Nat) (hn : n ≤ N) (hx : x < n) :
    hypergeometricP x N n N .less = .ok 0 ∧ hypergeometricP x N n N .greater = .ok 1 := by
  have h1 : ¬ n < x := by omega
  have h2 : ¬ N < n := by omega
  have h3 : ¬ N < N := lt_irrefl N
  have h4 : ¬ N < x := by omega
  constructor
  · simp only [hypergeometricP, h1, h2, h3, h4, if_false, hyperCdf_all_good_below N n x hn hx]
  · simp only [hypergeometricP, h1, h2, h3, h4, if_false, hyperSf_all_good N n x hn hx.le]

example : hypergeometricP 0 2 2 2 .less = .ok 0 := by decide +kernel

end PV.HyperCertain
