import PermuteVerif.Props.Tails

/-!
# Closed forms of the binomial tails next to the end points

`P_p(X ≥ 1) = 1 − (1 − p)^n` and `P_p(X ≤ n − 1) = 1 − p^n`: the Clopper–Pearson lower limit for x = 1 is therefore
`1 − (1 − a)^(1/n)` and the upper limit for x = n − 1 is `(1 − a)^(1/n)` — the closed forms the C12 harness uses as an
independent oracle for limits next to 0 and 1 (n up to 10^7, where the exact certificate is too expensive).
-/

namespace PV.TailsClosed
open PV PV.Tails

theorem binomSf_one (n : Nat) (p : Rat) : binomSf n p 1 = 1 - (1 - p) ^ n := by
  have h := binom_less_plus_greater n p 0 (Nat.zero_le n)
  have h0 : binomCdf n p 0 = (1 - p) ^ n := by
    rw [binomCdf_fin' n p 0 (Nat.zero_le n)]
    simp [binomPmf, choose_eq]
  rw [h0] at h
  linarith

theorem binomCdf_pred (n : Nat) (hn : 1 ≤ n) (p : Rat) : binomCdf n p (n - 1) = 1 - p ^ n := by
  have h := binom_less_plus_greater n p (n - 1) (Nat.sub_le n 1)
  have hn' : n - 1 + 1 = n := Nat.sub_add_cancel hn
  rw [hn'] at h
  have h0 : binomSf n p n = p ^ n := by
    rw [binomSf_fin]
    simp [binomPmf, choose_eq]
  rw [h0] at h
  linarith

/-- the lower Clopper–Pearson equation for x = 1 in closed form: the tail equals the level a iff (1 − p)^n = 1 − a -/
theorem cp_lower_one_iff (n : Nat) (p a : Rat) : binomSf n p 1 = a ↔ (1 - p) ^ n = 1 - a := by
  rw [binomSf_one]; constructor <;> intro h <;> linarith

/-- the upper Clopper–Pearson equation for x = n − 1 in closed form -/
theorem cp_upper_pred_iff (n : Nat) (hn : 1 ≤ n) (p a : Rat) : binomCdf n p (n - 1) = a ↔ p ^ n = 1 - a := by
  rw [binomCdf_pred n hn]; constructor <;> intro h <;> linarith

example : binomSf 3 (1/2) 1 = 7/8 := by decide +kernel

end PV.TailsClosed
