/-
  Props/HGOrder.lean — C13: the limits of hypergeom_conf_interval are ordered (lower ≤ upper) for every tail level
  a ≤ 1/2 (every two-sided interval, and one-sided ones with cl ≥ 1/2 trivially since one limit is 0 or N), and the
  limits are monotone in the tail level.  The key fact is the coupling inequality: adding one good element to the
  population raises the count of good elements in the sample by at most one.
-/
import PermuteVerif.Model.Tails
import PermuteVerif.Props.Tails
namespace PV.HGOrder
open PV.Tails

/-! ### helper lemmas (Pascal telescoping on the numerators) -/

theorem coupling_nat (G M n : Nat) : ∀ x, x + 1 ≤ n →
    ∑ k ∈ Finset.range (x + 2), (G + 1).choose k * M.choose (n - k)
      = ∑ k ∈ Finset.range (x + 1), G.choose k * (M + 1).choose (n - k)
        + G.choose (x + 1) * M.choose (n - (x + 1)) := by
  intro x
  induction x with
  | zero =>
    intro hx
    obtain ⟨m, rfl⟩ : ∃ m, n = m + 1 := ⟨n - 1, by omega⟩
    simp [Finset.sum_range_succ, Nat.choose_succ_succ]
    ring
  | succ x ih =>
    intro hx
    rw [Finset.sum_range_succ, ih (by omega), Finset.sum_range_succ _ (x + 1)]
    obtain ⟨m, hm⟩ : ∃ m, n - (x + 1) = m + 1 := ⟨n - (x + 1) - 1, by omega⟩
    have hm2 : n - (x + 1 + 1) = m := by omega
    have e : (G + 1).choose (x + 2) = G.choose (x + 1) + G.choose (x + 2) :=
      Nat.choose_succ_succ G (x + 1)
    simp only [hm, hm2, e, Nat.choose_succ_succ M m]
    ring

theorem cdfnum_anti_nat (G M n : Nat) : ∀ x, x + 1 ≤ n →
    ∑ k ∈ Finset.range (x + 1), G.choose k * (M + 1).choose (n - k)
      = ∑ k ∈ Finset.range (x + 1), (G + 1).choose k * M.choose (n - k)
        + G.choose x * M.choose (n - (x + 1)) := by
  intro x
  induction x with
  | zero =>
    intro hx
    obtain ⟨m, rfl⟩ : ∃ m, n = m + 1 := ⟨n - 1, by omega⟩
    simp [Nat.choose_succ_succ]
    ring
  | succ x ih =>
    intro hx
    rw [Finset.sum_range_succ, ih (by omega), Finset.sum_range_succ _ (x + 1)]
    obtain ⟨m, hm⟩ : ∃ m, n - (x + 1) = m + 1 := ⟨n - (x + 1) - 1, by omega⟩
    have hm2 : n - (x + 1 + 1) = m := by omega
    rw [hm, hm2, Nat.choose_succ_succ G x, Nat.choose_succ_succ M m]
    ring

theorem hyperCdf_eq_div (N G n x : Nat) (hx : x ≤ n) :
    hyperCdf N G n x
      = ((∑ k ∈ Finset.range (x + 1), G.choose k * (N - G).choose (n - k) : Nat) : Rat)
        / (N.choose n : Rat) := by
  rw [hyperCdf_fin' N G n x hx, Nat.cast_sum, div_eq_mul_inv, Finset.sum_mul]
  apply Finset.sum_congr rfl
  intro k hk
  have hk' : ¬ n < k := by have := Finset.mem_range.mp hk; omega
  simp only [hyperPmf, hk', if_false, hyperNum, choose_eq, div_eq_mul_inv]

theorem hyperCdf_anti_G (N G n x : Nat) (hG : G < N) (hn : n ≤ N) (hx : x + 1 ≤ n) :
    hyperCdf N (G + 1) n x ≤ hyperCdf N G n x := by
  rw [hyperCdf_eq_div N G n x (by omega), hyperCdf_eq_div N (G + 1) n x (by omega)]
  have e1 : N - G = (N - (G + 1)) + 1 := by omega
  rw [e1, cdfnum_anti_nat G (N - (G + 1)) n x hx]
  apply div_le_div_of_nonneg_right _ (by positivity)
  exact_mod_cast Nat.le_add_right _ _

theorem hyperSf_zero_G (N n x : Nat) (hx0 : 0 < x) : hyperSf N 0 n x = 0 := by
  rw [hyperSf_fin]
  apply Finset.sum_eq_zero
  intro k hk
  have := Finset.mem_Ico.mp hk
  have h2 : Nat.choose 0 k = 0 := Nat.choose_eq_zero_of_lt (by omega)
  simp [hyperPmf, hyperNum, choose_eq, h2]


/-- coupling: P_{G+1}(X ≤ x) ≥ P_G(X ≤ x − 1) -/
theorem hyperCdf_succ_ge (N G n x : Nat) (hG : G < N) (hn : n ≤ N) (hx : x + 1 ≤ n) :
    hyperCdf N G n x ≤ hyperCdf N (G + 1) n (x + 1) := by
  rw [hyperCdf_eq_div N G n x (by omega), hyperCdf_eq_div N (G + 1) n (x + 1) hx]
  have e1 : N - G = (N - (G + 1)) + 1 := by omega
  rw [e1, coupling_nat G (N - (G + 1)) n x hx]
  apply div_le_div_of_nonneg_right _ (by positivity)
  exact_mod_cast Nat.le_add_right _ _

/-- P_G(X ≥ x) is non-decreasing in G -/
theorem hyperSf_mono_G (N G n x : Nat) (hG : G < N) (hn : n ≤ N) (hx : x ≤ n) :
    hyperSf N G n x ≤ hyperSf N (G + 1) n x := by
  rcases Nat.eq_zero_or_pos x with h0 | h0
  · subst h0
    rw [hyperSf_fin, hyperSf_fin, ← Finset.range_eq_Ico, hyperPmf_sum N G n (by omega) hn,
      hyperPmf_sum N (G + 1) n (by omega) hn]
  · obtain ⟨y, rfl⟩ : ∃ y, x = y + 1 := ⟨x - 1, by omega⟩
    have e1 := hyper_less_plus_greater N G n y (by omega) hn (by omega)
    have e2 := hyper_less_plus_greater N (G + 1) n y (by omega) hn (by omega)
    have := hyperCdf_anti_G N G n y hG hn hx
    linarith

/-- the lower limit never exceeds the upper limit (both limits come from the search: 0 < x < n) -/
theorem hg_lower_le_upper (N n x : Nat) (a : Rat) (ha0 : 0 < a) (ha : a ≤ 1 / 2)
    (hx0 : 0 < x) (hxn : x < n) (hn : n ≤ N) :
    hgLowerSearch N n x a ≤ hgUpperSearch N n x a := by
  have ha1 : a ≤ 1 := by linarith
  obtain ⟨hL1, hL2, hL3⟩ := hgLower_spec N n x a hx0 (by omega) hn ha1
  obtain ⟨hU1, hU2, hU3⟩ := hgUpper_spec N n x a hxn hn ha1
  by_contra hlt
  push Not at hlt
  set L := hgLowerSearch N n x a with hL
  have hLpos : 0 < L := by
    rcases Nat.eq_zero_or_pos L with h | h
    · rw [h, hyperSf_zero_G N n x hx0] at hL1
      linarith
    · exact h
  obtain ⟨K, hK⟩ : ∃ K, L = K + 1 := ⟨L - 1, by omega⟩
  obtain ⟨y, rfl⟩ : ∃ y, x = y + 1 := ⟨x - 1, by omega⟩
  have h1 := hL3 K (by omega)
  have h2 := hyper_less_plus_greater N K n y (by omega) hn (by omega)
  have h3 := hyperCdf_succ_ge N K n y (by omega) hn (by omega)
  have h4 := hU3 L hlt hL2
  rw [hK] at h4
  linarith

/-- for the interval as returned: lower ≤ upper for every alternative when the tail level is in (0, 1/2] -/
theorem hypergeomCI_ordered (n x N : Nat) (cl : Rat) (alt : CIAlt) (hn : n ≤ N) (hxn : x ≤ n)
    (ha0 : 0 < tailLevel cl alt) (ha : tailLevel cl alt ≤ 1 / 2) :
    (hypergeomCI n x N cl alt).1 ≤ (hypergeomCI n x N cl alt).2 := by
  simp only [hypergeomCI]
  have ha1 : tailLevel cl alt ≤ 1 := by linarith
  split
  · rename_i hc
    simp only [Bool.and_eq_true, decide_eq_true_eq] at hc
    split
    · rename_i hc2
      simp only [Bool.and_eq_true, decide_eq_true_eq] at hc2
      exact hg_lower_le_upper N n x _ ha0 ha hc.2 hc2.2 hn
    · exact (hgLower_spec N n x _ hc.2 hxn hn ha1).2.1
  · exact Nat.zero_le _

/-- nesting: a smaller tail level (higher confidence) gives a lower limit that is not larger … -/
theorem hg_lower_nested (N n x : Nat) (a a' : Rat) (haa : a' ≤ a) (ha : a ≤ 1)
    (hx0 : 0 < x) (hxn : x ≤ n) (hn : n ≤ N) :
    hgLowerSearch N n x a' ≤ hgLowerSearch N n x a := by
  have ha' : a' ≤ 1 := le_trans haa ha
  obtain ⟨hL1, _, _⟩ := hgLower_spec N n x a hx0 hxn hn ha
  obtain ⟨_, _, hL3⟩ := hgLower_spec N n x a' hx0 hxn hn ha'
  by_contra hlt
  push Not at hlt
  have := hL3 _ hlt
  linarith

/-- … and an upper limit that is not smaller -/
theorem hg_upper_nested (N n x : Nat) (a a' : Rat) (haa : a' ≤ a) (ha : a ≤ 1)
    (hxn : x < n) (hn : n ≤ N) :
    hgUpperSearch N n x a ≤ hgUpperSearch N n x a' := by
  have ha' : a' ≤ 1 := le_trans haa ha
  obtain ⟨hU1, hU2, _⟩ := hgUpper_spec N n x a hxn hn ha
  obtain ⟨_, _, hU3⟩ := hgUpper_spec N n x a' hxn hn ha'
  by_contra hlt
  push Not at hlt
  have := hU3 _ hlt hU2
  linarith

example : hgLowerSearch 10 5 2 (1/40) = 2 ∧ hgUpperSearch 10 5 2 (1/40) = 7 := by decide +kernel


end PV.HGOrder
