/-
  Props/Relabel.lean — C09 / C10: relabelling the hypotheses (permuting the p-values / statistics and the
  columns together) permutes the result, for distinct raw p-values (resp. distinct observed statistics).
  Statements are fixed; only proofs (and helper lemmas above them) may change.
-/
import PermuteVerif.Model.NPC
import PermuteVerif.Props.Adjust
import PermuteVerif.Props.WY
import PermuteVerif.Props.NPC
import Mathlib.Data.List.Perm.Basic
import Mathlib.Data.List.Nodup
import Mathlib.Tactic.Linarith
namespace PV.Relabel
open PV.Adjust

/-- relabel a vector / the columns of a matrix by σ -/
def relabelV (p : List Rat) (σ : List Nat) : List Rat := σ.map (fun i => p.getD i 0)

theorem relabelV_length (p : List Rat) (σ : List Nat) : (relabelV p σ).length = σ.length := by
  simp [relabelV]

theorem relabelV_getD (p : List Rat) (σ : List Nat) (j : Nat) (hj : j < σ.length) :
    (relabelV p σ).getD j 0 = p.getD (σ.getD j 0) 0 := by
  simp [relabelV, List.getD_eq_getElem?_getD, hj]

theorem perm_len {σ : List Nat} {n : Nat} (hσ : σ.Perm (List.range n)) : σ.length = n := by
  simpa using hσ.length_eq

theorem perm_lt {σ : List Nat} {n : Nat} (hσ : σ.Perm (List.range n)) (j : Nat) (hj : j < n) :
    σ.getD j 0 < n := by
  have hl := perm_len hσ
  rw [List.getD_eq_getElem _ _ (by omega)]
  exact List.mem_range.1 (hσ.mem_iff.1 (List.getElem_mem _))

theorem range_map_getD_nat (σ : List Nat) :
    (List.range σ.length).map (fun j => σ.getD j 0) = σ := by
  apply List.ext_getElem
  · simp
  · intro i h1 h2
    simp [List.getD_eq_getElem?_getD, h2]

theorem sorting_perm_unique (q : List Rat) (hd : q.Nodup) (l : List Nat)
    (hl : l.Perm (List.range q.length))
    (hs : List.Pairwise (· ≤ ·) (l.map (fun i => q.getD i 0))) :
    l = argsortStable q := by
  have hp : (l.map (fun i => q.getD i 0)).Perm ((argsortStable q).map (fun i => q.getD i 0)) :=
    (hl.trans (argsortStable_perm q).symm).map _
  have he := List.Perm.eq_of_pairwise' (r := (· ≤ ·)) hs (argsortStable_sorted q) hp
  have hll : l.length = q.length := perm_len hl
  apply List.ext_getElem
  · rw [hll, argsortStable_length]
  · intro k h1 h2
    have e1 := congrArg (fun L => L[k]?) he
    simp only [List.getElem?_map, List.getElem?_eq_getElem h1, List.getElem?_eq_getElem h2,
      Option.map_some, Option.some.injEq] at e1
    have a1 : l[k] < q.length := List.mem_range.1 (hl.mem_iff.1 (List.getElem_mem h1))
    have a2 : (argsortStable q)[k] < q.length := argsortStable_lt q _ (List.getElem_mem h2)
    rw [List.getD_eq_getElem _ _ a1, List.getD_eq_getElem _ _ a2] at e1
    exact (hd.getElem_inj_iff).1 e1

theorem argsort_relabel_map (p : List Rat) (hd : p.Nodup) (σ : List Nat)
    (hσ : σ.Perm (List.range p.length)) :
    (argsortStable (relabelV p σ)).map (fun j => σ.getD j 0) = argsortStable p := by
  have hσl := perm_len hσ
  have hql : (relabelV p σ).length = p.length := by rw [relabelV_length, hσl]
  apply sorting_perm_unique p hd
  · have h1 := (argsortStable_perm (relabelV p σ)).map (fun j => σ.getD j 0)
    rw [relabelV_length, range_map_getD_nat] at h1
    exact h1.trans hσ
  · rw [List.map_map]
    have hs := argsortStable_sorted (relabelV p σ)
    have e : ∀ j ∈ argsortStable (relabelV p σ),
        ((fun i => p.getD i 0) ∘ (fun j => σ.getD j 0)) j = (relabelV p σ).getD j 0 := by
      intro j hj
      have := argsortStable_lt _ j hj
      rw [relabelV_getD _ _ _ (by rw [← relabelV_length p σ]; exact this)]
      rfl
    rw [List.map_congr_left e]; exact hs

/-- for distinct values, the stable argsort of the relabelled vector is the argsort of the original
    pulled back through σ: position k of the sorted order is the hypothesis that σ sends to the k-th
    smallest original one -/
theorem argsort_relabel (p : List Rat) (hd : p.Nodup) (σ : List Nat) (hσ : σ.Perm (List.range p.length))
    (k : Nat) (hk : k < p.length) :
    σ.getD ((argsortStable (relabelV p σ)).getD k 0) 0 = (argsortStable p).getD k 0 := by
  rw [← argsort_relabel_map p hd σ hσ]
  have hσl := perm_len hσ
  rw [getD_map_lt _ _ _ (by rw [argsortStable_length, relabelV_length, hσl]; exact hk) 0 0]

theorem selectCols_selectCols (D : List (List Rat)) (σ c : List Nat) (hc : ∀ j ∈ c, j < σ.length) :
    selectCols (selectCols D σ) c = selectCols D (c.map (fun j => σ.getD j 0)) := by
  unfold selectCols
  rw [List.map_map]
  apply List.map_congr_left
  intro r _
  simp only [Function.comp, List.map_map]
  apply List.map_congr_left
  intro j hj
  have := hc j hj
  simp [List.getD_eq_getElem?_getD, this]
theorem scatter_relabel (n : Nat) (σ ord' : List Nat) (V : List Rat)
    (hσ : σ.Perm (List.range n)) (ho : ord'.Perm (List.range n)) (hV : V.length = n) :
    scatter (List.replicate n 0) ord' V
      = relabelV (scatter (List.replicate n 0) (ord'.map (fun j => σ.getD j 0)) V) σ := by
  have hσl := perm_len hσ
  have hol := perm_len ho
  have ho2 : (ord'.map (fun j => σ.getD j 0)).Perm (List.range n) := by
    have h1 := ho.map (fun j => σ.getD j 0)
    have h2 := range_map_getD_nat σ
    rw [hσl] at h2
    rw [h2] at h1
    exact h1.trans hσ
  apply List.ext_getElem
  · rw [scatter_length, relabelV_length, List.length_replicate, hσl]
  · intro j h1 h2
    have hj : j < n := by rw [scatter_length, List.length_replicate] at h1; exact h1
    obtain ⟨k, hk, hkj⟩ := List.getElem_of_mem (ho.mem_iff.2 (List.mem_range.2 hj))
    rw [← List.getD_eq_getElem _ 0 h1, ← List.getD_eq_getElem _ 0 h2,
      relabelV_getD _ _ _ (by omega)]
    have A := scatter_getD (List.replicate n 0) V ord' (ho.nodup_iff.2 List.nodup_range)
      (by intro i hi; rw [List.length_replicate]; exact List.mem_range.1 (ho.mem_iff.1 hi))
      (by omega) k hk
    have B := scatter_getD (List.replicate n 0) V (ord'.map (fun j => σ.getD j 0))
      (ho2.nodup_iff.2 List.nodup_range)
      (by intro i hi; rw [List.length_replicate]; exact List.mem_range.1 (ho2.mem_iff.1 hi))
      (by rw [List.length_map]; omega) k (by rw [List.length_map]; exact hk)
    rw [getD_map_lt _ _ _ hk 0 0] at B
    rw [List.getD_eq_getElem _ _ hk, hkj] at A B
    rw [A, B]

theorem fwerMinp_eq (p : List Rat) (D : List (List Rat)) (order : List Nat) (comb : List Rat → Rat)
    (plus1 : Bool) (h2 : 2 ≤ p.length) (hw : p.length = (D.headD []).length) :
    fwerMinp p D order comb plus1
      = .ok (scatter (List.replicate p.length 0) order (fwerSorted p D order comb plus1)) := by
  unfold fwerMinp fwerSorted
  have h1 : ¬ p.length < 2 := by omega
  have h3 : (p.length != (D.headD []).length) = false := by rw [← hw]; simp
  simp only [h1, h3, if_false]
  rfl

theorem fwerSorted_relabel (p : List Rat) (D : List (List Rat)) (comb : List Rat → Rat)
    (plus1 : Bool) (hd : p.Nodup) (σ : List Nat) (hσ : σ.Perm (List.range p.length)) :
    fwerSorted (relabelV p σ) (selectCols D σ) (argsortStable (relabelV p σ)) comb plus1
      = fwerSorted p D (argsortStable p) comb plus1 := by
  have hσl := perm_len hσ
  have hql : (relabelV p σ).length = p.length := by rw [relabelV_length, hσl]
  have hm := argsort_relabel_map p hd σ hσ
  have hlt : ∀ j ∈ argsortStable (relabelV p σ), j < σ.length := by
    intro j hj
    have := argsortStable_lt _ j hj
    rwa [relabelV_length] at this
  have hpo : (argsortStable (relabelV p σ)).map (fun i => (relabelV p σ).getD i 0)
      = (argsortStable p).map (fun i => p.getD i 0) := by
    rw [← hm, List.map_map]
    apply List.map_congr_left
    intro j hj
    rw [relabelV_getD _ _ _ (hlt j hj)]
    rfl
  have hsel : ∀ jj, selectCols (selectCols D σ) ((argsortStable (relabelV p σ)).drop jj)
      = selectCols D ((argsortStable p).drop jj) := by
    intro jj
    rw [selectCols_selectCols _ _ _ (fun j hj => hlt j (List.mem_of_mem_drop hj)), List.map_drop, hm]
  unfold fwerSorted
  simp only [hpo, hsel, hql]

/-- C09: fwer_minp of the relabelled problem is the relabelled result (distinct raw p-values, every
    combining function, the sorting permutations being the stable argsorts) -/
theorem fwer_relabel (p : List Rat) (D : List (List Rat)) (comb : List Rat → Rat) (plus1 : Bool)
    (hd : p.Nodup) (σ : List Nat) (hσ : σ.Perm (List.range p.length))
    (hw : ∀ r ∈ D, r.length = p.length) (h2 : 2 ≤ p.length) (hD : D ≠ []) :
    ∃ adj adj', fwerMinp p D (argsortStable p) comb plus1 = .ok adj ∧
      fwerMinp (relabelV p σ) (selectCols D σ) (argsortStable (relabelV p σ)) comb plus1 = .ok adj' ∧
      adj' = relabelV adj σ := by
  have hσl := perm_len hσ
  have hql : (relabelV p σ).length = p.length := by rw [relabelV_length, hσl]
  have hw1 : p.length = (D.headD []).length := by
    cases D with
    | nil => exact absurd rfl hD
    | cons r t => simpa using (hw r List.mem_cons_self).symm
  have hw2 : (relabelV p σ).length = ((selectCols D σ).headD []).length := by
    cases D with
    | nil => exact absurd rfl hD
    | cons r t => simp [selectCols, relabelV]
  refine ⟨_, _, fwerMinp_eq p D _ comb plus1 h2 hw1,
    fwerMinp_eq _ _ _ comb plus1 (by omega) hw2, ?_⟩
  rw [fwerSorted_relabel p D comb plus1 hd σ hσ, hql]
  have := scatter_relabel p.length σ (argsortStable (relabelV p σ))
    (fwerSorted p D (argsortStable p) comb plus1) hσ
    (by have := argsortStable_perm (relabelV p σ); rwa [hql] at this)
    (fwerSorted_length _ _ _ _ _ h2)
  rw [argsort_relabel_map p hd σ hσ] at this
  exact this
open PV.WY.WYAux (mtVal mtColv mtTsv mtRawAt mtRaw mtOrder mtCols mtU mtG mtPre wyMaxT_eq
  mtOrder_perm mtPre_length mtTsv_length mtTsv_getD mtRaw_length mtRaw_getD)

theorem selectCols_length (D : List (List Rat)) (σ : List Nat) :
    (selectCols D σ).length = D.length := by simp [selectCols]

theorem mtTsv_relabel (ts : List Rat) (two : Bool) (σ : List Nat)
    (hσ : σ.Perm (List.range ts.length)) :
    mtTsv (relabelV ts σ) two = relabelV (mtTsv ts two) σ := by
  unfold mtTsv relabelV
  rw [List.map_map]
  apply List.map_congr_left
  intro i hi
  have : i < ts.length := List.mem_range.1 (hσ.mem_iff.1 hi)
  simp [List.getD_eq_getElem?_getD, this]

theorem mtColv_relabel (tv : List (List Rat)) (two : Bool) (σ : List Nat) (j : Nat)
    (hj : j < σ.length) : mtColv (selectCols tv σ) two j = mtColv tv two (σ.getD j 0) := by
  unfold mtColv
  rw [NPC.column_selectCols _ _ _ hj, List.getD_eq_getElem _ _ hj]

theorem mtOrder_relabel (ts : List Rat) (two : Bool) (σ : List Nat)
    (hσ : σ.Perm (List.range ts.length)) (hd : (mtTsv ts two).Nodup) :
    (mtOrder (relabelV ts σ) two).map (fun j => σ.getD j 0) = mtOrder ts two := by
  unfold mtOrder sortIdxAsc
  rw [mtTsv_relabel ts two σ hσ]
  exact argsort_relabel_map (mtTsv ts two) hd σ (by rwa [mtTsv_length])

theorem mtOrder'_lt (ts : List Rat) (two : Bool) (σ : List Nat) :
    ∀ j ∈ mtOrder (relabelV ts σ) two, j < σ.length := by
  intro j hj
  have := List.mem_range.1 ((mtOrder_perm (relabelV ts σ) two).mem_iff.1 hj)
  rwa [relabelV_length] at this

theorem mtCols_relabel (ts : List Rat) (tv : List (List Rat)) (two : Bool) (σ : List Nat)
    (hσ : σ.Perm (List.range ts.length)) (hd : (mtTsv ts two).Nodup) :
    mtCols (relabelV ts σ) (selectCols tv σ) two = mtCols ts tv two := by
  unfold mtCols
  rw [← mtOrder_relabel ts two σ hσ hd, List.map_map]
  apply List.map_congr_left
  intro j hj
  exact mtColv_relabel tv two σ j (mtOrder'_lt ts two σ j hj)

theorem mtRawAt_relabel (ts : List Rat) (tv : List (List Rat)) (two : Bool) (σ : List Nat)
    (hσ : σ.Perm (List.range ts.length)) (j : Nat) (hj : j < σ.length) :
    mtRawAt (relabelV ts σ) (selectCols tv σ) two j = mtRawAt ts tv two (σ.getD j 0) := by
  unfold mtRawAt
  rw [mtColv_relabel tv two σ j hj, mtTsv_relabel ts two σ hσ, relabelV_getD _ _ _ hj,
    selectCols_length]

theorem mtRaw_relabel (ts : List Rat) (tv : List (List Rat)) (two : Bool) (σ : List Nat)
    (hσ : σ.Perm (List.range ts.length)) :
    mtRaw (relabelV ts σ) (selectCols tv σ) two = relabelV (mtRaw ts tv two) σ := by
  have hσl := perm_len hσ
  apply List.ext_getElem
  · rw [mtRaw_length, relabelV_length, relabelV_length]
  · intro j h1 h2
    have hj : j < σ.length := by rwa [relabelV_length] at h2
    rw [← List.getD_eq_getElem _ 0 h1, ← List.getD_eq_getElem _ 0 h2,
      mtRaw_getD _ _ _ _ (by rw [relabelV_length]; exact hj), relabelV_getD _ _ _ hj,
      mtRaw_getD _ _ _ _ (perm_lt hσ j (by omega)), mtRawAt_relabel ts tv two σ hσ j hj]

theorem mtPre_relabel (ts : List Rat) (tv : List (List Rat)) (two : Bool) (σ : List Nat)
    (hσ : σ.Perm (List.range ts.length)) (hd : (mtTsv ts two).Nodup) :
    mtPre (relabelV ts σ) (selectCols tv σ) two = mtPre ts tv two := by
  unfold mtPre mtU
  rw [mtCols_relabel ts tv two σ hσ hd, ← mtOrder_relabel ts two σ hσ hd, List.zip_map_left,
    List.map_map]
  apply List.map_congr_left
  rintro ⟨i, u⟩ h
  have hi : i < σ.length := mtOrder'_lt ts two σ i (List.of_mem_zip h).1
  simp only [Function.comp, Prod.map, mtG, id]
  rw [mtTsv_relabel ts two σ hσ, relabelV_getD _ _ _ hi, selectCols_length]

/-- C10 (maxT): relabelling permutes the result, for distinct observed statistics (as used) -/
theorem wy_maxt_relabel (ts : List Rat) (tv : List (List Rat)) (two : Bool)
    (hw : ∀ r ∈ tv, r.length = ts.length)
    (σ : List Nat) (hσ : σ.Perm (List.range ts.length))
    (hd : (ts.map (fun v => if two then absR v else v)).Nodup) :
    wyMaxT (relabelV ts σ) (selectCols tv σ) two
      = (relabelV (wyMaxT ts tv two).1 σ, relabelV (wyMaxT ts tv two).2 σ) := by
  have hd' : (mtTsv ts two).Nodup := hd
  have hσl := perm_len hσ
  have hql : (relabelV ts σ).length = ts.length := by rw [relabelV_length, hσl]
  rw [wyMaxT_eq, wyMaxT_eq, mtPre_relabel ts tv two σ hσ hd', mtRaw_relabel ts tv two σ hσ, hql]
  simp only
  congr 1
  have := scatter_relabel ts.length σ (mtOrder (relabelV ts σ) two)
    (runMax (mtPre ts tv two).reverse).reverse hσ
    (by have := mtOrder_perm (relabelV ts σ) two; rwa [hql] at this)
    (by rw [List.length_reverse, runMax_length, List.length_reverse, mtPre_length])
  rw [mtOrder_relabel ts two σ hσ hd'] at this
  exact this
open PV.WY (wyVal)
open PV.WY.WYAux (mpColv mpT mpRawAt mpRaw mpPsFn mpPsAt mpPs mpOrder mpCols mpQ mpG mpPre wyMinP_eq
  mpRaw_length mpRaw_getD mpPs_getD mpOrder_perm mpPre_length)

/-- the two-sided flags moved along with the hypotheses -/
def relabelB (two : List Bool) (σ : List Nat) : List Bool := σ.map (fun i => two.getD i false)

theorem wyVal_relabel (two : List Bool) (σ : List Nat) (j : Nat) (hj : j < σ.length) :
    wyVal (relabelB two σ) j = wyVal two (σ.getD j 0) := by
  funext v
  unfold wyVal relabelB
  simp [List.getD_eq_getElem?_getD, hj]

theorem mpColv_relabel (tv : List (List Rat)) (two : List Bool) (σ : List Nat) (j : Nat)
    (hj : j < σ.length) :
    mpColv (selectCols tv σ) (relabelB two σ) j = mpColv tv two (σ.getD j 0) := by
  unfold mpColv
  rw [NPC.column_selectCols _ _ _ hj, wyVal_relabel two σ j hj, List.getD_eq_getElem _ _ hj]

theorem mpT_relabel (ts : List Rat) (two : List Bool) (σ : List Nat) (j : Nat)
    (hj : j < σ.length) :
    mpT (relabelV ts σ) (relabelB two σ) j = mpT ts two (σ.getD j 0) := by
  unfold mpT
  rw [wyVal_relabel two σ j hj, relabelV_getD _ _ _ hj]

theorem mpRawAt_relabel (ts : List Rat) (tv : List (List Rat)) (two : List Bool) (σ : List Nat)
    (j : Nat) (hj : j < σ.length) :
    mpRawAt (relabelV ts σ) (selectCols tv σ) (relabelB two σ) j
      = mpRawAt ts tv two (σ.getD j 0) := by
  unfold mpRawAt
  rw [mpColv_relabel tv two σ j hj, mpT_relabel ts two σ j hj, selectCols_length]

theorem mpPsFn_relabel (ts : List Rat) (tv : List (List Rat)) (two : List Bool) (σ : List Nat)
    (j : Nat) (hj : j < σ.length) :
    mpPsFn (relabelV ts σ) (selectCols tv σ) (relabelB two σ) j
      = mpPsFn ts tv two (σ.getD j 0) := by
  funext v
  unfold mpPsFn
  rw [mpColv_relabel tv two σ j hj, mpT_relabel ts two σ j hj, selectCols_length]

theorem mpPsAt_relabel (ts : List Rat) (tv : List (List Rat)) (two : List Bool) (σ : List Nat)
    (j : Nat) (hj : j < σ.length) :
    mpPsAt (relabelV ts σ) (selectCols tv σ) (relabelB two σ) j
      = mpPsAt ts tv two (σ.getD j 0) := by
  unfold mpPsAt
  rw [mpColv_relabel tv two σ j hj, mpPsFn_relabel ts tv two σ j hj]

theorem mpRaw_relabel (ts : List Rat) (tv : List (List Rat)) (two : List Bool) (σ : List Nat)
    (hσ : σ.Perm (List.range ts.length)) :
    mpRaw (relabelV ts σ) (selectCols tv σ) (relabelB two σ) = relabelV (mpRaw ts tv two) σ := by
  have hσl := perm_len hσ
  apply List.ext_getElem
  · rw [mpRaw_length, relabelV_length, relabelV_length]
  · intro j h1 h2
    have hj : j < σ.length := by rwa [relabelV_length] at h2
    rw [← List.getD_eq_getElem _ 0 h1, ← List.getD_eq_getElem _ 0 h2,
      mpRaw_getD _ _ _ _ (by rw [relabelV_length]; exact hj), relabelV_getD _ _ _ hj,
      mpRaw_getD _ _ _ _ (perm_lt hσ j (by omega)), mpRawAt_relabel ts tv two σ j hj]

theorem relabelV_map_neg (p : List Rat) (σ : List Nat) (hσ : σ.Perm (List.range p.length)) :
    (relabelV p σ).map (fun v => -v) = relabelV (p.map (fun v => -v)) σ := by
  unfold relabelV
  rw [List.map_map]
  apply List.map_congr_left
  intro i hi
  have : i < p.length := List.mem_range.1 (hσ.mem_iff.1 hi)
  simp [List.getD_eq_getElem?_getD, this]

theorem mpOrder_relabel (ts : List Rat) (tv : List (List Rat)) (two : List Bool) (σ : List Nat)
    (hσ : σ.Perm (List.range ts.length)) (hd : (mpRaw ts tv two).Nodup) :
    (mpOrder (relabelV ts σ) (selectCols tv σ) (relabelB two σ)).map (fun j => σ.getD j 0)
      = mpOrder ts tv two := by
  unfold mpOrder sortIdxDesc
  rw [mpRaw_relabel ts tv two σ hσ,
    relabelV_map_neg _ σ (by rwa [mpRaw_length])]
  exact argsort_relabel_map _ (hd.map neg_injective) σ (by rwa [List.length_map, mpRaw_length])

theorem mpOrder'_lt (ts : List Rat) (tv : List (List Rat)) (two : List Bool) (σ : List Nat) :
    ∀ j ∈ mpOrder (relabelV ts σ) (selectCols tv σ) (relabelB two σ), j < σ.length := by
  intro j hj
  have := List.mem_range.1 ((mpOrder_perm _ _ _).mem_iff.1 hj)
  rwa [relabelV_length] at this

theorem mpCols_relabel (ts : List Rat) (tv : List (List Rat)) (two : List Bool) (σ : List Nat)
    (hσ : σ.Perm (List.range ts.length)) (hd : (mpRaw ts tv two).Nodup) :
    mpCols (relabelV ts σ) (selectCols tv σ) (relabelB two σ) = mpCols ts tv two := by
  have hσl := perm_len hσ
  unfold mpCols
  rw [← mpOrder_relabel ts tv two σ hσ hd, List.map_map]
  apply List.map_congr_left
  intro j hj
  have hj' : j < σ.length := mpOrder'_lt ts tv two σ j hj
  simp only [Function.comp]
  rw [mpPs_getD _ _ _ _ (by rw [relabelV_length]; exact hj'),
    mpPs_getD _ _ _ _ (perm_lt hσ j (by omega)), mpPsAt_relabel ts tv two σ j hj']

theorem mpPre_relabel (ts : List Rat) (tv : List (List Rat)) (two : List Bool) (σ : List Nat)
    (hσ : σ.Perm (List.range ts.length)) (hd : (mpRaw ts tv two).Nodup) :
    mpPre (relabelV ts σ) (selectCols tv σ) (relabelB two σ) = mpPre ts tv two := by
  unfold mpPre mpQ
  rw [mpCols_relabel ts tv two σ hσ hd, ← mpOrder_relabel ts tv two σ hσ hd, List.zip_map_left,
    List.map_map]
  apply List.map_congr_left
  rintro ⟨i, u⟩ h
  have hi : i < σ.length := mpOrder'_lt ts tv two σ i (List.of_mem_zip h).1
  simp only [Function.comp, Prod.map, mpG, id]
  rw [mpRaw_relabel ts tv two σ hσ, relabelV_getD _ _ _ hi, selectCols_length]

/-- C10 (minP): relabelling permutes adjusted and raw p-values, for distinct raw p-values -/
theorem wy_minp_relabel (ts : List Rat) (tv : List (List Rat)) (two : List Bool)
    (hw : ∀ r ∈ tv, r.length = ts.length) (htwo : two.length = ts.length)
    (σ : List Nat) (hσ : σ.Perm (List.range ts.length))
    (hd : (wyMinP ts tv two).2.Nodup) :
    wyMinP (relabelV ts σ) (selectCols tv σ) (σ.map (fun i => two.getD i false))
      = (relabelV (wyMinP ts tv two).1 σ, relabelV (wyMinP ts tv two).2 σ) := by
  change wyMinP (relabelV ts σ) (selectCols tv σ) (relabelB two σ) = _
  have hd' : (mpRaw ts tv two).Nodup := by rw [wyMinP_eq] at hd; exact hd
  have hσl := perm_len hσ
  have hql : (relabelV ts σ).length = ts.length := by rw [relabelV_length, hσl]
  rw [wyMinP_eq, wyMinP_eq, mpPre_relabel ts tv two σ hσ hd', mpRaw_relabel ts tv two σ hσ, hql]
  simp only
  congr 1
  have := scatter_relabel ts.length σ
    (mpOrder (relabelV ts σ) (selectCols tv σ) (relabelB two σ)).reverse
    (runMax (mpPre ts tv two).reverse) hσ
    (by
      have := mpOrder_perm (relabelV ts σ) (selectCols tv σ) (relabelB two σ)
      rw [hql] at this
      exact (List.reverse_perm _).trans this)
    (by rw [runMax_length, List.length_reverse, mpPre_length])
  rw [List.map_reverse, mpOrder_relabel ts tv two σ hσ hd'] at this
  exact this

/-- the hypotheses are satisfiable by a non-trivial relabelling (a 3-cycle, distinct p-values) -/
example : ([3/10, 1/10, 2/10] : List Rat).Nodup ∧ ([1, 2, 0] : List Nat).Perm (List.range 3) := by decide +kernel
example : relabelV [3/10, 1/10, 2/10] [1, 2, 0] = [1/10, 2/10, 3/10] := by decide +kernel


end PV.Relabel
