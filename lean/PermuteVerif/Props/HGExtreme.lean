import PermuteVerif.Props.Tails
import PermuteVerif.Props.Extra

/-!
# Hypergeometric limits at levels extremely close to 1

If the tail level a is positive but not larger than the smallest positive probability of the population,
1/C(N, n), no feasible G can be rejected: the exact interval is the whole feasible range
[x, N − (n − x)].  (C13 is exercised at cl = 1 − 1e-9, 1 − 1e-12, 1 − 2^-40, where this is the oracle.)
-/

namespace PV.HGExtreme
open PV PV.Tails PV.Extra

theorem pmf_ge_inv (N G n x : Nat) (hn : n ≤ N) (hxG : x ≤ G) (hxn : x ≤ n) (hfeas : n - x ≤ N - G) :
    1 / (Nat.choose N n : Rat) ≤ hyperPmf N G n x := by
  unfold hyperPmf hyperNum
  have hpos : (0 : Rat) < (Nat.choose N n : Rat) := by exact_mod_cast Nat.choose_pos hn
  rw [if_neg (by omega), choose_eq, choose_eq, choose_eq]
  have h1 : 1 ≤ Nat.choose G x := Nat.choose_pos hxG
  have h2 : 1 ≤ Nat.choose (N - G) (n - x) := Nat.choose_pos hfeas
  have h3 : (1 : Rat) ≤ ((Nat.choose G x * Nat.choose (N - G) (n - x) : Nat) : Rat) := by
    exact_mod_cast Nat.one_le_iff_ne_zero.2 (Nat.mul_ne_zero (by omega) (by omega))
  exact div_le_div_of_nonneg_right h3 hpos.le

theorem sf_ge_pmf (N G n x : Nat) (hxn : x ≤ n) : hyperPmf N G n x ≤ hyperSf N G n x := by
  rw [hyperSf_fin]
  exact Finset.single_le_sum (f := fun k => hyperPmf N G n k) (fun k _ => hyperPmf_nonneg N G n k)
    (Finset.mem_Ico.2 ⟨le_refl x, by omega⟩)

theorem cdf_ge_pmf (N G n x : Nat) (hxn : x ≤ n) : hyperPmf N G n x ≤ hyperCdf N G n x := by
  rw [hyperCdf_fin' N G n x hxn]
  exact Finset.single_le_sum (f := fun k => hyperPmf N G n k) (fun k _ => hyperPmf_nonneg N G n k)
    (Finset.mem_range.2 (by omega))

theorem inv_choose_le_one (N n : Nat) (hn : n ≤ N) : 1 / (Nat.choose N n : Rat) ≤ 1 := by
  have hpos : (1 : Rat) ≤ (Nat.choose N n : Rat) := by exact_mod_cast Nat.choose_pos hn
  rw [div_le_one (by linarith)]; exact hpos

/-- level below the smallest positive probability: the lower limit is x -/
theorem lower_eq_x (N n x : Nat) (a : Rat) (ha : 0 < a) (hx : 0 < x) (hxn : x ≤ n) (hn : n ≤ N)
    (hsmall : a ≤ 1 / (Nat.choose N n : Rat)) : hgLowerSearch N n x a = x := by
  have ha1 : a ≤ 1 := le_trans hsmall (inv_choose_le_one N n hn)
  apply le_antisymm
  · by_contra hlt
    have hlt : x < hgLowerSearch N n x a := Nat.lt_of_not_le hlt
    have h3 := (hgLower_spec N n x a hx hxn hn ha1).2.2 x hlt
    have h4 := pmf_ge_inv N x n x hn (le_refl x) hxn (by omega)
    have h5 := sf_ge_pmf N x n x hxn
    linarith
  · exact hg_lower_ge_x N n x a ha hx hxn hn ha1

/-- level below the smallest positive probability: the upper limit is N − (n − x) -/
theorem upper_eq (N n x : Nat) (a : Rat) (ha : 0 < a) (hxn : x < n) (hn : n ≤ N)
    (hsmall : a ≤ 1 / (Nat.choose N n : Rat)) : hgUpperSearch N n x a = N - (n - x) := by
  have ha1 : a ≤ 1 := le_trans hsmall (inv_choose_le_one N n hn)
  have hle := hg_upper_le N n x a ha hxn hn ha1
  apply le_antisymm
  · omega
  · by_contra hlt
    have hlt : hgUpperSearch N n x a < N - (n - x) := Nat.lt_of_not_le hlt
    have h3 := (hgUpper_spec N n x a hxn hn ha1).2.2 (N - (n - x)) hlt (by omega)
    have h4 := pmf_ge_inv N (N - (n - x)) n x hn (by omega) hxn.le (by omega)
    have h5 := cdf_ge_pmf N (N - (n - x)) n x hxn.le
    linarith

/-- the two-sided interval at such a level is the whole feasible range -/
theorem ci_whole_range (n x N : Nat) (cl : Rat) (hx : 0 < x) (hxn : x < n) (hn : n ≤ N)
    (hpos : 0 < tailLevel cl .twoSided) (hsmall : tailLevel cl .twoSided ≤ 1 / (Nat.choose N n : Rat)) :
    hypergeomCI n x N cl .twoSided = (x, N - (n - x)) := by
  simp only [hypergeomCI]
  have e1 : (CIAlt.twoSided != CIAlt.upper && decide (0 < x)) = true := by simp [hx]
  have e2 : (CIAlt.twoSided != CIAlt.lower && decide (x < n)) = true := by simp [hxn]
  rw [if_pos e1, if_pos e2, lower_eq_x N n x _ hpos hx hxn.le hn hsmall, upper_eq N n x _ hpos hxn hn hsmall]

example : hypergeomCI 4 2 10 (1 - 1/1000000000) .twoSided = (2, 8) := by decide +kernel

end PV.HGExtreme
