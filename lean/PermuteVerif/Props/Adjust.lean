/-
  Props/Adjust.lean — C09 (fwer_minp adjustments attach to the right hypotheses and are monotone)
  and C11 (adjust_p equals the textbook Bonferroni, Holm and Benjamini–Hochberg adjustments).
  Statements are fixed; only proofs (and helper lemmas above them) may change.
-/
import PermuteVerif.Model.NPC
import Mathlib.Data.List.Basic
import Mathlib.Data.List.Sort
import Mathlib.Data.List.Perm.Basic
import Mathlib.Data.List.Nodup
import Mathlib.Data.List.GetD
import Mathlib.Tactic.Linarith
import Mathlib.Tactic.Positivity
import Mathlib.Tactic.FieldSimp
import Mathlib.Tactic.Ring
import Mathlib.Algebra.Order.Field.Rat
namespace PV.Adjust
/-! ### generic facts -/


theorem getD_map_lt {α β : Type} (f : α → β) (l : List α) (k : Nat) (hk : k < l.length) (d : β) (d' : α) :
    (l.map f).getD k d = f (l.getD k d') := by
  simp [List.getD_eq_getElem?_getD, List.getElem?_eq_getElem hk]

theorem runMax_length (l : List Rat) : (runMax l).length = l.length := by
  induction l with
  | nil => rfl
  | cons a t ih => simp [runMax, ih]

/-- the running maximum at position k is the maximum of the entries at positions ≤ k -/
theorem runMax_spec (l : List Rat) (k : Nat) (hk : k < l.length) :
    (∀ j ≤ k, l.getD j 0 ≤ (runMax l).getD k 0) ∧ ∃ j ≤ k, (runMax l).getD k 0 = l.getD j 0 := by
  induction l generalizing k with
  | nil => simp at hk
  | cons a t ih =>
    cases k with
    | zero =>
      refine ⟨?_, 0, le_refl _, by simp [runMax]⟩
      intro j hj
      obtain rfl : j = 0 := by omega
      simp [runMax]
    | succ k =>
      have hk' : k < t.length := by simpa using hk
      have hk'' : k < (runMax t).length := by rw [runMax_length]; exact hk'
      obtain ⟨h1, j0, hj0, h2⟩ := ih k hk'
      have e : (runMax (a :: t)).getD (k+1) 0 = max a ((runMax t).getD k 0) := by
        simp only [runMax, List.getD_cons_succ]
        exact getD_map_lt _ _ _ hk'' _ _
      rw [e]
      constructor
      · intro j hj
        cases j with
        | zero => simp
        | succ j =>
          simp only [List.getD_cons_succ]
          exact le_trans (h1 j (by omega)) (le_max_right _ _)
      · rcases max_cases a ((runMax t).getD k 0) with ⟨h, _⟩ | ⟨h, _⟩
        · exact ⟨0, by omega, by rw [h]; rfl⟩
        · exact ⟨j0+1, by omega, by rw [h, h2]; rfl⟩

theorem runMax_sorted (l : List Rat) : List.Pairwise (· ≤ ·) (runMax l) := by
  induction l with
  | nil => simp [runMax]
  | cons a t ih =>
    simp only [runMax, List.pairwise_cons, List.pairwise_map]
    constructor
    · intro b hb
      obtain ⟨c, _, rfl⟩ := List.mem_map.1 hb
      exact le_max_left _ _
    · exact ih.imp (fun h => max_le_max le_rfl h)

theorem runMin_length (l : List Rat) : (runMin l).length = l.length := by
  induction l with
  | nil => rfl
  | cons a t ih => simp [runMin, ih]

theorem runMin_spec (l : List Rat) (k : Nat) (hk : k < l.length) :
    (∀ j ≤ k, (runMin l).getD k 0 ≤ l.getD j 0) ∧ ∃ j ≤ k, (runMin l).getD k 0 = l.getD j 0 := by
  induction l generalizing k with
  | nil => simp at hk
  | cons a t ih =>
    cases k with
    | zero =>
      refine ⟨?_, 0, le_refl _, by simp [runMin]⟩
      intro j hj
      obtain rfl : j = 0 := by omega
      simp [runMin]
    | succ k =>
      have hk' : k < t.length := by simpa using hk
      have hk'' : k < (runMin t).length := by rw [runMin_length]; exact hk'
      obtain ⟨h1, j0, hj0, h2⟩ := ih k hk'
      have e : (runMin (a :: t)).getD (k+1) 0 = min a ((runMin t).getD k 0) := by
        simp only [runMin, List.getD_cons_succ]
        exact getD_map_lt _ _ _ hk'' _ _
      rw [e]
      constructor
      · intro j hj
        cases j with
        | zero => simp
        | succ j =>
          simp only [List.getD_cons_succ]
          exact le_trans (min_le_right _ _) (h1 j (by omega))
      · rcases min_cases a ((runMin t).getD k 0) with ⟨h, _⟩ | ⟨h, _⟩
        · exact ⟨0, by omega, by rw [h]; rfl⟩
        · exact ⟨j0+1, by omega, by rw [h, h2]; rfl⟩

theorem runMin_anti (l : List Rat) : List.Pairwise (· ≥ ·) (runMin l) := by
  induction l with
  | nil => simp [runMin]
  | cons a t ih =>
    simp only [runMin, List.pairwise_cons, List.pairwise_map]
    constructor
    · intro b hb
      obtain ⟨c, _, rfl⟩ := List.mem_map.1 hb
      exact min_le_left _ _
    · exact ih.imp (fun h => min_le_min le_rfl h)

theorem scatter_length (base vals : List Rat) (idx : List Nat) :
    (scatter base idx vals).length = base.length := by
  unfold scatter
  induction idx generalizing base vals with
  | nil => simp
  | cons i t ih =>
    cases vals with
    | nil => simp
    | cons v vs => simp [ih]

theorem scatter_getD_notin (base vals : List Rat) (idx : List Nat) (m : Nat) (hm : m ∉ idx) :
    (scatter base idx vals).getD m 0 = base.getD m 0 := by
  unfold scatter
  induction idx generalizing base vals with
  | nil => simp
  | cons i t ih =>
    cases vals with
    | nil => simp
    | cons v vs =>
      simp only [List.zip_cons_cons, List.foldl_cons]
      rw [ih _ _ (fun h => hm (List.mem_cons_of_mem _ h))]
      have : i ≠ m := fun h => hm (h ▸ List.mem_cons_self)
      simp [List.getD_eq_getElem?_getD, List.getElem?_set_ne this]

/-- writing `vals` through a duplicate-free in-range index list and reading back -/
theorem scatter_getD (base vals : List Rat) (idx : List Nat) (hn : idx.Nodup)
    (hr : ∀ i ∈ idx, i < base.length) (hl : vals.length = idx.length) (k : Nat) (hk : k < idx.length) :
    (scatter base idx vals).getD (idx.getD k 0) 0 = vals.getD k 0 := by
  induction idx generalizing base vals k with
  | nil => simp at hk
  | cons i t ih =>
    cases vals with
    | nil => simp at hl
    | cons v vs =>
      have hs : scatter base (i :: t) (v :: vs) = scatter (base.set i v) t vs := by
        simp [scatter]
      rw [hs]
      rw [List.nodup_cons] at hn
      cases k with
      | zero =>
        simp only [List.getD_cons_zero]
        rw [scatter_getD_notin _ _ _ _ hn.1]
        have : i < base.length := hr i List.mem_cons_self
        simp [List.getD_eq_getElem?_getD, this]
      | succ k =>
        simp only [List.getD_cons_succ]
        apply ih _ _ hn.2
        · intro j hj; simp; exact hr j (List.mem_cons_of_mem _ hj)
        · simpa using hl
        · simpa using hk


theorem ins_perm {α : Type} (le : α → α → Bool) (a : α) (l : List α) : (ins le a l).Perm (a :: l) := by
  induction l with
  | nil => simp [ins]
  | cons b t ih =>
    unfold ins
    split
    · exact List.Perm.refl _
    · exact ((List.Perm.cons b ih).trans (List.Perm.swap a b t))

theorem isort_cons {α : Type} (le : α → α → Bool) (a : α) (l : List α) :
    isort le (a :: l) = ins le a (isort le l) := rfl

theorem isort_perm {α : Type} (le : α → α → Bool) (l : List α) : (isort le l).Perm l := by
  induction l with
  | nil => exact List.Perm.refl _
  | cons a t ih =>
    rw [isort_cons]
    exact (ins_perm le a _).trans (List.Perm.cons a ih)

theorem ins_sorted {α : Type} (le : α → α → Bool) (htot : ∀ a b, le a b = true ∨ le b a = true)
    (htr : ∀ a b c, le a b = true → le b c = true → le a c = true) (a : α) (l : List α)
    (h : List.Pairwise (fun x y => le x y = true) l) :
    List.Pairwise (fun x y => le x y = true) (ins le a l) := by
  induction l with
  | nil => simp [ins]
  | cons b t ih =>
    unfold ins
    rw [List.pairwise_cons] at h
    split
    · rename_i hab
      rw [List.pairwise_cons]
      refine ⟨?_, List.pairwise_cons.2 h⟩
      intro c hc
      rcases List.mem_cons.1 hc with rfl | hc
      · exact hab
      · exact htr _ _ _ hab (h.1 c hc)
    · rename_i hab
      rw [List.pairwise_cons]
      refine ⟨?_, ih h.2⟩
      intro c hc
      rcases List.mem_cons.1 ((ins_perm le a t).mem_iff.1 hc) with rfl | hc
      · rcases htot c b with h' | h'
        · exact absurd h' hab
        · exact h'
      · exact h.1 c hc

theorem isort_sorted {α : Type} (le : α → α → Bool) (htot : ∀ a b, le a b = true ∨ le b a = true)
    (htr : ∀ a b c, le a b = true → le b c = true → le a c = true) (l : List α) :
    List.Pairwise (fun x y => le x y = true) (isort le l) := by
  induction l with
  | nil => exact List.Pairwise.nil
  | cons a t ih => rw [isort_cons]; exact ins_sorted le htot htr a _ ih

/-- the stable argsort is a sorting permutation of the positions -/
theorem argsortStable_perm (p : List Rat) : (argsortStable p).Perm (List.range p.length) := by
  unfold argsortStable
  have := (isort_perm (fun (a b : Rat × Nat) => decide (a.1 ≤ b.1)) p.zipIdx).map Prod.snd
  rwa [List.zipIdx_map_snd, ← List.range_eq_range'] at this

theorem argsortStable_sorted (p : List Rat) :
    List.Pairwise (· ≤ ·) ((argsortStable p).map (fun i => p.getD i 0)) := by
  unfold argsortStable
  rw [List.map_map]
  have hperm := isort_perm (fun (a b : Rat × Nat) => decide (a.1 ≤ b.1)) p.zipIdx
  have hs := isort_sorted (fun (a b : Rat × Nat) => decide (a.1 ≤ b.1))
    (by intro a b; simp only [decide_eq_true_eq]; exact le_total _ _)
    (by intro a b c; simp only [decide_eq_true_eq]; exact le_trans) p.zipIdx
  have e : ∀ x ∈ isort (fun (a b : Rat × Nat) => decide (a.1 ≤ b.1)) p.zipIdx,
      ((fun i => p.getD i 0) ∘ Prod.snd) x = x.1 := by
    intro x hx
    obtain ⟨v, i⟩ := x
    have := List.mem_zipIdx' (hperm.mem_iff.1 hx)
    simp only [Function.comp]
    rw [List.getD_eq_getElem _ _ this.1]
    exact this.2.symm
  rw [List.map_congr_left e, List.pairwise_map]
  exact hs.imp (by intro a b h; simpa using h)

theorem argsortStable_length (p : List Rat) : (argsortStable p).length = p.length := by
  simpa using (argsortStable_perm p).length_eq

theorem argsortStable_nodup (p : List Rat) : (argsortStable p).Nodup :=
  (argsortStable_perm p).nodup_iff.2 List.nodup_range

theorem argsortStable_lt (p : List Rat) : ∀ i ∈ argsortStable p, i < p.length := by
  intro i hi
  exact List.mem_range.1 ((argsortStable_perm p).mem_iff.1 hi)

/-! ### C11: adjust_p -/

/-- Holm step-down values on the sorted vector s_(1) ≤ … ≤ s_(n): max_{j ≤ k} min(1, (n−j+1) s_(j)) -/
def holmSorted (s : List Rat) : List Rat :=
  runMax (s.zipIdx.map (fun vk => min (vk.1 * ((s.length - vk.2 : Nat) : Rat)) 1))

/-- Benjamini–Hochberg step-up values on the sorted vector: min_{j ≥ k} min(1, n s_(j)/j) -/
def bhSorted (s : List Rat) : List Rat :=
  (runMin (s.zipIdx.map (fun vk => min (vk.1 * ((s.length : Rat) / ((vk.2 + 1 : Nat) : Rat))) 1)).reverse).reverse

theorem getD_zipIdx_map (f : Rat × Nat → Rat) (s : List Rat) (k : Nat) (hk : k < s.length) :
    (s.zipIdx.map f).getD k 0 = f (s.getD k 0, k) := by
  rw [List.getD_eq_getElem _ _ (by simpa using hk), List.getD_eq_getElem _ _ hk]
  simp

theorem sorted_getD_le (s : List Rat) (hs : List.Pairwise (· ≤ ·) s) (j k : Nat) (hjk : j ≤ k)
    (hk : k < s.length) : s.getD j 0 ≤ s.getD k 0 := by
  rcases Nat.eq_or_lt_of_le hjk with rfl | hlt
  · exact le_rfl
  · rw [List.getD_eq_getElem _ _ hk, List.getD_eq_getElem _ _ (by omega)]
    exact List.pairwise_iff_getElem.1 hs j k (by omega) hk hlt

theorem getD_nonneg (s : List Rat) (h0 : ∀ v ∈ s, 0 ≤ v) (k : Nat) : 0 ≤ s.getD k 0 := by
  by_cases hk : k < s.length
  · rw [List.getD_eq_getElem _ _ hk]; exact h0 _ (List.getElem_mem hk)
  · rw [List.getD_eq_default _ _ (by omega)]

def holmRaw (s : List Rat) (j : Nat) : Rat := min (s.getD j 0 * ((s.length - j : Nat) : Rat)) 1
def bhRaw (s : List Rat) (j : Nat) : Rat := min (s.getD j 0 * ((s.length : Rat) / ((j + 1 : Nat) : Rat))) 1

theorem holmSorted_spec (s : List Rat) (k : Nat) (hk : k < s.length) :
    (∀ j ≤ k, holmRaw s j ≤ (holmSorted s).getD k 0) ∧
      ∃ j ≤ k, (holmSorted s).getD k 0 = holmRaw s j := by
  have hl : k < (s.zipIdx.map (fun vk : Rat × Nat =>
      min (vk.1 * ((s.length - vk.2 : Nat) : Rat)) 1)).length := by simpa using hk
  obtain ⟨h1, j0, hj0, h2⟩ := runMax_spec _ k hl
  unfold holmSorted
  constructor
  · intro j hj
    have := h1 j hj
    rwa [getD_zipIdx_map _ _ _ (by omega)] at this
  · refine ⟨j0, hj0, ?_⟩
    rw [h2, getD_zipIdx_map _ _ _ (by omega)]
    rfl

theorem bhSorted_spec (s : List Rat) (k : Nat) (hk : k < s.length) :
    (∀ j, k ≤ j → j < s.length → (bhSorted s).getD k 0 ≤ bhRaw s j) ∧
      ∃ j, k ≤ j ∧ j < s.length ∧ (bhSorted s).getD k 0 = bhRaw s j := by
  unfold bhSorted
  set raw := s.zipIdx.map (fun vk : Rat × Nat =>
      min (vk.1 * ((s.length : Rat) / ((vk.2 + 1 : Nat) : Rat))) 1) with hraw
  have hrl : raw.length = s.length := by simp [hraw]
  have hrev : ∀ j, j < s.length → raw.reverse.getD j 0 = bhRaw s (s.length - 1 - j) := by
    intro j hj
    rw [List.getD_reverse _ (by omega), hrl, hraw, getD_zipIdx_map _ _ _ (by omega)]
    rfl
  have hl : s.length - 1 - k < raw.reverse.length := by rw [List.length_reverse, hrl]; omega
  obtain ⟨h1, j0, hj0, h2⟩ := runMin_spec _ _ hl
  have e : (runMin raw.reverse).reverse.getD k 0 = (runMin raw.reverse).getD (s.length - 1 - k) 0 := by
    rw [List.getD_reverse _ (by rw [runMin_length, List.length_reverse, hrl]; omega), runMin_length,
      List.length_reverse, hrl]
  rw [e]
  constructor
  · intro j hkj hj
    have := h1 (s.length - 1 - j) (by omega)
    rw [hrev _ (by omega)] at this
    have e2 : s.length - 1 - (s.length - 1 - j) = j := by omega
    rwa [e2] at this
  · refine ⟨s.length - 1 - j0, by omega, by omega, ?_⟩
    rw [h2, hrev _ (by omega)]

/-- the adjusted values keep the order of the p-values -/
theorem holmSorted_sorted (s : List Rat) : List.Pairwise (· ≤ ·) (holmSorted s) :=
  runMax_sorted _

theorem bhSorted_sorted (s : List Rat) : List.Pairwise (· ≤ ·) (bhSorted s) := by
  unfold bhSorted
  rw [List.pairwise_reverse]
  exact runMin_anti _

theorem holmSorted_ties_aux (s : List Rat) (hs : List.Pairwise (· ≤ ·) s) (k k' : Nat) (hkk : k ≤ k')
    (hk' : k' < s.length) (h0 : ∀ v ∈ s, 0 ≤ v) (e : s.getD k 0 = s.getD k' 0) :
    (holmSorted s).getD k 0 = (holmSorted s).getD k' 0 := by
  have hk : k < s.length := by omega
  obtain ⟨a1, j1, hj1, a2⟩ := holmSorted_spec s k hk
  obtain ⟨b1, j2, hj2, b2⟩ := holmSorted_spec s k' hk'
  apply le_antisymm
  · rw [a2]; exact b1 j1 (by omega)
  · rw [b2]
    by_cases hjk : j2 ≤ k
    · exact a1 j2 hjk
    · refine le_trans ?_ (a1 k le_rfl)
      have hj2k : k ≤ j2 := by omega
      have e2 : s.getD j2 0 = s.getD k 0 :=
        le_antisymm (e ▸ sorted_getD_le s hs j2 k' hj2 hk') (sorted_getD_le s hs k j2 hj2k (by omega))
      unfold holmRaw
      rw [e2]
      apply min_le_min _ le_rfl
      apply mul_le_mul_of_nonneg_left _ (getD_nonneg s h0 k)
      exact_mod_cast (by omega : s.length - j2 ≤ s.length - k)

/-- ties may be ranked in any order: within a block of equal sorted values the textbook Holm values
    coincide, so any sorting permutation attaches the same value to every hypothesis -/
theorem holmSorted_ties (s : List Rat) (hs : List.Pairwise (· ≤ ·) s) (k k' : Nat)
    (hk : k < s.length) (hk' : k' < s.length) (h0 : ∀ v ∈ s, 0 ≤ v) (e : s.getD k 0 = s.getD k' 0) :
    (holmSorted s).getD k 0 = (holmSorted s).getD k' 0 := by
  rcases le_total k k' with h | h
  · exact holmSorted_ties_aux s hs k k' h hk' h0 e
  · exact (holmSorted_ties_aux s hs k' k h hk h0 e.symm).symm

theorem bhSorted_ties_aux (s : List Rat) (hs : List.Pairwise (· ≤ ·) s) (k k' : Nat) (hkk : k ≤ k')
    (hk' : k' < s.length) (h0 : ∀ v ∈ s, 0 ≤ v) (e : s.getD k 0 = s.getD k' 0) :
    (bhSorted s).getD k 0 = (bhSorted s).getD k' 0 := by
  have hk : k < s.length := by omega
  obtain ⟨a1, j1, hj1, hj1', a2⟩ := bhSorted_spec s k hk
  obtain ⟨b1, j2, hj2, hj2', b2⟩ := bhSorted_spec s k' hk'
  apply le_antisymm
  · rw [b2]; exact a1 j2 (by omega) hj2'
  · rw [a2]
    by_cases hjk : k' ≤ j1
    · exact b1 j1 hjk hj1'
    · refine le_trans (b1 k' le_rfl hk') ?_
      have hj1k : j1 ≤ k' := by omega
      have e2 : s.getD j1 0 = s.getD k' 0 :=
        le_antisymm (sorted_getD_le s hs j1 k' hj1k hk') (e ▸ sorted_getD_le s hs k j1 hj1 (by omega))
      unfold bhRaw
      rw [e2]
      apply min_le_min _ le_rfl
      apply mul_le_mul_of_nonneg_left _ (getD_nonneg s h0 k')
      apply div_le_div_of_nonneg_left (by positivity) (by positivity)
      exact_mod_cast (by omega : j1 + 1 ≤ k' + 1)

theorem bhSorted_ties (s : List Rat) (hs : List.Pairwise (· ≤ ·) s) (k k' : Nat)
    (hk : k < s.length) (hk' : k' < s.length) (h0 : ∀ v ∈ s, 0 ≤ v) (e : s.getD k 0 = s.getD k' 0) :
    (bhSorted s).getD k 0 = (bhSorted s).getD k' 0 := by
  rcases le_total k k' with h | h
  · exact bhSorted_ties_aux s hs k k' h hk' h0 e
  · exact (bhSorted_ties_aux s hs k' k h hk h0 e.symm).symm

/-- p ≤ BH ≤ Holm ≤ Bonferroni ≤ 1 on the sorted vector (hence componentwise, by `*_eq_spec`) -/
theorem adjust_chain_sorted (s : List Rat) (hs : List.Pairwise (· ≤ ·) s)
    (h01 : ∀ v ∈ s, 0 ≤ v ∧ v ≤ 1) (k : Nat) (hk : k < s.length) :
    s.getD k 0 ≤ (bhSorted s).getD k 0 ∧
    (bhSorted s).getD k 0 ≤ (holmSorted s).getD k 0 ∧
    (holmSorted s).getD k 0 ≤ min (s.getD k 0 * (s.length : Rat)) 1 ∧
    min (s.getD k 0 * (s.length : Rat)) 1 ≤ 1 := by
  have h0 : ∀ v ∈ s, 0 ≤ v := fun v hv => (h01 v hv).1
  have hle1 : s.getD k 0 ≤ 1 := by
    rw [List.getD_eq_getElem _ _ hk]; exact (h01 _ (List.getElem_mem hk)).2
  obtain ⟨a1, j1, hj1, hj1', a2⟩ := bhSorted_spec s k hk
  obtain ⟨b1, j2, hj2, b2⟩ := holmSorted_spec s k hk
  refine ⟨?_, ?_, ?_, min_le_right _ _⟩
  · rw [a2]
    unfold bhRaw
    apply le_min _ hle1
    refine le_trans (sorted_getD_le s hs k j1 hj1 hj1') ?_
    have hn : (0:Rat) ≤ s.getD j1 0 := getD_nonneg s h0 j1
    have hpos : (0:Rat) < ((j1 + 1 : Nat) : Rat) := by positivity
    have : (1:Rat) ≤ (s.length : Rat) / ((j1 + 1 : Nat) : Rat) := by
      rw [le_div_iff₀ hpos, one_mul]
      exact_mod_cast (by omega : j1 + 1 ≤ s.length)
    calc s.getD j1 0 = s.getD j1 0 * 1 := (mul_one _).symm
      _ ≤ _ := mul_le_mul_of_nonneg_left this hn
  · refine le_trans (a1 k le_rfl hk) (le_trans ?_ (b1 k le_rfl))
    unfold bhRaw holmRaw
    apply min_le_min _ le_rfl
    apply mul_le_mul_of_nonneg_left _ (getD_nonneg s h0 k)
    have hpos : (0:Rat) < ((k + 1 : Nat) : Rat) := by positivity
    rw [div_le_iff₀ hpos]
    have : s.length ≤ (s.length - k) * (k + 1) := by
      obtain ⟨m, hm⟩ : ∃ m, s.length = k + 1 + m := ⟨s.length - (k+1), by omega⟩
      have e : s.length - k = m + 1 := by omega
      rw [e, hm]
      nlinarith
    exact_mod_cast this
  · rw [b2]
    unfold holmRaw
    apply min_le_min _ le_rfl
    apply mul_le_mul (sorted_getD_le s hs j2 k hj2 hk) _ (by positivity) (getD_nonneg s h0 k)
    exact_mod_cast (by omega : s.length - j2 ≤ s.length)


/-- adjust_p('holm-bonferroni') attaches the textbook values to the right hypotheses: the
    hypothesis in sorted position k receives holmSorted[k] -/
theorem holm_eq_spec (p : List Rat) (k : Nat) (hk : k < p.length) :
    (holm p).length = p.length ∧
    (holm p).getD ((argsortStable p).getD k 0) 0
      = (holmSorted ((argsortStable p).map (fun i => p.getD i 0))).getD k 0 := by
  have hlen : ((argsortStable p).map (fun i => p.getD i 0)).length = p.length := by
    rw [List.length_map, argsortStable_length]
  unfold holm holmSorted
  rw [hlen]
  constructor
  · rw [scatter_length, List.length_replicate]
  · apply scatter_getD _ _ _ (argsortStable_nodup p)
    · intro i hi; rw [List.length_replicate]; exact argsortStable_lt p i hi
    · rw [runMax_length, List.length_map, List.length_zipIdx, hlen, argsortStable_length]
    · rw [argsortStable_length]; exact hk

theorem bh_eq_spec (p : List Rat) (k : Nat) (hk : k < p.length) :
    (benjaminiHochberg p).length = p.length ∧
    (benjaminiHochberg p).getD ((argsortStable p).getD k 0) 0
      = (bhSorted ((argsortStable p).map (fun i => p.getD i 0))).getD k 0 := by
  have hlen : ((argsortStable p).map (fun i => p.getD i 0)).length = p.length := by
    rw [List.length_map, argsortStable_length]
  unfold benjaminiHochberg bhSorted
  rw [hlen]
  constructor
  · rw [scatter_length, List.length_replicate]
  · apply scatter_getD _ _ _ (argsortStable_nodup p)
    · intro i hi; rw [List.length_replicate]; exact argsortStable_lt p i hi
    · rw [List.length_reverse, runMin_length, List.length_reverse, List.length_map,
        List.length_zipIdx, hlen, argsortStable_length]
    · rw [argsortStable_length]; exact hk

/-- Bonferroni: min(1, n p_i) componentwise -/
theorem bonferroni_spec (p : List Rat) (i : Nat) (hi : i < p.length) :
    (bonferroni p).getD i 0 = min (p.getD i 0 * (p.length : Rat)) 1 := by
  unfold bonferroni
  exact getD_map_lt _ _ _ hi _ _

/-! ### C09: fwer_minp -/

theorem runMax_snoc (l : List Rat) (hl : l ≠ []) (a : Rat) :
    runMax (l ++ [a]) = runMax l ++ [max a ((runMax l).getD (l.length - 1) 0)] := by
  induction l with
  | nil => exact absurd rfl hl
  | cons b t ih =>
    cases t with
    | nil => simp [runMax, max_comm]
    | cons c t =>
      have := ih (by simp)
      simp only [List.cons_append] at this ⊢
      rw [runMax, this]
      have e1 : runMax (b :: c :: t) = b :: (runMax (c :: t)).map (max b) := rfl
      have e2 : (b :: c :: t).length - 1 = t.length + 1 := by simp
      have e3 : (c :: t).length - 1 = t.length := by simp
      have hXl : t.length < (runMax (c :: t)).length := by rw [runMax_length]; simp
      rw [e1, List.map_append, List.map_singleton, List.cons_append, e2, e3, List.getD_cons_succ,
        getD_map_lt _ _ _ hXl 0 0, max_left_comm]

/-- the step-down values in sorted order: npc of the nested column subsets, last = the largest raw
    p-value, then the running maximum -/
def fwerSorted (p : List Rat) (D : List (List Rat)) (order : List Nat) (comb : List Rat → Rat)
    (plus1 : Bool) : List Rat :=
  let pOrd := order.map (fun i => p.getD i 0)
  runMax (((List.range (p.length - 1)).map (fun jj =>
    unwrapD (npc (pOrd.drop jj) (selectCols D (order.drop jj)) comb plus1))) ++ [pOrd.getD (p.length - 1) 0])

theorem fwerSorted_length (p : List Rat) (D : List (List Rat)) (order : List Nat)
    (comb : List Rat → Rat) (plus1 : Bool) (h2 : 2 ≤ p.length) :
    (fwerSorted p D order comb plus1).length = p.length := by
  unfold fwerSorted
  simp only [runMax_length, List.length_append, List.length_map, List.length_range,
    List.length_singleton]
  omega

/-- fwer_minp returns, in the order the hypotheses were supplied, the step-down value of each
    hypothesis' sorted position -/
theorem fwer_attach (p : List Rat) (D : List (List Rat)) (order : List Nat) (comb : List Rat → Rat)
    (plus1 : Bool) (hperm : order.Perm (List.range p.length)) (h2 : 2 ≤ p.length)
    (hw : p.length = (D.headD []).length) :
    ∃ adj, fwerMinp p D order comb plus1 = .ok adj ∧ adj.length = p.length ∧
      ∀ k, k < p.length → adj.getD (order.getD k 0) 0 = (fwerSorted p D order comb plus1).getD k 0 := by
  have hol : order.length = p.length := by simpa using hperm.length_eq
  refine ⟨scatter (List.replicate p.length 0) order (fwerSorted p D order comb plus1), ?_, ?_, ?_⟩
  · unfold fwerMinp fwerSorted
    have h1 : ¬ p.length < 2 := by omega
    have h3 : (p.length != (D.headD []).length) = false := by rw [← hw]; simp
    simp only [h1, h3, if_false]
    rfl
  · rw [scatter_length, List.length_replicate]
  · intro k hk
    apply scatter_getD _ _ _ (hperm.nodup_iff.2 List.nodup_range)
    · intro i hi; rw [List.length_replicate]; exact List.mem_range.1 (hperm.mem_iff.1 hi)
    · rw [fwerSorted_length _ _ _ _ _ h2, hol]
    · rw [hol]; exact hk

theorem runMax_getD_zero (l : List Rat) : (runMax l).getD 0 0 = l.getD 0 0 := by
  cases l <;> rfl

/-- the hypothesis with the smallest raw p-value receives the NPC global p-value of all hypotheses -/
theorem fwer_first (p : List Rat) (D : List (List Rat)) (order : List Nat) (comb : List Rat → Rat)
    (plus1 : Bool) (h2 : 2 ≤ p.length) :
    (fwerSorted p D order comb plus1).getD 0 0
      = unwrapD (npc (order.map (fun i => p.getD i 0)) (selectCols D order) comb plus1) := by
  unfold fwerSorted
  simp only []
  rw [runMax_getD_zero, List.getD_append _ _ _ _ (by simp; omega),
    getD_map_lt _ _ _ (by simp; omega) 0 0]
  have : (List.range (p.length - 1)).getD 0 0 = 0 := by
    rw [List.getD_eq_getElem _ _ (by simp; omega)]; simp
  rw [this, List.drop_zero, List.drop_zero]

/-- the hypothesis with the largest raw p-value receives the maximum of its raw p-value and the
    previous adjusted value -/
theorem fwer_last (p : List Rat) (D : List (List Rat)) (order : List Nat) (comb : List Rat → Rat)
    (plus1 : Bool) (h2 : 2 ≤ p.length) (ho : order.length = p.length) :
    (fwerSorted p D order comb plus1).getD (p.length - 1) 0
      = max ((order.map (fun i => p.getD i 0)).getD (p.length - 1) 0)
            ((fwerSorted p D order comb plus1).getD (p.length - 2) 0) := by
  unfold fwerSorted
  simp only []
  set L := (List.range (p.length - 1)).map (fun jj =>
    unwrapD (npc ((order.map (fun i => p.getD i 0)).drop jj) (selectCols D (order.drop jj)) comb plus1))
    with hL
  have hLl : L.length = p.length - 1 := by simp [hL]
  have hne : L ≠ [] := by
    intro h; rw [h] at hLl; simp at hLl; omega
  rw [runMax_snoc L hne]
  rw [List.getD_append_right _ _ _ _ (by rw [runMax_length, hLl]),
    List.getD_append _ _ _ _ (by rw [runMax_length, hLl]; omega), runMax_length, hLl,
    Nat.sub_self, List.getD_cons_zero]
  rfl

/-- adjusted p-values are non-decreasing in the raw p-values -/
theorem fwer_sorted_mono (p : List Rat) (D : List (List Rat)) (order : List Nat)
    (comb : List Rat → Rat) (plus1 : Bool) :
    List.Pairwise (· ≤ ·) (fwerSorted p D order comb plus1) :=
  runMax_sorted _

/-- too few hypotheses / shape mismatch are rejected -/
theorem fwer_rejects (p : List Rat) (D : List (List Rat)) (order : List Nat) (comb : List Rat → Rat)
    (plus1 : Bool) (h : p.length < 2 ∨ p.length ≠ (D.headD []).length) :
    fwerMinp p D order comb plus1 = .valueError := by
  unfold fwerMinp
  rcases h with h | h
  · simp only [h, if_true]
  · have h3 : (p.length != (D.headD []).length) = true := by simpa using h
    simp only [h3, if_true]
    split <;> rfl

/-- non-vacuity: ties — the input on which the unrepaired code was anti-conservative -/
example : holm [1/100, 1/100, 1/2] = [3/100, 3/100, 1/2] := by decide +kernel
example : benjaminiHochberg [1/100, 1/100, 1/2] = [3/200, 3/200, 1/2] := by decide +kernel

end PV.Adjust