/-
  Props/Shuffle.lean — C03 (admissible rearrangements), C04 (uniformity of the randomisation
  primitives), C06 (rearrangements depend on draws and sizes only).
  Statements are fixed; only proofs (and helper lemmas above them) may change.
-/
import PermuteVerif.Model.Shuffle
import PermuteVerif.Model.Tests
import Mathlib.Data.List.Perm.Basic
import Mathlib.Data.List.Nodup
import Mathlib.Data.List.Permutation
import Mathlib.Data.List.Forall2
import Mathlib.Data.Nat.Factorial.Basic
import Mathlib.Tactic.Linarith
namespace PV.Shuffle
/-! ### helper lemmas -/

theorem cons_set_perm {α : Type} (x : α) (xs : List α) (k : Nat) (hk : k < xs.length) :
    (xs[k] :: xs.set k x).Perm (x :: xs) := by
  rw [List.set_eq_take_append_cons_drop]
  simp only [hk, if_true]
  have : xs = xs.take k ++ xs[k] :: xs.drop (k+1) := by simp
  conv_rhs => rw [this]
  exact ((List.perm_middle.cons _).trans (List.Perm.swap ..)).trans (List.perm_middle.symm.cons x)

theorem fy_perm_aux {α : Type} : ∀ (l : List α) (cs : List Nat), (fy l cs).Perm l
  | [], cs => by simp [fy]
  | x :: xs, [] => by simp [fy]
  | x :: xs, 0 :: cs => by
      simp only [fy]; exact (fy_perm_aux xs cs).cons x
  | x :: xs, (k+1) :: cs => by
      simp only [fy]
      cases h : xs[k]? with
      | none => simp only []; exact (fy_perm_aux xs cs).cons x
      | some y =>
        simp only []
        obtain ⟨hk, hy⟩ := List.getElem?_eq_some_iff.mp h
        have h1 : (fy (xs.set k x) cs).Perm (xs.set k x) := fy_perm_aux _ cs
        exact (h1.cons y).trans (hy ▸ cons_set_perm x xs k hk)
termination_by _ cs => cs.length

theorem fy_exists_aux {α : Type} : ∀ (l t : List α), l.Nodup → t.Perm l →
    ∃ cs, ValidC l.length cs ∧ fy l cs = t
  | [], t, _, hp => ⟨[], by simp [ValidC], by simp [fy, hp.eq_nil]⟩
  | x :: xs, t, hnd, hp => by
      cases t with
      | nil => exact absurd hp.symm.eq_nil (by simp)
      | cons y t' =>
        have hy : y ∈ x :: xs := hp.subset (List.mem_cons_self ..)
        rcases List.mem_cons.mp hy with rfl | hyx
        · have hp' : t'.Perm xs := (List.perm_cons y).mp hp
          obtain ⟨cs, hv, hf⟩ := fy_exists_aux xs t' (List.nodup_cons.mp hnd).2 hp'
          exact ⟨0 :: cs, ⟨by simp, hv⟩, by simp [fy, hf]⟩
        · obtain ⟨k, hk, hyk⟩ := List.getElem_of_mem hyx
          have hnd' : (xs.set k x).Nodup :=
            (List.nodup_cons.mp hnd).2.set (List.nodup_cons.mp hnd).1
          have hp' : t'.Perm (xs.set k x) := by
            have h2 := cons_set_perm x xs k hk
            rw [hyk] at h2
            exact (List.perm_cons y).mp (hp.trans h2.symm)
          obtain ⟨cs, hv, hf⟩ := fy_exists_aux (xs.set k x) t' hnd' hp'
          refine ⟨(k+1) :: cs, ⟨by simp; omega, by simpa using hv⟩, ?_⟩
          simp [fy, List.getElem?_eq_getElem hk, hyk, hf]
termination_by l => l.length

theorem fy_cons_zero {α : Type} (x : α) (xs : List α) (cs : List Nat) :
    fy (x :: xs) (0 :: cs) = x :: fy xs cs := by simp [fy]

theorem fy_cons_succ {α : Type} (x : α) (xs : List α) (k : Nat) (cs : List Nat)
    (hk : k < xs.length) :
    fy (x :: xs) ((k+1) :: cs) = xs[k] :: fy (xs.set k x) cs := by
  simp [fy, List.getElem?_eq_getElem hk]

theorem fy_cons_succ_none {α : Type} (x : α) (xs : List α) (k : Nat) (cs : List Nat)
    (hk : xs.length ≤ k) :
    fy (x :: xs) ((k+1) :: cs) = x :: fy xs cs := by
  simp [fy, List.getElem?_eq_none hk]

theorem fy_map_aux {α β : Type} (f : α → β) : ∀ (l : List α) (cs : List Nat),
    fy (l.map f) cs = (fy l cs).map f
  | [], cs => by simp [fy]
  | x :: xs, [] => by simp [fy]
  | x :: xs, 0 :: cs => by
      rw [List.map_cons, fy_cons_zero, fy_cons_zero, List.map_cons, fy_map_aux f xs cs]
  | x :: xs, (k+1) :: cs => by
      rw [List.map_cons]
      by_cases hk : k < xs.length
      · rw [fy_cons_succ _ _ _ _ (by simpa using hk), fy_cons_succ _ _ _ _ hk, List.map_cons,
          ← fy_map_aux f (xs.set k x) cs]
        simp [List.map_set]
      · have hk' : xs.length ≤ k := Nat.le_of_not_lt hk
        rw [fy_cons_succ_none _ _ _ _ (by simpa using hk'), fy_cons_succ_none _ _ _ _ hk',
          List.map_cons, fy_map_aux f xs cs]
termination_by _ cs => cs.length

theorem fy_inj_aux {α : Type} : ∀ (n : Nat) (l : List α), l.length = n → l.Nodup →
    ∀ (cs cs' : List Nat), ValidC n cs → ValidC n cs' → fy l cs = fy l cs' → cs = cs' := by
  intro n
  induction n with
  | zero =>
    intro l _ _ cs cs' h h' _
    simp only [ValidC] at h h'
    rw [h, h']
  | succ n ih =>
    intro l hl hnd cs cs' h h' e
    cases l with
    | nil => simp at hl
    | cons x xs =>
    have hlen : xs.length = n := by simpa using hl
    obtain ⟨hx, hxs⟩ := List.nodup_cons.mp hnd
    cases cs with
    | nil => simp [ValidC] at h
    | cons c cs =>
    cases cs' with
    | nil => simp [ValidC] at h'
    | cons c' cs' =>
    simp only [ValidC] at h h'
    obtain ⟨hc, hv⟩ := h
    obtain ⟨hc', hv'⟩ := h'
    cases c with
    | zero =>
      cases c' with
      | zero =>
        rw [fy_cons_zero, fy_cons_zero] at e
        rw [ih xs hlen hxs cs cs' hv hv' (List.cons.inj e).2]
      | succ k' =>
        have hk' : k' < xs.length := by omega
        rw [fy_cons_zero, fy_cons_succ _ _ _ _ hk'] at e
        exact absurd ((List.cons.inj e).1 ▸ List.getElem_mem hk') hx
    | succ k =>
      have hk : k < xs.length := by omega
      cases c' with
      | zero =>
        rw [fy_cons_zero, fy_cons_succ _ _ _ _ hk] at e
        exact absurd ((List.cons.inj e).1.symm ▸ List.getElem_mem hk) hx
      | succ k' =>
        have hk' : k' < xs.length := by omega
        rw [fy_cons_succ _ _ _ _ hk, fy_cons_succ _ _ _ _ hk'] at e
        obtain ⟨e1, e2⟩ := List.cons.inj e
        have hkk : k = k' := (hxs.getElem_inj_iff).mp e1
        subst hkk
        have hnd' : (xs.set k x).Nodup := hxs.set hx
        have hl' : (xs.set k x).length = n := by rw [List.length_set]; exact hlen
        rw [ih _ hl' hnd' cs cs' hv hv' e2]

theorem range_map_getD {α : Type} (l : List α) (d : α) :
    (List.range l.length).map (fun i => l.getD i d) = l := by
  apply List.ext_getElem
  · simp
  · intro i h1 h2
    simp at h1
    simp [h1]

/-- `fy` on a list of length ≤ m+1 ignores all offsets after the first m -/
theorem fy_take {α : Type} (cs : List Nat) : ∀ (l : List α) (m : Nat), l.length ≤ m + 1 →
    fy l (cs.take m) = fy l cs := by
  induction cs with
  | nil => intro l m _; simp
  | cons c cs ih =>
    intro l m hl
    cases l with
    | nil => simp [fy]
    | cons x xs =>
    cases m with
    | zero =>
      have hxs : xs = [] := by
        simp at hl; exact hl
      subst hxs
      cases c with
      | zero => simp [fy]
      | succ k => simp [fy]
    | succ m =>
      have hl' : xs.length ≤ m + 1 := by simpa using hl
      rw [List.take_succ_cons]
      cases c with
      | zero => rw [fy_cons_zero, fy_cons_zero, ih xs m hl']
      | succ k =>
        by_cases hk : k < xs.length
        · rw [fy_cons_succ _ _ _ _ hk, fy_cons_succ _ _ _ _ hk, ih _ m (by simpa using hl')]
        · have hk' : xs.length ≤ k := Nat.le_of_not_lt hk
          rw [fy_cons_succ_none _ _ _ _ hk', fy_cons_succ_none _ _ _ _ hk', ih xs m hl']

theorem validC_iff (n : Nat) (cs : List Nat) :
    ValidC n cs ↔ cs.length = n ∧ ∀ t (h : t < cs.length), cs[t] < n - t := by
  induction n generalizing cs with
  | zero =>
    simp only [ValidC]
    constructor
    · rintro rfl; simp
    · rintro ⟨h, _⟩; exact List.eq_nil_of_length_eq_zero h
  | succ n ih =>
    cases cs with
    | nil => simp [ValidC]
    | cons c cs =>
      simp only [ValidC, ih, List.length_cons, Nat.add_right_cancel_iff]
      constructor
      · rintro ⟨hc, hl, hg⟩
        refine ⟨hl, ?_⟩
        intro t ht
        cases t with
        | zero => simpa using hc
        | succ t =>
          have := hg t (by omega)
          simp only [List.getElem_cons_succ]
          omega
      · rintro ⟨hl, hg⟩
        refine ⟨by simpa using hg 0 (by omega), hl, ?_⟩
        intro t ht
        have := hg (t+1) (by omega)
        simp only [List.getElem_cons_succ] at this
        omega

theorem pyOffsets_length (n : Nat) (js : List Nat) : (pyOffsets n js).length = js.length := by
  simp [pyOffsets]

theorem pyOffsets_getElem (n : Nat) (js : List Nat) (t : Nat) (h : t < (pyOffsets n js).length) :
    (pyOffsets n js)[t] = (n - 1 - t) - js[t]'(by rwa [pyOffsets_length] at h) := by
  simp [pyOffsets]

theorem pyOffsets_invol (n : Nat) (ds : List Nat)
    (hd : ∀ t (h : t < ds.length), ds[t] ≤ n - 1 - t) : pyOffsets n (pyOffsets n ds) = ds := by
  apply List.ext_getElem
  · simp [pyOffsets_length]
  · intro t h1 h2
    rw [pyOffsets_getElem, pyOffsets_getElem]
    have := hd t h2
    omega

theorem validC_take_bound (n : Nat) (cs : List Nat) (hv : ValidC n cs) :
    ∀ t (h : t < (cs.take (n - 1)).length), (cs.take (n - 1))[t] ≤ n - 1 - t := by
  intro t h
  obtain ⟨_, hg⟩ := (validC_iff n cs).mp hv
  rw [List.getElem_take]
  have := hg t (by simp at h; omega)
  omega

/-! ### forward Fisher–Yates (`permute`, `permute_within_groups`, `permute_rows`) -/

/-- C03: for every offset vector the output is a rearrangement of the input -/
theorem fy_perm {α : Type} (l : List α) (cs : List Nat) : (fy l cs).Perm l :=
  fy_perm_aux l cs

theorem fy_length {α : Type} (l : List α) (cs : List Nat) : (fy l cs).length = l.length :=
  (fy_perm l cs).length_eq

/-- C06: the rearrangement acts on positions, not on values -/
theorem fy_map {α β : Type} (f : α → β) (l : List α) (cs : List Nat) :
    fy (l.map f) cs = (fy l cs).map f :=
  fy_map_aux f l cs

/-- C04 (existence): every rearrangement of a duplicate-free list is produced by a valid vector -/
theorem fy_exists {α : Type} (l t : List α) (hnd : l.Nodup) (hp : t.Perm l) :
    ∃ cs, ValidC l.length cs ∧ fy l cs = t :=
  fy_exists_aux l t hnd hp

/-- C04 (uniqueness): … by exactly one -/
theorem fy_inj {α : Type} (l : List α) (hnd : l.Nodup) (cs cs' : List Nat)
    (h : ValidC l.length cs) (h' : ValidC l.length cs') (e : fy l cs = fy l cs') : cs = cs' := by
  exact fy_inj_aux l.length l rfl hnd cs cs' h h' e

theorem mem_allValidC (n : Nat) (cs : List Nat) : cs ∈ allValidC n ↔ ValidC n cs := by
  induction n generalizing cs with
  | zero => simp [allValidC, ValidC]
  | succ n ih =>
    cases cs with
    | nil => simp [allValidC, ValidC]
    | cons c cs => simp [allValidC, ValidC, ih]

theorem allValidC_nodup (n : Nat) : (allValidC n).Nodup := by
  induction n with
  | zero => simp [allValidC]
  | succ n ih =>
    rw [allValidC, List.nodup_flatMap]
    refine ⟨fun c _ => ih.map (fun a b h => (List.cons.inj h).2), ?_⟩
    refine List.Nodup.pairwise_of_forall_ne List.nodup_range ?_
    intro a _ b _ hab l hl1 hl2
    simp only [List.mem_map] at hl1 hl2
    obtain ⟨u, _, rfl⟩ := hl1
    obtain ⟨v, _, hv⟩ := hl2
    exact hab (List.cons.inj hv).1.symm

theorem allValidC_length (n : Nat) : (allValidC n).length = n.factorial := by
  induction n with
  | zero => simp [allValidC]
  | succ n ih =>
    rw [allValidC, List.length_flatMap]
    simp [ih, Nat.factorial_succ]

/-- C04: the map from valid offset vectors to rearrangements is a bijection onto all n! orders,
    i.e. independent uniform offsets give a uniform random permutation -/
theorem fy_uniform {α : Type} (l : List α) (hnd : l.Nodup) :
    ((allValidC l.length).map (fy l)).Perm l.permutations := by
  have h1 : ((allValidC l.length).map (fy l)).Nodup := by
    refine List.Nodup.map_on ?_ (allValidC_nodup _)
    intro cs hcs cs' hcs' e
    exact fy_inj l hnd cs cs' ((mem_allValidC _ _).mp hcs) ((mem_allValidC _ _).mp hcs') e
  have h2 : l.permutations.Nodup := List.nodup_permutations l hnd
  rw [List.perm_ext_iff_of_nodup h1 h2]
  intro t
  rw [List.mem_permutations, List.mem_map]
  constructor
  · rintro ⟨cs, _, rfl⟩
    exact fy_perm l cs
  · intro hp
    obtain ⟨cs, hv, hf⟩ := fy_exists l t hnd hp
    exact ⟨cs, (mem_allValidC _ _).mpr hv, hf⟩

/-- counting form used by C01/C02: hits among offset vectors = hits among permutations -/
theorem fy_count_transfer {α : Type} (l : List α) (hnd : l.Nodup) (P : List α → Bool) :
    (allValidC l.length).countP (fun cs => P (fy l cs)) = l.permutations.countP P := by
  rw [← (fy_uniform l hnd).countP_eq P, List.countP_map]
  rfl

/-! ### CPython shuffle (`two_sample_core`) -/

/-- valid `j` draws for a list of length n: n−1 draws, the t-th at most n−1−t -/
def ValidJ (n : Nat) (js : List Nat) : Prop :=
  js.length = n - 1 ∧ ∀ t (h : t < js.length), js[t] ≤ n - 1 - t

/-- all valid draw vectors -/
def allValidJ (n : Nat) : List (List Nat) :=
  (allValidC n).map (fun cs => (cs.take (n - 1)).zipIdx.map (fun p => (n - 1 - p.2) - p.1))

theorem pyShuffle_perm {α : Type} (x : List α) (js : List Nat) : (pyShuffle x js).Perm x := by
  unfold pyShuffle
  exact (List.reverse_perm _).trans ((fy_perm _ _).trans (List.reverse_perm x))

theorem pyShuffle_length {α : Type} (x : List α) (js : List Nat) :
    (pyShuffle x js).length = x.length :=
  (pyShuffle_perm x js).length_eq

theorem pyShuffle_map {α β : Type} (f : α → β) (x : List α) (js : List Nat) :
    pyShuffle (x.map f) js = (pyShuffle x js).map f := by
  unfold pyShuffle
  rw [List.length_map, ← List.map_reverse, fy_map, List.map_reverse]

theorem mem_allValidJ (n : Nat) (js : List Nat) : js ∈ allValidJ n ↔ ValidJ n js := by
  have hdef : allValidJ n = (allValidC n).map (fun cs => pyOffsets n (cs.take (n - 1))) := rfl
  rw [hdef, List.mem_map]
  constructor
  · rintro ⟨cs, hcs, rfl⟩
    have hv := (mem_allValidC n cs).mp hcs
    obtain ⟨hl, _⟩ := (validC_iff n cs).mp hv
    refine ⟨by simp [pyOffsets_length, hl], ?_⟩
    intro t ht
    rw [pyOffsets_getElem]
    omega
  · rintro ⟨hl, hg⟩
    refine ⟨(List.range n).map (fun t => (n - 1 - t) - js.getD t 0), ?_, ?_⟩
    · rw [mem_allValidC, validC_iff]
      refine ⟨by simp, ?_⟩
      intro t ht
      simp only [List.length_map, List.length_range] at ht
      simp only [List.getElem_map, List.getElem_range]
      omega
    · apply List.ext_getElem
      · simp [pyOffsets_length, hl]
      · intro t h1 h2
        have := hg t h2
        rw [pyOffsets_getElem, List.getElem_take]
        simp only [List.getElem_map, List.getElem_range]
        have hget : js.getD t 0 = js[t] := by simp [h2]
        rw [hget]
        omega

/-- C04: from **any** starting order (in particular the list persisting between repetitions) the
    valid draw vectors map bijectively onto all orders -/
theorem pyShuffle_uniform {α : Type} (x : List α) (hnd : x.Nodup) :
    ((allValidJ x.length).map (pyShuffle x)).Perm x.permutations := by
  have hdef : allValidJ x.length
      = (allValidC x.length).map (fun cs => pyOffsets x.length (cs.take (x.length - 1))) := rfl
  have e1 : (allValidJ x.length).map (pyShuffle x)
      = ((allValidC x.reverse.length).map (fy x.reverse)).map List.reverse := by
    rw [hdef, List.length_reverse, List.map_map, List.map_map]
    apply List.map_congr_left
    intro cs hcs
    have hv := (mem_allValidC _ cs).mp hcs
    simp only [Function.comp, pyShuffle]
    rw [pyOffsets_invol _ _ (validC_take_bound _ cs hv),
      fy_take cs x.reverse (x.length - 1) (by simp; omega)]
  rw [e1]
  refine ((fy_uniform x.reverse (List.nodup_reverse.mpr hnd)).map List.reverse).trans ?_
  have h1 : (x.reverse.permutations.map List.reverse).Nodup :=
    (List.nodup_permutations _ (List.nodup_reverse.mpr hnd)).map List.reverse_injective
  have h2 : x.permutations.Nodup := List.nodup_permutations x hnd
  rw [List.perm_ext_iff_of_nodup h1 h2]
  intro t
  rw [List.mem_permutations, List.mem_map]
  constructor
  · rintro ⟨s, hs, rfl⟩
    rw [List.mem_permutations] at hs
    exact (List.reverse_perm s).trans (hs.trans (List.reverse_perm x))
  · intro ht
    refine ⟨t.reverse, ?_, List.reverse_reverse t⟩
    rw [List.mem_permutations]
    exact (List.reverse_perm t).trans (ht.trans (List.reverse_perm x).symm)

/-- every order seen by two_sample_core over the repetitions is a rearrangement of the start -/
theorem tsOrders_perm (rr : List Nat) (draws : List (List Nat)) :
    ∀ o ∈ tsOrders rr draws, o.Perm rr := by
  induction draws generalizing rr with
  | nil => simp [tsOrders]
  | cons js rest ih =>
    intro o ho
    simp only [tsOrders, List.mem_cons] at ho
    rcases ho with rfl | ho
    · exact pyShuffle_perm rr js
    · exact (ih _ o ho).trans (pyShuffle_perm rr js)

/-! ### the two-sample design (C03) and shared rearrangements (C06) -/

/-- every pair of arrays handed to the statistic: first sample nx values, second ny values,
    together a rearrangement of the pooled data -/
theorem two_sample_rearr (x y : List Rat) (stat : List Rat → List Rat → Rat) (alt : Alt)
    (plus1 : Bool) (draws : List (List Nat)) :
    ∀ a ∈ (twoSample x y stat alt plus1 draws).args,
      a.1.length = x.length ∧ a.2.length = y.length ∧ (a.1 ++ a.2).Perm (x ++ y) := by
  intro a ha
  simp only [twoSample, twoSampleCore, List.mem_map] at ha
  obtain ⟨o, ho, rfl⟩ := ha
  have hperm := tsOrders_perm _ _ o ho
  set table := twoSampleTable x y with htable
  have hpp : (o.map (fun i => table.getD i (0, 0))).Perm table :=
    (hperm.map _).trans (by rw [range_map_getD])
  set pp := o.map (fun i => table.getD i (0, 0)) with hppdef
  have hlen : pp.length = x.length + y.length := by
    rw [hpp.length_eq, htable, twoSampleTable]; simp
  have hfs : ∀ q ∈ pp, q.2 = q.1 := by
    intro q hq
    have : q ∈ table := hpp.subset hq
    rw [htable, twoSampleTable, List.mem_map] at this
    obtain ⟨v, _, rfl⟩ := this
    rfl
  have hsnd : (pp.drop x.length).map Prod.snd = (pp.drop x.length).map Prod.fst :=
    List.map_congr_left (fun q hq => hfs q (List.mem_of_mem_drop hq))
  simp only [tsArgs]
  rw [← hppdef, hsnd]
  refine ⟨by simp [hlen], by simp [hlen], ?_⟩
  rw [← List.map_append, List.take_append_drop]
  refine (hpp.map Prod.fst).trans ?_
  rw [htable, twoSampleTable, List.map_map]
  have : (Prod.fst ∘ fun v : Rat => (v, v)) = id := rfl
  rw [this, List.map_id]

/-- the index orders do not depend on the data values or the statistic -/
theorem two_sample_shared_orders (x y x' y' : List Rat) (hx : x.length = x'.length)
    (hy : y.length = y'.length) (stat stat' : List Rat → List Rat → Rat) (alt alt' : Alt)
    (plus1 plus1' : Bool) (draws : List (List Nat)) :
    ∃ orders : List (List Nat),
      (twoSample x y stat alt plus1 draws).args = orders.map (tsArgs (twoSampleTable x y) x.length) ∧
      (twoSample x' y' stat' alt' plus1' draws).args = orders.map (tsArgs (twoSampleTable x' y') x'.length) := by
  refine ⟨tsOrders (List.range (x.length + y.length)) draws, ?_, ?_⟩
  · simp [twoSample, twoSampleCore, twoSampleTable]
  · simp [twoSample, twoSampleCore, twoSampleTable, hx, hy]

/-- non-vacuity -/
example : fy [10, 20, 30] [2, 0, 0] = [30, 20, 10] := by decide
example : pyShuffle [0, 1, 2, 3] [3, 1, 0] = [2, 0, 1, 3] := by decide
example : ValidC 3 [2, 0, 0] := by decide

end PV.Shuffle