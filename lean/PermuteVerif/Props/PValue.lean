/-
  Props/PValue.lean — C05 (p-value, statistic and distribution are mutually consistent), and the
  counting halves of C01 / C02 (p = (H + c)/(reps + c); H binomial).
  Statements are fixed; only proofs (and helper lemmas above them) may change.
-/
import PermuteVerif.Model.Tests
import Mathlib.Data.List.Basic
import Mathlib.Data.List.Count
import Mathlib.Data.Nat.Choose.Basic
import Mathlib.Tactic.Linarith
import Mathlib.Tactic.Positivity
import Mathlib.Tactic.FieldSimp
import Mathlib.Tactic.Ring
import Mathlib.Algebra.Order.Field.Rat
namespace PV.PValue
/-! ### the p-value formulas -/

theorem cntGe_le_length (d : List Rat) (t : Rat) : cntGe d t ≤ d.length := by
  unfold cntGe; exact List.countP_le_length

theorem cntLe_le_length (d : List Rat) (t : Rat) : cntLe d t ≤ d.length := by
  unfold cntLe; exact List.countP_le_length

/-- every simulated value is on at least one side of the observed one -/
theorem cnt_cover (d : List Rat) (t : Rat) : d.length ≤ cntGe d t + cntLe d t := by
  unfold cntGe cntLe
  induction d with
  | nil => simp
  | cons a l ih =>
    simp only [List.countP_cons, List.length_cons]
    rcases le_total t a with h | h
    · simp [h]; split <;> omega
    · simp [h]; split <;> omega

/-- core formula, 'greater': (H_up + c)/(reps + c) -/
theorem corePValue_greater (plus1 : Bool) (reps up dn : Nat) :
    corePValue .greater plus1 reps up dn = ((up : Rat) + (c1 plus1 : Nat)) / ((reps : Rat) + (c1 plus1 : Nat)) := by
  simp only [corePValue, add_div]

/-- core formula, 'less': (H_dn + c)/(reps + c) -/
theorem corePValue_less (plus1 : Bool) (reps up dn : Nat) :
    corePValue .less plus1 reps up dn = ((dn : Rat) + (c1 plus1 : Nat)) / ((reps : Rat) + (c1 plus1 : Nat)) := by
  simp only [corePValue, add_div]

theorem two_mul_min_half (m : Rat) : 2 * min (1/2) m = min 1 (2 * m) := by
  rcases le_total (1/2) m with h | h
  · rw [min_eq_left h, min_eq_left (by linarith)]; norm_num
  · rw [min_eq_right h, min_eq_right (by linarith)]

/-- core formula, 'two-sided': min(1, 2·min(lower, upper)) -/
theorem corePValue_twoSided (plus1 : Bool) (reps up dn : Nat) :
    corePValue .twoSided plus1 reps up dn
      = min 1 (2 * min (corePValue .less plus1 reps up dn) (corePValue .greater plus1 reps up dn)) := by
  simp only [corePValue]
  rw [two_mul_min_half, min_comm (_ + _)]

/-- corr's formula agrees with the core formula -/
theorem corrPValue_eq_core (alt : Alt) (plus1 : Bool) (reps up dn : Nat) :
    corrPValue alt plus1 reps up dn = corePValue alt plus1 reps up dn := by
  cases alt
  · rw [corePValue_greater]; simp only [corrPValue]
  · rw [corePValue_less]; simp only [corrPValue]
  · rw [corePValue_twoSided, corePValue_greater, corePValue_less]; simp only [corrPValue]

/-- k_sample / irr formula is the 'greater' core formula -/
theorem upperPValue_eq_core (plus1 : Bool) (reps up dn : Nat) :
    upperPValue plus1 reps up = corePValue .greater plus1 reps up dn := by
  rw [corePValue_greater]; simp only [upperPValue, add_comm]

theorem frac_bounds (c : Rat) (reps k : Nat) (hpos : 0 < (reps : Rat) + c) (hk : k ≤ reps) :
    c / ((reps : Rat) + c) ≤ ((k : Rat) + c) / ((reps : Rat) + c) ∧ ((k : Rat) + c) / ((reps : Rat) + c) ≤ 1 := by
  have hk' : (k : Rat) ≤ reps := by exact_mod_cast hk
  have hk0 : (0 : Rat) ≤ k := by positivity
  constructor
  · apply div_le_div_of_nonneg_right _ hpos.le; linarith
  · rw [div_le_one hpos]; linarith

theorem corePValue_bounds_gen (alt : Alt) (plus1 : Bool) (reps up dn : Nat) 
    (hpos : 0 < (reps : Rat) + (c1 plus1 : Nat)) (hu : up ≤ reps) (hd : dn ≤ reps) :
    ((c1 plus1 : Nat) : Rat) / ((reps : Rat) + (c1 plus1 : Nat)) ≤ corePValue alt plus1 reps up dn ∧ corePValue alt plus1 reps up dn ≤ 1 := by
  have hc : (0 : Rat) ≤ (c1 plus1 : Nat) := by positivity
  have hU := frac_bounds _ reps up hpos hu
  have hD := frac_bounds _ reps dn hpos hd
  have hle1 : ((c1 plus1 : Nat) : Rat) / ((reps : Rat) + (c1 plus1 : Nat)) ≤ 1 := by
    rw [div_le_one hpos]
    have : (0 : Rat) ≤ reps := by positivity
    linarith
  cases alt
  · rw [corePValue_greater]; exact hU
  · rw [corePValue_less]; exact hD
  · rw [corePValue_twoSided, corePValue_greater, corePValue_less]
    refine ⟨?_, min_le_left _ _⟩
    apply le_min hle1
    have : ((c1 plus1 : Nat) : Rat) / ((reps : Rat) + (c1 plus1 : Nat)) ≤ min (((dn : Rat) + (c1 plus1 : Nat)) / ((reps : Rat) + (c1 plus1 : Nat))) (((up : Rat) + (c1 plus1 : Nat)) / ((reps : Rat) + (c1 plus1 : Nat))) := le_min hD.1 hU.1
    have h0 : (0 : Rat) ≤ ((c1 plus1 : Nat) : Rat) / ((reps : Rat) + (c1 plus1 : Nat)) := div_nonneg hc hpos.le
    linarith

/-- with plus1 a permutation p-value is never 0: 1/(reps+1) ≤ p ≤ 1 -/
theorem corePValue_bounds_plus1 (alt : Alt) (reps up dn : Nat) (hu : up ≤ reps) (hd : dn ≤ reps) :
    1 / ((reps : Rat) + 1) ≤ corePValue alt true reps up dn ∧ corePValue alt true reps up dn ≤ 1 := by
  have hpos : 0 < (reps : Rat) + (c1 true : Nat) := by
    have : (0 : Rat) ≤ reps := by positivity
    simp [c1]; linarith
  have := corePValue_bounds_gen alt true reps up dn hpos hu hd
  simpa [c1] using this

/-- without plus1: 0 ≤ p ≤ 1 (reps ≥ 1) -/
theorem corePValue_bounds (alt : Alt) (reps up dn : Nat) (hr : 1 ≤ reps) (hu : up ≤ reps) (hd : dn ≤ reps) :
    0 ≤ corePValue alt false reps up dn ∧ corePValue alt false reps up dn ≤ 1 := by
  have hpos : 0 < (reps : Rat) + (c1 false : Nat) := by
    have : (1 : Rat) ≤ reps := by exact_mod_cast hr
    simp [c1]; linarith
  have := corePValue_bounds_gen alt false reps up dn hpos hu hd
  simpa [c1] using this

/-! ### call sites: the returned p-value is the formula applied to the returned distribution -/

theorem tsOrders_length (rr : List Nat) (draws : List (List Nat)) :
    (tsOrders rr draws).length = draws.length := by
  induction draws generalizing rr with
  | nil => rfl
  | cons js rest ih => simp [tsOrders, ih]

theorem tsDistMatrices_length (r : List (List Nat)) (draws : List (List (List Nat))) :
    (tsDistMatrices r draws).length = draws.length := by
  induction draws generalizing r with
  | nil => rfl
  | cons js rest ih => simp [tsDistMatrices, ih]

theorem range_map_getD {α : Type} (l : List α) (d : α) :
    (List.range l.length).map (fun i => l.getD i d) = l := by
  apply List.ext_getElem
  · simp
  · intro i h1 h2
    simp [List.getElem?_eq_getElem h2]

theorem twoSampleCore_consistent (table : List (Rat × Rat)) (nx : Nat)
    (stat : List Rat → List Rat → Rat) (alt : Alt) (plus1 : Bool) (draws : List (List Nat)) :
    let o := twoSampleCore table nx stat alt plus1 draws
    o.p = corePValue alt plus1 draws.length (cntGe o.dist o.obs) (cntLe o.dist o.obs) ∧
    o.dist.length = draws.length ∧
    o.obs = stat ((table.take nx).map Prod.fst) ((table.drop nx).map Prod.snd) := by
  refine ⟨rfl, ?_, ?_⟩
  · simp [twoSampleCore, tsOrders_length]
  · simp only [twoSampleCore, tsArgs, range_map_getD]

theorem oneSample_consistent (z : List Rat) (stat : List Rat → Rat) (alt : Alt) (plus1 : Bool)
    (draws : List (List Nat)) :
    let o := oneSample z stat alt plus1 draws
    o.p = corePValue alt plus1 draws.length (cntGe o.dist o.obs) (cntLe o.dist o.obs) ∧
    o.dist.length = draws.length ∧ o.obs = stat z := by
  refine ⟨rfl, ?_, rfl⟩
  simp [oneSample]

theorem corrTest_consistent (x y : List Rat) (stat : List Rat → List Rat → Rat) (alt : Alt)
    (plus1 : Bool) (draws : List (List Nat)) :
    let o := corrTest x y stat alt plus1 draws
    o.p = corePValue alt plus1 draws.length (cntGe o.dist o.obs) (cntLe o.dist o.obs) ∧
    o.dist.length = draws.length ∧ o.obs = stat x y := by
  refine ⟨?_, ?_, rfl⟩
  · simp only [corrTest, corrPValue_eq_core]
  · simp [corrTest]

theorem kSample_consistent (x : List Rat) (group : List Int) (stat : List Rat → List Int → Rat → Rat)
    (plus1 : Bool) (draws : List (List Nat)) :
    let o := kSample x group stat plus1 draws
    o.p = corePValue .greater plus1 draws.length (cntGe o.dist o.obs) (cntLe o.dist o.obs) ∧
    o.dist.length = draws.length ∧ o.obs = stat x group (mean x) := by
  refine ⟨?_, ?_, rfl⟩
  · simp only [kSample]; exact upperPValue_eq_core _ _ _ _
  · simp [kSample]

theorem bivariate_consistent (x : List Rat) (g1 g2 : List Int)
    (stat : List Rat → List Int → List Int → Rat → Rat) (plus1 : Bool) (draws : List (List (List Nat))) :
    let o := bivariateKSample x g1 g2 stat plus1 draws
    o.p = corePValue .greater plus1 draws.length (cntGe o.dist o.obs) (cntLe o.dist o.obs) ∧
    o.dist.length = draws.length ∧ o.obs = stat x g1 g2 (mean x) := by
  refine ⟨?_, ?_, rfl⟩
  · simp only [bivariateKSample]; exact upperPValue_eq_core _ _ _ _
  · simp [bivariateKSample]

theorem stratTwoSample_consistent (group : List Int) (response : List Rat) (stat : List Rat → Rat)
    (alt : Alt) (plus1 : Bool) (draws : List (List (List Nat))) :
    let o := (stratTwoSample group response stat alt plus1 draws).1
    o.p = corePValue alt plus1 draws.length (cntGe o.dist o.obs) (cntLe o.dist o.obs) ∧
    o.dist.length = draws.length ∧ o.obs = stat response := by
  refine ⟨rfl, ?_, rfl⟩
  simp [stratTwoSample]

theorem simulateTsDist_consistent (m : List (List Nat)) (t : Option Rat) (plus1 : Bool)
    (draws : List (List (List Nat))) :
    let o := simulateTsDist m t plus1 draws
    o.p = corePValue .greater plus1 draws.length o.geq (cntLe o.dist o.obs) ∧
    o.geq = cntGe o.dist o.obs ∧ o.dist.length = draws.length := by
  refine ⟨?_, rfl, ?_⟩
  · simp only [simulateTsDist]; exact upperPValue_eq_core _ _ _ _
  · simp [simulateTsDist, tsDistMatrices_length]

/-! ### stratified call sites that derive every tail from the upper count (known finding D5) -/

/-- 'greater' is the correct upper-tail formula -/
theorem strat_greater_eq (plus1 : Bool) (reps up dn : Nat) :
    stratUpperOnlyPValue .greater plus1 reps up = corePValue .greater plus1 reps up dn := by
  rfl

/-- partial: `1 − upper` equals the lower-tail formula exactly when no simulated value ties the
    observed one and plus1 is off -/
theorem strat_less_partial (reps up dn : Nat) (hr : 1 ≤ reps) (hno_tie : up + dn = reps) :
    stratUpperOnlyPValue .less false reps up = corePValue .less false reps up dn := by
  subst hno_tie
  have h : ((up + dn : Nat) : Rat) ≠ 0 := by
    have : 0 < up + dn := hr
    exact_mod_cast this.ne'
  simp only [stratUpperOnlyPValue, corePValue, c1]
  push_cast at h ⊢
  field_simp
  ring

/-- counterexample (all simulated values tie the observed one, plus1 on): the formula returns 0
    where the lower-tail p-value is 1; this is the recorded finding for sim_corr and
    stratified_permutationtest -/
theorem strat_less_counterexample :
    stratUpperOnlyPValue .less true 10 10 = 0 ∧ corePValue .less true 10 10 10 = 1 := by
  constructor
  · norm_num [stratUpperOnlyPValue, c1]
  · norm_num [corePValue, c1]

/-! ### H is binomial: counting sequences of draw vectors by their number of hits -/

/-- all sequences of length r over a list of choices -/
def seqs {C : Type} (Cs : List C) : Nat → List (List C)
  | 0 => [[]]
  | r + 1 => Cs.flatMap (fun c => (seqs Cs r).map (fun cs => c :: cs))

/-- number of hits along a run of a state machine -/
def hitCount {σ C : Type} (step : σ → C → σ) (hit : σ → Bool) : σ → List C → Nat
  | _, [] => 0
  | s, c :: cs => (if hit (step s c) then 1 else 0) + hitCount step hit (step s c) cs

theorem hitCount_cons {σ C : Type} (step : σ → C → σ) (hit : σ → Bool) (s : σ) (c : C) (cs : List C) :
    hitCount step hit s (c :: cs)
      = (if hit (step s c) then 1 else 0) + hitCount step hit (step s c) cs := rfl

theorem sum_map_ite {C : Type} (Cs : List C) (p : C → Bool) (a b : Nat) :
    (Cs.map (fun c => if p c then a else b)).sum
      = Cs.countP p * a + (Cs.length - Cs.countP p) * b := by
  induction Cs with
  | nil => simp
  | cons c l ih =>
    have hle : l.countP p ≤ l.length := List.countP_le_length
    simp only [List.map_cons, List.sum_cons, ih, List.countP_cons, List.length_cons]
    cases hp : p c
    · simp
      rw [show l.length + 1 - l.countP p = (l.length - l.countP p) + 1 by omega]
      ring
    · simp
      ring

theorem pascal_arith (r h' K m : Nat) :
    K * (Nat.choose r h' * K ^ h' * m ^ (r - h')) + m * (Nat.choose r (h' + 1) * K ^ (h' + 1) * m ^ (r - (h' + 1)))
      = Nat.choose (r + 1) (h' + 1) * K ^ (h' + 1) * m ^ (r + 1 - (h' + 1)) := by
  rw [Nat.choose_succ_succ, Nat.add_sub_add_right]
  by_cases hlt : h' + 1 ≤ r
  · rw [show r - h' = (r - (h' + 1)) + 1 by omega]
    ring
  · rw [Nat.choose_eq_zero_of_lt (by omega : r < h' + 1)]
    ring

/-- If from **every** state exactly K of the |Cs| equally likely choices lead to a hit (which is
    what uniformity of the shuffle from any starting order gives), then among the |Cs|^r equally
    likely choice sequences exactly C(r,h)·K^h·(|Cs|−K)^(r−h) have h hits: the hit count is
    Binomial(r, K/|Cs|), also for the persisting index list of two_sample_core. -/
theorem binomial_count {σ C : Type} (step : σ → C → σ) (hit : σ → Bool) (Cs : List C) (K : Nat)
    (hK : ∀ s, Cs.countP (fun c => hit (step s c)) = K) (s0 : σ) (r h : Nat) :
    (seqs Cs r).countP (fun cs => hitCount step hit s0 cs = h)
      = Nat.choose r h * K ^ h * (Cs.length - K) ^ (r - h) := by
  induction r generalizing s0 h with
  | zero =>
    cases h with
    | zero => simp [seqs, hitCount]
    | succ h' => simp [seqs, hitCount]
  | succ r ih =>
    simp only [seqs, List.countP_flatMap, List.countP_map, Function.comp_def]
    cases h with
    | zero =>
      have key : ∀ c, List.countP (fun cs => decide (hitCount step hit s0 (c :: cs) = 0)) (seqs Cs r)
          = if hit (step s0 c) then 0 else Nat.choose r 0 * K ^ 0 * (Cs.length - K) ^ (r - 0) := by
        intro c
        cases hc : hit (step s0 c)
        · rw [← ih (step s0 c) 0]
          apply List.countP_congr
          intro cs _
          simp [hitCount_cons, hc]
        · rw [if_pos rfl, List.countP_eq_zero]
          intro cs _
          simp [hitCount_cons, hc]
      simp only [key, sum_map_ite, hK]
      simp
      ring
    | succ h' =>
      have key : ∀ c, List.countP (fun cs => decide (hitCount step hit s0 (c :: cs) = h' + 1)) (seqs Cs r)
          = if hit (step s0 c) then Nat.choose r h' * K ^ h' * (Cs.length - K) ^ (r - h')
            else Nat.choose r (h' + 1) * K ^ (h' + 1) * (Cs.length - K) ^ (r - (h' + 1)) := by
        intro c
        cases hc : hit (step s0 c)
        · rw [← ih (step s0 c) (h' + 1)]
          apply List.countP_congr
          intro cs _
          simp [hitCount_cons, hc]
        · rw [if_pos rfl, ← ih (step s0 c) h']
          apply List.countP_congr
          intro cs _
          simp [hitCount_cons, hc, Nat.add_comm 1]
      simp only [key, sum_map_ite, hK]
      exact pascal_arith r h' K _

/-- non-vacuity -/
example : corePValue .twoSided true 9 3 8 = 4/5 := by decide +kernel

end PV.PValue