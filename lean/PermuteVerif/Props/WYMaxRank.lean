/-
  Props/WYMaxRank.lean — C10, exact family-wise error control of the maxT step-down (the minP analogue is
  WY.wy_minp_min_is_rank / wy_minp_fwer_exact): the smallest maxT-adjusted p-value is the rank p-value of the observed
  row's largest statistic (on each test's own scale) among all reps+1 rows, hence under exchangeability of the rows at
  most k of them would obtain a smallest adjusted p-value ≤ k/#rows.
-/
import PermuteVerif.Model.NPC
import PermuteVerif.Props.WY
import PermuteVerif.Props.WYMixed
import PermuteVerif.Props.NPC
namespace PV.WYMaxRank
open PV.WY PV.WY.WYAux

namespace Aux

theorem foldl_max_ge_init (l : List Rat) (a : Rat) : a ≤ l.foldl max a := by
  induction l generalizing a with
  | nil => exact le_refl _
  | cons x t ih => exact le_trans (le_max_left _ _) (ih _)

theorem foldl_max_ge_mem (l : List Rat) (a x : Rat) (hx : x ∈ l) : x ≤ l.foldl max a := by
  induction l generalizing a with
  | nil => simp at hx
  | cons y t ih =>
    rcases List.mem_cons.mp hx with rfl | hx
    · exact le_trans (le_max_right _ _) (foldl_max_ge_init t (max a x))
    · exact ih _ hx

theorem foldl_max_choice (l : List Rat) (a : Rat) : l.foldl max a = a ∨ l.foldl max a ∈ l := by
  induction l generalizing a with
  | nil => left; rfl
  | cons y t ih =>
    simp only [List.foldl_cons]
    rcases ih (max a y) with h | h
    · rcases max_choice a y with h' | h'
      · left; rw [h, h']
      · right; rw [h, h']; exact List.mem_cons_self
    · right; exact List.mem_cons_of_mem _ h

/-- the final column of the successive maxima is the pointwise maximum of all columns -/
theorem foldl_zipWith_max_spec (n : Nat) (cols : List (List Rat)) (hcols : ∀ c ∈ cols, c.length = n)
    (prev : List Rat) (hprev : prev.length = n) (b : Nat) (hb : b < n) :
    let L := cols.foldl (fun acc d => List.zipWith max d acc) prev
    L.length = n ∧ prev.getD b 0 ≤ L.getD b 0 ∧ (∀ d ∈ cols, d.getD b 0 ≤ L.getD b 0) ∧
      (L.getD b 0 = prev.getD b 0 ∨ ∃ d ∈ cols, L.getD b 0 = d.getD b 0) := by
  induction cols generalizing prev with
  | nil => simp [hprev]
  | cons d rest ih =>
    have hd : d.length = n := hcols d List.mem_cons_self
    have hz : (List.zipWith max d prev).length = n := by simp [hd, hprev]
    obtain ⟨h1, h2, h3, h4⟩ := ih (fun c hc => hcols c (List.mem_cons_of_mem _ hc)) _ hz
    have hzb : (List.zipWith max d prev).getD b 0 = max (d.getD b 0) (prev.getD b 0) := by
      simp [List.getD_eq_getElem?_getD, hd, hprev, hb]
    simp only [List.foldl_cons]
    rw [hzb] at h2 h4
    refine ⟨h1, le_trans (le_max_right _ _) h2, ?_, ?_⟩
    · intro c hc
      rcases List.mem_cons.mp hc with rfl | hc
      · exact le_trans (le_max_left _ _) h2
      · exact h3 c hc
    · rcases h4 with h4 | ⟨c, hc, h4⟩
      · rcases max_choice (d.getD b 0) (prev.getD b 0) with h | h
        · right; exact ⟨d, List.mem_cons_self, by rw [h4, h]⟩
        · left; rw [h4, h]
      · right; exact ⟨c, List.mem_cons_of_mem _ hc, h4⟩

theorem succFold_max_last (n : Nat) (cols : List (List Rat)) (hne : cols ≠ [])
    (hcols : ∀ c ∈ cols, c.length = n) (b : Nat) (hb : b < n) :
    ((succFold max cols).getLastD []).length = n ∧
    (∀ d ∈ cols, d.getD b 0 ≤ ((succFold max cols).getLastD []).getD b 0) ∧
      ∃ d ∈ cols, ((succFold max cols).getLastD []).getD b 0 = d.getD b 0 := by
  cases cols with
  | nil => exact absurd rfl hne
  | cons c rest =>
    simp only [succFold]
    rw [List.getLastD_cons, succFoldAux_getLastD]
    obtain ⟨h0, h1, h2, h3⟩ := foldl_zipWith_max_spec n rest
      (fun d hd => hcols d (List.mem_cons_of_mem _ hd)) c (hcols c List.mem_cons_self) b hb
    refine ⟨h0, ?_, ?_⟩
    · intro d hd
      rcases List.mem_cons.mp hd with rfl | hd
      · exact h1
      · exact h2 d hd
    · rcases h3 with h3 | ⟨d, hd, h3⟩
      · exact ⟨c, List.mem_cons_self, h3⟩
      · exact ⟨d, List.mem_cons_of_mem _ hd, h3⟩

theorem mtColv_getD (tv : List (List Rat)) (two : Bool) (c b : Nat) (hb : b < tv.length) :
    (mtColv tv two c).getD b 0 = mtVal two ((tv[b]).getD c 0) := by
  simp [mtColv, column, List.getD_eq_getElem?_getD, hb]

end Aux

/-- the largest entry of a non-empty row (0 for the empty row, which never occurs under the hypotheses below) -/
def rowMax : List Rat → Rat
  | [] => 0
  | a :: l => l.foldl max a

/-- the max-T statistic of a row: its largest statistic, absolute values where the alternative is two-sided -/
def maxTStat (two : Bool) (r : List Rat) : Rat := rowMax (r.map (mtVal two))

namespace Aux

theorem rowMax_eq (r : List Rat) (x : Rat) (hx : x ∈ r) (hmax : ∀ y ∈ r, y ≤ x) : rowMax r = x := by
  cases r with
  | nil => simp at hx
  | cons a l =>
    simp only [rowMax]
    apply le_antisymm
    · rcases foldl_max_choice l a with h | h
      · rw [h]; exact hmax a List.mem_cons_self
      · exact hmax _ (List.mem_cons_of_mem _ h)
    · rcases List.mem_cons.mp hx with rfl | hx
      · exact foldl_max_ge_init _ _
      · exact foldl_max_ge_mem _ _ _ hx

/-- the last column of successive maxima holds the max-T statistics of the simulated rows -/
theorem mtU_last (ts : List Rat) (tv : List (List Rat)) (two : Bool)
    (hw : WYShape ts tv) (hm : 0 < ts.length) :
    (mtU ts tv two)[ts.length - 1]'(by rw [mtU_length]; omega) = tv.map (maxTStat two) := by
  have hne : mtCols ts tv two ≠ [] := by
    intro h; have := mtCols_length ts tv two; rw [h] at this; simp at this; omega
  have hlast : (mtU ts tv two)[ts.length - 1]'(by rw [mtU_length]; omega)
      = (mtU ts tv two).getLastD [] := by
    rw [getLastD_eq_getElem _ _ (by rw [mtU_length]; exact hm)]
    simp only [mtU_length]
  apply List.ext_getElem
  · rw [mtU_len ts tv two _ (List.getElem_mem _)]; simp
  · intro b h1 h2
    have hb : b < tv.length := by simpa using h2
    rw [← getD_eq_getElem' _ 0 h1, hlast]
    obtain ⟨_, hle, d, hd, heq⟩ := succFold_max_last tv.length _ hne (mtCols_len ts tv two) b hb
    have hrow : tv[b].length = ts.length := hw _ (List.getElem_mem _)
    rw [List.getElem_map]
    symm
    unfold maxTStat mtU
    apply rowMax_eq
    · obtain ⟨i, hi, rfl⟩ := List.mem_map.mp hd
      have hlt : i < ts.length := List.mem_range.mp ((mtOrder_perm ts two).mem_iff.mp hi)
      rw [heq, mtColv_getD _ _ _ _ hb]
      refine List.mem_map.mpr ⟨tv[b].getD i 0, ?_, rfl⟩
      rw [getD_eq_getElem' _ 0 (by rw [hrow]; exact hlt)]
      exact List.getElem_mem _
    · intro y hy
      obtain ⟨v, hv, rfl⟩ := List.mem_map.mp hy
      obtain ⟨c, hc, rfl⟩ := List.getElem_of_mem hv
      have hc' : c < ts.length := by rw [← hrow]; exact hc
      have hmem : mtColv tv two c ∈ mtCols ts tv two :=
        List.mem_map.mpr ⟨c, (mtOrder_perm ts two).mem_iff.mpr (List.mem_range.mpr hc'), rfl⟩
      have := hle _ hmem
      rw [mtColv_getD _ _ _ _ hb, getD_eq_getElem' _ 0 hc] at this
      exact this

/-- the observed statistic at the last position of the order is the observed row's max-T statistic -/
theorem maxTStat_obs (ts : List Rat) (two : Bool) (hm : 0 < ts.length) :
    maxTStat two ts
      = (mtTsv ts two).getD ((mtOrder ts two)[ts.length - 1]'(by rw [mtOrder_length]; omega)) 0 := by
  have hk0 : ts.length - 1 < (mtOrder ts two).length := by rw [mtOrder_length]; omega
  have hc0 := mtOrder_lt ts two _ hk0
  change rowMax (mtTsv ts two) = _
  apply rowMax_eq
  · rw [getD_eq_getElem' _ 0 (by rw [mtTsv_length]; exact hc0)]; exact List.getElem_mem _
  · intro y hy
    obtain ⟨c, hc, rfl⟩ := List.getElem_of_mem hy
    rw [← getD_eq_getElem' _ 0 hc]
    rw [mtTsv_length] at hc
    obtain ⟨k, hk, rfl⟩ := perm_range_index _ _ (mtOrder_perm ts two) c hc
    have hkm : k < ts.length := by rw [← mtOrder_length ts two]; exact hk
    rcases Nat.lt_or_eq_of_le (Nat.le_sub_one_of_lt hkm) with h | h
    · exact mtOrder_sorted ts two k _ h hk0
    · subst h; exact le_refl _

end Aux
open Aux

/-- the smallest adjusted p-value of maxT is the rank p-value of the observed row's max-T statistic among all
    reps+1 rows (observed row included) -/
theorem wy_maxt_min_is_rank (ts : List Rat) (tv : List (List Rat)) (two : Bool)
    (hw : WYShape ts tv) (hm : 0 < ts.length) :
    (wyMaxT ts tv two).1.foldl min 1
      = ((cntGe ((tv ++ [ts]).map (maxTStat two)) (maxTStat two ts) : Nat) : Rat)
          / ((tv.length + 1 : Nat) : Rat) := by
  have hk0 : ts.length - 1 < (mtOrder ts two).length := by rw [mtOrder_length]; omega
  have hc0 := mtOrder_lt ts two _ hk0
  have hadjlen : (wyMaxT ts tv two).1.length = ts.length := (wy_maxt_lengths ts tv two).1
  have hx := mt_adj_at ts tv two _ hk0
  have hlast := runMaxR_last (mtPre ts tv two) (by rw [mtPre_length]; exact hm)
  simp only [mtPre_length] at hlast
  rw [hlast] at hx
  have h1 : (wyMaxT ts tv two).1.foldl min 1
      = (mtPre ts tv two)[ts.length - 1]'(by rw [mtPre_length]; omega) := by
    apply foldl_min_eq
    · rw [← hx, getD_eq_getElem' _ 0 (by rw [hadjlen]; exact hc0)]
      exact List.getElem_mem _
    · rw [← hx]; exact (wy_maxt_range ts tv two hw _ hc0).2
    · intro y hy
      obtain ⟨c, hc, rfl⟩ := List.getElem_of_mem hy
      rw [← getD_eq_getElem' _ 0 hc]
      rw [hadjlen] at hc
      obtain ⟨k, hk, rfl⟩ := perm_range_index _ _ (mtOrder_perm ts two) c hc
      rw [mt_adj_at ts tv two k hk, ← hlast]
      have hkm : k < ts.length := by rw [← mtOrder_length ts two]; exact hk
      rcases Nat.lt_or_eq_of_le (Nat.le_sub_one_of_lt hkm) with h | h
      · have hs := runMaxR_sorted (mtPre ts tv two)
        rw [List.pairwise_iff_getElem] at hs
        exact hs k (ts.length - 1) _ _ h
      · subst h; exact le_refl _
  rw [h1, mtPre_getElem ts tv two _ hk0]
  simp only [mtG]
  rw [← maxTStat_obs ts two hm, mtU_last ts tv two hw hm]
  simp [cntGe, List.countP_append]

/-- exact family-wise error control under the complete null, counting form: of the rows of any table, at most k would
    obtain a smallest maxT-adjusted p-value ≤ k/#rows when taken as the observed row -/
theorem wy_maxt_fwer_exact (T : List (List Rat)) (two : Bool) (k : Nat) :
    (T.filter (fun r => decide (cntGe (T.map (maxTStat two)) (maxTStat two r) ≤ k))).length ≤ k := by
  have h := PV.NPC.rank_valid (T.map (maxTStat two)) k
  rw [List.filter_map, List.length_map] at h
  exact h

/-- the same for a per-test list of alternatives (mixed lists included): statistics on each test's own scale -/
theorem wy_maxtl_min_is_rank (ts : List Rat) (tv : List (List Rat)) (two : List Bool)
    (hw : ∀ r ∈ tv, r.length = ts.length) (hm : 0 < ts.length) :
    (wyMaxTL ts tv two).1.foldl min 1
      = ((cntGe ((tv ++ [ts]).map (fun r => rowMax (wyTransform two r))) (rowMax (wyTransform two ts)) : Nat) : Rat)
          / ((tv.length + 1 : Nat) : Rat) := by
  unfold wyMaxTL
  have h := wy_maxt_min_is_rank (wyTransform two ts) (tv.map (wyTransform two)) false
    (PV.WYMixed.wyShape_transform ts tv two hw) (by rw [PV.WYMixed.wyTransform_length]; exact hm)
  rw [h, List.length_map]
  have hf : maxTStat false = rowMax := by
    funext r; simp [maxTStat, PV.WYMixed.mtVal_false]
  rw [hf]
  have e : tv.map (wyTransform two) ++ [wyTransform two ts] = (tv ++ [ts]).map (wyTransform two) := by
    simp
  rw [e, List.map_map]
  rfl

example : (wyMaxT [3, 1] [[1, -3], [4, 0]] false).1.foldl min 1 = 2 / 3 := by decide +kernel
example : maxTStat true [1, -3] = 3 ∧ maxTStat false [1, -3] = 1 := by decide +kernel

end PV.WYMaxRank
