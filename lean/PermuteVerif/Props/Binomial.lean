/-
  Props/Binomial.lean — C01 / C02 / C04 capstone: for each randomised test of the model, the number of
  equally likely draw sequences that give exactly h hits is C(reps,h)·K^h·(M−K)^(reps−h), where M is the
  size of the admissible set and K the number of admissible rearrangements whose statistic is at least
  as extreme as observed — i.e. the hit count H is Binomial(reps, p*) with p* = K/M the exact
  permutation p-value.  Also C03 for the test functions: every array handed to the statistic is an
  admissible rearrangement.  Statements are fixed; only proofs (and helper lemmas above them) may change.
-/
import PermuteVerif.Model.Tests
import PermuteVerif.Props.Shuffle
import PermuteVerif.Props.Shuffle2
import PermuteVerif.Props.PValue
import Mathlib.Data.List.Perm.Basic
import Mathlib.Data.List.Permutation
import Mathlib.Data.Nat.Choose.Basic
import Mathlib.Data.Nat.Factorial.Basic
import Mathlib.Tactic.Linarith
namespace PV.Binomial
open PV.Shuffle PV.Shuffle2 PV.PValue

/-! ### helpers -/

/-- `binomial_count` with an invariant on the states: the "exactly K" hypothesis is needed only
    for states satisfying the invariant. -/
theorem binomial_count_inv {σ C : Type} (step : σ → C → σ) (hit : σ → Bool) (Cs : List C) (K : Nat)
    (Inv : σ → Prop) (hstep : ∀ s c, Inv s → Inv (step s c))
    (hK : ∀ s, Inv s → Cs.countP (fun c => hit (step s c)) = K) (s0 : σ) (h0 : Inv s0) (r h : Nat) :
    (seqs Cs r).countP (fun cs => decide (hitCount step hit s0 cs = h))
      = Nat.choose r h * K ^ h * (Cs.length - K) ^ (r - h) := by
  let step' : {s // Inv s} → C → {s // Inv s} := fun s c => ⟨step s.1 c, hstep s.1 c s.2⟩
  let hit' : {s // Inv s} → Bool := fun s => hit s.1
  have hcount : ∀ (cs : List C) (s : {s // Inv s}),
      hitCount step' hit' s cs = hitCount step hit s.1 cs := by
    intro cs
    induction cs with
    | nil => intro s; rfl
    | cons c cs ih =>
      intro s
      rw [hitCount_cons, hitCount_cons, ih]
  have := binomial_count step' hit' Cs K (fun s => hK s.1 s.2) ⟨s0, h0⟩ r h
  rw [← this]
  apply List.countP_congr
  intro cs _
  rw [hcount]

/-- stateless form: the number of sequences with exactly h successes -/
theorem binomial_count_stateless {C : Type} (Cs : List C) (p : C → Bool) (r h : Nat) :
    (seqs Cs r).countP (fun cs => decide (cs.countP p = h))
      = Nat.choose r h * Cs.countP p ^ h * (Cs.length - Cs.countP p) ^ (r - h) := by
  let step : Option C → C → Option C := fun _ c => some c
  let hit : Option C → Bool := fun s => match s with | some c => p c | none => false
  have hcount : ∀ (cs : List C) (s : Option C), hitCount step hit s cs = cs.countP p := by
    intro cs
    induction cs with
    | nil => intro s; rfl
    | cons c cs ih =>
      intro s
      rw [hitCount_cons, ih, List.countP_cons]
      show (if p c then 1 else 0) + _ = _
      omega
  have := binomial_count step hit Cs (Cs.countP p) (fun _ => rfl) none r h
  rw [← this]
  apply List.countP_congr
  intro cs _
  rw [hcount]

theorem cntGe_map {α : Type} (f : α → Rat) (l : List α) (t : Rat) :
    cntGe (l.map f) t = l.countP (fun a => decide (t ≤ f a)) := by
  unfold cntGe
  rw [List.countP_map]
  rfl

theorem pyShuffle_count_transfer {α : Type} (rr : List α) (hnd : rr.Nodup) (P : List α → Bool) :
    (allValidJ rr.length).countP (fun js => P (pyShuffle rr js)) = rr.permutations.countP P := by
  rw [← (pyShuffle_uniform rr hnd).countP_eq P, List.countP_map]
  rfl

theorem bin_range_map_getD {α : Type} (l : List α) (d : α) :
    (List.range l.length).map (fun i => l.getD i d) = l := by
  apply List.ext_getElem
  · simp
  · intro i h1 h2
    simp [List.getElem?_eq_getElem h2]

theorem bin_twoSampleTable_length (x y : List Rat) :
    (twoSampleTable x y).length = x.length + y.length := by
  simp [twoSampleTable]

theorem bin_tsArgs_range_two (x y : List Rat) :
    tsArgs (twoSampleTable x y) x.length (List.range (twoSampleTable x y).length) = (x, y) := by
  unfold tsArgs
  simp only [bin_range_map_getD]
  simp [twoSampleTable, Function.comp_def]

theorem bin_tsArgs_range_two' (x y : List Rat) :
    tsArgs (twoSampleTable x y) x.length (List.range (x.length + y.length)) = (x, y) := by
  rw [← bin_twoSampleTable_length]; exact bin_tsArgs_range_two x y

theorem cntGe_tsOrders (f : List Nat → Rat) (obs : Rat) (draws : List (List Nat)) :
    ∀ rr : List Nat, cntGe ((tsOrders rr draws).map f) obs
      = hitCount (fun (rr : List Nat) (js : List Nat) => pyShuffle rr js)
          (fun rr => decide (obs ≤ f rr)) rr draws := by
  induction draws with
  | nil => intro rr; rfl
  | cons js rest ih =>
    intro rr
    rw [hitCount_cons, ← ih]
    simp only [tsOrders, List.map_cons, cntGe, List.countP_cons]
    omega

/-! ### sizes of the draw spaces -/

theorem allValidJ_length (n : Nat) : (allValidJ n).length = n.factorial := by
  unfold allValidJ
  rw [List.length_map, allValidC_length]

theorem allBits_length (n : Nat) : (allBits n).length = 2 ^ n :=
  (allBits_spec n).2.1

/-! ### two_sample: persisting index list, CPython shuffle -/

/-- number of orders of the pooled units whose statistic is ≥ the observed one -/
def tsK (x y : List Rat) (stat : List Rat → List Rat → Rat) : Nat :=
  (List.range (x.length + y.length)).permutations.countP (fun o =>
    decide (stat x y ≤ stat (tsArgs (twoSampleTable x y) x.length o).1 (tsArgs (twoSampleTable x y) x.length o).2))

/-- from **every** order reachable by earlier repetitions, exactly tsK of the (nx+ny)! equally likely
    valid draw vectors lead to a hit -/
theorem two_sample_hits_per_state (x y : List Rat) (stat : List Rat → List Rat → Rat) (rr : List Nat)
    (hrr : rr.Perm (List.range (x.length + y.length))) :
    (allValidJ (x.length + y.length)).countP (fun js =>
      decide (stat x y ≤ stat (tsArgs (twoSampleTable x y) x.length (pyShuffle rr js)).1
                              (tsArgs (twoSampleTable x y) x.length (pyShuffle rr js)).2))
      = tsK x y stat := by
  have hlen : rr.length = x.length + y.length := by rw [hrr.length_eq, List.length_range]
  have hnd : rr.Nodup := hrr.nodup_iff.mpr List.nodup_range
  have h := pyShuffle_count_transfer rr hnd (fun o =>
    decide (stat x y ≤ stat (tsArgs (twoSampleTable x y) x.length o).1
                            (tsArgs (twoSampleTable x y) x.length o).2))
  rw [hlen] at h
  rw [h]
  exact hrr.permutations.countP_eq _

/-- H is Binomial(reps, p*) for two_sample's upper hit count, p* = tsK/(nx+ny)! -/
theorem two_sample_hits_binomial (x y : List Rat) (stat : List Rat → List Rat → Rat) (alt : Alt)
    (plus1 : Bool) (reps h : Nat) :
    (seqs (allValidJ (x.length + y.length)) reps).countP (fun draws =>
        decide ((twoSample x y stat alt plus1 draws).hitsUp = h))
      = Nat.choose reps h * tsK x y stat ^ h
          * ((x.length + y.length).factorial - tsK x y stat) ^ (reps - h) := by
  have hup : ∀ draws, (twoSample x y stat alt plus1 draws).hitsUp
      = hitCount (fun (rr : List Nat) (js : List Nat) => pyShuffle rr js)
          (fun rr => decide (stat x y ≤ stat (tsArgs (twoSampleTable x y) x.length rr).1
                                            (tsArgs (twoSampleTable x y) x.length rr).2))
          (List.range (x.length + y.length)) draws := by
    intro draws
    rw [← cntGe_tsOrders]
    simp only [twoSample, twoSampleCore, List.map_map,
      bin_twoSampleTable_length, bin_tsArgs_range_two']
    rfl
  simp only [hup]
  have := binomial_count_inv (fun (rr : List Nat) (js : List Nat) => pyShuffle rr js)
    (fun rr => decide (stat x y ≤ stat (tsArgs (twoSampleTable x y) x.length rr).1
                                      (tsArgs (twoSampleTable x y) x.length rr).2))
    (allValidJ (x.length + y.length)) (tsK x y stat)
    (fun rr => rr.Perm (List.range (x.length + y.length)))
    (fun rr js hp => (pyShuffle_perm rr js).trans hp)
    (fun rr hp => two_sample_hits_per_state x y stat rr hp)
    (List.range (x.length + y.length)) (List.Perm.refl _) reps h
  rw [this, allValidJ_length]

/-! ### one_sample: independent sign vectors -/

def osK (z : List Rat) (stat : List Rat → Rat) : Nat :=
  (allBits z.length).countP (fun b => decide (stat z ≤ stat (signFlip z b)))

theorem one_sample_hits_binomial (z : List Rat) (stat : List Rat → Rat) (alt : Alt) (plus1 : Bool)
    (reps h : Nat) :
    (seqs (allBits z.length) reps).countP (fun draws =>
        decide ((oneSample z stat alt plus1 draws).hitsUp = h))
      = Nat.choose reps h * osK z stat ^ h * (2 ^ z.length - osK z stat) ^ (reps - h) := by
  have hup : ∀ draws, (oneSample z stat alt plus1 draws).hitsUp
      = draws.countP (fun b => decide (stat z ≤ stat (signFlip z b))) := by
    intro draws
    simp only [oneSample, List.map_map]
    rw [cntGe_map]
    rfl
  simp only [hup]
  rw [binomial_count_stateless, allBits_length]
  rfl

/-! ### corr / k_sample: independent Fisher–Yates permutations -/

/-- number of valid offset vectors whose re-pairing has a statistic ≥ the observed one; by
    `fy_count_transfer` this is the number of such orders of x when x has no repeated values -/
def corrK (x y : List Rat) (stat : List Rat → List Rat → Rat) : Nat :=
  (allValidC x.length).countP (fun cs => decide (stat x y ≤ stat (fy x cs) y))

theorem corrK_eq_perms (x y : List Rat) (stat : List Rat → List Rat → Rat) (hx : x.Nodup) :
    corrK x y stat = x.permutations.countP (fun xp => decide (stat x y ≤ stat xp y)) := by
  unfold corrK
  exact fy_count_transfer x hx (fun xp => decide (stat x y ≤ stat xp y))

theorem corr_hits_binomial (x y : List Rat) (stat : List Rat → List Rat → Rat) (alt : Alt)
    (plus1 : Bool) (reps h : Nat) :
    (seqs (allValidC x.length) reps).countP (fun draws =>
        decide ((corrTest x y stat alt plus1 draws).hitsUp = h))
      = Nat.choose reps h * corrK x y stat ^ h * (x.length.factorial - corrK x y stat) ^ (reps - h) := by
  have hup : ∀ draws, (corrTest x y stat alt plus1 draws).hitsUp
      = draws.countP (fun cs => decide (stat x y ≤ stat (fy x cs) y)) := by
    intro draws
    simp only [corrTest, List.map_map]
    rw [cntGe_map]
    rfl
  simp only [hup]
  rw [binomial_count_stateless, allValidC_length]
  rfl

def ksK (x : List Rat) (group : List Int) (stat : List Rat → List Int → Rat → Rat) : Nat :=
  (allValidC group.length).countP (fun cs => decide (stat x group (mean x) ≤ stat x (fy group cs) (mean x)))

theorem k_sample_hits_binomial (x : List Rat) (group : List Int)
    (stat : List Rat → List Int → Rat → Rat) (plus1 : Bool) (reps h : Nat) :
    (seqs (allValidC group.length) reps).countP (fun draws =>
        decide ((kSample x group stat plus1 draws).hits = h))
      = Nat.choose reps h * ksK x group stat ^ h * (group.length.factorial - ksK x group stat) ^ (reps - h) := by
  have hup : ∀ draws, (kSample x group stat plus1 draws).hits
      = draws.countP (fun cs => decide (stat x group (mean x) ≤ stat x (fy group cs) (mean x))) := by
    intro draws
    simp only [kSample, List.map_map]
    rw [cntGe_map]
    rfl
  simp only [hup]
  rw [binomial_count_stateless, allValidC_length]
  rfl

/-! ### C03 for the test functions: the statistic only ever sees admissible rearrangements -/

theorem one_sample_args_signs (z : List Rat) (stat : List Rat → Rat) (alt : Alt) (plus1 : Bool)
    (draws : List (List Nat)) (hd : ∀ b ∈ draws, b.length = z.length ∧ ∀ v ∈ b, v = 0 ∨ v = 1) :
    ∀ a ∈ (oneSample z stat alt plus1 draws).args,
      a.length = z.length ∧ ∀ i (hi : i < z.length), a.getD i 0 = z[i] ∨ a.getD i 0 = -z[i] := by
  intro a ha
  simp only [oneSample, List.mem_map] at ha
  obtain ⟨b, hb, rfl⟩ := ha
  obtain ⟨hl, hv⟩ := hd b hb
  exact ⟨signFlip_length z b hl, signFlip_abs z b hl hv⟩

theorem corr_args_perm (x y : List Rat) (stat : List Rat → List Rat → Rat) (alt : Alt) (plus1 : Bool)
    (draws : List (List Nat)) :
    ∀ a ∈ (corrTest x y stat alt plus1 draws).args, a.Perm x := by
  intro a ha
  simp only [corrTest, List.mem_map] at ha
  obtain ⟨cs, _, rfl⟩ := ha
  exact fy_perm x cs

theorem k_sample_args_perm (x : List Rat) (group : List Int) (stat : List Rat → List Int → Rat → Rat)
    (plus1 : Bool) (draws : List (List Nat)) :
    ∀ g ∈ (kSample x group stat plus1 draws).args, g.Perm group := by
  intro g hg
  simp only [kSample, List.mem_map] at hg
  obtain ⟨cs, _, rfl⟩ := hg
  exact fy_perm group cs

theorem bivariate_args_strata (x : List Rat) (g1 g2 : List Int)
    (stat : List Rat → List Int → List Int → Rat → Rat) (plus1 : Bool) (draws : List (List (List Nat)))
    (hl : g1.length = g2.length) :
    ∀ a ∈ (bivariateKSample x g1 g2 stat plus1 draws).args,
      a.Perm g2 ∧ ∀ k, (gather a (positionsOf g1 k)).Perm (gather g2 (positionsOf g1 k)) := by
  intro a ha
  simp only [bivariateKSample, List.mem_map] at ha
  obtain ⟨d, _, rfl⟩ := ha
  exact ⟨pwg_perm g2 g1 d hl, fun k => pwg_stratum_perm g2 g1 d hl k⟩

theorem strat_two_sample_args_strata (group : List Int) (response : List Rat) (stat : List Rat → Rat)
    (alt : Alt) (plus1 : Bool) (draws : List (List (List Nat))) (hl : group.length = response.length) :
    ∀ a ∈ (stratTwoSample group response stat alt plus1 draws).2,
      a.Perm response ∧ ∀ k, (gather a (positionsOf group k)).Perm (gather response (positionsOf group k)) := by
  intro a ha
  simp only [stratTwoSample, List.mem_map] at ha
  obtain ⟨d, _, rfl⟩ := ha
  exact ⟨pwg_perm response group d hl, fun k => pwg_stratum_perm response group d hl k⟩

theorem strat_perm_test_args_strata (group condition : List Int) (stat : List Int → Rat) (alt : Alt)
    (plus1 : Bool) (draws : List (List (List Nat))) (hl : group.length = condition.length) :
    ∀ a ∈ (stratPermTest group condition stat alt plus1 draws).2,
      a.Perm condition ∧ ∀ k, (gather a (positionsOf group k)).Perm (gather condition (positionsOf group k)) := by
  intro a ha
  simp only [stratPermTest, List.mem_map] at ha
  obtain ⟨d, _, rfl⟩ := ha
  exact ⟨pwg_perm condition group d hl, fun k => pwg_stratum_perm condition group d hl k⟩

end PV.Binomial
