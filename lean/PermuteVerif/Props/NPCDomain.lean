import PermuteVerif.Props.NPC

/-!
# npc is monotone for combining functions that are non-increasing only on their domain

`NPC.npc_mono` asks the combining function to be non-increasing on all of ℚ^n.  Valid user combiners are often only
defined on (0, 1]^n (`sum sqrt(1 − p)`, Liptak).  The proof uses the hypothesis at the observed vectors only, so the
theorem holds with the hypothesis restricted to any domain that contains them.
-/

namespace PV.NPCDomain
open PV PV.NPC

/-- pointwise form: all that is needed is `comb p' ≤ comb p` for the two observed vectors -/
theorem npc_mono_at (p p' : List Rat) (D : List (List Rat)) (comb : List Rat → Rat) (plus1 clip : Bool)
    (hc : comb p' ≤ comb p) (v v' : Rat)
    (h : npc p D comb plus1 clip = .ok v) (h' : npc p' D comb plus1 clip = .ok v') : v ≤ v' := by
  unfold npc at h h'
  simp only at h h'
  split_ifs at h
  split_ifs at h'
  injection h with h
  injection h' with h'
  subst h h'
  apply div_le_div_of_nonneg_right _ (by exact_mod_cast Nat.zero_le _)
  have := cntGe_mono_thr ((rowPvals D plus1 clip).map comb) _ _ hc
  exact_mod_cast Nat.add_le_add_left this _

/-- combining functions non-increasing on a domain `dom` (e.g. (0, 1]^n): monotone for observed vectors in the domain -/
theorem npc_mono_on (dom : List Rat → Prop) (p p' : List Rat) (D : List (List Rat)) (comb : List Rat → Rat)
    (plus1 clip : Bool)
    (hc : ∀ a b, dom a → dom b → List.Forall₂ (· ≤ ·) a b → comb b ≤ comb a)
    (hd : dom p) (hd' : dom p') (hp : List.Forall₂ (· ≤ ·) p p') (v v' : Rat)
    (h : npc p D comb plus1 clip = .ok v) (h' : npc p' D comb plus1 clip = .ok v') : v ≤ v' :=
  npc_mono_at p p' D comb plus1 clip (hc p p' hd hd' hp) v v' h h'

/-- the unit cube (0, 1]^n as a domain -/
def unitCube (p : List Rat) : Prop := ∀ t ∈ p, 0 < t ∧ t ≤ 1

example : unitCube [1/2, 1, 19/20] := by
  intro t ht; simp at ht; rcases ht with rfl | rfl | rfl <;> norm_num

end PV.NPCDomain
