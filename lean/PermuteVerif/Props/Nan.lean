/-
  Props/Nan.lean — C02 / C03 / C05 on data with NaN-coded non-responders:
  the NaN-aware model refines the finite one, NaN statistics are counted in neither tail, and the
  rearrangements are still within-stratum rearrangements of the responses (NaNs included).
-/
import PermuteVerif.Model.Nan
import PermuteVerif.Props.Shuffle2
namespace PV.Nan
open PV.Shuffle2

theorem filterMap_id_map_some (l : List Rat) : (l.map some).filterMap id = l := by
  induction l with
  | nil => rfl
  | cons a l ih => simp

/-- without NaNs `np.nanmean` is `np.mean` -/
theorem nanMean_map_some (l : List Rat) (h : l ≠ []) : nanMean (l.map some) = some (mean l) := by
  unfold nanMean
  rw [filterMap_id_map_some]
  cases l with
  | nil => exact absurd rfl h
  | cons a l => rfl

/-- without NaNs and with both samples non-empty the `'mean'` statistic is the finite model's -/
theorem nanMeanDiff_map_some (nt : Nat) (u : List Rat) (h0 : 0 < nt) (h1 : nt < u.length) :
    nanMeanDiff nt (u.map some) = some (mean (u.take nt) - mean (u.drop nt)) := by
  have ht : (u.take nt).length = nt := by rw [List.length_take]; omega
  have hd : (u.drop nt).length = u.length - nt := List.length_drop
  unfold nanMeanDiff
  rw [← List.map_take, ← List.map_drop, nanMean_map_some, nanMean_map_some]
  · intro h; rw [h] at hd; simp at hd; omega
  · intro h; rw [h] at ht; simp at ht; omega

/-- without NaNs and with both samples non-empty the `'t'` statistic is the finite model's -/
theorem nanT_map_some (nt : Nat) (u : List Rat) (h0 : 0 < nt) (h1 : nt < u.length) :
    nanT nt (u.map some) = some (tKey (u.take nt) (u.drop nt)) := by
  have ht : (u.take nt).length = nt := by rw [List.length_take]; omega
  have hd : (u.drop nt).length = u.length - nt := List.length_drop
  unfold nanT
  rw [← List.map_take, ← List.map_drop, filterMap_id_map_some, filterMap_id_map_some]
  have h1' : (u.take nt).isEmpty = false := by
    cases h : u.take nt with
    | nil => rw [h] at ht; simp at ht; omega
    | cons a l => rfl
  have h2' : (u.drop nt).isEmpty = false := by
    cases h : u.drop nt with
    | nil => rw [h] at hd; simp at hd; omega
    | cons a l => rfl
  simp [h1', h2']

theorem cntGeN_map_some (d : List Rat) (t : Rat) : cntGeN (d.map some) (some t) = cntGe d t := by
  unfold cntGeN cntGe
  rw [List.countP_map]; rfl

theorem cntLeN_map_some (d : List Rat) (t : Rat) : cntLeN (d.map some) (some t) = cntLe d t := by
  unfold cntLeN cntLe
  rw [List.countP_map]; rfl

/-- a NaN observed statistic is reached by nothing: both tail counts are 0 -/
theorem nan_obs_no_hits (d : List (Option Rat)) : cntGeN d none = 0 ∧ cntLeN d none = 0 := by
  constructor
  · unfold cntGeN; rw [List.countP_eq_zero]; intro a _; cases a <;> simp
  · unfold cntLeN; rw [List.countP_eq_zero]; intro a _; cases a <;> simp

/-- a NaN simulated statistic is counted in neither tail -/
theorem nan_sim_not_counted (d : List (Option Rat)) (t : Option Rat) :
    cntGeN (none :: d) t = cntGeN d t ∧ cntLeN (none :: d) t = cntLeN d t := by
  constructor <;> simp [cntGeN, cntLeN]

theorem ite_le_one (b : Bool) : (if b = true then 1 else 0) ≤ 1 := by cases b <;> simp

theorem cntGeN_le (d : List (Option Rat)) (t : Option Rat) : cntGeN d t ≤ (d.filterMap id).length := by
  induction d with
  | nil => simp [cntGeN]
  | cons a d ih =>
    cases a with
    | none => rw [(nan_sim_not_counted d t).1]; simpa using ih
    | some v =>
      have h1 : cntGeN (some v :: d) t ≤ cntGeN d t + 1 := by
        unfold cntGeN; rw [List.countP_cons]; exact Nat.add_le_add_left (ite_le_one _) _
      have h2 : ((some v :: d).filterMap id).length = (d.filterMap id).length + 1 := by simp
      omega

theorem cntLeN_le (d : List (Option Rat)) (t : Option Rat) : cntLeN d t ≤ (d.filterMap id).length := by
  induction d with
  | nil => simp [cntLeN]
  | cons a d ih =>
    cases a with
    | none => rw [(nan_sim_not_counted d t).2]; simpa using ih
    | some v =>
      have h1 : cntLeN (some v :: d) t ≤ cntLeN d t + 1 := by
        unfold cntLeN; rw [List.countP_cons]; exact Nat.add_le_add_left (ite_le_one _) _
      have h2 : ((some v :: d).filterMap id).length = (d.filterMap id).length + 1 := by simp
      omega

/-- the tail counts only see the non-NaN statistics -/
theorem counts_le_finite (d : List (Option Rat)) (t : Option Rat) :
    cntGeN d t ≤ (d.filterMap id).length ∧ cntLeN d t ≤ (d.filterMap id).length :=
  ⟨cntGeN_le d t, cntLeN_le d t⟩

/-- the p-value is the documented function of the two counts of non-NaN statistics at least / at most the observed one -/
theorem strat_nan_pvalue (group : List Int) (resp : List (Option Rat)) (stat : List (Option Rat) → Option Rat)
    (alt : Alt) (plus1 : Bool) (draws : List (List (List Nat))) :
    let o := (stratTwoSampleNan group resp stat alt plus1 draws).1
    o.p = corePValue alt plus1 draws.length o.hitsUp o.hitsDn ∧
    o.hitsUp = cntGeN o.dist o.obs ∧ o.hitsDn = cntLeN o.dist o.obs ∧ o.dist.length = draws.length ∧
    o.obs = stat resp := by
  simp [stratTwoSampleNan]

/-- every array the statistic is evaluated on is a within-stratum rearrangement of the responses, NaNs included:
    the number of non-responders in a stratum never changes -/
theorem strat_nan_args (group : List Int) (resp : List (Option Rat)) (stat : List (Option Rat) → Option Rat)
    (alt : Alt) (plus1 : Bool) (draws : List (List (List Nat))) (hl : group.length = resp.length) :
    ∀ a ∈ (stratTwoSampleNan group resp stat alt plus1 draws).2,
      a.length = resp.length ∧ ∀ g, (gather a (positionsOf group g)).Perm (gather resp (positionsOf group g)) := by
  intro a ha
  simp only [stratTwoSampleNan, List.mem_map] at ha
  obtain ⟨d, _, rfl⟩ := ha
  exact ⟨pwg_length _ _ _, fun g => pwg_stratum_perm _ _ _ hl g⟩

/-- refinement: on NaN-free data (both samples non-empty) the NaN-aware model is the finite one -/
theorem strat_nan_refines (group : List Int) (resp : List Rat) (nt : Nat) (alt : Alt) (plus1 : Bool)
    (draws : List (List (List Nat))) (hl : group.length = resp.length) (h0 : 0 < nt) (h1 : nt < resp.length) :
    let f := stratTwoSample group resp (fun u => mean (u.take nt) - mean (u.drop nt)) alt plus1 draws
    let n := stratTwoSampleNan group (resp.map some) (nanMeanDiff nt) alt plus1 draws
    n.1.p = f.1.p ∧ n.1.hitsUp = f.1.hitsUp ∧ n.1.hitsDn = f.1.hitsDn ∧ n.1.obs = some f.1.obs ∧
      n.1.dist = f.1.dist.map some ∧ n.2 = f.2.map (List.map some) := by
  have hargs : draws.map (permuteWithinGroups (resp.map some) group)
      = (draws.map (permuteWithinGroups resp group)).map (List.map some) := by
    rw [List.map_map]
    apply List.map_congr_left
    intro d _
    exact pwg_map some resp group d hl
  have hdist : (draws.map (permuteWithinGroups (resp.map some) group)).map (nanMeanDiff nt)
      = ((draws.map (permuteWithinGroups resp group)).map
          (fun u => mean (u.take nt) - mean (u.drop nt))).map some := by
    rw [hargs]
    simp only [List.map_map]
    apply List.map_congr_left
    intro d _
    simp only [Function.comp]
    exact nanMeanDiff_map_some nt _ h0 (by rw [pwg_length]; exact h1)
  simp only [stratTwoSampleNan, stratTwoSample]
  rw [hdist, nanMeanDiff_map_some nt resp h0 h1, cntGeN_map_some, cntLeN_map_some, hargs]
  simp

/-- non-vacuity: a stratum whose only treated responder is NaN gives a NaN statistic, counted nowhere -/
example : nanMeanDiff 1 [none, some 3, some 5] = none := by decide +kernel
example : nanMeanDiff 1 [some 2, none, some 5] = some (-3) := by decide +kernel
example : nanT 2 [none, none, some 5, some 1] = none := by decide +kernel
example : cntGeN [none, some 1, some 4] (some 2) = 1 ∧ cntLeN [none, some 1, some 4] (some 2) = 1 := by decide +kernel

end PV.Nan
