/-
  Props/WYMixed.lean — C10, maxT with a per-test list of alternatives (repair D17): the mixed-list step-down is the
  uniform one run on the table transformed to each test's own scale, so every maxT theorem transfers; for a list of equal
  entries it is exactly the single-alternative maxT.
-/
import PermuteVerif.Model.NPC
import PermuteVerif.Props.WY
namespace PV.WYMixed
open PV.WY

theorem wyTransform_length (two : List Bool) (row : List Rat) : (wyTransform two row).length = row.length := by
  simp [wyTransform]

theorem wyTransform_getD (two : List Bool) (row : List Rat) (c : Nat) (hc : c < row.length) :
    (wyTransform two row).getD c 0 = if two.getD c false then absR (row.getD c 0) else row.getD c 0 := by
  simp [wyTransform, List.getD_eq_getElem?_getD, hc]

/-! ### helpers -/

theorem wyShape_transform (ts : List Rat) (tv : List (List Rat)) (two : List Bool)
    (hw : ∀ r ∈ tv, r.length = ts.length) : WYShape (wyTransform two ts) (tv.map (wyTransform two)) := by
  intro r hr
  obtain ⟨r0, hr0, rfl⟩ := List.mem_map.mp hr
  rw [wyTransform_length, wyTransform_length]
  exact hw r0 hr0

theorem column_map_wyTransform (ts : List Rat) (tv : List (List Rat)) (two : List Bool) (c : Nat)
    (hc : c < ts.length) (hw : ∀ r ∈ tv, r.length = ts.length) :
    column (tv.map (wyTransform two)) c
      = (column tv c).map (fun v => if two.getD c false then absR v else v) := by
  unfold column
  rw [List.map_map, List.map_map]
  apply List.map_congr_left
  intro r hr
  have hcr : c < r.length := by rw [hw r hr]; exact hc
  simp only [Function.comp_apply]
  exact wyTransform_getD two r c hcr

theorem wyTransform_replicate (n : Nat) (b : Bool) (row : List Rat) (h : row.length ≤ n) :
    wyTransform (List.replicate n b) row = row.map (WYAux.mtVal b) := by
  apply List.ext_getElem
  · simp [wyTransform]
  · intro i h1 h2
    have hi : i < row.length := by simpa [wyTransform] using h1
    have hin : i < n := lt_of_lt_of_le hi h
    simp [wyTransform, WYAux.mtVal, List.getD_eq_getElem?_getD, hin]

theorem absR_zero : absR 0 = 0 := by simp [absR]

theorem mtVal_zero (b : Bool) : WYAux.mtVal b 0 = 0 := by
  cases b <;> simp [WYAux.mtVal, absR_zero]

theorem mtVal_false : WYAux.mtVal false = id := by
  funext v; simp [WYAux.mtVal]

open WYAux in
theorem wyMaxT_congr (ts ts' : List Rat) (tv tv' : List (List Rat)) (b b' : Bool)
    (hlen : ts.length = ts'.length) (hreps : tv.length = tv'.length)
    (htsv : mtTsv ts b = mtTsv ts' b') (hcol : ∀ c, mtColv tv b c = mtColv tv' b' c) :
    wyMaxT ts tv b = wyMaxT ts' tv' b' := by
  have hcol' : mtColv tv b = mtColv tv' b' := funext hcol
  have hord : mtOrder ts b = mtOrder ts' b' := by unfold mtOrder; rw [htsv]
  have hcols : mtCols ts tv b = mtCols ts' tv' b' := by unfold mtCols; rw [hord, hcol']
  have hU : mtU ts tv b = mtU ts' tv' b' := by unfold mtU; rw [hcols]
  have hG : mtG ts tv b = mtG ts' tv' b' := by
    funext iu; unfold mtG; rw [htsv, hreps]
  have hpre : mtPre ts tv b = mtPre ts' tv' b' := by unfold mtPre; rw [hord, hU, hG]
  have hrawAt : mtRawAt ts tv b = mtRawAt ts' tv' b' := by
    funext c; unfold mtRawAt; rw [htsv, hreps, hcol']
  have hraw : mtRaw ts tv b = mtRaw ts' tv' b' := by unfold mtRaw; rw [hrawAt, hlen]
  rw [wyMaxT_eq, wyMaxT_eq, hlen, hord, hpre, hraw]

open WYAux in
theorem wyMaxT_map_val (ts : List Rat) (tv : List (List Rat)) (b : Bool) :
    wyMaxT (ts.map (mtVal b)) (tv.map (List.map (mtVal b))) false = wyMaxT ts tv b := by
  apply wyMaxT_congr
  · simp
  · simp
  · unfold mtTsv; rw [mtVal_false]; simp
  · intro c
    unfold mtColv column
    rw [mtVal_false, List.map_id, List.map_map, List.map_map]
    apply List.map_congr_left
    intro r _
    simp only [Function.comp_apply]
    by_cases hcr : c < r.length
    · simp [List.getD_eq_getElem?_getD, hcr]
    · have hcr' : r.length ≤ c := Nat.le_of_not_lt hcr
      simp [List.getD_eq_getElem?_getD, hcr', mtVal_zero]


/-- raw p-values: (count + 1)/(reps + 1) on each test's own scale -/
theorem wy_maxtl_raw_spec (ts : List Rat) (tv : List (List Rat)) (two : List Bool) (c : Nat) (hc : c < ts.length)
    (hw : ∀ r ∈ tv, r.length = ts.length) :
    (wyMaxTL ts tv two).2.getD c 0
      = ((cntGe ((column tv c).map (fun v => if two.getD c false then absR v else v))
            (if two.getD c false then absR (ts.getD c 0) else ts.getD c 0) + 1 : Nat) : Rat)
          / ((tv.length + 1 : Nat) : Rat) := by
  have hc' : c < (wyTransform two ts).length := by rw [wyTransform_length]; exact hc
  unfold wyMaxTL
  rw [wy_maxt_raw_spec _ _ false c hc', column_map_wyTransform ts tv two c hc hw, wyTransform_getD two ts c hc, List.map_map, List.length_map]
  have hf : ((fun v : Rat => if false = true then absR v else v) ∘ fun v => if two.getD c false = true then absR v else v)
      = fun v => if two.getD c false = true then absR v else v := by
    funext v; simp
  rw [hf]
  simp only [Bool.false_eq_true, if_false]

/-- a list of equal entries is the single-alternative maxT -/
theorem wy_maxtl_uniform (ts : List Rat) (tv : List (List Rat)) (b : Bool) (hw : ∀ r ∈ tv, r.length = ts.length) :
    wyMaxTL ts tv (List.replicate ts.length b) = wyMaxT ts tv b := by
  unfold wyMaxTL
  rw [wyTransform_replicate ts.length b ts (le_refl _)]
  have htv : tv.map (wyTransform (List.replicate ts.length b)) = tv.map (List.map (WYAux.mtVal b)) := by
    apply List.map_congr_left
    intro r hr
    exact wyTransform_replicate ts.length b r (le_of_eq (hw r hr))
  rw [htv]
  exact wyMaxT_map_val ts tv b

/-- adjusted ≥ raw, for every list of alternatives -/
theorem wy_maxtl_adj_ge_raw (ts : List Rat) (tv : List (List Rat)) (two : List Bool)
    (hw : ∀ r ∈ tv, r.length = ts.length) (hts : 0 < ts.length) (c : Nat) (hc : c < ts.length) :
    (wyMaxTL ts tv two).2.getD c 0 ≤ (wyMaxTL ts tv two).1.getD c 0 := by
  have hc' : c < (wyTransform two ts).length := by rw [wyTransform_length]; exact hc
  exact wy_maxt_adj_ge_raw _ _ false (wyShape_transform ts tv two hw) c hc'

/-- adjusted p-values lie in [1/(reps+1), 1], for every list of alternatives -/
theorem wy_maxtl_range (ts : List Rat) (tv : List (List Rat)) (two : List Bool)
    (hw : ∀ r ∈ tv, r.length = ts.length) (hts : 0 < ts.length) (c : Nat) (hc : c < ts.length) :
    1 / ((tv.length : Rat) + 1) ≤ (wyMaxTL ts tv two).1.getD c 0 ∧ (wyMaxTL ts tv two).1.getD c 0 ≤ 1 := by
  have hc' : c < (wyTransform two ts).length := by rw [wyTransform_length]; exact hc
  have := wy_maxt_range _ _ false (wyShape_transform ts tv two hw) c hc'
  rw [List.length_map] at this
  exact this

/-- adjusted p-values are ordered like the observed statistics on their own scales -/
theorem wy_maxtl_order (ts : List Rat) (tv : List (List Rat)) (two : List Bool)
    (hw : ∀ r ∈ tv, r.length = ts.length) (hts : 0 < ts.length) (c c' : Nat) (hc : c < ts.length) (hc' : c' < ts.length)
    (h : (if two.getD c false then absR (ts.getD c 0) else ts.getD c 0)
          < (if two.getD c' false then absR (ts.getD c' 0) else ts.getD c' 0)) :
    (wyMaxTL ts tv two).1.getD c' 0 ≤ (wyMaxTL ts tv two).1.getD c 0 := by
  have hc1 : c < (wyTransform two ts).length := by rw [wyTransform_length]; exact hc
  have hc2 : c' < (wyTransform two ts).length := by rw [wyTransform_length]; exact hc'
  refine wy_maxt_order _ _ false (wyShape_transform ts tv two hw) c c' hc1 hc2 ?_
  rw [wyTransform_getD two ts c hc, wyTransform_getD two ts c' hc']
  simpa using h

/-- the regression input of D17: one randomisation (1, −3), observed (3, 1), ['two-sided', 'greater'] gives (1/2, 1/2) -/
example : wyMaxTL [3, 1] [[1, -3]] [true, false] = ([1/2, 1/2], [1/2, 1/2]) := by decide +kernel

end PV.WYMixed
