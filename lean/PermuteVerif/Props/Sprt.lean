/-
  Props/Sprt.lean — C15: sprt applies Wald's rule to every prefix; error bounds.
  Statements are fixed; only proofs (and helper lemmas above them) may change.
-/
import PermuteVerif.Model.Sprt
import Mathlib.Tactic.Linarith
import Mathlib.Tactic.Positivity
import Mathlib.Tactic.FieldSimp
import Mathlib.Tactic.Ring
import Mathlib.Algebra.Order.Field.Rat
namespace PV.Sprt
/-! ### helper lemmas for `sprt_eq_spec` -/

theorem sprtGo_eq_specFrom {α : Type} (lr : List α → Rat) (A B : Rat) (x : List α) :
    ∀ m k, k + 1 + m = x.length →
      sprtGo lr A B x (m + 1) (k + 1) (lr (x.take (k + 1))) = sprtSpecFrom lr A B x m (k + 1) := by
  intro m
  induction m with
  | zero =>
    intro k hk
    have hlt : ¬ (k + 1 < x.length) := by omega
    simp [sprtGo, sprtSpecFrom, hlt]
  | succ m ih =>
    intro k hk
    have hlt : k + 1 < x.length := by omega
    have := ih (k + 1) (by omega)
    rw [sprtGo, sprtSpecFrom]
    simp only [hlt, and_true]
    rw [this]

/-- the loop equals the specification "first prefix x[:1], x[:2], …, x[:n] whose ratio leaves
    (A, B), else the whole-sample ratio" for every ratio function and every sample -/
theorem sprt_eq_spec {α : Type} (lr : List α → Rat) (A B : Rat) (hA : A < 1) (hB : 1 < B)
    (x : List α) :
    sprtGo lr A B x (x.length + 1) 0 1 = sprtSpec lr A B x := by
  cases hx : x.length with
  | zero =>
    simp [sprtGo, sprtSpec, hx]
  | succ n =>
    rw [sprtGo]
    rw [if_pos ⟨hA, hB, by omega⟩]
    rw [sprtSpec, if_neg (by omega), hx]
    exact sprtGo_eq_specFrom lr A B x n 0 (by omega)

theorem sprtDecide_ts (A B ts : Rat) : (sprtDecide A B ts).ts = ts := by
  unfold sprtDecide; split_ifs <;> rfl

theorem sprtDecide_rejectH0 (A B ts : Rat) : (sprtDecide A B ts).rejectH0 = decide (B ≤ ts) := by
  unfold sprtDecide; split_ifs <;> simp_all

theorem sprtDecide_rejectHa (A B ts : Rat) (hAB : A < B) :
    (sprtDecide A B ts).rejectHa = decide (ts ≤ A) := by
  unfold sprtDecide
  split_ifs with h1 h2
  · have : ¬ ts ≤ A := by intro h; linarith
    simp [this]
  · simp [h2]
  · simp [h2]

/-- with random_order=False the whole sample is judged once -/
theorem sprt_not_random {α : Type} (lr : List α → Rat) (a b : Rat) (x : List α) :
    (sprt lr a b x false).ts = lr x := by
  simp [sprt, sprtDecide_ts]

/-- 'reject H0' iff the reported ratio is at least the upper threshold -/
theorem sprt_decision_H0 {α : Type} (lr : List α → Rat) (a b : Rat) (x : List α) (ro : Bool) :
    (sprt lr a b x ro).rejectH0 = true ↔ (1 - b) / a ≤ (sprt lr a b x ro).ts := by
  simp [sprt, sprtDecide_ts, sprtDecide_rejectH0]

/-- 'reject Ha' iff the reported ratio is at most the lower threshold (thresholds in order) -/
theorem sprt_decision_Ha {α : Type} (lr : List α → Rat) (a b : Rat) (x : List α) (ro : Bool)
    (hAB : b / (1 - a) < (1 - b) / a) :
    (sprt lr a b x ro).rejectHa = true ↔ (sprt lr a b x ro).ts ≤ b / (1 - a) := by
  simp [sprt, sprtDecide_ts, sprtDecide_rejectHa _ _ _ hAB]

/-! ### helper lemmas for `lr_eq_product` -/

theorem foldl_add_init (l : List Nat) (a : Nat) :
    l.foldl (· + ·) a = a + l.foldl (· + ·) 0 := by
  induction l generalizing a with
  | nil => simp
  | cons b l ih =>
    simp only [List.foldl_cons]
    rw [ih (a + b), ih (0 + b)]
    omega

theorem foldl_mul_init (l : List Rat) (a : Rat) :
    l.foldl (· * ·) a = a * l.foldl (· * ·) 1 := by
  induction l generalizing a with
  | nil => simp
  | cons b l ih =>
    simp only [List.foldl_cons]
    rw [ih (a * b), ih (1 * b)]
    ring

/-- per-observation factor of the likelihood ratio -/
def rb (po pa : Rat) (b : Nat) : Rat := if b = 1 then pa / po else (1 - pa) / (1 - po)

theorem bernoulliLRProd_nil (po pa : Rat) : bernoulliLRProd po pa [] = 1 := by
  simp [bernoulliLRProd]

theorem bernoulliLRProd_cons (po pa : Rat) (b : Nat) (x : List Nat) :
    bernoulliLRProd po pa (b :: x) = rb po pa b * bernoulliLRProd po pa x := by
  simp only [bernoulliLRProd, List.map_cons, List.foldl_cons]
  rw [foldl_mul_init]
  simp [rb]

theorem bernoulliLRProd_snoc (po pa : Rat) (b : Nat) (x : List Nat) :
    bernoulliLRProd po pa (x ++ [b]) = bernoulliLRProd po pa x * rb po pa b := by
  simp [bernoulliLRProd, List.map_append, List.foldl_append, rb]

theorem bernoulliLRProd_closed (po pa : Rat) (x : List Nat) (hx : ∀ b ∈ x, b = 0 ∨ b = 1) :
    x.foldl (· + ·) 0 ≤ x.length ∧
    bernoulliLRProd po pa x =
      (pa / po) ^ (x.foldl (· + ·) 0) * ((1 - pa) / (1 - po)) ^ (x.length - x.foldl (· + ·) 0) := by
  induction x with
  | nil => simp [bernoulliLRProd]
  | cons b x ih =>
    have ih' := ih (fun c hc => hx c (List.mem_cons_of_mem _ hc))
    obtain ⟨h1, h2⟩ := ih'
    rw [bernoulliLRProd_cons, h2]
    simp only [List.foldl_cons, List.length_cons]
    rw [foldl_add_init]
    rcases hx b (List.mem_cons_self) with hb | hb
    · subst hb
      refine ⟨by omega, ?_⟩
      have e : x.length + 1 - (0 + 0 + List.foldl (· + ·) 0 x)
          = (x.length - List.foldl (· + ·) 0 x) + 1 := by omega
      rw [e, pow_succ]
      simp only [rb, Nat.zero_add]
      simp
      ring
    · subst hb
      refine ⟨by omega, ?_⟩
      have e : x.length + 1 - (0 + 1 + List.foldl (· + ·) 0 x)
          = (x.length - List.foldl (· + ·) 0 x) := by omega
      have e2 : 0 + 1 + List.foldl (· + ·) 0 x = List.foldl (· + ·) 0 x + 1 := by omega
      rw [e, e2, pow_succ]
      simp only [rb]
      simp
      ring

/-- bernoulli_lh_ratio is the product over observations of (pa/po)^x ((1-pa)/(1-po))^(1-x) -/
theorem lr_eq_product (po pa : Rat) (h0 : 0 < po) (h0' : po < 1) (x : List Nat)
    (hx : ∀ b ∈ x, b = 0 ∨ b = 1) :
    bernoulliLR po pa x = bernoulliLRProd po pa x := by
  rw [(bernoulliLRProd_closed po pa x hx).2]
  simp only [bernoulliLR]
  rw [div_pow, div_pow, div_mul_div_comm]

/-! ### Wald's bounds, for every sample length -/

/-- probability of a 0/1 sequence under success probability p -/
def seqProb (p : Rat) (x : List Nat) : Rat :=
  (x.map (fun b => if b = 1 then p else 1 - p)).foldl (· * ·) 1

/-- all 0/1 sequences of length n -/
def allSeqs : Nat → List (List Nat)
  | 0 => [[]]
  | n + 1 => (allSeqs n).flatMap (fun x => [0 :: x, 1 :: x])

/-- P_p(sprt on n Bernoulli(p) observations reports 'reject H0') -/
def rejectH0Prob (po pa a b p : Rat) (n : Nat) : Rat :=
  rsum ((allSeqs n).map (fun x =>
    if (sprt (bernoulliLR po pa) a b x true).rejectH0 then seqProb p x else 0))

/-- P_p(sprt on n Bernoulli(p) observations reports 'reject Ha') -/
def rejectHaProb (po pa a b p : Rat) (n : Nat) : Rat :=
  rsum ((allSeqs n).map (fun x =>
    if (sprt (bernoulliLR po pa) a b x true).rejectHa then seqProb p x else 0))

/-! #### helper lemmas: the loop as a recursion on the remaining observations -/

/-- the loop, started in state `ts`, consuming the remaining observations one at a time with the
    multiplicative update `ts ↦ ts * r b` -/
def run (A B : Rat) (r : Nat → Rat) : List Nat → Rat → Rat
  | [], ts => ts
  | b :: x, ts => if A < ts ∧ ts < B then run A B r x (ts * r b) else ts

theorem sprtGo_eq_run (po pa A B : Rat) (h0 : 0 < po) (h0' : po < 1) :
    ∀ (s p : List Nat), (∀ b ∈ p ++ s, b = 0 ∨ b = 1) →
      sprtGo (bernoulliLR po pa) A B (p ++ s) (s.length + 1) p.length (bernoulliLRProd po pa p)
        = run A B (rb po pa) s (bernoulliLRProd po pa p) := by
  intro s
  induction s with
  | nil =>
    intro p _
    simp [sprtGo, run]
  | cons b s ih =>
    intro p hp
    have hp' : ∀ c ∈ (p ++ [b]) ++ s, c = 0 ∨ c = 1 := by
      intro c hc; apply hp; simpa using hc
    have hpb : ∀ c ∈ p ++ [b], c = 0 ∨ c = 1 := by
      intro c hc; apply hp'; exact List.mem_append_left _ hc
    have hlen : p.length < (p ++ b :: s).length := by simp
    have htake : (p ++ b :: s).take (p.length + 1) = p ++ [b] := by
      rw [show p ++ b :: s = (p ++ [b]) ++ s by simp]
      rw [List.take_left' (by simp)]
    have := ih (p ++ [b]) hp'
    rw [sprtGo, run]
    simp only [hlen, and_true, htake]
    rw [lr_eq_product po pa h0 h0' _ hpb, bernoulliLRProd_snoc]
    rw [bernoulliLRProd_snoc] at this
    rw [show p ++ b :: s = (p ++ [b]) ++ s by simp]
    rw [show p.length + 1 = (p ++ [b]).length by simp]
    rw [List.length_cons, this]

theorem allSeqs_bits : ∀ n, ∀ x ∈ allSeqs n, ∀ b ∈ x, b = 0 ∨ b = 1 := by
  intro n
  induction n with
  | zero => simp [allSeqs]
  | succ n ih =>
    intro x hx b hb
    simp only [allSeqs, List.mem_flatMap, List.mem_cons, List.not_mem_nil, or_false] at hx
    obtain ⟨y, hy, rfl | rfl⟩ := hx
    · rcases List.mem_cons.1 hb with h | h
      · exact Or.inl h
      · exact ih y hy b h
    · rcases List.mem_cons.1 hb with h | h
      · exact Or.inr h
      · exact ih y hy b h

theorem sprt_ts_eq_run (po pa a b : Rat) (h0 : 0 < po) (h0' : po < 1) (x : List Nat)
    (hx : ∀ c ∈ x, c = 0 ∨ c = 1) :
    sprt (bernoulliLR po pa) a b x true
      = sprtDecide (b / (1 - a)) ((1 - b) / a) (run (b / (1 - a)) ((1 - b) / a) (rb po pa) x 1) := by
  have := sprtGo_eq_run po pa (b / (1 - a)) ((1 - b) / a) h0 h0' x [] (by simpa using hx)
  simp only [List.nil_append, List.length_nil, bernoulliLRProd_nil] at this
  simp only [sprt, if_true]
  rw [this]

/-! #### sums over `allSeqs` -/

theorem rsum_eq_sum (l : List Rat) : rsum l = l.sum := by
  unfold rsum
  have : ∀ (a : Rat), l.foldl (· + ·) a = a + l.sum := by
    induction l with
    | nil => simp
    | cons b l ih => intro a; simp only [List.foldl_cons, List.sum_cons]; rw [ih]; ring
  rw [this]; ring

theorem rsum_allSeqs_succ (F : List Nat → Rat) (n : Nat) :
    rsum ((allSeqs (n + 1)).map F)
      = rsum ((allSeqs n).map (fun x => F (0 :: x))) + rsum ((allSeqs n).map (fun x => F (1 :: x))) := by
  simp only [rsum_eq_sum, allSeqs]
  generalize allSeqs n = L
  induction L with
  | nil => simp
  | cons y L ih =>
    simp only [List.flatMap_cons, List.map_append, List.sum_append, List.map_cons, List.map_nil,
      List.sum_cons, List.sum_nil]
    rw [ih]; ring

theorem rsum_map_mul_left (c : Rat) (F : List Nat → Rat) (L : List (List Nat)) :
    rsum (L.map (fun x => c * F x)) = c * rsum (L.map F) := by
  simp only [rsum_eq_sum]
  induction L with
  | nil => simp
  | cons y L ih => simp only [List.map_cons, List.sum_cons]; rw [ih]; ring

theorem seqProb_cons (p : Rat) (b : Nat) (x : List Nat) :
    seqProb p (b :: x) = (if b = 1 then p else 1 - p) * seqProb p x := by
  simp only [seqProb, List.map_cons, List.foldl_cons]
  rw [foldl_mul_init]
  simp

theorem rsum_seqProb (p : Rat) : ∀ n, rsum ((allSeqs n).map (seqProb p)) = 1 := by
  intro n
  induction n with
  | zero => simp [allSeqs, seqProb, rsum]
  | succ n ih =>
    rw [rsum_allSeqs_succ]
    simp only [seqProb_cons]
    rw [rsum_map_mul_left, rsum_map_mul_left, ih]
    simp

/-- probability (under success probability `p`) that the run from state `ts` over `n` further
    observations ends in a state accepted by `acc` -/
def Q (A B r0 r1 : Rat) (acc : Rat → Bool) (p : Rat) : Nat → Rat → Rat
  | 0, ts => if acc ts then 1 else 0
  | n + 1, ts =>
    if A < ts ∧ ts < B then
      (1 - p) * Q A B r0 r1 acc p n (ts * r0) + p * Q A B r0 r1 acc p n (ts * r1)
    else if acc ts then 1 else 0

theorem rsum_run_eq_Q (A B : Rat) (r : Nat → Rat) (acc : Rat → Bool) (p : Rat) :
    ∀ n ts, rsum ((allSeqs n).map (fun x => if acc (run A B r x ts) then seqProb p x else 0))
      = Q A B (r 0) (r 1) acc p n ts := by
  intro n
  induction n with
  | zero =>
    intro ts
    simp [allSeqs, run, Q, rsum, seqProb]
  | succ n ih =>
    intro ts
    rw [rsum_allSeqs_succ, Q]
    by_cases hin : A < ts ∧ ts < B
    · simp only [run, if_pos hin, seqProb_cons]
      rw [← ih, ← ih, ← rsum_map_mul_left, ← rsum_map_mul_left]
      simp
    · simp only [run, if_neg hin, seqProb_cons]
      by_cases hacc : acc ts = true
      · simp only [hacc, if_true]
        rw [rsum_map_mul_left, rsum_map_mul_left]
        rw [rsum_seqProb p n]
        simp
      · simp [hacc, rsum_eq_sum]

theorem Q_bounds (A B r0 r1 : Rat) (acc : Rat → Bool) (p : Rat) (hp : 0 ≤ p) (hp' : p ≤ 1) :
    ∀ n ts, 0 ≤ Q A B r0 r1 acc p n ts ∧ Q A B r0 r1 acc p n ts ≤ 1 := by
  intro n
  induction n with
  | zero =>
    intro ts
    simp only [Q]
    split_ifs <;> norm_num
  | succ n ih =>
    intro ts
    simp only [Q]
    have h1 := ih (ts * r0)
    have h2 := ih (ts * r1)
    have hq : 0 ≤ 1 - p := by linarith
    split_ifs
    · constructor
      · have := mul_nonneg hq h1.1
        have := mul_nonneg hp h2.1
        linarith
      · have := mul_le_mul_of_nonneg_left h1.2 hq
        have := mul_le_mul_of_nonneg_left h2.2 hp
        linarith
    · norm_num
    · norm_num

/-- Wald's inequality, inductive core (upper exit): `c · P0(accept) ≤ ts · Pa(accept)` when every
    accepted state is at least `c` -/
theorem wald_core_ge (A B po pa c : Rat) (h0 : 0 < po) (h0' : po < 1) (acc : Rat → Bool)
    (hacc : ∀ v, acc v = true → c ≤ v) :
    ∀ n ts, c * Q A B ((1 - pa) / (1 - po)) (pa / po) acc po n ts
      ≤ ts * Q A B ((1 - pa) / (1 - po)) (pa / po) acc pa n ts := by
  intro n
  induction n with
  | zero =>
    intro ts
    simp only [Q]
    by_cases h : acc ts = true
    · simp only [h, if_true]; have := hacc ts h; linarith
    · simp [h]
  | succ n ih =>
    intro ts
    simp only [Q]
    have hq : 0 < 1 - po := by linarith
    have e1 : ts * pa = ts * (pa / po) * po := by field_simp
    have e0 : ts * (1 - pa) = ts * ((1 - pa) / (1 - po)) * (1 - po) := by field_simp
    have i0 := mul_le_mul_of_nonneg_left (ih (ts * ((1 - pa) / (1 - po)))) (le_of_lt hq)
    have i1 := mul_le_mul_of_nonneg_left (ih (ts * (pa / po))) (le_of_lt h0)
    split_ifs with hin h
    · calc c * ((1 - po) * Q A B ((1 - pa) / (1 - po)) (pa / po) acc po n (ts * ((1 - pa) / (1 - po)))
              + po * Q A B ((1 - pa) / (1 - po)) (pa / po) acc po n (ts * (pa / po)))
          = (1 - po) * (c * Q A B ((1 - pa) / (1 - po)) (pa / po) acc po n (ts * ((1 - pa) / (1 - po))))
              + po * (c * Q A B ((1 - pa) / (1 - po)) (pa / po) acc po n (ts * (pa / po))) := by ring
        _ ≤ (1 - po) * (ts * ((1 - pa) / (1 - po)) * Q A B ((1 - pa) / (1 - po)) (pa / po) acc pa n (ts * ((1 - pa) / (1 - po))))
              + po * (ts * (pa / po) * Q A B ((1 - pa) / (1 - po)) (pa / po) acc pa n (ts * (pa / po))) := by linarith
        _ = (ts * ((1 - pa) / (1 - po)) * (1 - po)) * Q A B ((1 - pa) / (1 - po)) (pa / po) acc pa n (ts * ((1 - pa) / (1 - po)))
              + (ts * (pa / po) * po) * Q A B ((1 - pa) / (1 - po)) (pa / po) acc pa n (ts * (pa / po)) := by ring
        _ = ts * ((1 - pa) * Q A B ((1 - pa) / (1 - po)) (pa / po) acc pa n (ts * ((1 - pa) / (1 - po)))
              + pa * Q A B ((1 - pa) / (1 - po)) (pa / po) acc pa n (ts * (pa / po))) := by
            rw [← e0, ← e1]; ring
    · have := hacc ts h; linarith
    · simp

/-- Wald's inequality, inductive core (lower exit): `ts · Pa(accept) ≤ c · P0(accept)` when every
    accepted state is at most `c` -/
theorem wald_core_le (A B po pa c : Rat) (h0 : 0 < po) (h0' : po < 1) (acc : Rat → Bool)
    (hacc : ∀ v, acc v = true → v ≤ c) :
    ∀ n ts, ts * Q A B ((1 - pa) / (1 - po)) (pa / po) acc pa n ts
      ≤ c * Q A B ((1 - pa) / (1 - po)) (pa / po) acc po n ts := by
  intro n
  induction n with
  | zero =>
    intro ts
    simp only [Q]
    by_cases h : acc ts = true
    · simp only [h, if_true]; have := hacc ts h; linarith
    · simp [h]
  | succ n ih =>
    intro ts
    simp only [Q]
    have hq : 0 < 1 - po := by linarith
    have e1 : ts * pa = ts * (pa / po) * po := by field_simp
    have e0 : ts * (1 - pa) = ts * ((1 - pa) / (1 - po)) * (1 - po) := by field_simp
    have i0 := mul_le_mul_of_nonneg_left (ih (ts * ((1 - pa) / (1 - po)))) (le_of_lt hq)
    have i1 := mul_le_mul_of_nonneg_left (ih (ts * (pa / po))) (le_of_lt h0)
    split_ifs with hin h
    · calc ts * ((1 - pa) * Q A B ((1 - pa) / (1 - po)) (pa / po) acc pa n (ts * ((1 - pa) / (1 - po)))
              + pa * Q A B ((1 - pa) / (1 - po)) (pa / po) acc pa n (ts * (pa / po)))
          = (ts * ((1 - pa) / (1 - po)) * (1 - po)) * Q A B ((1 - pa) / (1 - po)) (pa / po) acc pa n (ts * ((1 - pa) / (1 - po)))
              + (ts * (pa / po) * po) * Q A B ((1 - pa) / (1 - po)) (pa / po) acc pa n (ts * (pa / po)) := by
            rw [← e0, ← e1]; ring
        _ = (1 - po) * (ts * ((1 - pa) / (1 - po)) * Q A B ((1 - pa) / (1 - po)) (pa / po) acc pa n (ts * ((1 - pa) / (1 - po))))
              + po * (ts * (pa / po) * Q A B ((1 - pa) / (1 - po)) (pa / po) acc pa n (ts * (pa / po))) := by ring
        _ ≤ (1 - po) * (c * Q A B ((1 - pa) / (1 - po)) (pa / po) acc po n (ts * ((1 - pa) / (1 - po))))
              + po * (c * Q A B ((1 - pa) / (1 - po)) (pa / po) acc po n (ts * (pa / po))) := by linarith
        _ = c * ((1 - po) * Q A B ((1 - pa) / (1 - po)) (pa / po) acc po n (ts * ((1 - pa) / (1 - po)))
              + po * Q A B ((1 - pa) / (1 - po)) (pa / po) acc po n (ts * (pa / po))) := by ring
    · have := hacc ts h; linarith
    · simp

theorem rb_zero (po pa : Rat) : rb po pa 0 = (1 - pa) / (1 - po) := by simp [rb]
theorem rb_one (po pa : Rat) : rb po pa 1 = pa / po := by simp [rb]

theorem rejectH0Prob_eq_Q (po pa a b p : Rat) (h0 : 0 < po) (h0' : po < 1) (n : Nat) :
    rejectH0Prob po pa a b p n
      = Q (b / (1 - a)) ((1 - b) / a) ((1 - pa) / (1 - po)) (pa / po)
          (fun v => decide ((1 - b) / a ≤ v)) p n 1 := by
  have hQ := rsum_run_eq_Q (b / (1 - a)) ((1 - b) / a) (rb po pa)
    (fun v => decide ((1 - b) / a ≤ v)) p n 1
  rw [rb_zero, rb_one] at hQ
  rw [← hQ]
  unfold rejectH0Prob
  congr 1
  apply List.map_congr_left
  intro x hx
  rw [sprt_ts_eq_run po pa a b h0 h0' x (allSeqs_bits n x hx), sprtDecide_rejectH0]

theorem rejectHaProb_eq_Q (po pa a b p : Rat) (h0 : 0 < po) (h0' : po < 1)
    (hAB : b / (1 - a) < (1 - b) / a) (n : Nat) :
    rejectHaProb po pa a b p n
      = Q (b / (1 - a)) ((1 - b) / a) ((1 - pa) / (1 - po)) (pa / po)
          (fun v => decide (v ≤ b / (1 - a))) p n 1 := by
  have hQ := rsum_run_eq_Q (b / (1 - a)) ((1 - b) / a) (rb po pa)
    (fun v => decide (v ≤ b / (1 - a))) p n 1
  rw [rb_zero, rb_one] at hQ
  rw [← hQ]
  unfold rejectHaProb
  congr 1
  apply List.map_congr_left
  intro x hx
  rw [sprt_ts_eq_run po pa a b h0 h0' x (allSeqs_bits n x hx), sprtDecide_rejectHa _ _ _ hAB]

/-- Wald: under H0 the probability of rejecting H0 is at most α/(1−β), for every sample length -/
theorem wald_alpha (po pa a b : Rat) (h0 : 0 < po) (h0' : po < 1) (ha : 0 < pa) (ha' : pa < 1)
    (hα : 0 < a) (hβ : 0 < b) (hab : a + b < 1) (n : Nat) :
    rejectH0Prob po pa a b po n ≤ a / (1 - b) := by
  rw [rejectH0Prob_eq_Q po pa a b po h0 h0']
  have hb1 : 0 < 1 - b := by linarith
  have hB : 0 < (1 - b) / a := div_pos hb1 hα
  have hcore := wald_core_ge (b / (1 - a)) ((1 - b) / a) po pa ((1 - b) / a) h0 h0'
    (fun v => decide ((1 - b) / a ≤ v)) (by intro v hv; simpa using hv) n 1
  have hbd := (Q_bounds (b / (1 - a)) ((1 - b) / a) ((1 - pa) / (1 - po)) (pa / po)
    (fun v => decide ((1 - b) / a ≤ v)) pa (le_of_lt ha) (le_of_lt ha') n 1).2
  have e : a / (1 - b) = 1 / ((1 - b) / a) := by rw [one_div_div]
  rw [e, le_div_iff₀ hB]
  linarith

/-- Wald: under Ha the probability of rejecting Ha is at most β/(1−α), for every sample length -/
theorem wald_beta (po pa a b : Rat) (h0 : 0 < po) (h0' : po < 1) (ha : 0 < pa) (ha' : pa < 1)
    (hα : 0 < a) (hβ : 0 < b) (hab : a + b < 1) (n : Nat) :
    rejectHaProb po pa a b pa n ≤ b / (1 - a) := by
  have ha1 : 0 < 1 - a := by linarith
  have hb1 : 0 < 1 - b := by linarith
  have hA : 0 < b / (1 - a) := div_pos hβ ha1
  have hAB : b / (1 - a) < (1 - b) / a := by
    rw [div_lt_div_iff₀ ha1 hα]
    nlinarith
  rw [rejectHaProb_eq_Q po pa a b pa h0 h0' hAB]
  have hcore := wald_core_le (b / (1 - a)) ((1 - b) / a) po pa (b / (1 - a)) h0 h0'
    (fun v => decide (v ≤ b / (1 - a))) (by intro v hv; simpa using hv) n 1
  have hbd := (Q_bounds (b / (1 - a)) ((1 - b) / a) ((1 - pa) / (1 - po)) (pa / po)
    (fun v => decide (v ≤ b / (1 - a))) po (le_of_lt h0) (le_of_lt h0') n 1).2
  have := mul_le_mul_of_nonneg_left hbd (le_of_lt hA)
  linarith

/-- non-vacuity: a sample whose ratio exits only on the last observation is decided (this is the
    input on which the unrepaired loop reported no decision) -/
example : (sprt (fun (x : List Nat) => if x.length = 3 then 100 else 1) (1/20) (1/20) [1, 1, 1] true)
    = ⟨true, false, 100⟩ := by decide +kernel

end PV.Sprt