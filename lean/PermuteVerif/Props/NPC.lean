/-
  Props/NPC.lean — C07 (NPC global p-value is an exact rank p-value: never zero, exactly valid)
  and C08 (monotone, symmetric, rank-based; combiner formulas; shape errors).
  Statements are fixed; only proofs (and helper lemmas above them) may change.
-/
import PermuteVerif.Model.NPC
import Mathlib.Data.List.Basic
import Mathlib.Data.List.Count
import Mathlib.Data.List.Forall2
import Mathlib.Data.List.Perm.Basic
import Mathlib.Data.List.MinMax
import Mathlib.Data.Finset.Max
import Mathlib.Order.Monotone.Basic
import Mathlib.Tactic.Linarith
import Mathlib.Tactic.Positivity
import Mathlib.Tactic.FieldSimp
import Mathlib.Tactic.Ring
import Mathlib.Algebra.Order.Field.Rat
namespace PV.NPC
/-! ### helper lemmas -/

theorem cntGe_eq_filter (T : List Rat) (t : Rat) :
    cntGe T t = (T.filter (fun u => decide (t ≤ u))).length := by
  unfold cntGe; exact List.countP_eq_length_filter

theorem rowPvals_length (D : List (List Rat)) (a b : Bool) : (rowPvals D a b).length = D.length := by
  simp [rowPvals]

theorem cntGe_le_length (l : List Rat) (t : Rat) : cntGe l t ≤ l.length := by
  unfold cntGe; exact List.countP_le_length

theorem column_concat (tv : List (List Rat)) (ts : List Rat) (c : Nat) :
    column (tv ++ [ts]) c = column tv c ++ [ts.getD c 0] := by
  simp [column]

theorem cntGe_concat_self (l : List Rat) (t : Rat) : cntGe (l ++ [t]) t = cntGe l t + 1 := by
  simp [cntGe, List.countP_append]

theorem getLastD_mem_of_ne_nil {α : Type} (l : List α) (a : α) (h : l ≠ []) : l.getLastD a ∈ l := by
  cases l with
  | nil => exact absurd rfl h
  | cons b t => rw [List.getLastD_cons]; exact List.getLastD_mem_cons

theorem cntGe_mono_thr (l : List Rat) (s t : Rat) (h : s ≤ t) : cntGe l t ≤ cntGe l s := by
  unfold cntGe
  apply List.countP_mono_left
  intro x _ hx
  simp only [decide_eq_true_eq] at hx ⊢
  exact le_trans h hx

theorem foldl_mul_le (a b : List Rat) (h : List.Forall₂ (· ≤ ·) a b) (ha : ∀ v ∈ a, 0 ≤ v) :
    ∀ acc acc' : Rat, 0 ≤ acc → acc ≤ acc' → a.foldl (· * ·) acc ≤ b.foldl (· * ·) acc' := by
  induction h with
  | nil => intro acc acc' _ h; simpa using h
  | cons hxy _ ih =>
    intro acc acc' h0 hle
    simp only [List.foldl_cons]
    have hx := ha _ List.mem_cons_self
    apply ih (fun v hv => ha v (by simp [hv]))
    · exact mul_nonneg h0 hx
    · exact mul_le_mul hle hxy hx (le_trans h0 hle)

theorem foldl_max_le (a b : List Rat) (h : List.Forall₂ (· ≤ ·) a b) :
    ∀ acc acc' : Rat, acc' ≤ acc →
      (b.map (fun t => 1 - t)).foldl max acc' ≤ (a.map (fun t => 1 - t)).foldl max acc := by
  induction h with
  | nil => intro acc acc' h; simpa using h
  | cons hxy _ ih =>
    intro acc acc' hle
    simp only [List.map_cons, List.foldl_cons]
    apply ih
    exact max_le_max hle (by linarith)

theorem foldl_zipWith_le (a b : List Rat) (h : List.Forall₂ (· ≤ ·) a b) :
    ∀ (w : List Rat), (∀ v ∈ w, 0 ≤ v) → ∀ acc acc' : Rat, acc' ≤ acc →
      (List.zipWith (fun a b => -1 * b * a) w b).foldl (· + ·) acc' ≤
      (List.zipWith (fun a b => -1 * b * a) w a).foldl (· + ·) acc := by
  induction h with
  | nil => intro w _ acc acc' h; simpa using h
  | cons hxy _ ih =>
    intro w hw acc acc' hle
    cases w with
    | nil => simpa using hle
    | cons u w =>
      simp only [List.zipWith_cons_cons, List.foldl_cons]
      apply ih w (fun v hv => hw v (by simp [hv]))
      have hu := hw u (by simp)
      nlinarith [mul_le_mul_of_nonneg_right hxy hu]

theorem column_modify_ne (D : List (List Rat)) (f : Rat → Rat) {i j : Nat} (h : j ≠ i) :
    column (D.map (fun r => r.modify j f)) i = column D i := by
  simp [column, List.getD_eq_getElem?_getD, List.getElem?_modify_ne _ _ h]

theorem column_modify_eq (D : List (List Rat)) (f : Rat → Rat) {j : Nat}
    (h : ∀ r ∈ D, j < r.length) :
    column (D.map (fun r => r.modify j f)) j = (column D j).map f := by
  simp only [column, List.map_map]
  apply List.map_congr_left
  intro r hr
  have := h r hr
  simp [List.getD_eq_getElem?_getD, this]

theorem cntGe_map_strictMono (l : List Rat) (f : Rat → Rat) (hf : StrictMono f) (t : Rat) :
    cntGe (l.map f) (f t) = cntGe l t := by
  unfold cntGe
  rw [List.countP_map]
  apply List.countP_congr
  intro x _
  simp [hf.le_iff_le]

theorem headD_map_modify_length (D : List (List Rat)) (j : Nat) (f : Rat → Rat) :
    ((D.map (fun r => r.modify j f)).headD []).length = (D.headD []).length := by
  cases D <;> simp

theorem getD_zipIdx_map (r : List Rat) (G : Rat × Nat → Rat) (j : Nat) (h : j < r.length) :
    (r.zipIdx.map G).getD j 0 = G (r.getD j 0, j) := by
  simp [List.getD_eq_getElem?_getD, h]

theorem column_selectCols (D : List (List Rat)) (σ : List Nat) (k : Nat) (h : k < σ.length) :
    column (selectCols D σ) k = column D σ[k] := by
  simp [column, selectCols, List.getD_eq_getElem?_getD, h]

theorem rowPvals_selectCols (D : List (List Rat)) (σ : List Nat) (n : Nat) (plus1 : Bool)
    (hσ : ∀ i ∈ σ, i < n) (hw : ∀ r ∈ D, r.length = n) :
    rowPvals (selectCols D σ) plus1 false =
      (rowPvals D plus1 false).map (fun row => σ.map (fun j => row.getD j 0)) := by
  unfold rowPvals
  simp only [Bool.false_and, Bool.false_eq_true, if_false]
  have hl : (selectCols D σ).length = D.length := by simp [selectCols]
  rw [hl]
  conv_lhs => arg 2; unfold selectCols
  simp only [List.map_map]
  apply List.map_congr_left
  intro r hr
  simp only [Function.comp]
  apply List.ext_getElem
  · simp
  · intro k h1 h2
    have hk : k < σ.length := by simpa using h2
    have hlt : σ[k] < r.length := by rw [hw r hr]; exact hσ _ (List.getElem_mem hk)
    simp only [List.getElem_map, List.getElem_zipIdx, Nat.zero_add]
    rw [getD_zipIdx_map r _ _ hlt, column_selectCols D σ k hk]

theorem map_getD_range (row : List Rat) :
    (List.range row.length).map (fun j => row.getD j 0) = row := by
  apply List.ext_getElem
  · simp
  · intro i h1 h2
    simp [List.getD_eq_getElem?_getD, h2]

theorem relabel_perm (σ : List Nat) (row : List Rat) (hσ : σ.Perm (List.range row.length)) :
    (σ.map (fun j => row.getD j 0)).Perm row := by
  have := hσ.map (fun j => row.getD j 0)
  rwa [map_getD_range] at this

theorem rowPvals_row_length (D : List (List Rat)) (a b : Bool) (n : Nat)
    (hw : ∀ r ∈ D, r.length = n) : ∀ r ∈ rowPvals D a b, r.length = n := by
  intro r hr
  unfold rowPvals at hr
  simp only [List.mem_map] at hr
  obtain ⟨r0, hr0, rfl⟩ := hr
  simpa using hw r0 hr0

/-! ### C07 -/

/-- exact validity of rank p-values, counting form: in any list at most k entries have at most k
    entries at least as large as themselves -/
theorem rank_valid (T : List Rat) (k : Nat) :
    (T.filter (fun t => decide (cntGe T t ≤ k))).length ≤ k := by
  set S := T.filter (fun t => decide (cntGe T t ≤ k)) with hS
  by_cases hne : S = []
  · simp [hne]
  · obtain ⟨m, hmS, hmin⟩ : ∃ m ∈ S, ∀ s ∈ S, m ≤ s := by
      have hfin : S.toFinset.Nonempty := by
        obtain ⟨a, ha⟩ := List.exists_mem_of_ne_nil S hne
        exact ⟨a, List.mem_toFinset.mpr ha⟩
      obtain ⟨m, hm, hle⟩ := Finset.exists_min_image S.toFinset id hfin
      exact ⟨m, List.mem_toFinset.mp hm, fun s hs => hle s (List.mem_toFinset.mpr hs)⟩
    have hmT : m ∈ T ∧ cntGe T m ≤ k := by
      have := List.mem_filter.mp hmS
      exact ⟨this.1, by simpa using this.2⟩
    have hsub : S.length ≤ (T.filter (fun u => decide (m ≤ u))).length := by
      have hcongr : S = (T.filter (fun u => decide (m ≤ u))).filter (fun t => decide (cntGe T t ≤ k)) := by
        rw [hS, List.filter_filter]
        apply List.filter_congr
        intro x hx
        by_cases hP : cntGe T x ≤ k
        · have hxS : x ∈ S := by rw [hS]; exact List.mem_filter.mpr ⟨hx, by simpa using hP⟩
          have := hmin x hxS
          simp [hP, this]
        · simp [hP]
      rw [hcongr]
      exact List.length_filter_le _ _
    rw [cntGe_eq_filter] at hmT
    exact le_trans hsub hmT.2

/-- sim_npc's observed partial p-values are the last row of the matrix of per-row p-values -/
theorem simnpc_partial_is_row (ts : List Rat) (tv : List (List Rat)) (comb : List Rat → Rat) :
    (simNpc ts tv comb).1 = (rowPvals (tv ++ [ts]) false false).getLastD [] := by
  unfold simNpc rowPvals
  simp only [List.map_append, List.map_cons, List.map_nil, List.getLastD_concat]
  apply List.map_congr_left
  rintro ⟨v, j⟩ hmem
  obtain ⟨hj, hv⟩ := List.mem_zipIdx' hmem
  have hget : ts.getD j 0 = v := by
    rw [hv]; simp [List.getD_eq_getElem?_getD, hj]
  simp only [Bool.false_and, Bool.false_eq_true, if_false, c1, List.length_append,
    List.length_cons, List.length_nil]
  rw [column_concat, hget, cntGe_concat_self]

/-- sim_npc's global p-value = #{rows whose combined statistic is at least the observed row's}/#rows,
    for **every** combining function -/
theorem simnpc_rank_exact (ts : List Rat) (tv : List (List Rat)) (comb : List Rat → Rat)
    (h2 : 2 ≤ ts.length) (hw : ∀ r ∈ tv, r.length = ts.length) :
    (simNpc ts tv comb).2 =
      .ok (((cntGe ((rowPvals (tv ++ [ts]) false false).map comb)
              (comb ((rowPvals (tv ++ [ts]) false false).getLastD [])) : Nat) : Rat)
            / ((tv.length + 1 : Nat) : Rat)) := by
  rw [← simnpc_partial_is_row ts tv comb]
  have hlen : (simNpc ts tv comb).1.length = ts.length := by simp [simNpc]
  have hhead : ((tv ++ [ts]).headD []).length = ts.length := by
    cases tv with
    | nil => simp
    | cons r t => simpa using hw r (by simp)
  show npc (simNpc ts tv comb).1 (tv ++ [ts]) comb false false false = _
  unfold npc
  simp only [hlen, hhead, c1]
  have : ¬ ts.length < 2 := by omega
  simp [this]

/-- the observed row always counts itself: the result is at least 1/(reps+1), never 0 -/
theorem simnpc_pos (ts : List Rat) (tv : List (List Rat)) (comb : List Rat → Rat)
    (h2 : 2 ≤ ts.length) (hw : ∀ r ∈ tv, r.length = ts.length) :
    ∃ v, (simNpc ts tv comb).2 = .ok v ∧ 1 / ((tv.length : Rat) + 1) ≤ v ∧ v ≤ 1 := by
  refine ⟨_, simnpc_rank_exact ts tv comb h2 hw, ?_, ?_⟩
  · have hmem : (rowPvals (tv ++ [ts]) false false).getLastD [] ∈ rowPvals (tv ++ [ts]) false false := by
      apply getLastD_mem_of_ne_nil
      intro h
      have := congrArg List.length h
      rw [rowPvals_length] at this
      simp at this
    have hpos : 1 ≤ cntGe ((rowPvals (tv ++ [ts]) false false).map comb)
              (comb ((rowPvals (tv ++ [ts]) false false).getLastD [])) := by
      unfold cntGe
      apply List.countP_pos_iff.mpr
      exact ⟨_, List.mem_map_of_mem hmem, by simp⟩
    have hd : (0:Rat) < ((tv.length + 1 : Nat) : Rat) := by exact_mod_cast Nat.succ_pos _
    have e : ((tv.length : Rat) + 1) = ((tv.length + 1 : Nat) : Rat) := by push_cast; ring
    rw [e]
    apply div_le_div_of_nonneg_right _ hd.le
    exact_mod_cast hpos
  · have hle := cntGe_le_length ((rowPvals (tv ++ [ts]) false false).map comb)
        (comb ((rowPvals (tv ++ [ts]) false false).getLastD []))
    rw [List.length_map, rowPvals_length] at hle
    simp only [List.length_append, List.length_cons, List.length_nil] at hle
    have hd : (0:Rat) < ((tv.length + 1 : Nat) : Rat) := by exact_mod_cast Nat.succ_pos _
    rw [div_le_one hd]
    exact_mod_cast hle

/-- in general npc returns a value in [c/(B+c), 1] -/
theorem npc_range (p : List Rat) (D : List (List Rat)) (comb : List Rat → Rat) (plus1 clip user : Bool)
    (step v : Rat) (hB : 0 < D.length + c1 plus1)
    (h : npc p D comb plus1 clip user step = .ok v) :
    ((c1 plus1 : Nat) : Rat) / ((D.length + c1 plus1 : Nat) : Rat) ≤ v ∧ v ≤ 1 := by
  unfold npc at h
  simp only at h
  split_ifs at h
  injection h with h
  subst h
  have hle := cntGe_le_length ((rowPvals D plus1 clip).map comb) (comb p)
  rw [List.length_map, rowPvals_length] at hle
  have hpos : (0:Rat) < ((D.length + c1 plus1 : Nat) : Rat) := by exact_mod_cast hB
  rw [Nat.add_comm (c1 plus1) D.length]
  constructor
  · apply div_le_div_of_nonneg_right _ hpos.le
    exact_mod_cast Nat.le_add_right _ _
  · rw [div_le_one hpos]
    exact_mod_cast (by omega)

/-- exact finite-sample validity: among the rows of any matrix, at most k would obtain a global
    p-value ≤ k/B (each row in turn taken as the observed one) -/
theorem npc_exact_valid (D : List (List Rat)) (comb : List Rat → Rat) (k : Nat) :
    ((rowPvals D false false).filter (fun r =>
        decide (cntGe ((rowPvals D false false).map comb) (comb r) ≤ k))).length ≤ k := by
  have := rank_valid ((rowPvals D false false).map comb) k
  rw [List.filter_map, List.length_map] at this
  exact this

/-! ### C08 -/

/-- monotone: raising any observed partial p-value never lowers the global p-value, for every
    combining function that is non-increasing in each argument -/
theorem npc_mono (p p' : List Rat) (D : List (List Rat)) (comb : List Rat → Rat) (plus1 clip : Bool)
    (hc : ∀ a b, List.Forall₂ (· ≤ ·) a b → comb b ≤ comb a)
    (hp : List.Forall₂ (· ≤ ·) p p') (v v' : Rat)
    (h : npc p D comb plus1 clip = .ok v) (h' : npc p' D comb plus1 clip = .ok v') : v ≤ v' := by
  unfold npc at h h'
  simp only at h h'
  split_ifs at h
  split_ifs at h'
  injection h with h
  injection h' with h'
  subst h h'
  apply div_le_div_of_nonneg_right _ (by exact_mod_cast Nat.zero_le _)
  have := cntGe_mono_thr ((rowPvals D plus1 clip).map comb) _ _ (hc p p' hp)
  exact_mod_cast Nat.add_le_add_left this _

/-- symmetric: relabelling the partial tests (entries of pvalues and columns of distr permuted
    together) leaves the result unchanged, for every permutation-invariant combining function -/
theorem npc_relabel (p : List Rat) (D : List (List Rat)) (comb : List Rat → Rat) (plus1 : Bool)
    (σ : List Nat) (hσ : σ.Perm (List.range p.length)) (hw : ∀ r ∈ D, r.length = p.length)
    (hc : ∀ a b : List Rat, a.Perm b → comb a = comb b) :
    npc (σ.map (fun i => p.getD i 0)) (selectCols D σ) comb plus1 = npc p D comb plus1 := by
  have hσlen : σ.length = p.length := by simpa using hσ.length_eq
  have hσlt : ∀ i ∈ σ, i < p.length := fun i hi => List.mem_range.mp (hσ.mem_iff.mp hi)
  have hl : (selectCols D σ).length = D.length := by simp [selectCols]
  have hhead : ((selectCols D σ).headD []).length = (D.headD []).length := by
    cases D with
    | nil => simp [selectCols]
    | cons r t => simp [selectCols, hσlen, hw r (by simp)]
  have hcomb : (rowPvals (selectCols D σ) plus1 false).map comb = (rowPvals D plus1 false).map comb := by
    rw [rowPvals_selectCols D σ p.length plus1 hσlt hw, List.map_map]
    apply List.map_congr_left
    intro row hrow
    have hrl := rowPvals_row_length D plus1 false p.length hw row hrow
    simp only [Function.comp]
    apply hc
    apply relabel_perm
    rw [hrl]; exact hσ
  have hobs : comb (σ.map (fun i => p.getD i 0)) = comb p := hc _ _ (relabel_perm σ p hσ)
  unfold npc
  simp only [hcomb, hobs, hl, hhead, List.length_map, hσlen, Bool.false_and]

/-- rank-based: replacing a column of distr by a strictly increasing transformation of itself
    changes nothing -/
theorem npc_rank_invariant (p : List Rat) (D : List (List Rat)) (comb : List Rat → Rat) (plus1 : Bool)
    (j : Nat) (f : Rat → Rat) (hf : StrictMono f) (hw : ∀ r ∈ D, r.length = p.length) :
    npc p (D.map (fun r => r.modify j f)) comb plus1 = npc p D comb plus1 := by
  by_cases hj : p.length ≤ j
  · have : D.map (fun r => r.modify j f) = D := by
      conv_rhs => rw [← List.map_id D]
      apply List.map_congr_left
      intro r hr
      exact List.modify_eq_self (by rw [hw r hr]; exact hj)
    rw [this]
  · rw [Nat.not_le] at hj
    have hrow : rowPvals (D.map (fun r => r.modify j f)) plus1 false = rowPvals D plus1 false := by
      unfold rowPvals
      simp only [List.length_map, List.map_map]
      apply List.map_congr_left
      intro r hr
      simp only [Function.comp]
      apply List.ext_getElem
      · simp
      · intro i h1 h2
        simp only [List.getElem_map, List.getElem_zipIdx, Nat.zero_add, Bool.false_and,
          Bool.false_eq_true, if_false]
        by_cases hij : j = i
        · subst hij
          rw [column_modify_eq D f (fun r hr => by rw [hw r hr]; exact hj)]
          rw [List.getElem_modify_eq, cntGe_map_strictMono _ _ hf]
        · rw [column_modify_ne D f hij, List.getElem_modify_ne _ _ hij]
    unfold npc
    simp only [hrow, List.length_map, headD_map_modify_length]

/-- Fisher's combining function (ordered like −Π p) is non-increasing in every argument -/
theorem fisherKey_antitone (a b : List Rat) (h : List.Forall₂ (· ≤ ·) a b) (ha : ∀ v ∈ a, 0 ≤ v) :
    fisherKey b ≤ fisherKey a := by
  unfold fisherKey
  exact neg_le_neg (foldl_mul_le a b h ha 1 1 zero_le_one le_rfl)

/-- Tippett's max(1 − p) is non-increasing in every argument -/
theorem tippett_antitone (a b : List Rat) (h : List.Forall₂ (· ≤ ·) a b) :
    tippett b ≤ tippett a := by
  unfold tippett
  apply foldl_max_le a b h
  cases h with
  | nil => simp
  | cons hxy _ => simp only [List.headD_cons]; linarith

/-- the inverse-root-n weighted sum is non-increasing in every argument for non-negative weights -/
theorem invNWeight_antitone (w : List Rat) (hw : ∀ v ∈ w, 0 ≤ v) (a b : List Rat)
    (h : List.Forall₂ (· ≤ ·) a b) : invNWeight w b ≤ invNWeight w a := by
  unfold invNWeight rsum
  exact foldl_zipWith_le a b h w hw 0 0 le_rfl

/-- fewer than two p-values are rejected -/
theorem npc_rejects_short (p : List Rat) (D : List (List Rat)) (comb : List Rat → Rat)
    (plus1 clip user : Bool) (step : Rat) (h : p.length < 2) :
    npc p D comb plus1 clip user step = .valueError := by
  unfold npc; simp [h]

/-- shape mismatch is rejected -/
theorem npc_rejects_mismatch (p : List Rat) (D : List (List Rat)) (comb : List Rat → Rat)
    (plus1 clip user : Bool) (step : Rat) (h : p.length ≠ (D.headD []).length) :
    npc p D comb plus1 clip user step = .valueError := by
  unfold npc
  simp only
  split_ifs with h1 h2 h3
  · rfl
  · rfl
  · rfl
  · exact absurd (by simpa using h2) h

/-- a user combining function that fails the monotonicity probe is rejected -/
theorem npc_rejects_nonmonotone (p : List Rat) (D : List (List Rat)) (comb : List Rat → Rat)
    (plus1 clip : Bool) (step : Rat) (h : checkMonotonic p comb step = false) :
    npc p D comb plus1 clip true step = .valueError := by
  unfold npc; simp [h]

/-- non-vacuity: the table on which the unrepaired code returned 0 -/
example : (simNpc [3, 5] [[0,4],[2,1],[2,3],[2,5],[5,2],[4,1],[4,2],[1,3],[1,2],[2,3]] fisherKey).2
    = .ok (1/11) := by decide +kernel

end PV.NPC