/-
  Props/Shift.lean — C16: shift-null tests impute potential outcomes; a shift equals translating
  the data.  Statements are fixed; only proofs (and helper lemmas above them) may change.
-/
import PermuteVerif.Model.Tests
import Mathlib.Data.List.Basic
import Mathlib.Data.List.Perm.Basic
import Mathlib.Tactic.Linarith
import Mathlib.Tactic.Ring
import Mathlib.Tactic.FieldSimp
import Mathlib.Algebra.Order.Field.Rat
namespace PV.Shift
/-! ### helper lemmas: Fisher–Yates is a permutation -/

theorem shift_cons_set_perm {α : Type} (x : α) (xs : List α) (k : Nat) (hk : k < xs.length) :
    (xs[k] :: xs.set k x).Perm (x :: xs) := by
  rw [List.set_eq_take_append_cons_drop]
  simp only [hk, if_true]
  have : xs = xs.take k ++ xs[k] :: xs.drop (k+1) := by simp
  conv_rhs => rw [this]
  exact ((List.perm_middle.cons _).trans (List.Perm.swap ..)).trans (List.perm_middle.symm.cons x)

theorem shift_fy_perm {α : Type} : ∀ (l : List α) (cs : List Nat), (fy l cs).Perm l
  | [], cs => by simp [fy]
  | x :: xs, [] => by simp [fy]
  | x :: xs, 0 :: cs => by
      simp only [fy]; exact (shift_fy_perm xs cs).cons x
  | x :: xs, (k+1) :: cs => by
      simp only [fy]
      cases h : xs[k]? with
      | none => simp only []; exact (shift_fy_perm xs cs).cons x
      | some y =>
        simp only []
        obtain ⟨hk, hy⟩ := List.getElem?_eq_some_iff.mp h
        have h1 : (fy (xs.set k x) cs).Perm (xs.set k x) := shift_fy_perm _ cs
        exact (h1.cons y).trans (hy ▸ shift_cons_set_perm x xs k hk)
termination_by _ cs => cs.length

theorem shift_pyShuffle_perm {α : Type} (x : List α) (js : List Nat) : (pyShuffle x js).Perm x := by
  unfold pyShuffle
  exact (List.reverse_perm _).trans ((shift_fy_perm _ _).trans (List.reverse_perm x))

theorem shift_tsOrders_perm (r0 : List Nat) : ∀ (rr : List Nat) (draws : List (List Nat)),
    rr.Perm r0 → ∀ o ∈ tsOrders rr draws, o.Perm r0
  | _, [], _, o, ho => by simp [tsOrders] at ho
  | rr, js :: rest, hp, o, ho => by
      simp only [tsOrders, List.mem_cons] at ho
      have hp' : (pyShuffle rr js).Perm r0 := (shift_pyShuffle_perm rr js).trans hp
      rcases ho with rfl | ho
      · exact hp'
      · exact shift_tsOrders_perm r0 _ rest hp' o ho

/-! ### helper lemmas: sums and means -/

theorem shift_foldl_add_start (l : List Rat) (b : Rat) :
    l.foldl (· + ·) b = b + l.foldl (· + ·) 0 := by
  induction l generalizing b with
  | nil => simp
  | cons c t ih =>
    simp only [List.foldl_cons]
    rw [ih (b + c), ih (0 + c)]
    ring

theorem shift_rsum_nil : rsum [] = 0 := rfl

theorem shift_rsum_cons (a : Rat) (l : List Rat) : rsum (a :: l) = a + rsum l := by
  unfold rsum
  simp only [List.foldl_cons]
  rw [shift_foldl_add_start l (0 + a)]
  ring

theorem shift_rsum_map_sub (l : List Rat) (d : Rat) :
    rsum (l.map (fun v => v - d)) = rsum l - (l.length : Rat) * d := by
  induction l with
  | nil => simp [shift_rsum_nil]
  | cons a t ih =>
    simp only [List.map_cons, shift_rsum_cons, ih, List.length_cons]
    push_cast
    ring

theorem shift_rsum_map_add (l : List Rat) (d : Rat) :
    rsum (l.map (fun v => v + d)) = rsum l + (l.length : Rat) * d := by
  induction l with
  | nil => simp [shift_rsum_nil]
  | cons a t ih =>
    simp only [List.map_cons, shift_rsum_cons, ih, List.length_cons]
    push_cast
    ring

/-- the offset by which a mean moves under a translation (zero for the empty list) -/
def shift_shiftOf (n : Nat) (d : Rat) : Rat := if n = 0 then 0 else d

theorem shift_mean_map_sub (l : List Rat) (d : Rat) :
    mean (l.map (fun v => v - d)) = mean l - shift_shiftOf l.length d := by
  unfold mean shift_shiftOf
  rw [shift_rsum_map_sub, List.length_map]
  by_cases h : l.length = 0
  · simp [h]
  · have h' : (l.length : Rat) ≠ 0 := by exact_mod_cast h
    simp only [h, if_false]
    field_simp

theorem shift_mean_map_add (l : List Rat) (d : Rat) :
    mean (l.map (fun v => v + d)) = mean l + shift_shiftOf l.length d := by
  unfold mean shift_shiftOf
  rw [shift_rsum_map_add, List.length_map]
  by_cases h : l.length = 0
  · simp [h]
  · have h' : (l.length : Rat) ≠ 0 := by exact_mod_cast h
    simp only [h, if_false]
    field_simp

/-! ### helper lemmas: tables and index lists -/

theorem shift_range_map_getD {α : Type} (l : List α) (d : α) :
    (List.range l.length).map (fun i => l.getD i d) = l := by
  apply List.ext_getElem
  · simp
  · intro i h1 h2
    simp at h1 ⊢
    simp [List.getElem?_eq_getElem h1]

theorem shift_shiftTable_length (x y : List Rat) (d : Rat) :
    (shiftTable x y d).length = x.length + y.length := by
  simp [shiftTable]

theorem shift_twoSampleTable_length (x y : List Rat) :
    (twoSampleTable x y).length = x.length + y.length := by
  simp [twoSampleTable]

theorem shift_tsArgs_range_shift (x y : List Rat) (d : Rat) :
    tsArgs (shiftTable x y d) x.length (List.range (shiftTable x y d).length) = (x, y) := by
  unfold tsArgs
  simp only [shift_range_map_getD]
  simp [shiftTable, Function.comp_def]

theorem shift_tsArgs_range_two (x y : List Rat) :
    tsArgs (twoSampleTable x y) x.length (List.range (twoSampleTable x y).length) = (x, y) := by
  unfold tsArgs
  simp only [shift_range_map_getD]
  simp [twoSampleTable, Function.comp_def]

theorem shift_getD_map_of_lt (z : List Rat) (f : Rat → Rat × Rat) (i : Nat) (h : i < z.length) :
    (z.map f).getD i (0, 0) = f (z.getD i 0) := by
  simp [List.getD_eq_getElem?_getD, List.getElem?_eq_getElem h]

theorem shift_tsArgs_map (z : List Rat) (f : Rat → Rat × Rat) (nx : Nat) (rr : List Nat)
    (h : ∀ i ∈ rr, i < z.length) :
    tsArgs (z.map f) nx rr
      = (((rr.map (fun i => z.getD i 0)).take nx).map (fun v => (f v).1),
         ((rr.map (fun i => z.getD i 0)).drop nx).map (fun v => (f v).2)) := by
  unfold tsArgs
  have hpp : rr.map (fun i => (z.map f).getD i (0, 0))
      = (rr.map (fun i => z.getD i 0)).map f := by
    rw [List.map_map]
    apply List.map_congr_left
    intro i hi
    exact shift_getD_map_of_lt z f i (h i hi)
  simp only [hpp]
  rw [← List.map_take, ← List.map_drop, List.map_map, List.map_map]
  rfl

theorem shift_shiftTable_eq_map (x y : List Rat) (d : Rat) :
    shiftTable x y d = (x ++ y.map (fun v => v + d)).map (fun v => (v, v - d)) := by
  simp [shiftTable, Function.comp_def]

theorem shift_cntGe_shift {ι : Type} (os : List ι) (g1 g2 : ι → Rat) (o e : Rat)
    (h : ∀ r ∈ os, g1 r = g2 r + e) :
    cntGe (os.map g1) (o + e) = cntGe (os.map g2) o := by
  unfold cntGe
  rw [List.countP_map, List.countP_map]
  apply List.countP_congr
  intro r hr
  simp only [Function.comp, decide_eq_true_eq, h r hr]
  constructor <;> intro h' <;> linarith

theorem shift_cntLe_shift {ι : Type} (os : List ι) (g1 g2 : ι → Rat) (o e : Rat)
    (h : ∀ r ∈ os, g1 r = g2 r + e) :
    cntLe (os.map g1) (o + e) = cntLe (os.map g2) o := by
  unfold cntLe
  rw [List.countP_map, List.countP_map]
  apply List.countP_congr
  intro r hr
  simp only [Function.comp, decide_eq_true_eq, h r hr]
  constructor <;> intro h' <;> linarith

/-- potential_outcomes: one row per unit, treated units first; first column (x, f(y)), second
    column (finv(x), y) — the observed outcome of every unit is unchanged -/
theorem potential_outcomes_table (x y : List Rat) (f finv : Rat → Rat) :
    (potentialOutcomes x y f finv).map Prod.fst = x ++ y.map f ∧
    (potentialOutcomes x y f finv).map Prod.snd = x.map finv ++ y ∧
    (potentialOutcomes x y f finv).length = x.length + y.length := by
  simp [potentialOutcomes, Function.comp_def]

/-- the constant shift d and the pair (u ↦ u + d, u ↦ u − d) give the same table -/
theorem shift_const_eq_pair (x y : List Rat) (d : Rat) :
    shiftTable x y d = potentialOutcomes x y (fun u => u + d) (fun u => u - d) := rfl

/-- shift 0 reproduces two_sample's table exactly -/
theorem shift_zero_table (x y : List Rat) : shiftTable x y 0 = twoSampleTable x y := by
  simp [shiftTable, twoSampleTable]

/-- hence shift 0 reproduces two_sample exactly (same draws ⇒ same result) -/
theorem shift_zero_eq_two_sample (x y : List Rat) (stat : List Rat → List Rat → Rat) (alt : Alt)
    (plus1 : Bool) (draws : List (List Nat)) :
    (twoSampleShift x y 0 stat alt plus1 draws).p = (twoSample x y stat alt plus1 draws).p ∧
    (twoSampleShift x y 0 stat alt plus1 draws).dist = (twoSample x y stat alt plus1 draws).dist ∧
    (twoSampleShift x y 0 stat alt plus1 draws).obs = (twoSample x y stat alt plus1 draws).obs := by
  unfold twoSampleShift twoSample
  rw [shift_zero_table]
  exact ⟨rfl, rfl, rfl⟩

/-- the reported statistic is the statistic of the data as given, for every statistic -/
theorem shift_obs (x y : List Rat) (d : Rat) (stat : List Rat → List Rat → Rat) (alt : Alt)
    (plus1 : Bool) (draws : List (List Nat)) :
    (twoSampleShift x y d stat alt plus1 draws).obs = stat x y := by
  simp only [twoSampleShift, twoSampleCore, shift_tsArgs_range_shift]

theorem two_sample_obs (x y : List Rat) (stat : List Rat → List Rat → Rat) (alt : Alt)
    (plus1 : Bool) (draws : List (List Nat)) :
    (twoSample x y stat alt plus1 draws).obs = stat x y := by
  simp only [twoSample, twoSampleCore, shift_tsArgs_range_two]

/-- every statistic evaluation receives the treatment-column values of the units allocated to the
    first sample and the control-column values of the others -/
theorem shift_args (x y : List Rat) (d : Rat) (stat : List Rat → List Rat → Rat) (alt : Alt)
    (plus1 : Bool) (draws : List (List Nat)) :
    (twoSampleShift x y d stat alt plus1 draws).args
      = (tsOrders (List.range (x.length + y.length)) draws).map (fun rr =>
          (((rr.map (fun i => (shiftTable x y d).getD i (0, 0))).take x.length).map Prod.fst,
           ((rr.map (fun i => (shiftTable x y d).getD i (0, 0))).drop x.length).map Prod.snd)) := by
  simp only [twoSampleShift, twoSampleCore, shift_shiftTable_length]
  rfl

/-- one simulated difference in means under the shift table is the `two_sample` one plus the
    offset -/
theorem shift_meanDiff_shift_order (x y : List Rat) (d : Rat) (rr : List Nat)
    (hp : rr.Perm (List.range (x.length + y.length))) :
    meanDiff (tsArgs (shiftTable x y d) x.length rr).1 (tsArgs (shiftTable x y d) x.length rr).2
      = meanDiff (tsArgs (twoSampleTable x (y.map (fun v => v + d))) x.length rr).1
          (tsArgs (twoSampleTable x (y.map (fun v => v + d))) x.length rr).2
        + shift_shiftOf y.length d := by
  have hlen : rr.length = x.length + y.length := by rw [hp.length_eq, List.length_range]
  have hin : ∀ i ∈ rr, i < (x ++ y.map (fun v => v + d)).length := by
    intro i hi
    have := hp.subset hi
    simpa using this
  rw [shift_shiftTable_eq_map, twoSampleTable, shift_tsArgs_map _ _ _ _ hin, shift_tsArgs_map _ _ _ _ hin]
  simp only [meanDiff, List.map_id']
  rw [shift_mean_map_sub]
  have : ((rr.map (fun i => (x ++ y.map (fun v => v + d)).getD i 0)).drop x.length).length
      = y.length := by
    simp [hlen]
  rw [this]
  ring

/-- for the difference in means, a constant shift d gives, on the same draws, exactly the hit
    counts and hence the p-value of two_sample(x, y + d) -/
theorem shift_mean_equiv (x y : List Rat) (d : Rat) (alt : Alt)
    (plus1 : Bool) (draws : List (List Nat)) :
    (twoSampleShift x y d meanDiff alt plus1 draws).hitsUp
      = (twoSample x (y.map (fun v => v + d)) meanDiff alt plus1 draws).hitsUp ∧
    (twoSampleShift x y d meanDiff alt plus1 draws).hitsDn
      = (twoSample x (y.map (fun v => v + d)) meanDiff alt plus1 draws).hitsDn ∧
    (twoSampleShift x y d meanDiff alt plus1 draws).p
      = (twoSample x (y.map (fun v => v + d)) meanDiff alt plus1 draws).p := by
  have hobs : meanDiff x y = meanDiff x (y.map (fun v => v + d)) + shift_shiftOf y.length d := by
    simp only [meanDiff, shift_mean_map_add]
    ring
  have hord : ∀ o ∈ tsOrders (List.range (x.length + y.length)) draws,
      o.Perm (List.range (x.length + y.length)) :=
    shift_tsOrders_perm _ _ draws (List.Perm.refl _)
  have hup : (twoSampleShift x y d meanDiff alt plus1 draws).hitsUp
      = (twoSample x (y.map (fun v => v + d)) meanDiff alt plus1 draws).hitsUp := by
    have e1 : (twoSampleShift x y d meanDiff alt plus1 draws).hitsUp
        = cntGe ((tsOrders (List.range (x.length + y.length)) draws).map (fun rr =>
            meanDiff (tsArgs (shiftTable x y d) x.length rr).1
              (tsArgs (shiftTable x y d) x.length rr).2))
            (twoSampleShift x y d meanDiff alt plus1 draws).obs := by
      simp only [twoSampleShift, twoSampleCore, shift_shiftTable_length, List.map_map]
      rfl
    have e2 : (twoSample x (y.map (fun v => v + d)) meanDiff alt plus1 draws).hitsUp
        = cntGe ((tsOrders (List.range (x.length + y.length)) draws).map (fun rr =>
            meanDiff (tsArgs (twoSampleTable x (y.map (fun v => v + d))) x.length rr).1
              (tsArgs (twoSampleTable x (y.map (fun v => v + d))) x.length rr).2))
            (twoSample x (y.map (fun v => v + d)) meanDiff alt plus1 draws).obs := by
      simp only [twoSample, twoSampleCore, shift_twoSampleTable_length, List.length_map, List.map_map]
      rfl
    rw [e1, e2, shift_obs, two_sample_obs, hobs]
    exact shift_cntGe_shift _ _ _ _ _ (fun o ho => shift_meanDiff_shift_order x y d o (hord o ho))
  have hdn : (twoSampleShift x y d meanDiff alt plus1 draws).hitsDn
      = (twoSample x (y.map (fun v => v + d)) meanDiff alt plus1 draws).hitsDn := by
    have e1 : (twoSampleShift x y d meanDiff alt plus1 draws).hitsDn
        = cntLe ((tsOrders (List.range (x.length + y.length)) draws).map (fun rr =>
            meanDiff (tsArgs (shiftTable x y d) x.length rr).1
              (tsArgs (shiftTable x y d) x.length rr).2))
            (twoSampleShift x y d meanDiff alt plus1 draws).obs := by
      simp only [twoSampleShift, twoSampleCore, shift_shiftTable_length, List.map_map]
      rfl
    have e2 : (twoSample x (y.map (fun v => v + d)) meanDiff alt plus1 draws).hitsDn
        = cntLe ((tsOrders (List.range (x.length + y.length)) draws).map (fun rr =>
            meanDiff (tsArgs (twoSampleTable x (y.map (fun v => v + d))) x.length rr).1
              (tsArgs (twoSampleTable x (y.map (fun v => v + d))) x.length rr).2))
            (twoSample x (y.map (fun v => v + d)) meanDiff alt plus1 draws).obs := by
      simp only [twoSample, twoSampleCore, shift_twoSampleTable_length, List.length_map, List.map_map]
      rfl
    rw [e1, e2, shift_obs, two_sample_obs, hobs]
    exact shift_cntLe_shift _ _ _ _ _ (fun o ho => shift_meanDiff_shift_order x y d o (hord o ho))
  refine ⟨hup, hdn, ?_⟩
  have hp : (twoSampleShift x y d meanDiff alt plus1 draws).p
      = corePValue alt plus1 draws.length
          (twoSampleShift x y d meanDiff alt plus1 draws).hitsUp
          (twoSampleShift x y d meanDiff alt plus1 draws).hitsDn := rfl
  have hp2 : (twoSample x (y.map (fun v => v + d)) meanDiff alt plus1 draws).p
      = corePValue alt plus1 draws.length
          (twoSample x (y.map (fun v => v + d)) meanDiff alt plus1 draws).hitsUp
          (twoSample x (y.map (fun v => v + d)) meanDiff alt plus1 draws).hitsDn := rfl
  rw [hp, hp2, hup, hdn]

end PV.Shift