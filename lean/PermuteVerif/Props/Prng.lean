/-
  Props/Prng.lean — C06 (glue): an explicit seed never touches numpy's global generator; generator
  instances are passed through unchanged; numbers and strings give a fresh SHA256 of that seed.
-/
import PermuteVerif.Model.Prng
namespace PV.Prng

/-- an explicit seed (number, string or generator instance) never reads the global state -/
theorem explicit_seed_isolated (s : SeedArg) (h : s ≠ .none) (h' : s ≠ .npRandomModule) :
    readsGlobalState s = false := by
  cases s <;> simp_all [readsGlobalState]

/-- generator instances are returned as they are (so the caller's generator is the one advanced) -/
theorem instances_pass_through (s : SeedArg) (h : s = .randomState ∨ s = .sha256) :
    getPrng s = .sameObject := by
  rcases h with rfl | rfl <;> rfl

/-- an int seed and a fresh SHA256 with that seed are interchangeable: both start from SHA256(seed), counter 0 -/
theorem number_is_fresh_sha (s : SeedArg) (h : s = .number ∨ s = .string) :
    getPrng s = .freshSHA256OfSeed := by
  rcases h with rfl | rfl <;> rfl

/-- nothing else is accepted -/
theorem other_rejected : getPrng .other = .valueError := rfl

example : getPrng .number = .freshSHA256OfSeed ∧ readsGlobalState .number = false := by decide

end PV.Prng
