import PermuteVerif.Props.Tails
import PermuteVerif.Props.Extra

/-!
# A census (n = N): the number of good items is observed, every interval is [x, x]

With the whole population sampled the count is G itself, so the tails are indicator functions of G and the exact
test inversion returns the observed count for both limits at every level 0 < a ≤ 1 — the oracle of the C13 census block.
-/

namespace PV.Census
open PV PV.Tails PV.Extra

theorem pmf_census (N G k : Nat) (hG : G ≤ N) : hyperPmf N G N k = if k = G then 1 else 0 := by
  unfold hyperPmf hyperNum
  by_cases hk : N < k
  · have : k ≠ G := by omega
    simp [hk, this]
  · rw [if_neg hk, choose_eq, choose_eq, choose_eq, Nat.choose_self]
    by_cases hkG : k = G
    · subst hkG
      have : N - k = N - k := rfl
      simp [Nat.choose_self]
    · rw [if_neg hkG]
      rcases Nat.lt_or_gt_of_ne hkG with h | h
      · -- k < G: N - k > N - G, so C(N - G, N - k) = 0
        have : Nat.choose (N - G) (N - k) = 0 := Nat.choose_eq_zero_of_lt (by omega)
        simp [this]
      · have : Nat.choose G k = 0 := Nat.choose_eq_zero_of_lt h
        simp [this]

theorem sf_census (N G x : Nat) (hG : G ≤ N) (hx : x ≤ N) : hyperSf N G N x = if x ≤ G then 1 else 0 := by
  rw [hyperSf_fin]
  by_cases h : x ≤ G
  · rw [if_pos h, Finset.sum_eq_single G]
    · rw [pmf_census N G G hG, if_pos rfl]
    · intro k _ hk; rw [pmf_census N G k hG, if_neg hk]
    · intro hnot; exact absurd (Finset.mem_Ico.2 ⟨h, by omega⟩) hnot
  · rw [if_neg h]
    apply Finset.sum_eq_zero
    intro k hk
    have := (Finset.mem_Ico.1 hk).1
    rw [pmf_census N G k hG, if_neg (by omega)]

theorem cdf_census (N G x : Nat) (hG : G ≤ N) (hx : x ≤ N) : hyperCdf N G N x = if G ≤ x then 1 else 0 := by
  rw [hyperCdf_fin' N G N x hx]
  by_cases h : G ≤ x
  · rw [if_pos h, Finset.sum_eq_single G]
    · rw [pmf_census N G G hG, if_pos rfl]
    · intro k _ hk; rw [pmf_census N G k hG, if_neg hk]
    · intro hnot; exact absurd (Finset.mem_range.2 (by omega)) hnot
  · rw [if_neg h]
    apply Finset.sum_eq_zero
    intro k hk
    have := Finset.mem_range.1 hk
    rw [pmf_census N G k hG, if_neg (by omega)]

/-- census: the lower limit is the observed count -/
theorem lower_census (N x : Nat) (a : Rat) (ha : 0 < a) (ha1 : a ≤ 1) (hx : 0 < x) (hxN : x ≤ N) :
    hgLowerSearch N N x a = x := by
  obtain ⟨h1, h2, h3⟩ := hgLower_spec N N x a hx hxN (le_refl N) ha1
  apply le_antisymm
  · by_contra hlt
    have hlt : x < hgLowerSearch N N x a := Nat.lt_of_not_le hlt
    have := h3 x hlt
    rw [sf_census N x x hxN hxN, if_pos (le_refl x)] at this
    linarith
  · exact hg_lower_ge_x N N x a ha hx hxN (le_refl N) ha1

/-- census: the upper limit is the observed count -/
theorem upper_census (N x : Nat) (a : Rat) (ha : 0 < a) (ha1 : a ≤ 1) (hxN : x < N) :
    hgUpperSearch N N x a = x := by
  obtain ⟨h1, h2, h3⟩ := hgUpper_spec N N x a hxN (le_refl N) ha1
  apply le_antisymm
  · have := hg_upper_le N N x a ha hxN (le_refl N) ha1
    omega
  · by_contra hlt
    have hlt : hgUpperSearch N N x a < x := Nat.lt_of_not_le hlt
    have := h3 x hlt hxN.le
    rw [cdf_census N x x hxN.le hxN.le, if_pos (le_refl x)] at this
    linarith

example : hypergeomCI 5 2 5 (19/20) .twoSided = (2, 2) := by decide +kernel

end PV.Census
