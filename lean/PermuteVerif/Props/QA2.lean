/-
  Props/QA2.lean — C20, the as_string=True variant and the order of the output:
  the comma-joined string determines the integer row, so returning strings loses nothing;
  find_duplicate_rows returns its rows in lexsort order.
-/
import PermuteVerif.Model.QA
import PermuteVerif.Props.QA
namespace PV.QA2

/-! ### helper lemmas: decimal strings of integers -/

theorem qa2_int_toList (i : Int) :
    (toString i).toList =
      if 0 ≤ i then Nat.toDigits 10 i.toNat else '-' :: Nat.toDigits 10 (-i).toNat := by
  rw [Int.toString_eq_repr, Int.repr_eq_if]
  split <;> simp

theorem qa2_toDigits_inj {a b : Nat} (h : Nat.toDigits 10 a = Nat.toDigits 10 b) : a = b := by
  have h' := congrArg (fun l => Nat.ofDigitChars 10 l 0) h
  simpa using h'

theorem qa2_isDigit_of_mem {n : Nat} {c : Char} (hc : c ∈ Nat.toDigits 10 n) : c.isDigit = true :=
  Nat.isDigit_of_mem_toDigits (by decide) (by decide) hc

theorem qa2_comma_not_mem (i : Int) : ',' ∉ (toString i).toList := by
  rw [qa2_int_toList]
  split
  · intro h
    have := qa2_isDigit_of_mem h
    revert this; decide
  · intro h
    rcases List.mem_cons.mp h with h | h
    · revert h; decide
    · have := qa2_isDigit_of_mem h
      revert this; decide

theorem qa2_minus_not_mem (n : Nat) : '-' ∉ Nat.toDigits 10 n := by
  intro h
  have := qa2_isDigit_of_mem h
  revert this; decide

theorem qa2_int_toString_inj (i j : Int) (h : toString i = toString j) : i = j := by
  have h' := congrArg String.toList h
  rw [qa2_int_toList, qa2_int_toList] at h'
  by_cases hi : 0 ≤ i <;> by_cases hj : 0 ≤ j
  · rw [if_pos hi, if_pos hj] at h'
    have := qa2_toDigits_inj h'
    omega
  · rw [if_pos hi, if_neg hj] at h'
    exact absurd (h' ▸ List.mem_cons_self) (qa2_minus_not_mem _)
  · rw [if_neg hi, if_pos hj] at h'
    exact absurd (h'.symm ▸ List.mem_cons_self) (qa2_minus_not_mem _)
  · rw [if_neg hi, if_neg hj] at h'
    have := qa2_toDigits_inj (List.cons.inj h').2
    omega

theorem qa2_map_toString_inj (r s : List Int) (h : r.map toString = s.map toString) : r = s := by
  induction r generalizing s with
  | nil => cases s with
    | nil => rfl
    | cons b t => simp at h
  | cons a t ih => cases s with
    | nil => simp at h
    | cons b u =>
      simp only [List.map_cons, List.cons.injEq] at h
      rw [qa2_int_toString_inj a b h.1, ih u h.2]

/-- `",".join(str(v) for v in row)` determines the row -/
theorem rowString_injective (r s : List Int) (h : rowString r = rowString s) (hr : r ≠ []) (hs : s ≠ []) : r = s := by
  have h' := congrArg String.toList h
  simp only [rowString, String.toList_intercalate] at h'
  have hc : ",".toList = [','] := by decide
  rw [hc] at h'
  have key : ∀ t : List Int, t ≠ [] →
      ([','].intercalate ((t.map toString).map String.toList)).splitOn ',' =
        (t.map toString).map String.toList := by
    intro t ht
    apply List.splitOn_intercalate
    · intro l hl
      simp only [List.mem_map] at hl
      obtain ⟨_, ⟨i, _, rfl⟩, rfl⟩ := hl
      exact qa2_comma_not_mem i
    · simpa using ht
  have h2 := congrArg (fun l => l.splitOn ',') h'
  simp only [key r hr, key s hs] at h2
  apply qa2_map_toString_inj
  exact List.map_injective_iff.mpr (fun _ _ e => String.toList_injective e) h2

/-- so the multiset of strings returned with as_string=True carries exactly the information of the rows -/
theorem rowString_count (out : List (List Int)) (r : List Int) (hr : r ≠ []) (hout : ∀ o ∈ out, o ≠ []) :
    (out.map rowString).count (rowString r) = out.count r := by
  induction out with
  | nil => simp
  | cons a t ih =>
    have iht := ih (fun o ho => hout o (List.mem_cons_of_mem _ ho))
    have ha : a ≠ [] := hout a List.mem_cons_self
    rw [List.map_cons, List.count_cons, List.count_cons, iht]
    by_cases hEq : a = r
    · subst hEq; simp
    · have : rowString a ≠ rowString r := fun h => hEq (rowString_injective a r h ha hr)
      simp [this, hEq]

theorem qa2_adjDups_sublist (l : List (List Int)) : (adjDups l).Sublist l := by
  induction l with
  | nil => exact List.Sublist.slnil
  | cons a t ih =>
    cases t with
    | nil => simp [adjDups]
    | cons b u =>
      simp only [adjDups]
      split
      · next hab => subst hab; exact List.Sublist.cons_cons _ ih
      · exact List.Sublist.cons _ ih

/-- the rows come out in the order of np.lexsort (last column most significant) -/
theorem dups_sorted (x : List (List Int)) :
    (findDuplicateRows x).Pairwise (fun a b => rowLe a b = true) := by
  exact (PV.QA.qa_isort_sorted rowLe PV.QA.qa_rowLe_total PV.QA.qa_rowLe_trans x).sublist
    (qa2_adjDups_sublist _)

example : rowString [1, -2, 30] = "1,-2,30" := by decide +kernel

end PV.QA2

