import PermuteVerif.Props.Tails

/-!
# The centre of a fair coin: P(X ≤ m) = P(X ≥ m) = 1/2 + C(2m, m) / 2^(2m+1) for 2m tosses

The closed form the C14 harness uses for very many trials (n = 2·10^6 … 2^33, where the exact rational tail is out of
reach): both central tails of a fair coin equal one half plus half the central term.
-/

namespace PV.CentralCoin
open PV PV.Tails

theorem pmf_half (m k : Nat) (hk : k ≤ 2 * m) :
    binomPmf (2 * m) (1/2) k = (Nat.choose (2 * m) k : Rat) * (1/2) ^ (2 * m) := by
  unfold binomPmf
  rw [choose_eq, show (1 : Rat) - 1/2 = 1/2 by norm_num, mul_assoc, ← pow_add, Nat.add_sub_cancel' hk]

theorem pmf_symm (m k : Nat) (hk : k ≤ 2 * m) :
    binomPmf (2 * m) (1/2) (2 * m - k) = binomPmf (2 * m) (1/2) k := by
  rw [pmf_half m k hk, pmf_half m (2 * m - k) (Nat.sub_le _ _), Nat.choose_symm hk]

/-- upper tail above the centre = lower tail below the centre -/
theorem sf_above_eq_cdf_below (m : Nat) :
    binomSf (2 * m) (1/2) (m + 1) = ∑ k ∈ Finset.range m, binomPmf (2 * m) (1/2) k := by
  rw [binomSf_fin, Finset.sum_Ico_eq_sum_range]
  have hlen : 2 * m + 1 - (m + 1) = m := by omega
  rw [hlen, ← Finset.sum_range_reflect]
  apply Finset.sum_congr rfl
  intro j hj
  have hj' := Finset.mem_range.1 hj
  have : m + 1 + (m - 1 - j) = 2 * m - j := by omega
  rw [this, pmf_symm m j (by omega)]

/-- the central lower tail of a fair coin -/
theorem cdf_centre (m : Nat) :
    binomCdf (2 * m) (1/2) m = 1/2 + (Nat.choose (2 * m) m : Rat) * (1/2) ^ (2 * m) / 2 := by
  have h1 := binom_less_plus_greater (2 * m) (1/2) m (by omega)
  rw [sf_above_eq_cdf_below] at h1
  have h2 : binomCdf (2 * m) (1/2) m = (∑ k ∈ Finset.range m, binomPmf (2 * m) (1/2) k) + binomPmf (2 * m) (1/2) m := by
    rw [binomCdf_fin' (2 * m) (1/2) m (by omega), Finset.sum_range_succ]
  rw [← pmf_half m m (by omega)]
  linarith

/-- … and the central upper tail is the same number -/
theorem sf_centre (m : Nat) :
    binomSf (2 * m) (1/2) m = 1/2 + (Nat.choose (2 * m) m : Rat) * (1/2) ^ (2 * m) / 2 := by
  have h0 : binomSf (2 * m) (1/2) m = binomPmf (2 * m) (1/2) m + binomSf (2 * m) (1/2) (m + 1) := by
    rw [binomSf_fin, binomSf_fin, Finset.sum_eq_sum_Ico_succ_bot (by omega)]
  have h1 := binom_less_plus_greater (2 * m) (1/2) m (by omega)
  have h2 := cdf_centre m
  have h3 := sf_above_eq_cdf_below m
  have h4 : binomCdf (2 * m) (1/2) m = (∑ k ∈ Finset.range m, binomPmf (2 * m) (1/2) k) + binomPmf (2 * m) (1/2) m := by
    rw [binomCdf_fin' (2 * m) (1/2) m (by omega), Finset.sum_range_succ]
  rw [h0, ← pmf_half m m (by omega)] at *
  linarith

example : binomCdf 4 (1/2) 2 = 11/16 := by decide +kernel

end PV.CentralCoin
