import PermuteVerif.Model.Tests
import PermuteVerif.Model.Experiment
import Mathlib.Analysis.Real.Sqrt
import Mathlib.Tactic.Linarith
import Mathlib.Tactic.Ring
import Mathlib.Tactic.FieldSimp
import Mathlib.Tactic.Positivity

/-!
# The square-root-free re-coding of t statistics and correlations is faithful

The implementation computes `num / sqrt(densq)` in doubles (Student's t, Pearson's r); the exact model orders
such statistics by `sgnSq num densq = sign(num) * num^2 / densq`, a rational number.  Every comparison the model makes
(`>=`, `<=`, ties) is therefore a comparison of the real numbers the code approximates *iff* the re-coding is an
order embedding.  That is what is proved here, over the reals, for all numerators and all positive denominators.
Also: `make_test_array` (C17) as decision logic.
-/

namespace PV.Recode
open PV

/-- the real number `num / sqrt(densq)` the code computes in floating point -/
noncomputable def ratioR (num densq : Rat) : ℝ := (num : ℝ) / Real.sqrt (densq : ℝ)

theorem mulAbs_strictMono : StrictMono (fun r : ℝ => r * |r|) := by
  intro a b hab
  show a * |a| < b * |b|
  rcases le_or_gt 0 a with ha | ha
  · have hb : 0 < b := lt_of_le_of_lt ha hab
    rw [abs_of_nonneg ha, abs_of_pos hb]; nlinarith
  · rcases le_or_gt 0 b with hb | hb
    · rw [abs_of_neg ha, abs_of_nonneg hb]; nlinarith [mul_self_nonneg b, mul_pos (neg_pos.2 ha) (neg_pos.2 ha)]
    · rw [abs_of_neg ha, abs_of_neg hb]; nlinarith

/-- the re-coded value is `r * |r|` for the real ratio `r = num / sqrt(densq)` -/
theorem sgnSq_eq (n d : Rat) (hd : 0 < d) :
    ((sgnSq n d : Rat) : ℝ) = ratioR n d * |ratioR n d| := by
  have hdR : (0 : ℝ) < (d : ℝ) := by exact_mod_cast hd
  have hs : 0 < Real.sqrt (d : ℝ) := Real.sqrt_pos.2 hdR
  have hss : Real.sqrt (d : ℝ) * Real.sqrt (d : ℝ) = (d : ℝ) := Real.mul_self_sqrt hdR.le
  unfold sgnSq ratioR
  by_cases hn : 0 ≤ n
  · have hnR : (0 : ℝ) ≤ (n : ℝ) := by exact_mod_cast hn
    rw [if_pos hn, abs_of_nonneg (div_nonneg hnR hs.le)]
    push_cast
    rw [div_mul_div_comm, hss]
  · have hnR : (n : ℝ) < 0 := by exact_mod_cast (not_le.1 hn)
    rw [if_neg hn, abs_of_neg (div_neg_of_neg_of_pos hnR hs)]
    push_cast
    rw [mul_neg, div_mul_div_comm, hss]

/-- **order embedding**: the model's comparison of re-coded statistics is the comparison of the real ratios -/
theorem sgnSq_le_iff (n1 d1 n2 d2 : Rat) (h1 : 0 < d1) (h2 : 0 < d2) :
    sgnSq n1 d1 ≤ sgnSq n2 d2 ↔ ratioR n1 d1 ≤ ratioR n2 d2 := by
  rw [← (Rat.cast_le (K := ℝ)), sgnSq_eq n1 d1 h1, sgnSq_eq n2 d2 h2]
  exact mulAbs_strictMono.le_iff_le

theorem sgnSq_lt_iff (n1 d1 n2 d2 : Rat) (h1 : 0 < d1) (h2 : 0 < d2) :
    sgnSq n1 d1 < sgnSq n2 d2 ↔ ratioR n1 d1 < ratioR n2 d2 := by
  rw [← (Rat.cast_lt (K := ℝ)), sgnSq_eq n1 d1 h1, sgnSq_eq n2 d2 h2]
  exact mulAbs_strictMono.lt_iff_lt

/-- ties in the model are exactly ties of the real ratios -/
theorem sgnSq_eq_iff (n1 d1 n2 d2 : Rat) (h1 : 0 < d1) (h2 : 0 < d2) :
    sgnSq n1 d1 = sgnSq n2 d2 ↔ ratioR n1 d1 = ratioR n2 d2 := by
  rw [le_antisymm_iff, le_antisymm_iff, sgnSq_le_iff _ _ _ _ h1 h2, sgnSq_le_iff _ _ _ _ h2 h1]

/-- absolute values (two-sided tests): `|sgnSq| = r^2`, ordered like `|r|` -/
theorem sgnSq_abs_le_iff (n1 d1 n2 d2 : Rat) (h1 : 0 < d1) (h2 : 0 < d2) :
    |sgnSq n1 d1| ≤ |sgnSq n2 d2| ↔ |ratioR n1 d1| ≤ |ratioR n2 d2| := by
  rw [← (Rat.cast_le (K := ℝ))]
  push_cast
  rw [sgnSq_eq n1 d1 h1, sgnSq_eq n2 d2 h2, abs_mul, abs_mul, abs_abs, abs_abs]
  constructor
  · intro h
    by_contra hc
    have hc' := not_le.1 hc
    have := mul_lt_mul'' hc' hc' (abs_nonneg _) (abs_nonneg _)
    linarith
  · intro h
    exact mul_le_mul h h (abs_nonneg _) (abs_nonneg _)

/-- Student's pooled-variance t as the real number the code approximates -/
noncomputable def tStatR (u v : List Rat) : ℝ :=
  ratioR (mean u - mean v)
    ((ssd u + ssd v) / ((u.length : Rat) + (v.length : Rat) - 2) * (1 / (u.length : Rat) + 1 / (v.length : Rat)))

/-- pooled variance term of the t statistic -/
def tDen (u v : List Rat) : Rat :=
  (ssd u + ssd v) / ((u.length : Rat) + (v.length : Rat) - 2) * (1 / (u.length : Rat) + 1 / (v.length : Rat))

/-- the model's t key orders allocations exactly as the real t statistics do (whenever both are finite: positive
    pooled variance) -/
theorem tKey_le_iff (u v u' v' : List Rat) (h : 0 < tDen u v) (h' : 0 < tDen u' v') :
    tKey u v ≤ tKey u' v' ↔ tStatR u v ≤ tStatR u' v' := by
  unfold tKey tStatR
  exact sgnSq_le_iff _ _ _ _ h h'

theorem tKey_eq_iff (u v u' v' : List Rat) (h : 0 < tDen u v) (h' : 0 < tDen u' v') :
    tKey u v = tKey u' v' ↔ tStatR u v = tStatR u' v' := by
  unfold tKey tStatR
  exact sgnSq_eq_iff _ _ _ _ h h'

/-- one-sample t against 0 as a real number -/
noncomputable def t1StatR (u : List Rat) : ℝ :=
  ratioR (mean u) (ssd u / ((u.length : Rat) - 1) / (u.length : Rat))

theorem t1Key_le_iff (u u' : List Rat) (h : 0 < ssd u / ((u.length : Rat) - 1) / (u.length : Rat))
    (h' : 0 < ssd u' / ((u'.length : Rat) - 1) / (u'.length : Rat)) :
    t1Key u ≤ t1Key u' ↔ t1StatR u ≤ t1StatR u' := by
  unfold t1Key t1StatR
  exact sgnSq_le_iff _ _ _ _ h h'

/-- Pearson's r as a real number: covariance sum over the root of the product of the sums of squares -/
noncomputable def pearsonR (x y : List Rat) : ℝ :=
  ratioR (rsum (List.zipWith (fun a b => (a - mean x) * (b - mean y)) x y)) (ssd x * ssd y)

/-- the model orders rearrangements by Pearson's r exactly as the real correlation coefficients do (neither
    variable constant) -/
theorem pearsonKey_le_iff (x y x' y' : List Rat) (h : 0 < ssd x * ssd y) (h' : 0 < ssd x' * ssd y') :
    pearsonKey x y ≤ pearsonKey x' y' ↔ pearsonR x y ≤ pearsonR x' y' := by
  unfold pearsonKey pearsonR
  exact sgnSq_le_iff _ _ _ _ h h'

theorem pearsonKey_eq_iff (x y x' y' : List Rat) (h : 0 < ssd x * ssd y) (h' : 0 < ssd x' * ssd y') :
    pearsonKey x y = pearsonKey x' y' ↔ pearsonR x y = pearsonR x' y' := by
  unfold pearsonKey pearsonR
  exact sgnSq_eq_iff _ _ _ _ h h'

example : 0 < ssd [1, 2, 4] * ssd [0, 3, 1] := by decide +kernel

/-- non-vacuity: a pair of samples with positive pooled variance -/
example : 0 < tDen [1, 2, 4] [0, 3] := by decide +kernel

/-! ### make_test_array -/

/-- `Experiment.make_test_array(func, indices)`: one test per index, each closing over its own column -/
def makeTestArray {α : Type} (f : Exp → Nat → α) (idx : List Nat) : List (Exp → α) :=
  idx.map (fun i => fun e => f e i)

theorem makeTestArray_length {α : Type} (f : Exp → Nat → α) (idx : List Nat) :
    (makeTestArray f idx).length = idx.length := by
  simp [makeTestArray]

/-- `make_test_array(func, indices)[i](data) = func(data, indices[i])` for every position, index list and data -/
theorem makeTestArray_get {α : Type} (f : Exp → Nat → α) (idx : List Nat) (i : Nat) (h : i < idx.length) (e : Exp) :
    ((makeTestArray f idx)[i]'(by simpa [makeTestArray] using h)) e = f e idx[i] := by
  unfold makeTestArray
  rw [List.getElem_map]

/-- the t test function is the t key of the first group (sorted label order) against the second -/
theorem tfTTestKey_spec (e : Exp) (i : Nat) (g0 g1 : Int) (h : uniqSorted e.group = [g0, g1]) :
    tfTTestKey e i = .ok (tKey (gather (respCol e i) (positionsOf e.group g0))
                                (gather (respCol e i) (positionsOf e.group g1))) := by
  simp only [tfTTestKey, h]

end PV.Recode
