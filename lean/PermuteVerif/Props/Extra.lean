/-
  Props/Extra.lean — further statements for C06 (shared draws for every test), C11 (relabelling),
  C13 (limits between x and N−(n−x)), C17 (stratified randomizer is a bijection onto products of
  within-stratum orders), C18 (item-order invariance), C19 (the result is reached by checkerboard swaps).
  Statements are fixed; only proofs (and helper lemmas above them) may change.
-/
import PermuteVerif.Model.Tests
import PermuteVerif.Model.Tails
import PermuteVerif.Model.Incidence
import PermuteVerif.Model.Experiment
import PermuteVerif.Props.Shuffle
import PermuteVerif.Props.Shuffle2
import PermuteVerif.Props.Adjust
import PermuteVerif.Props.Tails
import PermuteVerif.Props.IRR
import PermuteVerif.Props.Incidence
import PermuteVerif.Props.Uniform2
import Mathlib.Data.List.Perm.Basic
import Mathlib.Tactic.Linarith
namespace PV.Extra
open PV.Shuffle PV.Shuffle2

/-! ### C06: the rearrangements depend on the draws and the sizes only, for every test -/

/-- corr / spearman: re-pairing acts on positions -/
theorem corr_shared (x y : List Rat) (f : Rat → Rat) (stat stat' : List Rat → List Rat → Rat)
    (alt alt' : Alt) (plus1 plus1' : Bool) (draws : List (List Nat)) :
    (corrTest (x.map f) y stat' alt' plus1' draws).args
      = (corrTest x y stat alt plus1 draws).args.map (fun a => a.map f) := by
  simp only [corrTest, List.map_map]
  apply List.map_congr_left
  intro cs _
  simp [fy_map]

/-- k_sample: the relabelling of units is the same whatever the labels are called -/
theorem k_sample_shared (x x' : List Rat) (group : List Int) (f : Int → Int)
    (stat stat' : List Rat → List Int → Rat → Rat) (plus1 plus1' : Bool) (draws : List (List Nat)) :
    (kSample x' (group.map f) stat' plus1' draws).args
      = (kSample x group stat plus1 draws).args.map (fun g => g.map f) := by
  simp only [kSample, List.map_map]
  apply List.map_congr_left
  intro cs _
  simp [fy_map]

/-- one_sample: the sign pattern is a function of the draws alone -/
theorem one_sample_shared (z z' : List Rat) (hl : z.length = z'.length) (stat stat' : List Rat → Rat)
    (alt alt' : Alt) (plus1 plus1' : Bool) (draws : List (List Nat)) (i : Nat) (hi : i < draws.length) :
    ∀ k (hk : k < z.length),
      (((oneSample z stat alt plus1 draws).args.getD i []).getD k 0 = z.getD k 0 ↔
        ((oneSample z' stat' alt' plus1' draws).args.getD i []).getD k 0 = z'.getD k 0) ∨
      z.getD k 0 = 0 ∨ z'.getD k 0 = 0 := by
  intro k hk
  have hk' : k < z'.length := hl ▸ hk
  simp only [oneSample]
  have g1 : ∀ w : List Rat, (List.map (signFlip w) draws).getD i [] = signFlip w draws[i] := by
    intro w
    rw [List.getD_eq_getElem _ _ (by simpa using hi)]
    simp
  rw [g1, g1]
  set b := draws[i] with hb
  by_cases hkb : k < b.length
  · have e1 : (signFlip z b).getD k 0 = z[k] * (1 - 2 * (b[k] : Rat)) := by
      rw [List.getD_eq_getElem _ _ (by simp [signFlip]; omega)]
      simp [signFlip]
    have e2 : (signFlip z' b).getD k 0 = z'[k] * (1 - 2 * (b[k] : Rat)) := by
      rw [List.getD_eq_getElem _ _ (by simp [signFlip]; omega)]
      simp [signFlip]
    rw [e1, e2, List.getD_eq_getElem _ _ hk, List.getD_eq_getElem _ _ hk']
    by_cases hz : z[k] = 0
    · right; left; exact hz
    by_cases hz' : z'[k] = 0
    · right; right; exact hz'
    left
    constructor
    · intro h
      have : (1 - 2 * (b[k] : Rat)) = 1 := by
        have := mul_left_cancel₀ hz (h.trans (mul_one _).symm)
        exact this
      rw [this, mul_one]
    · intro h
      have : (1 - 2 * (b[k] : Rat)) = 1 := by
        have := mul_left_cancel₀ hz' (h.trans (mul_one _).symm)
        exact this
      rw [this, mul_one]
  · have e1 : (signFlip z b).getD k 0 = 0 := by
      rw [List.getD_eq_default]; simp [signFlip]; omega
    have e2 : (signFlip z' b).getD k 0 = 0 := by
      rw [List.getD_eq_default]; simp [signFlip]; omega
    rw [e1, e2]
    by_cases hz : z.getD k 0 = 0
    · right; left; exact hz
    by_cases hz' : z'.getD k 0 = 0
    · right; right; exact hz'
    left
    constructor
    · intro h; exact absurd h.symm hz
    · intro h; exact absurd h.symm hz'

/-- stratified tests: the within-stratum rearrangement of one variable is that of any other -/
theorem strat_two_sample_shared (group : List Int) (response : List Rat) (f : Rat → Rat)
    (stat stat' : List Rat → Rat) (alt alt' : Alt) (plus1 plus1' : Bool) (draws : List (List (List Nat)))
    (hl : group.length = response.length) :
    (stratTwoSample group (response.map f) stat' alt' plus1' draws).2
      = (stratTwoSample group response stat alt plus1 draws).2.map (fun a => a.map f) := by
  simp only [stratTwoSample, List.map_map]
  apply List.map_congr_left
  intro cs _
  simp [pwg_map f response group cs hl]

/-! ### C11: relabelling the hypotheses permutes the output -/

/-- the sorted vector of p-values -/
def sortedOf (p : List Rat) : List Rat := (argsortStable p).map (fun i => p.getD i 0)

theorem sortedOf_perm (p : List Rat) : (sortedOf p).Perm p := by
  have := (Adjust.argsortStable_perm p).map (fun i => p.getD i 0)
  rwa [range_map_getD] at this

theorem sortedOf_length (p : List Rat) : (sortedOf p).length = p.length :=
  (sortedOf_perm p).length_eq

theorem sortedOf_sorted (p : List Rat) : List.Pairwise (· ≤ ·) (sortedOf p) :=
  Adjust.argsortStable_sorted p

theorem relabel_perm (p : List Rat) (σ : List Nat) (hσ : σ.Perm (List.range p.length)) :
    (σ.map (fun i => p.getD i 0)).Perm p := by
  have := hσ.map (fun i => p.getD i 0)
  rwa [range_map_getD] at this

theorem sortedOf_relabel (p : List Rat) (σ : List Nat) (hσ : σ.Perm (List.range p.length)) :
    sortedOf (σ.map (fun i => p.getD i 0)) = sortedOf p := by
  apply List.Perm.eq_of_pairwise' (r := (· ≤ ·)) (sortedOf_sorted _) (sortedOf_sorted _)
  exact (sortedOf_perm _).trans ((relabel_perm p σ hσ).trans (sortedOf_perm p).symm)

/-- every hypothesis sits at some sorted position -/
theorem exists_sorted_pos (p : List Rat) (i : Nat) (hi : i < p.length) :
    ∃ k, k < p.length ∧ (argsortStable p).getD k 0 = i ∧ (sortedOf p).getD k 0 = p.getD i 0 := by
  have hmem : i ∈ argsortStable p :=
    (Adjust.argsortStable_perm p).mem_iff.2 (List.mem_range.2 hi)
  obtain ⟨k, hk, hki⟩ := List.getElem_of_mem hmem
  have hk' : k < p.length := by rwa [Adjust.argsortStable_length] at hk
  refine ⟨k, hk', ?_, ?_⟩
  · rw [List.getD_eq_getElem _ _ hk, hki]
  · unfold sortedOf
    rw [Adjust.getD_map_lt _ _ _ hk 0 0, List.getD_eq_getElem _ _ hk, hki]

section generic
variable (adj adjS : List Rat → List Rat)
  (hlen : ∀ p, (adj p).length = p.length)
  (hspec : ∀ p k, k < p.length →
    (adj p).getD ((argsortStable p).getD k 0) 0 = (adjS (sortedOf p)).getD k 0)
  (hties : ∀ s, List.Pairwise (· ≤ ·) s → ∀ k k', k < s.length → k' < s.length →
    (∀ v ∈ s, 0 ≤ v) → s.getD k 0 = s.getD k' 0 → (adjS s).getD k 0 = (adjS s).getD k' 0)
include hspec hties

/-- the adjusted value of hypothesis i is the sorted-vector value at any position holding p_i -/
theorem adj_val (p : List Rat) (h0 : ∀ v ∈ p, 0 ≤ v) (i : Nat) (hi : i < p.length) (k : Nat)
    (hk : k < p.length) (e : (sortedOf p).getD k 0 = p.getD i 0) :
    (adj p).getD i 0 = (adjS (sortedOf p)).getD k 0 := by
  obtain ⟨k0, hk0, hk0i, hk0v⟩ := exists_sorted_pos p i hi
  have h0' : ∀ v ∈ sortedOf p, 0 ≤ v := fun v hv => h0 v ((sortedOf_perm p).mem_iff.1 hv)
  rw [← hk0i, hspec p k0 hk0]
  exact hties _ (sortedOf_sorted p) k0 k (by rwa [sortedOf_length]) (by rwa [sortedOf_length]) h0'
    (hk0v.trans e.symm)

theorem adj_ties (p : List Rat) (h0 : ∀ v ∈ p, 0 ≤ v) (i j : Nat) (hi : i < p.length)
    (hj : j < p.length) (e : p.getD i 0 = p.getD j 0) : (adj p).getD i 0 = (adj p).getD j 0 := by
  obtain ⟨k0, hk0, _, hk0v⟩ := exists_sorted_pos p i hi
  rw [adj_val adj adjS hspec hties p h0 i hi k0 hk0 hk0v,
    adj_val adj adjS hspec hties p h0 j hj k0 hk0 (hk0v.trans e)]

include hlen in
theorem adj_relabel (p : List Rat) (σ : List Nat) (hσ : σ.Perm (List.range p.length))
    (h0 : ∀ v ∈ p, 0 ≤ v) :
    adj (σ.map (fun i => p.getD i 0)) = σ.map (fun i => (adj p).getD i 0) := by
  set q := σ.map (fun i => p.getD i 0) with hq
  have hσl : σ.length = p.length := by simpa using hσ.length_eq
  have hql : q.length = p.length := by rw [hq, List.length_map, hσl]
  have h0q : ∀ v ∈ q, 0 ≤ v := fun v hv => h0 v ((relabel_perm p σ hσ).mem_iff.1 hv)
  have hsq : sortedOf q = sortedOf p := sortedOf_relabel p σ hσ
  apply List.ext_getElem
  · rw [hlen, hql, List.length_map, hσl]
  · intro j h1 h2
    have hj : j < σ.length := by simpa using h2
    have hjq : j < q.length := by omega
    have hi : σ[j] < p.length := List.mem_range.1 (hσ.mem_iff.1 (List.getElem_mem hj))
    obtain ⟨k0, hk0, _, hk0v⟩ := exists_sorted_pos p σ[j] hi
    have hqj : q.getD j 0 = p.getD σ[j] 0 := by
      rw [hq, Adjust.getD_map_lt _ _ _ hj 0 0, List.getD_eq_getElem _ _ hj]
    rw [List.getElem_map, ← List.getD_eq_getElem _ 0 h1,
      adj_val adj adjS hspec hties q h0q j hjq k0 (by omega) (by rw [hsq, hk0v, hqj]),
      adj_val adj adjS hspec hties p h0 σ[j] hi k0 hk0 hk0v, hsq]
end generic

theorem holm_length (p : List Rat) : (holm p).length = p.length := by
  unfold holm
  rw [Adjust.scatter_length, List.length_replicate]

theorem bh_length (p : List Rat) : (benjaminiHochberg p).length = p.length := by
  unfold benjaminiHochberg
  rw [Adjust.scatter_length, List.length_replicate]

/-- the Holm value of hypothesis i depends only on the multiset of p-values and on p_i: if σ is a
    permutation of the positions, adjusting the relabelled vector gives the relabelled result -/
theorem holm_relabel (p : List Rat) (σ : List Nat) (hσ : σ.Perm (List.range p.length))
    (h0 : ∀ v ∈ p, 0 ≤ v) :
    holm (σ.map (fun i => p.getD i 0)) = σ.map (fun i => (holm p).getD i 0) := by
  exact
    adj_relabel holm Adjust.holmSorted holm_length (fun p k hk => (Adjust.holm_eq_spec p k hk).2)
      Adjust.holmSorted_ties p σ hσ h0

theorem bh_relabel (p : List Rat) (σ : List Nat) (hσ : σ.Perm (List.range p.length))
    (h0 : ∀ v ∈ p, 0 ≤ v) :
    benjaminiHochberg (σ.map (fun i => p.getD i 0)) = σ.map (fun i => (benjaminiHochberg p).getD i 0) := by
  exact
    adj_relabel benjaminiHochberg Adjust.bhSorted bh_length (fun p k hk => (Adjust.bh_eq_spec p k hk).2)
      Adjust.bhSorted_ties p σ hσ h0

/-- equal raw p-values receive equal adjusted values -/
theorem holm_ties_equal (p : List Rat) (h0 : ∀ v ∈ p, 0 ≤ v) (i j : Nat) (hi : i < p.length)
    (hj : j < p.length) (e : p.getD i 0 = p.getD j 0) : (holm p).getD i 0 = (holm p).getD j 0 := by
  exact
    adj_ties holm Adjust.holmSorted (fun p k hk => (Adjust.holm_eq_spec p k hk).2)
      Adjust.holmSorted_ties p h0 i j hi hj e

/-! ### C13: the limits lie between x and N − (n − x) -/

theorem hyperSf_zero_of_lt (N G n x : Nat) (h : G < x) : hyperSf N G n x = 0 := by
  rw [Tails.hyperSf_fin]
  apply Finset.sum_eq_zero
  intro k hk
  have hk' := Finset.mem_Ico.mp hk
  have h2 : Nat.choose G k = 0 := Nat.choose_eq_zero_of_lt (by omega)
  simp [hyperPmf, hyperNum, Tails.choose_eq, h2]

theorem hyperCdf_zero_of_lt (N G n x : Nat) (hx : x ≤ n) (h : N - G < n - x) : hyperCdf N G n x = 0 := by
  rw [Tails.hyperCdf_fin' N G n x hx]
  apply Finset.sum_eq_zero
  intro k hk
  have hk' := Finset.mem_range.mp hk
  have h2 : Nat.choose (N - G) (n - k) = 0 := Nat.choose_eq_zero_of_lt (by omega)
  simp [hyperPmf, hyperNum, Tails.choose_eq, h2]

theorem hg_lower_ge_x (N n x : Nat) (a : Rat) (ha : 0 < a) (hx : 0 < x) (hxn : x ≤ n) (hn : n ≤ N) (ha1 : a ≤ 1) :
    x ≤ hgLowerSearch N n x a := by
  by_contra hlt
  have hlt : hgLowerSearch N n x a < x := Nat.lt_of_not_le hlt
  have h1 := (Tails.hgLower_spec N n x a hx hxn hn ha1).1
  rw [hyperSf_zero_of_lt N _ n x hlt] at h1
  linarith

theorem hg_upper_le (N n x : Nat) (a : Rat) (ha : 0 < a) (hxn : x < n) (hn : n ≤ N) (ha1 : a ≤ 1) :
    hgUpperSearch N n x a + (n - x) ≤ N := by
  by_contra hlt
  obtain ⟨h1, h2, _⟩ := Tails.hgUpper_spec N n x a hxn hn ha1
  rw [hyperCdf_zero_of_lt N _ n x (by omega) (by omega)] at h1
  linarith

/-! ### C17: the stratified randomizer reaches every product of within-stratum orders exactly once -/

/-- one step of randomizeInStrata -/
def risStep (strata : List Int) (acc : List Int) (sd : Int × List Nat) : List Int :=
  scatter acc (positionsOf strata sd.1) (sbi (gather acc (positionsOf strata sd.1)) sd.2)

theorem ris_eq_foldl (g strata : List Int) (draws : List (List Nat)) :
    randomizeInStrata g strata draws = ((uniqSorted strata).zip draws).foldl (risStep strata) g := rfl

theorem risStep_length (strata acc : List Int) (sd : Int × List Nat) :
    (risStep strata acc sd).length = acc.length := by
  simp [risStep, Shuffle2.scatter_length]

theorem risStep_gather_other (strata acc : List Int) (sd : Int × List Nat) (g : Int) (hg : g ≠ sd.1) :
    gather (risStep strata acc sd) (positionsOf strata g) = gather acc (positionsOf strata g) := by
  apply gather_congr
  intro j hj
  unfold risStep
  apply scatter_getElem?_of_not_mem
  intro hj'
  rw [mem_positionsOf] at hj hj'
  rw [hj] at hj'
  exact hg (Option.some.inj hj')

theorem risStep_gather_same (strata acc : List Int) (sd : Int × List Nat)
    (hl : strata.length = acc.length) (hv : ValidC (positionsOf strata sd.1).length sd.2) :
    gather (risStep strata acc sd) (positionsOf strata sd.1) =
      sbi (gather acc (positionsOf strata sd.1)) sd.2 := by
  unfold risStep
  apply gather_scatter _ _ _ (positionsOf_nodup ..)
  · intro i hi; rw [← hl]; exact positionsOf_lt _ _ _ hi
  · rw [(sbi_perm _ _ (by rw [gather_length]; exact hv)).length_eq, gather_length]

theorem risFold_gather_notin (strata : List Int) (gds : List (Int × List Nat)) (acc : List Int)
    (g : Int) (hg : g ∉ gds.map Prod.fst) :
    gather (gds.foldl (risStep strata) acc) (positionsOf strata g) = gather acc (positionsOf strata g) := by
  induction gds generalizing acc with
  | nil => rfl
  | cons gd gds ih =>
    rw [List.foldl_cons]
    rw [List.map_cons, List.mem_cons, not_or] at hg
    rw [ih _ hg.2, risStep_gather_other strata acc gd g hg.1]

theorem risFold_gather_in (strata : List Int) (gds : List (Int × List Nat)) (acc : List Int)
    (hl : strata.length = acc.length) (hnd : (gds.map Prod.fst).Nodup)
    (g : Int) (cs : List Nat) (hm : (g, cs) ∈ gds) (hv : ValidC (positionsOf strata g).length cs) :
    gather (gds.foldl (risStep strata) acc) (positionsOf strata g)
      = sbi (gather acc (positionsOf strata g)) cs := by
  induction gds generalizing acc with
  | nil => simp at hm
  | cons gd gds ih =>
    rw [List.foldl_cons]
    rw [List.map_cons, List.nodup_cons] at hnd
    rcases List.mem_cons.mp hm with h | h
    · subst h
      rw [risFold_gather_notin strata gds _ _ hnd.1]
      exact risStep_gather_same strata acc _ hl hv
    · have hne : g ≠ gd.1 := by
        rintro rfl
        exact hnd.1 (List.mem_map.mpr ⟨_, h, rfl⟩)
      rw [ih _ (by rw [risStep_length]; exact hl) hnd.2 h, risStep_gather_other strata acc gd g hne]

theorem gather_nodup' {α : Type} [Inhabited α] (x : List α) (hnd : x.Nodup) (idx : List Nat)
    (hi : idx.Nodup) (hr : ∀ i ∈ idx, i < x.length) : (gather x idx).Nodup := by
  unfold gather
  refine List.Nodup.map_on ?_ hi
  intro i hi' j hj e
  have h1 := hr i hi'
  have h2 := hr j hj
  simp only [List.getD_eq_getElem?_getD, List.getElem?_eq_getElem h1,
    List.getElem?_eq_getElem h2, Option.getD_some] at e
  exact (hnd.getElem_inj_iff).mp e

theorem ris_injective (g : List Int) (hnd : g.Nodup) (strata : List Int) (hl : strata.length = g.length) :
    ((Uniform2.allStrataDraws (Uniform2.strataSizes strata)).map (randomizeInStrata g strata)).Nodup := by
  refine List.Nodup.map_on ?_ (Uniform2.allStrataDraws_nodup _)
  intro ds hds ds' hds' e
  rw [Uniform2.mem_allStrataDraws, Uniform2.strataSizes, List.forall₂_map_left_iff] at hds hds'
  apply Uniform2.zip_unique (uniqSorted strata) ds ds' hds.length_eq hds'.length_eq
  intro s cs cs' hm hm'
  have hv := List.forall₂_zip hds hm
  have hv' := List.forall₂_zip hds' hm'
  have h1 := risFold_gather_in strata _ g hl
    (Uniform2.zip_map_fst_nodup _ ds (Uniform2.uniqSorted_nodup strata) hds.length_eq) s cs hm hv
  have h2 := risFold_gather_in strata _ g hl
    (Uniform2.zip_map_fst_nodup _ ds' (Uniform2.uniqSorted_nodup strata) hds'.length_eq) s cs' hm' hv'
  rw [ris_eq_foldl, ris_eq_foldl] at e
  rw [e] at h1
  have h3 := h1.symm.trans h2
  have hgn : (gather g (positionsOf strata s)).Nodup :=
    gather_nodup' g hnd _ (positionsOf_nodup ..) (fun _ hi => hl ▸ positionsOf_lt _ _ _ hi)
  exact sbi_inj' _ hgn cs cs' (by rw [gather_length]; exact hv)
    (by rw [gather_length]; exact hv') h3

/-! ### C18: invariance under reordering the items -/

theorem computeTs_perm_items (m : List (List Nat)) (Ns : Nat) (hb : IRR.BinaryRatings m Ns)
    (σ : List Nat) (hσ : σ.Perm (List.range Ns)) :
    computeTs (m.map (fun r => σ.map (fun i => r.getD i 0))) = computeTs m := by
  by_cases hm : m = []
  · subst hm; rfl
  have hσl : σ.length = Ns := by simpa using hσ.length_eq
  set m' := m.map (fun r => σ.map (fun i => r.getD i 0)) with hm'def
  have hb' : IRR.BinaryRatings m' Ns := by
    intro r hr
    obtain ⟨r0, hr0, rfl⟩ := List.mem_map.1 hr
    refine ⟨by simpa using hσl, ?_⟩
    intro v hv
    obtain ⟨i, _, rfl⟩ := List.mem_map.1 hv
    exact IRR.getD_bin hb hr0 i
  have hm' : m' ≠ [] := by simpa [hm'def] using hm
  have hcol : ∀ i, i < Ns → IRR.colAt i m' = IRR.colAt (σ.getD i 0) m := by
    intro i hi
    simp only [IRR.colAt, hm'def, List.map_map]
    apply List.map_congr_left
    intro r _
    simp only [Function.comp]
    exact Adjust.getD_map_lt _ σ i (by omega) 0 0
  have hnum : computeTsNum m' = computeTsNum m := by
    rw [IRR.computeTsNum_eq m Ns hm hb, IRR.computeTsNum_eq m' Ns hm' hb']
    set G : Nat → Nat := fun j => IRR.hh ((IRR.colAt j m).count 1) + IRR.hh ((IRR.colAt j m).count 0) with hG
    have e1 : (List.range Ns).map (fun i => IRR.hh ((IRR.colAt i m').count 1) + IRR.hh ((IRR.colAt i m').count 0))
        = ((List.range σ.length).map (fun i => σ.getD i 0)).map G := by
      rw [List.map_map, hσl]
      apply List.map_congr_left
      intro i hi
      rw [hcol i (by simpa using hi)]
      rfl
    rw [e1, range_map_getD]
    exact (hσ.map G).sum_eq
  unfold computeTs
  simp only []
  rw [IRR.head_len hm hb, IRR.head_len hm' hb', hnum]
  simp [hm'def]

/-! ### C19: the result is reached from the input by checkerboard swaps, at most k of them -/

/-- m' is obtained from m by one swap of a 1/0–0/1 checkerboard on two rows and two columns -/
def IsSwap (m m' : Mat) : Prop :=
  ∃ s0 s1 p0 p1, s0 ≠ s1 ∧ p0 ≠ p1 ∧ matGet m s0 p0 = 1 ∧ matGet m s0 p1 = 0 ∧ matGet m s1 p0 = 0 ∧
    matGet m s1 p1 = 1 ∧ m' = matSet (matSet (matSet (matSet m s0 p0 0) s0 p1 1) s1 p0 1) s1 p1 0

/-- reachable by exactly j successive swaps -/
inductive ReachK : Nat → Mat → Mat → Prop
  | zero (m : Mat) : ReachK 0 m m
  | step {j : Nat} {m m' m'' : Mat} : IsSwap m m' → ReachK j m' m'' → ReachK (j + 1) m m''

theorem swap_isSwap (m m' : Mat) (s0 s1 a b : Nat) (h : swapAttempt m s0 s1 a b = some m') : IsSwap m m' := by
  obtain ⟨p0, p1, hp0, hp1, h⟩ := Incidence.inc_swap_some m m' s0 s1 a b h
  rw [Incidence.inc_mem_colsWith] at hp0 hp1
  obtain ⟨_, h00, h10⟩ := hp0
  obtain ⟨_, h01, h11⟩ := hp1
  refine ⟨s0, s1, p0, p1, ?_, ?_, h00, h01, h10, h11, h⟩
  · rintro rfl
    rw [h00] at h10
    exact absurd h10 (by decide)
  · rintro rfl
    rw [h00] at h01
    exact absurd h01 (by decide)

/-- number of attempts in the list that succeed along the run, capped at k -/
def successes (m : Mat) : Nat → List Attempt → Nat
  | 0, _ => 0
  | _ + 1, [] => 0
  | k + 1, a :: rest =>
    match swapAttempt m a.s0 a.s1 a.pick0 a.pick1 with
    | none => successes m (k + 1) rest
    | some m' => 1 + successes m' k rest

theorem run_reach (m : Mat) (k : Nat) (atts : List Attempt) :
    ReachK (successes m k atts) m (incidenceRun m k atts) ∧ successes m k atts ≤ k := by
  induction atts generalizing m k with
  | nil => cases k <;> simp [successes, incidenceRun] <;> exact ReachK.zero m
  | cons a rest ih =>
    cases k with
    | zero => simp [successes, incidenceRun]; exact ReachK.zero m
    | succ k =>
      simp only [successes, incidenceRun]
      cases hs : swapAttempt m a.s0 a.s1 a.pick0 a.pick1 with
      | none => exact ih m (k + 1)
      | some m' =>
        simp only
        obtain ⟨h1, h2⟩ := ih m' k
        refine ⟨?_, by omega⟩
        rw [Nat.add_comm]
        exact ReachK.step (swap_isSwap m m' _ _ _ _ hs) h1

end PV.Extra
