/-
  Props/IRR.lean — C18: the concordance statistic equals the fraction of agreeing rater pairs.
  Statements are fixed; only proofs (and helper lemmas above them) may change.
-/
import PermuteVerif.Model.Tests
import Mathlib.Data.List.Basic
import Mathlib.Data.List.Perm.Basic
import Mathlib.Tactic.Linarith
import Mathlib.Tactic.Ring
import Mathlib.Algebra.Order.Field.Rat
import Mathlib.Algebra.BigOperators.Group.List.Basic
import Mathlib.Algebra.BigOperators.Ring.List
import Mathlib.Tactic.FieldSimp
namespace PV.IRR
/-- binary R × Ns ratings matrix with all rows of length Ns -/
def BinaryRatings (m : List (List Nat)) (Ns : Nat) : Prop :=
  ∀ r ∈ m, r.length = Ns ∧ ∀ v ∈ r, v = 0 ∨ v = 1

/-! ### helper lemmas -/

/-- column `i` of the matrix (entry 0 beyond the row end, as `getD`) -/
def colAt (i : Nat) (m : List (List Nat)) : List Nat := m.map (fun r => r.getD i 0)

def hh (n : Nat) : Nat := n * (n - 1)

def pc : List Nat → Nat
  | [] => 0
  | b :: t => t.count b + pc t

theorem foldl_add_sum (l : List Nat) (a : Nat) : l.foldl (· + ·) a = a + l.sum := by
  induction l generalizing a with
  | nil => simp
  | cons x t ih => simp [ih, Nat.add_assoc]

theorem hh_succ (n : Nat) : hh (n + 1) = hh n + 2 * n := by
  cases n with
  | zero => simp [hh]
  | succ k => simp [hh]; ring

theorem colSums_spec (Ns : Nat) (m : List (List Nat)) (hm : m ≠ []) (hl : ∀ r ∈ m, r.length = Ns) :
    colSums m = (List.range Ns).map (fun i => (colAt i m).sum) := by
  induction m with
  | nil => exact absurd rfl hm
  | cons r rest ih =>
    cases rest with
    | nil =>
      have hr : r.length = Ns := hl r (by simp)
      apply List.ext_getElem
      · simp [colSums, hr]
      · intro i h1 h2
        simp [colSums, colAt, List.getD_eq_getElem?_getD, List.getElem?_eq_getElem (show i < r.length from h1)]
    | cons s rest =>
      have hr : r.length = Ns := hl r (by simp)
      have ih' := ih (by simp) (fun x hx => hl x (by simp [hx] ))
      have : colSums (r :: s :: rest) = List.zipWith (· + ·) r (colSums (s :: rest)) := by
        simp [colSums]
      rw [this, ih']
      apply List.ext_getElem
      · simp [hr]
      · intro i h1 h2
        have hi : i < r.length := by simp at h1; omega
        simp [colAt, List.getD_eq_getElem?_getD, List.getElem?_eq_getElem hi]

theorem bin_col (c : List Nat) (hc : ∀ v ∈ c, v = 0 ∨ v = 1) :
    c.sum = c.count 1 ∧ c.length = c.count 1 + c.count 0 ∧ hh (c.count 1) + hh (c.count 0) = 2 * pc c := by
  induction c with
  | nil => simp [hh, pc]
  | cons b t ih =>
    obtain ⟨h1, h2, h3⟩ := ih (fun v hv => hc v (by simp [hv]))
    rcases hc b (by simp) with rfl | rfl
    · simp [pc, h1, h2]
      rw [hh_succ]; omega
    · simp [pc, h1, h2]
      rw [hh_succ]; omega


theorem binary_colAt {m : List (List Nat)} {Ns : Nat} (hb : BinaryRatings m Ns) (i : Nat) :
    ∀ v ∈ colAt i m, v = 0 ∨ v = 1 := by
  intro v hv
  simp only [colAt, List.mem_map] at hv
  obtain ⟨r, hr, rfl⟩ := hv
  by_cases hi : i < r.length
  · rw [List.getD_eq_getElem?_getD, List.getElem?_eq_getElem hi]
    exact (hb r hr).2 _ (List.getElem_mem hi)
  · left
    simp [List.getD_eq_getElem?_getD, List.getElem?_eq_none (Nat.le_of_not_lt hi)]

theorem computeTsNum_eq (m : List (List Nat)) (Ns : Nat) (hm : m ≠ []) (hb : BinaryRatings m Ns) :
    computeTsNum m = ((List.range Ns).map
      (fun i => hh ((colAt i m).count 1) + hh ((colAt i m).count 0))).sum := by
  unfold computeTsNum
  simp only []
  rw [foldl_add_sum, colSums_spec Ns m hm (fun r hr => (hb r hr).1), List.map_map, Nat.zero_add]
  congr 1
  apply List.map_congr_left
  intro i _
  obtain ⟨h1, h2, _⟩ := bin_col (colAt i m) (binary_colAt hb i)
  have hlen : (colAt i m).length = m.length := by simp [colAt]
  simp only [Function.comp, h1, hh]
  rw [← hlen, h2]
  simp

theorem filt_aux (f g : Nat → Nat) (L : List Nat) :
    (L.filter (fun i => f i == g i)).length
      = (L.map (fun i => if (g i == f i) = true then 1 else 0)).sum := by
  induction L with
  | nil => simp
  | cons i L ih2 =>
    simp only [List.filter_cons, List.map_cons, List.sum_cons, ← ih2]
    by_cases h : f i = g i
    · simp [h]; omega
    · have h' : ¬ g i = f i := fun e => h e.symm
      simp [h, h']

/-- sum swap -/
theorem swap_aux (L : List Nat) (rest : List (List Nat)) (r : List Nat) :
    (rest.map (fun s => (L.filter (fun i => r.getD i 0 == s.getD i 0)).length)).sum
      = (L.map (fun i => (colAt i rest).count (r.getD i 0))).sum := by
  induction rest with
  | nil => simp [colAt]
  | cons s rest ih =>
    simp only [List.map_cons, List.sum_cons, ih, colAt, List.count_cons]
    rw [List.sum_map_add]
    rw [Nat.add_comm]
    congr 1
    exact filt_aux _ _ L

theorem pairs_eq (Ns : Nat) (m : List (List Nat)) :
    agreeingPairs.pairs Ns m = ((List.range Ns).map (fun i => pc (colAt i m))).sum := by
  induction m with
  | nil => simp [agreeingPairs.pairs, colAt, pc]
  | cons r rest ih =>
    rw [agreeingPairs.pairs, foldl_add_sum, Nat.zero_add, swap_aux, ih, ← List.sum_map_add]
    simp [colAt, pc]


theorem head_len {m : List (List Nat)} {Ns : Nat} (hm : m ≠ []) (hb : BinaryRatings m Ns) :
    (m.headD []).length = Ns := by
  cases m with
  | nil => exact absurd rfl hm
  | cons r rest => exact (hb r (by simp)).1

/-- closed form y(y−1) + (R−y)(R−y−1) summed over items = twice the number of agreeing
    (item, unordered rater pair) combinations -/
theorem computeTsNum_eq_pairs (m : List (List Nat)) (Ns : Nat) (hm : m ≠ []) (hb : BinaryRatings m Ns) :
    computeTsNum m = 2 * agreeingPairs m := by
  unfold agreeingPairs
  simp only []
  rw [head_len hm hb, pairs_eq, computeTsNum_eq m Ns hm hb, ← List.sum_map_mul_left]
  congr 1
  apply List.map_congr_left
  intro i _
  exact (bin_col (colAt i m) (binary_colAt hb i)).2.2

theorem ne_nil_of_two_le {m : List (List Nat)} (hm : 2 ≤ m.length) : m ≠ [] := by
  rintro rfl; simp at hm

/-- compute_ts = agreeing pairs / (Ns · R(R−1)/2) -/
theorem computeTs_eq_fraction (m : List (List Nat)) (Ns : Nat) (hm : 2 ≤ m.length) (hN : 0 < Ns)
    (hb : BinaryRatings m Ns) :
    computeTs m = (agreeingPairs m : Rat) / ((Ns : Rat) * ((m.length : Rat) * ((m.length : Rat) - 1) / 2)) := by
  have hne := ne_nil_of_two_le hm
  unfold computeTs
  simp only []
  rw [head_len hne hb, computeTsNum_eq_pairs m Ns hne hb]
  have h1 : ((m.length - 1 : Nat) : Rat) = (m.length : Rat) - 1 := by
    rw [Nat.cast_sub (by omega)]; simp
  have hR : (2 : Rat) ≤ (m.length : Rat) := by exact_mod_cast hm
  have hNs : (0 : Rat) < (Ns : Rat) := by exact_mod_cast hN
  push_cast
  rw [h1]
  have : (Ns : Rat) * (m.length : Rat) * ((m.length : Rat) - 1) ≠ 0 := by
    apply ne_of_gt
    apply mul_pos (mul_pos hNs (by linarith)) (by linarith)
  field_simp


theorem hh_add (y z : Nat) : hh (y + z) = hh y + hh z + 2 * y * z := by
  cases y with
  | zero => simp [hh]
  | succ a =>
    cases z with
    | zero => simp [hh]
    | succ b =>
      simp only [hh, show a + 1 + (b + 1) - 1 = a + b + 1 by omega, Nat.add_sub_cancel]
      ring

theorem sum_bound (L : List Nat) (f : Nat → Nat) (B : Nat) (h : ∀ i ∈ L, f i ≤ B) :
    (L.map f).sum ≤ L.length * B ∧ ((L.map f).sum = L.length * B ↔ ∀ i ∈ L, f i = B) := by
  induction L with
  | nil => simp
  | cons a L ih =>
    obtain ⟨h1, h2⟩ := ih (fun i hi => h i (by simp [hi]))
    have ha := h a (by simp)
    simp only [List.map_cons, List.sum_cons, List.length_cons, Nat.succ_mul, List.forall_mem_cons]
    refine ⟨by omega, ?_⟩
    rw [← h2]
    omega

theorem colAt_length (i : Nat) (m : List (List Nat)) : (colAt i m).length = m.length := by
  simp [colAt]

theorem item_le {m : List (List Nat)} {Ns : Nat} (hb : BinaryRatings m Ns) (i : Nat) :
    hh ((colAt i m).count 1) + hh ((colAt i m).count 0) ≤ hh m.length ∧
    (hh ((colAt i m).count 1) + hh ((colAt i m).count 0) = hh m.length ↔
      ((colAt i m).count 1 = 0 ∨ (colAt i m).count 0 = 0)) := by
  obtain ⟨_, h2, _⟩ := bin_col (colAt i m) (binary_colAt hb i)
  rw [colAt_length] at h2
  rw [h2, hh_add]
  refine ⟨by omega, ?_⟩
  constructor
  · intro h
    have : 2 * (colAt i m).count 1 * (colAt i m).count 0 = 0 := by omega
    simpa using this
  · rintro (h | h) <;> simp [h]

theorem computeTsNum_le (m : List (List Nat)) (Ns : Nat) (hm : m ≠ []) (hb : BinaryRatings m Ns) :
    computeTsNum m ≤ Ns * m.length * (m.length - 1) ∧
    (computeTsNum m = Ns * m.length * (m.length - 1) ↔
      ∀ i < Ns, ((colAt i m).count 1 = 0 ∨ (colAt i m).count 0 = 0)) := by
  rw [computeTsNum_eq m Ns hm hb]
  have := sum_bound (List.range Ns)
    (fun i => hh ((colAt i m).count 1) + hh ((colAt i m).count 0)) (hh m.length)
    (fun i _ => (item_le hb i).1)
  simp only [List.length_range] at this
  have e : Ns * m.length * (m.length - 1) = Ns * hh m.length := by simp [hh, Nat.mul_assoc]
  rw [e]
  refine ⟨this.1, this.2.trans ?_⟩
  constructor
  · intro h i hi
    exact (item_le hb i).2.1 (h i (by simpa using hi))
  · intro h i hi
    exact (item_le hb i).2.2 (h i (by simpa using hi))

theorem denom_pos {m : List (List Nat)} {Ns : Nat} (hm : 2 ≤ m.length) (hN : 0 < Ns) :
    (0 : Rat) < ((Ns * m.length * (m.length - 1) : Nat) : Rat) := by
  have : 0 < Ns * m.length * (m.length - 1) :=
    Nat.mul_pos (Nat.mul_pos hN (by omega)) (by omega)
  exact_mod_cast this

/-- the statistic lies in [0, 1] -/
theorem computeTs_range (m : List (List Nat)) (Ns : Nat) (hm : 2 ≤ m.length) (hN : 0 < Ns)
    (hb : BinaryRatings m Ns) : 0 ≤ computeTs m ∧ computeTs m ≤ 1 := by
  have hne := ne_nil_of_two_le hm
  have hd := denom_pos hm hN
  unfold computeTs
  simp only []
  rw [head_len hne hb]
  constructor
  · exact div_nonneg (Nat.cast_nonneg _) hd.le
  · rw [div_le_iff₀ hd, one_mul]
    exact_mod_cast (computeTsNum_le m Ns hne hb).1

theorem mem_colAt {v i : Nat} {m : List (List Nat)} :
    v ∈ colAt i m ↔ ∃ r ∈ m, r.getD i 0 = v := by
  simp [colAt]

theorem getD_bin {m : List (List Nat)} {Ns : Nat} (hb : BinaryRatings m Ns) {r : List Nat}
    (hr : r ∈ m) (i : Nat) : r.getD i 0 = 0 ∨ r.getD i 0 = 1 :=
  binary_colAt hb i _ (mem_colAt.2 ⟨r, hr, rfl⟩)

theorem col_const (m : List (List Nat)) (Ns : Nat) (hm : m ≠ []) (hb : BinaryRatings m Ns) :
    (∀ i < Ns, ((colAt i m).count 1 = 0 ∨ (colAt i m).count 0 = 0)) ↔
      ∀ r ∈ m, ∀ s ∈ m, r = s := by
  constructor
  · intro h r hr s hs
    apply List.ext_getElem
    · rw [(hb r hr).1, (hb s hs).1]
    · intro i h1 h2
      have hi : i < Ns := by rw [← (hb r hr).1]; exact h1
      have er : r.getD i 0 = r[i] := by
        rw [List.getD_eq_getElem?_getD, List.getElem?_eq_getElem h1]; rfl
      have es : s.getD i 0 = s[i] := by
        rw [List.getD_eq_getElem?_getD, List.getElem?_eq_getElem h2]; rfl
      rw [← er, ← es]
      rcases h i hi with h0 | h0
      · rw [List.count_eq_zero] at h0
        have a := getD_bin hb hr i
        have b := getD_bin hb hs i
        have a' : r.getD i 0 ≠ 1 := fun e => h0 (mem_colAt.2 ⟨r, hr, e⟩)
        have b' : s.getD i 0 ≠ 1 := fun e => h0 (mem_colAt.2 ⟨s, hs, e⟩)
        omega
      · rw [List.count_eq_zero] at h0
        have a := getD_bin hb hr i
        have b := getD_bin hb hs i
        have a' : r.getD i 0 ≠ 0 := fun e => h0 (mem_colAt.2 ⟨r, hr, e⟩)
        have b' : s.getD i 0 ≠ 0 := fun e => h0 (mem_colAt.2 ⟨s, hs, e⟩)
        omega
  · intro h i _
    cases m with
    | nil => exact absurd rfl hm
    | cons r0 rest =>
      have h0 : r0 ∈ r0 :: rest := by simp
      rcases getD_bin hb h0 i with e | e
      · left
        rw [List.count_eq_zero]
        intro hmem
        obtain ⟨r, hr, e1⟩ := mem_colAt.1 hmem
        rw [h r hr r0 h0] at e1
        omega
      · right
        rw [List.count_eq_zero]
        intro hmem
        obtain ⟨r, hr, e1⟩ := mem_colAt.1 hmem
        rw [h r hr r0 h0] at e1
        omega

/-- it equals 1 exactly when all raters agree on every item -/
theorem computeTs_one_iff (m : List (List Nat)) (Ns : Nat) (hm : 2 ≤ m.length) (hN : 0 < Ns)
    (hb : BinaryRatings m Ns) :
    computeTs m = 1 ↔ ∀ r ∈ m, ∀ s ∈ m, r = s := by
  have hne := ne_nil_of_two_le hm
  have hd := denom_pos hm hN
  rw [← col_const m Ns hne hb, ← (computeTsNum_le m Ns hne hb).2]
  unfold computeTs
  simp only []
  rw [head_len hne hb, div_eq_one_iff_eq hd.ne']
  exact Nat.cast_inj


/-- invariant under reordering the raters -/
theorem computeTs_perm_raters (m m' : List (List Nat)) (Ns : Nat) (hb : BinaryRatings m Ns)
    (hm : m ≠ []) (h : m.Perm m') : computeTs m = computeTs m' := by
  have hb' : BinaryRatings m' Ns := fun r hr => hb r (h.mem_iff.2 hr)
  have hm' : m' ≠ [] := by
    rintro rfl
    exact hm h.eq_nil
  have hnum : computeTsNum m = computeTsNum m' := by
    rw [computeTsNum_eq m Ns hm hb, computeTsNum_eq m' Ns hm' hb']
    congr 1
    apply List.map_congr_left
    intro i _
    have hp : (colAt i m).Perm (colAt i m') := h.map _
    rw [hp.count_eq, hp.count_eq]
  unfold computeTs
  simp only []
  rw [head_len hm hb, head_len hm' hb', hnum, h.length_eq]

theorem count_swap (c : List Nat) (hc : ∀ v ∈ c, v = 0 ∨ v = 1) :
    (c.map (fun v => 1 - v)).count 1 = c.count 0 ∧ (c.map (fun v => 1 - v)).count 0 = c.count 1 := by
  induction c with
  | nil => simp
  | cons b t ih =>
    obtain ⟨h1, h2⟩ := ih (fun v hv => hc v (by simp [hv]))
    rcases hc b (by simp) with rfl | rfl <;> simp [h1, h2]

/-- invariant under exchanging the labels 0 and 1 -/
theorem computeTs_swap_labels (m : List (List Nat)) (Ns : Nat) (hm : m ≠ []) (hb : BinaryRatings m Ns) :
    computeTs (m.map (fun r => r.map (fun v => 1 - v))) = computeTs m := by
  have hb' : BinaryRatings (m.map (fun r => r.map (fun v => 1 - v))) Ns := by
    intro r hr
    obtain ⟨r0, hr0, rfl⟩ := List.mem_map.1 hr
    refine ⟨by simpa using (hb r0 hr0).1, ?_⟩
    intro v hv
    obtain ⟨v0, hv0, rfl⟩ := List.mem_map.1 hv
    rcases (hb r0 hr0).2 v0 hv0 with rfl | rfl <;> simp
  have hm' : m.map (fun r => r.map (fun v => 1 - v)) ≠ [] := by simpa using hm
  have hnum : computeTsNum (m.map (fun r => r.map (fun v => 1 - v))) = computeTsNum m := by
    rw [computeTsNum_eq m Ns hm hb, computeTsNum_eq _ Ns hm' hb']
    congr 1
    apply List.map_congr_left
    intro i hi
    have hi : i < Ns := by simpa using hi
    have hc : colAt i (m.map (fun r => r.map (fun v => 1 - v))) = (colAt i m).map (fun v => 1 - v) := by
      simp only [colAt, List.map_map]
      apply List.map_congr_left
      intro r hr
      have hir : i < r.length := by rw [(hb r hr).1]; exact hi
      simp [List.getD_eq_getElem?_getD, List.getElem?_eq_getElem hir]
    obtain ⟨h1, h2⟩ := count_swap (colAt i m) (binary_colAt hb i)
    rw [hc, h1, h2, Nat.add_comm]
  unfold computeTs
  simp only []
  rw [head_len hm hb, head_len hm' hb', hnum, List.length_map]

theorem tsDistMatrices_length (r : List (List Nat)) (draws : List (List (List Nat))) :
    (tsDistMatrices r draws).length = draws.length := by
  induction draws generalizing r with
  | nil => rfl
  | cons d rest ih => simp [tsDistMatrices, ih]

/-- simulate_ts_dist uses the supplied obs_ts as the reference value and geq counts the simulated
    values at or above it -/
theorem tsDist_reference (m : List (List Nat)) (t : Rat) (plus1 : Bool) (draws : List (List (List Nat))) :
    (simulateTsDist m (some t) plus1 draws).obs = t ∧
    (simulateTsDist m none plus1 draws).obs = computeTs m ∧
    (simulateTsDist m (some t) plus1 draws).geq
      = ((simulateTsDist m (some t) plus1 draws).dist.filter (fun v => decide (t ≤ v))).length ∧
    (simulateTsDist m (some t) plus1 draws).dist.length = draws.length := by
  refine ⟨rfl, rfl, ?_, ?_⟩
  · simp only [simulateTsDist, cntGe]
    exact List.countP_eq_length_filter
  · simp [simulateTsDist, tsDistMatrices_length]

/-- non-vacuity -/
example : computeTsNum [[1, 0, 1], [1, 1, 0], [1, 0, 0]] = 2 * agreeingPairs [[1, 0, 1], [1, 1, 0], [1, 0, 0]] := by decide

end PV.IRR