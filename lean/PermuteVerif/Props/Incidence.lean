/-
  Props/Incidence.lean — C19: permute_incidence_fixed_sums makes margin-preserving checkerboard
  swaps only.  Statements are fixed; only proofs (and helper lemmas above them) may change.
-/
import PermuteVerif.Model.Incidence
import Mathlib.Data.List.Basic
import Mathlib.Tactic.Linarith
namespace PV.Incidence
/-- rectangular matrix: every row has the length of the first -/
def Rect (m : Mat) : Prop := ∀ r ∈ m, r.length = (m.headD []).length

/-! ### helper lemmas: shape -/

/-- the list of row lengths -/
def inc_shape (m : Mat) : List Nat := m.map List.length

theorem inc_matSet_shape (m : Mat) (i j : Nat) (v : Int) : inc_shape (matSet m i j v) = inc_shape m := by
  unfold inc_shape matSet
  rw [List.map_set, List.length_set]
  by_cases h : i < m.length
  · have h' : i < (m.map List.length).length := by simpa using h
    have : (m.getD i []).length = (m.map List.length)[i] := by
      simp [List.getD_eq_getElem?_getD, List.getElem?_eq_getElem h]
    rw [this, List.set_getElem_self]
  · exact List.set_eq_of_length_le (by simpa using Nat.le_of_not_lt h)

theorem inc_length_eq_of_shape {m m' : Mat} (h : inc_shape m' = inc_shape m) : m'.length = m.length := by
  have := congrArg List.length h
  simpa [inc_shape] using this

theorem inc_head_eq_of_shape {m m' : Mat} (h : inc_shape m' = inc_shape m) :
    (m'.headD []).length = (m.headD []).length := by
  cases m with
  | nil =>
    cases m' with
    | nil => rfl
    | cons r t => simp [inc_shape] at h
  | cons r t =>
    cases m' with
    | nil => simp [inc_shape] at h
    | cons r' t' =>
      simp only [inc_shape, List.map_cons, List.cons.injEq] at h
      simpa using h.1

theorem inc_rect_iff_shape (m : Mat) : Rect m ↔ ∀ n ∈ inc_shape m, n = (m.headD []).length := by
  unfold Rect inc_shape
  simp

theorem inc_rect_of_shape {m m' : Mat} (h : inc_shape m' = inc_shape m) (hr : Rect m) : Rect m' := by
  rw [inc_rect_iff_shape] at hr ⊢
  rw [h, inc_head_eq_of_shape h]
  exact hr

/-- a successful attempt: both picks are candidate columns and four cells are set -/
theorem inc_swap_some (m m' : Mat) (s0 s1 a b : Nat) (h : swapAttempt m s0 s1 a b = some m') :
    ∃ p0 p1 : Nat, p0 ∈ colsWith m s0 s1 1 0 ∧ p1 ∈ colsWith m s0 s1 0 1 ∧
      m' = matSet (matSet (matSet (matSet m s0 p0 0) s0 p1 1) s1 p0 1) s1 p1 0 := by
  unfold swapAttempt at h
  simp only at h
  split at h
  · rename_i p0 p1 h0 h1
    injection h with h
    exact ⟨p0, p1, List.mem_of_getElem? h0, List.mem_of_getElem? h1, h.symm⟩
  · exact absurd h (by simp)

theorem inc_swap_shape_eq (m m' : Mat) (s0 s1 a b : Nat)
    (h : swapAttempt m s0 s1 a b = some m') : inc_shape m' = inc_shape m := by
  obtain ⟨p0, p1, _, _, rfl⟩ := inc_swap_some m m' s0 s1 a b h
  simp only [inc_matSet_shape]

/-! ### helper lemmas: binary -/

theorem inc_isBinary_iff (m : Mat) : isBinary m = true ↔ ∀ r ∈ m, ∀ v ∈ r, v = 0 ∨ v = 1 := by
  unfold isBinary
  simp

theorem inc_matSet_binary (m : Mat) (i j : Nat) (v : Int) (hv : v = 0 ∨ v = 1)
    (hb : isBinary m = true) : isBinary (matSet m i j v) = true := by
  rw [inc_isBinary_iff] at hb ⊢
  intro r hr u hu
  unfold matSet at hr
  rcases List.mem_or_eq_of_mem_set hr with hr | rfl
  · exact hb r hr u hu
  · rcases List.mem_or_eq_of_mem_set hu with hu | rfl
    · by_cases h : i < m.length
      · have : m.getD i [] ∈ m := by
          simp [List.getD_eq_getElem?_getD, List.getElem?_eq_getElem h]
        exact hb _ this u hu
      · have : m.getD i [] = [] := by
          simp [List.getD_eq_getElem?_getD, List.getElem?_eq_none (Nat.le_of_not_lt h)]
        rw [this] at hu
        simp at hu
    · exact hv

/-! ### helper lemmas: cell differences -/

theorem inc_foldl_add_nat (l : List Nat) : l.foldl (· + ·) 0 = l.sum := by
  have : ∀ (l : List Nat) (b : Nat), l.foldl (· + ·) b = b + l.sum := by
    intro l
    induction l with
    | nil => intro b; simp
    | cons c t ih => intro b; simp only [List.foldl_cons, List.sum_cons, ih]; omega
  simpa using this l 0

/-- number of positions at which two rows differ -/
def inc_rowDiff (r s : List Int) : Nat :=
  (List.zipWith (fun (u v : Int) => if u = v then 0 else 1) r s).sum

theorem inc_cellDiff_eq (a b : Mat) : cellDiff a b = (List.zipWith inc_rowDiff a b).sum := by
  unfold cellDiff
  rw [inc_foldl_add_nat]
  have : (fun (r s : List Int) =>
      (List.zipWith (fun (u v : Int) => if u = v then 0 else 1) r s).foldl (· + ·) 0)
      = inc_rowDiff := by
    funext r s
    exact inc_foldl_add_nat _
  rw [this]

theorem inc_rowDiff_self (r : List Int) : inc_rowDiff r r = 0 := by
  unfold inc_rowDiff
  induction r with
  | nil => rfl
  | cons a t ih => simp

theorem inc_cellDiff_self (m : Mat) : cellDiff m m = 0 := by
  rw [inc_cellDiff_eq]
  induction m with
  | nil => rfl
  | cons a t ih => simp [inc_rowDiff_self]

theorem inc_rowDiff_set_le (r s : List Int) (j : Nat) (v : Int) :
    inc_rowDiff r (s.set j v) ≤ inc_rowDiff r s + 1 := by
  unfold inc_rowDiff
  induction r generalizing s j with
  | nil => simp
  | cons u r' ih =>
    cases s with
    | nil => simp
    | cons w s' =>
      cases j with
      | zero =>
        simp only [List.set_cons_zero, List.zipWith_cons_cons, List.sum_cons]
        split <;> split <;> omega
      | succ j =>
        simp only [List.set_cons_succ, List.zipWith_cons_cons, List.sum_cons]
        have := ih s' j
        omega

theorem inc_zipDiff_set_le (a b : Mat) (i : Nat) (s' : List Int)
    (h : ∀ r, inc_rowDiff r s' ≤ inc_rowDiff r (b.getD i []) + 1) :
    (List.zipWith inc_rowDiff a (b.set i s')).sum ≤ (List.zipWith inc_rowDiff a b).sum + 1 := by
  induction a generalizing b i with
  | nil => simp
  | cons r a' ih =>
    cases b with
    | nil => simp
    | cons s b' =>
      cases i with
      | zero =>
        simp only [List.set_cons_zero, List.zipWith_cons_cons, List.sum_cons]
        have := h r
        simp only [List.getD_cons_zero] at this
        omega
      | succ i =>
        simp only [List.set_cons_succ, List.zipWith_cons_cons, List.sum_cons]
        have := ih b' i (by simpa using h)
        omega

theorem inc_cellDiff_matSet_le (a b : Mat) (i j : Nat) (v : Int) :
    cellDiff a (matSet b i j v) ≤ cellDiff a b + 1 := by
  rw [inc_cellDiff_eq, inc_cellDiff_eq]
  unfold matSet
  exact inc_zipDiff_set_le a b i _ (fun r => inc_rowDiff_set_le r _ j v)

theorem inc_swap_diff_le (m0 m m' : Mat) (s0 s1 a b : Nat)
    (h : swapAttempt m s0 s1 a b = some m') : cellDiff m0 m' ≤ cellDiff m0 m + 4 := by
  obtain ⟨p0, p1, _, _, rfl⟩ := inc_swap_some m m' s0 s1 a b h
  have h1 := inc_cellDiff_matSet_le m0 m s0 p0 0
  have h2 := inc_cellDiff_matSet_le m0 (matSet m s0 p0 0) s0 p1 1
  have h3 := inc_cellDiff_matSet_le m0 (matSet (matSet m s0 p0 0) s0 p1 1) s1 p0 1
  have h4 := inc_cellDiff_matSet_le m0 (matSet (matSet (matSet m s0 p0 0) s0 p1 1) s1 p0 1) s1 p1 0
  omega

theorem inc_run_diff_le_aux (m0 : Mat) (atts : List Attempt) : ∀ (m : Mat) (k : Nat),
    cellDiff m0 (incidenceRun m k atts) ≤ cellDiff m0 m + 4 * k := by
  induction atts with
  | nil =>
    intro m k
    cases k <;> simp [incidenceRun]
  | cons a rest ih =>
    intro m k
    cases k with
    | zero => simp [incidenceRun]
    | succ k =>
      simp only [incidenceRun]
      cases hs : swapAttempt m a.s0 a.s1 a.pick0 a.pick1 with
      | none => exact ih m (k + 1)
      | some m' =>
        have h1 := ih m' k
        have h2 := inc_swap_diff_le m0 m m' _ _ _ _ hs
        simp only
        omega

/-! ### helper lemmas: what a successful attempt does -/

theorem inc_getD_set_self {α : Type} (l : List α) (i : Nat) (x d : α) (h : i < l.length) :
    (l.set i x).getD i d = x := by
  simp [List.getD_eq_getElem?_getD, h]

theorem inc_getD_set_ne {α : Type} (l : List α) (i j : Nat) (x d : α) (h : i ≠ j) :
    (l.set i x).getD j d = l.getD j d := by
  simp [List.getD_eq_getElem?_getD, h]

theorem inc_swap_normal (m : Mat) (s0 s1 p0 p1 : Nat) (h0 : s0 < m.length) (h1 : s1 < m.length)
    (hne : s0 ≠ s1) :
    matSet (matSet (matSet (matSet m s0 p0 0) s0 p1 1) s1 p0 1) s1 p1 0
      = (m.set s0 (((m.getD s0 []).set p0 0).set p1 1)).set s1
          (((m.getD s1 []).set p0 1).set p1 0) := by
  unfold matSet
  rw [inc_getD_set_self _ _ _ _ h0, List.set_set, inc_getD_set_ne _ _ _ _ _ hne,
    inc_getD_set_self _ _ _ _ (by simpa using h1), List.set_set, inc_getD_set_ne _ _ _ _ _ hne]

theorem inc_mem_colsWith (m : Mat) (s0 s1 : Nat) (a b : Int) (j : Nat) :
    j ∈ colsWith m s0 s1 a b ↔
      j < (m.headD []).length ∧ matGet m s0 j = a ∧ matGet m s1 j = b := by
  simp [colsWith]

theorem inc_matGet_ne_zero (m : Mat) (s j : Nat) (h : matGet m s j ≠ 0) :
    s < m.length ∧ j < (m.getD s []).length := by
  unfold matGet at h
  constructor
  · by_contra hs
    apply h
    simp [List.getD_eq_getElem?_getD, List.getElem?_eq_none (Nat.le_of_not_lt hs)]
  · by_contra hs
    apply h
    rw [List.getD_eq_getElem?_getD, List.getElem?_eq_none (Nat.le_of_not_lt hs)]
    rfl

theorem inc_getD_mem_of_lt {α : Type} (l : List α) (i : Nat) (d : α) (h : i < l.length) :
    l.getD i d ∈ l := by
  simp [List.getD_eq_getElem?_getD, List.getElem?_eq_getElem h]

/-- what a successful attempt does -/
theorem inc_swap_facts (m m' : Mat) (s0 s1 a b : Nat) (hr : Rect m)
    (h : swapAttempt m s0 s1 a b = some m') :
    ∃ p0 p1 : Nat, s0 < m.length ∧ s1 < m.length ∧ s0 ≠ s1 ∧ p0 ≠ p1 ∧
      p0 < (m.getD s0 []).length ∧ p1 < (m.getD s0 []).length ∧
      p0 < (m.getD s1 []).length ∧ p1 < (m.getD s1 []).length ∧
      (m.getD s0 []).getD p0 0 = 1 ∧ (m.getD s0 []).getD p1 0 = 0 ∧
      (m.getD s1 []).getD p0 0 = 0 ∧ (m.getD s1 []).getD p1 0 = 1 ∧
      m' = (m.set s0 (((m.getD s0 []).set p0 0).set p1 1)).set s1
            (((m.getD s1 []).set p0 1).set p1 0) := by
  obtain ⟨p0, p1, hp0, hp1, h⟩ := inc_swap_some m m' s0 s1 a b h
  · replace h := h.symm
    rw [inc_mem_colsWith] at hp0 hp1
    obtain ⟨hw0, h00, h10⟩ := hp0
    obtain ⟨hw1, h01, h11⟩ := hp1
    have hs0 := inc_matGet_ne_zero m s0 p0 (by rw [h00]; decide)
    have hs1 := inc_matGet_ne_zero m s1 p1 (by rw [h11]; decide)
    have hne : s0 ≠ s1 := by
      rintro rfl
      rw [h00] at h10
      exact absurd h10 (by decide)
    have hpne : p0 ≠ p1 := by
      rintro rfl
      rw [h00] at h01
      exact absurd h01 (by decide)
    have hl0 : (m.getD s0 []).length = (m.headD []).length := hr _ (inc_getD_mem_of_lt _ _ _ hs0.1)
    have hl1 : (m.getD s1 []).length = (m.headD []).length := hr _ (inc_getD_mem_of_lt _ _ _ hs1.1)
    refine ⟨p0, p1, hs0.1, hs1.1, hne, hpne, hs0.2, by omega, by omega, hs1.2, h00, h01, h10, h11, ?_⟩
    rw [← h, inc_swap_normal m s0 s1 p0 p1 hs0.1 hs1.1 hne]

/-! sums -/

theorem inc_foldl_add_int (l : List Int) : l.foldl (· + ·) 0 = l.sum := by
  have : ∀ (l : List Int) (b : Int), l.foldl (· + ·) b = b + l.sum := by
    intro l
    induction l with
    | nil => intro b; simp
    | cons c t ih => intro b; simp only [List.foldl_cons, List.sum_cons, ih]; omega
  simpa using this l 0

theorem inc_sum_set_int (l : List Int) (i : Nat) (v : Int) (h : i < l.length) :
    (l.set i v).sum + l.getD i 0 = l.sum + v := by
  induction l generalizing i with
  | nil => simp at h
  | cons c t ih =>
    cases i with
    | zero => simp; omega
    | succ i =>
      have := ih i (by simpa using h)
      simp only [List.set_cons_succ, List.sum_cons, List.getD_cons_succ]
      omega

theorem inc_map_set_same {α β : Type} (f : α → β) (d : α) (l : List α) (i : Nat) (x : α)
    (h : f x = f (l.getD i d)) : (l.set i x).map f = l.map f := by
  induction l generalizing i with
  | nil => rfl
  | cons c t ih =>
    cases i with
    | zero => simpa using h
    | succ i => simpa using ih i (by simpa using h)

theorem inc_getD_set_set (r : List Int) (p0 p1 j : Nat) (v0 v1 : Int)
    (h0 : p0 < r.length) (h1 : p1 < r.length) :
    ((r.set p0 v0).set p1 v1).getD j 0
      = if j = p1 then v1 else if j = p0 then v0 else r.getD j 0 := by
  by_cases hj1 : j = p1
  · subst hj1
    rw [inc_getD_set_self _ _ _ _ (by simpa using h1)]
    simp
  · rw [inc_getD_set_ne _ _ _ _ _ (Ne.symm hj1)]
    by_cases hj0 : j = p0
    · subst hj0
      rw [inc_getD_set_self _ _ _ _ h0]
      simp [hj1]
    · rw [inc_getD_set_ne _ _ _ _ _ (Ne.symm hj0)]
      simp [hj1, hj0]

theorem inc_sum_set_set (r : List Int) (p0 p1 : Nat) (v0 v1 : Int)
    (h0 : p0 < r.length) (h1 : p1 < r.length) (hne : p0 ≠ p1) :
    ((r.set p0 v0).set p1 v1).sum + r.getD p0 0 + r.getD p1 0 = r.sum + v0 + v1 := by
  have e1 := inc_sum_set_int (r.set p0 v0) p1 v1 (by simpa using h1)
  have e2 := inc_sum_set_int r p0 v0 h0
  rw [inc_getD_set_ne _ _ _ _ _ hne] at e1
  omega

theorem inc_getD_map_int {α : Type} (f : α → Int) (d : α) (l : List α) (i : Nat) (h : i < l.length) :
    (l.map f).getD i 0 = f (l.getD i d) := by
  simp [List.getD_eq_getElem?_getD, List.getElem?_eq_getElem h]

/-- zipWith-sum after replacing one entry of the second list -/
theorem inc_zipsum_set {α β : Type} (f : α → β → Nat) (da : α) (db : β) (a : List α) (b : List β)
    (i : Nat) (s : β) (ha : i < a.length) (hb : i < b.length) :
    (List.zipWith f a (b.set i s)).sum + f (a.getD i da) (b.getD i db)
      = (List.zipWith f a b).sum + f (a.getD i da) s := by
  induction a generalizing b i with
  | nil => simp at ha
  | cons x a' ih =>
    cases b with
    | nil => simp at hb
    | cons y b' =>
      cases i with
      | zero => simp; omega
      | succ i =>
        have := ih b' i (by simpa using ha) (by simpa using hb)
        simp only [List.set_cons_succ, List.zipWith_cons_cons, List.sum_cons, List.getD_cons_succ]
        omega


theorem inc_rowSums_eq_map_sum (m : Mat) : rowSums m = m.map List.sum := by
  unfold rowSums
  apply List.map_congr_left
  intro r _
  exact inc_foldl_add_int r

theorem inc_colSumsI_eq (m : Mat) : colSumsI m
    = (List.range ((m.headD []).length)).map (fun j => (m.map (fun r => r.getD j 0)).sum) := by
  unfold colSumsI
  apply List.map_congr_left
  intro j _
  exact inc_foldl_add_int _

/-- list-level statement: the checkerboard replacement keeps all margins -/
theorem inc_margins_set_set (m : Mat) (s0 s1 p0 p1 : Nat)
    (hs0 : s0 < m.length) (hs1 : s1 < m.length) (hne : s0 ≠ s1) (hpne : p0 ≠ p1)
    (h00 : p0 < (m.getD s0 []).length) (h01 : p1 < (m.getD s0 []).length)
    (h10 : p0 < (m.getD s1 []).length) (h11 : p1 < (m.getD s1 []).length)
    (v00 : (m.getD s0 []).getD p0 0 = 1) (v01 : (m.getD s0 []).getD p1 0 = 0)
    (v10 : (m.getD s1 []).getD p0 0 = 0) (v11 : (m.getD s1 []).getD p1 0 = 1) :
    ((m.set s0 (((m.getD s0 []).set p0 0).set p1 1)).set s1
        (((m.getD s1 []).set p0 1).set p1 0)).map List.sum = m.map List.sum ∧
    ∀ j : Nat, (((m.set s0 (((m.getD s0 []).set p0 0).set p1 1)).set s1
        (((m.getD s1 []).set p0 1).set p1 0)).map (fun r => r.getD j 0)).sum
        = (m.map (fun r => r.getD j 0)).sum := by
  constructor
  · rw [inc_map_set_same List.sum [] _ s1, inc_map_set_same List.sum [] _ s0]
    · have := inc_sum_set_set (m.getD s0 []) p0 p1 0 1 h00 h01 hpne
      omega
    · rw [inc_getD_set_ne _ _ _ _ _ hne]
      have := inc_sum_set_set (m.getD s1 []) p0 p1 1 0 h10 h11 hpne
      omega
  · intro j
    rw [List.map_set, List.map_set]
    have e := inc_sum_set_set (m.map (fun r => r.getD j 0)) s0 s1
      ((((m.getD s0 []).set p0 0).set p1 1).getD j 0) ((((m.getD s1 []).set p0 1).set p1 0).getD j 0)
      (by simpa using hs0) (by simpa using hs1) hne
    have hx := inc_getD_set_set (m.getD s0 []) p0 p1 j 0 1 h00 h01
    have hy := inc_getD_set_set (m.getD s1 []) p0 p1 j 1 0 h10 h11
    rw [inc_getD_map_int (fun r => r.getD j 0) [] m s0 hs0,
      inc_getD_map_int (fun r => r.getD j 0) [] m s1 hs1] at e
    by_cases hj1 : j = p1
    · subst hj1
      simp only [if_true] at hx hy
      omega
    · by_cases hj0 : j = p0
      · subst hj0
        simp only [hj1, if_false, if_true] at hx hy
        omega
      · simp only [hj1, hj0, if_false] at hx hy
        omega

theorem inc_rowDiff_set_set (r : List Int) (p0 p1 : Nat) (v0 v1 : Int)
    (h0 : p0 < r.length) (h1 : p1 < r.length) (hne : p0 ≠ p1)
    (hv0 : r.getD p0 0 ≠ v0) (hv1 : r.getD p1 0 ≠ v1) :
    inc_rowDiff r ((r.set p0 v0).set p1 v1) = 2 := by
  unfold inc_rowDiff
  have e1 := inc_zipsum_set (fun (u v : Int) => if u = v then 0 else 1) 0 0 r (r.set p0 v0) p1 v1 h1
    (by simpa using h1)
  have e2 := inc_zipsum_set (fun (u v : Int) => if u = v then 0 else 1) 0 0 r r p0 v0 h0 h0
  have e3 : (List.zipWith (fun (u v : Int) => if u = v then 0 else 1) r r).sum = 0 :=
    inc_rowDiff_self r
  rw [inc_getD_set_ne _ _ _ _ _ hne] at e1
  simp only [if_true, hv0, hv1, if_false] at e1 e2
  omega

theorem inc_cellDiff_set_set (m : Mat) (s0 s1 : Nat) (r0' r1' : List Int)
    (hs0 : s0 < m.length) (hs1 : s1 < m.length) (hne : s0 ≠ s1) :
    cellDiff m ((m.set s0 r0').set s1 r1')
      = inc_rowDiff (m.getD s0 []) r0' + inc_rowDiff (m.getD s1 []) r1' := by
  rw [inc_cellDiff_eq]
  have e1 := inc_zipsum_set inc_rowDiff [] [] m (m.set s0 r0') s1 r1' hs1 (by simpa using hs1)
  have e2 := inc_zipsum_set inc_rowDiff [] [] m m s0 r0' hs0 hs0
  have e3 : (List.zipWith inc_rowDiff m m).sum = 0 := by
    rw [← inc_cellDiff_eq]; exact inc_cellDiff_self m
  rw [inc_getD_set_ne _ _ _ _ _ hne, inc_rowDiff_self] at e1
  rw [inc_rowDiff_self] at e2
  omega

/-- a successful attempt keeps the shape -/
theorem swap_shape (m m' : Mat) (s0 s1 a b : Nat) (hr : Rect m)
    (h : swapAttempt m s0 s1 a b = some m') :
    m'.length = m.length ∧ Rect m' ∧ (m'.headD []).length = (m.headD []).length := by
  have hs := inc_swap_shape_eq m m' s0 s1 a b h
  exact ⟨inc_length_eq_of_shape hs, inc_rect_of_shape hs hr, inc_head_eq_of_shape hs⟩

/-- a successful attempt keeps every row sum and every column sum -/
theorem swap_margins (m m' : Mat) (s0 s1 a b : Nat) (hr : Rect m)
    (h : swapAttempt m s0 s1 a b = some m') :
    rowSums m' = rowSums m ∧ colSumsI m' = colSumsI m := by
  have hw := inc_head_eq_of_shape (inc_swap_shape_eq m m' s0 s1 a b h)
  obtain ⟨p0, p1, hs0, hs1, hne, hpne, h00, h01, h10, h11, v00, v01, v10, v11, rfl⟩ :=
    inc_swap_facts m m' s0 s1 a b hr h
  have hm := inc_margins_set_set m s0 s1 p0 p1 hs0 hs1 hne hpne h00 h01 h10 h11 v00 v01 v10 v11
  constructor
  · rw [inc_rowSums_eq_map_sum, inc_rowSums_eq_map_sum]
    exact hm.1
  · rw [inc_colSumsI_eq, inc_colSumsI_eq, hw]
    apply List.map_congr_left
    intro j _
    exact hm.2 j

/-- a successful attempt keeps the matrix binary -/
theorem swap_binary (m m' : Mat) (s0 s1 a b : Nat) (hb : isBinary m = true)
    (h : swapAttempt m s0 s1 a b = some m') : isBinary m' = true := by
  obtain ⟨p0, p1, _, _, rfl⟩ := inc_swap_some m m' s0 s1 a b h
  exact inc_matSet_binary _ _ _ _ (Or.inl rfl) (inc_matSet_binary _ _ _ _ (Or.inr rfl)
    (inc_matSet_binary _ _ _ _ (Or.inr rfl) (inc_matSet_binary _ _ _ _ (Or.inl rfl) hb)))

/-- a successful attempt changes exactly four cells -/
theorem swap_four_cells (m m' : Mat) (s0 s1 a b : Nat) (hr : Rect m)
    (h : swapAttempt m s0 s1 a b = some m') : cellDiff m m' = 4 := by
  obtain ⟨p0, p1, hs0, hs1, hne, hpne, h00, h01, h10, h11, v00, v01, v10, v11, rfl⟩ :=
    inc_swap_facts m m' s0 s1 a b hr h
  rw [inc_cellDiff_set_set m s0 s1 _ _ hs0 hs1 hne,
    inc_rowDiff_set_set _ p0 p1 0 1 h00 h01 hpne (by rw [v00]; decide) (by rw [v01]; decide),
    inc_rowDiff_set_set _ p0 p1 1 0 h10 h11 hpne (by rw [v10]; decide) (by rw [v11]; decide)]

/-- k = 0 returns the input -/
theorem run_zero (m : Mat) (atts : List Attempt) : incidenceRun m 0 atts = m := by
  simp [incidenceRun]

/-- every run (any number of swaps, any attempt sequence) keeps all margins -/
theorem run_margins (m : Mat) (hr : Rect m) (k : Nat) (atts : List Attempt) :
    rowSums (incidenceRun m k atts) = rowSums m ∧ colSumsI (incidenceRun m k atts) = colSumsI m := by
  induction atts generalizing m k with
  | nil => cases k <;> simp [incidenceRun]
  | cons a rest ih =>
    cases k with
    | zero => simp [incidenceRun]
    | succ k =>
      simp only [incidenceRun]
      cases hs : swapAttempt m a.s0 a.s1 a.pick0 a.pick1 with
      | none => exact ih m hr (k + 1)
      | some m' =>
        have hsh := inc_swap_shape_eq m m' _ _ _ _ hs
        have h1 := ih m' (inc_rect_of_shape hsh hr) k
        have h2 := swap_margins m m' _ _ _ _ hr hs
        simp only
        exact ⟨h1.1.trans h2.1, h1.2.trans h2.2⟩

/-- every run keeps the matrix binary -/
theorem run_binary (m : Mat) (hb : isBinary m = true) (k : Nat) (atts : List Attempt) :
    isBinary (incidenceRun m k atts) = true := by
  induction atts generalizing m k with
  | nil => cases k <;> simpa [incidenceRun] using hb
  | cons a rest ih =>
    cases k with
    | zero => simpa [incidenceRun] using hb
    | succ k =>
      simp only [incidenceRun]
      cases hs : swapAttempt m a.s0 a.s1 a.pick0 a.pick1 with
      | none => exact ih m hb (k + 1)
      | some m' => exact ih m' (swap_binary m m' _ _ _ _ hb hs) k

/-- the result differs from the input in at most 4k cells -/
theorem run_diff_le (m : Mat) (k : Nat) (atts : List Attempt) :
    cellDiff m (incidenceRun m k atts) ≤ 4 * k := by
  have := inc_run_diff_le_aux m atts m k
  rw [inc_cellDiff_self] at this
  omega

/-- non-vacuity: a swap that succeeds -/
example : swapAttempt [[1, 0], [0, 1]] 0 1 0 0 = some [[0, 1], [1, 0]] := by decide

end PV.Incidence