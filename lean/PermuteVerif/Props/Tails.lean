/-
  Props/Tails.lean — C14 (exact valid tail p-values; bad inputs rejected), C12 (Clopper–Pearson
  coverage from certified limits), C13 (hypergeometric test inversion covers).
  Statements are fixed; only proofs (and helper lemmas above them) may change.
-/
import PermuteVerif.Model.Tails
import Mathlib.Data.List.Basic
import Mathlib.Data.Nat.Choose.Basic
import Mathlib.Data.Nat.Choose.Sum
import Mathlib.Data.Nat.Choose.Vandermonde
import Mathlib.Data.Nat.Factorial.Basic
import Mathlib.Algebra.BigOperators.Intervals
import Mathlib.Algebra.Order.BigOperators.Group.Finset
import Mathlib.Tactic.Linarith
import Mathlib.Tactic.Positivity
import Mathlib.Tactic.FieldSimp
import Mathlib.Tactic.Ring
import Mathlib.Algebra.Order.Field.Rat
namespace PV.Tails
open Finset

/-! ### the model's own `choose` is the binomial coefficient -/

theorem fact_eq (n : Nat) : fact n = n.factorial := by
  induction n with
  | zero => rfl
  | succ n ih => simp [fact, Nat.factorial, ih]

theorem choose_eq (n k : Nat) : choose n k = Nat.choose n k := by
  unfold choose
  split
  · rename_i h
    rw [fact_eq, fact_eq, fact_eq, Nat.choose_eq_factorial_div_factorial h]
  · rename_i h
    rw [Nat.choose_eq_zero_of_lt (by omega)]

theorem rsum_eq_sum (l : List Rat) : rsum l = l.sum := by
  unfold rsum
  have : ∀ (a : Rat), l.foldl (· + ·) a = a + l.sum := by
    induction l with
    | nil => simp
    | cons b l ih => intro a; simp only [List.foldl_cons, List.sum_cons]; rw [ih]; ring
  rw [this]; ring

theorem rsum_filter_map (n : Nat) (q : Nat → Bool) (f : Nat → Rat) :
    rsum (((List.range n).filter q).map f) = ∑ k ∈ (Finset.range n).filter (fun k => q k = true), f k := by
  rw [rsum_eq_sum, Finset.sum_filter]
  induction n with
  | zero => simp
  | succ n ih =>
    rw [List.range_succ, List.filter_append, List.map_append, List.sum_append, ih,
      Finset.sum_range_succ]
    congr 1
    by_cases h : q n = true <;> simp [h]

theorem rsum_range_map (n : Nat) (f : Nat → Rat) :
    rsum ((List.range n).map f) = ∑ k ∈ Finset.range n, f k := by
  rw [rsum_eq_sum]
  induction n with
  | zero => simp
  | succ n ih =>
    rw [List.range_succ, List.map_append, List.sum_append, ih, Finset.sum_range_succ]
    simp

theorem list_sum_eq_range (w : List Rat) : w.sum = ∑ i ∈ Finset.range w.length, w.getD i 0 := by
  induction w with
  | nil => simp
  | cons a w ih =>
    rw [List.sum_cons, List.length_cons, Finset.sum_range_succ', ih]
    simp [add_comm]

/-! generic Finset-form validity -/

theorem fin_upper_valid (f : Nat → Rat) (m : Nat) (hf : ∀ k < m, 0 ≤ f k) (α : Rat) (hα : 0 ≤ α) :
    ∑ k ∈ (Finset.range m).filter (fun k => ∑ i ∈ Finset.Ico k m, f i ≤ α), f k ≤ α := by
  set S := (Finset.range m).filter (fun k => ∑ i ∈ Finset.Ico k m, f i ≤ α) with hS
  by_cases hne : S.Nonempty
  · have hmem := Finset.min'_mem S hne
    set k0 := S.min' hne with hk0
    have hk0S : k0 < m ∧ ∑ i ∈ Finset.Ico k0 m, f i ≤ α := by
      simpa [hS] using hmem
    have hsub : S ⊆ Finset.Ico k0 m := by
      intro k hk
      have h1 : k0 ≤ k := Finset.min'_le S k hk
      have h2 : k < m := by
        have := (Finset.mem_filter.mp hk).1
        simpa using this
      simp [h1, h2]
    calc ∑ k ∈ S, f k ≤ ∑ k ∈ Finset.Ico k0 m, f k := by
          apply Finset.sum_le_sum_of_subset_of_nonneg hsub
          intro i hi _
          exact hf i (Finset.mem_Ico.mp hi).2
      _ ≤ α := hk0S.2
  · rw [Finset.not_nonempty_iff_eq_empty] at hne
    rw [hne]; simpa using hα

theorem fin_lower_valid (f : Nat → Rat) (m : Nat) (hf : ∀ k < m, 0 ≤ f k) (α : Rat) (hα : 0 ≤ α) :
    ∑ k ∈ (Finset.range m).filter (fun k => ∑ i ∈ Finset.range (k + 1), f i ≤ α), f k ≤ α := by
  set S := (Finset.range m).filter (fun k => ∑ i ∈ Finset.range (k + 1), f i ≤ α) with hS
  by_cases hne : S.Nonempty
  · have hmem := Finset.max'_mem S hne
    set k0 := S.max' hne with hk0
    have hk0S : k0 < m ∧ ∑ i ∈ Finset.range (k0 + 1), f i ≤ α := by
      simpa [hS] using hmem
    have hsub : S ⊆ Finset.range (k0 + 1) := by
      intro k hk
      have h1 : k ≤ k0 := Finset.le_max' S k hk
      simp; omega
    calc ∑ k ∈ S, f k ≤ ∑ k ∈ Finset.range (k0 + 1), f k := by
          apply Finset.sum_le_sum_of_subset_of_nonneg hsub
          intro i hi _
          have := Finset.mem_range.mp hi
          exact hf i (by omega)
      _ ≤ α := hk0S.2
  · rw [Finset.not_nonempty_iff_eq_empty] at hne
    rw [hne]; simpa using hα

theorem fin_sum_le_of_imp (f : Nat → Rat) (m : Nat) (hf : ∀ k < m, 0 ≤ f k) (P Q : Nat → Prop)
    [DecidablePred P] [DecidablePred Q] (h : ∀ k < m, P k → Q k) :
    ∑ k ∈ (Finset.range m).filter P, f k ≤ ∑ k ∈ (Finset.range m).filter Q, f k := by
  apply Finset.sum_le_sum_of_subset_of_nonneg
  · intro k hk
    rw [Finset.mem_filter] at hk ⊢
    exact ⟨hk.1, h k (Finset.mem_range.mp hk.1) hk.2⟩
  · intro i hi _
    exact hf i (Finset.mem_range.mp (Finset.mem_filter.mp hi).1)

theorem fin_sum_or_le (f : Nat → Rat) (m : Nat) (hf : ∀ k < m, 0 ≤ f k) (P Q : Nat → Prop)
    [DecidablePred P] [DecidablePred Q] :
    ∑ k ∈ (Finset.range m).filter (fun k => P k ∨ Q k), f k
      ≤ ∑ k ∈ (Finset.range m).filter P, f k + ∑ k ∈ (Finset.range m).filter Q, f k := by
  rw [Finset.filter_or, ← Finset.sum_union_inter]
  have : 0 ≤ ∑ k ∈ (Finset.range m).filter P ∩ (Finset.range m).filter Q, f k := by
    apply Finset.sum_nonneg
    intro i hi
    exact hf i (Finset.mem_range.mp (Finset.mem_filter.mp (Finset.mem_inter.mp hi).1).1)
  linarith

theorem twoSided_le_imp (l u α : Rat) (h : twoSidedTail l u ≤ α) : l ≤ α / 2 ∨ u ≤ α / 2 ∨ 1 ≤ α := by
  unfold twoSidedTail at h
  by_contra hc
  push Not at hc
  obtain ⟨h1, h2, h3⟩ := hc
  have : α / 2 < min l (min u (1/2)) := by
    rw [lt_min_iff, lt_min_iff]
    exact ⟨h1, h2, by linarith⟩
  linarith

theorem fin_two_valid (f : Nat → Rat) (m : Nat) (hf : ∀ k < m, 0 ≤ f k)
    (htot : ∑ k ∈ Finset.range m, f k ≤ 1) (α : Rat) (hα : 0 ≤ α) :
    ∑ k ∈ (Finset.range m).filter (fun k =>
      twoSidedTail (∑ i ∈ Finset.range (k + 1), f i) (∑ i ∈ Finset.Ico k m, f i) ≤ α), f k ≤ α := by
  by_cases h1 : 1 ≤ α
  · calc _ ≤ ∑ k ∈ Finset.range m, f k := by
          apply Finset.sum_le_sum_of_subset_of_nonneg (Finset.filter_subset _ _)
          intro i hi _
          exact hf i (Finset.mem_range.mp hi)
      _ ≤ α := le_trans htot h1
  · calc _ ≤ ∑ k ∈ (Finset.range m).filter (fun k =>
            (∑ i ∈ Finset.range (k + 1), f i ≤ α / 2) ∨ (∑ i ∈ Finset.Ico k m, f i ≤ α / 2)), f k := by
          apply fin_sum_le_of_imp f m hf
          intro k _ hk
          rcases twoSided_le_imp _ _ _ hk with h | h | h
          · exact Or.inl h
          · exact Or.inr h
          · exact absurd h h1
      _ ≤ _ := fin_sum_or_le f m hf _ _
      _ ≤ α / 2 + α / 2 := by
          apply add_le_add
          · exact fin_lower_valid f m hf _ (by linarith)
          · exact fin_upper_valid f m hf _ (by linarith)
      _ = α := by ring



/-! ### generic validity of tail p-values for any non-negative weights -/

/-- upper-tail sum of a weight list from position k -/
def upperTail (w : List Rat) (k : Nat) : Rat := rsum (w.drop k)
/-- lower-tail sum up to and including position k -/
def lowerTail (w : List Rat) (k : Nat) : Rat := rsum (w.take (k + 1))

theorem upperTail_eq (w : List Rat) (k : Nat) :
    upperTail w k = ∑ i ∈ Finset.Ico k w.length, w.getD i 0 := by
  unfold upperTail
  rw [rsum_eq_sum, list_sum_eq_range, Finset.sum_Ico_eq_sum_range, List.length_drop]
  apply Finset.sum_congr rfl
  intro i _
  simp [List.getD_eq_getElem?_getD]

theorem lowerTail_eq (w : List Rat) (k : Nat) (hk : k < w.length) :
    lowerTail w k = ∑ i ∈ Finset.range (k + 1), w.getD i 0 := by
  unfold lowerTail
  rw [rsum_eq_sum, list_sum_eq_range, List.length_take, min_eq_left (by omega)]
  apply Finset.sum_congr rfl
  intro i hi
  have := Finset.mem_range.mp hi
  simp [List.getD_eq_getElem?_getD, this]

theorem getD_nonneg (w : List Rat) (hw : ∀ v ∈ w, 0 ≤ v) (k : Nat) (hk : k < w.length) :
    0 ≤ w.getD k 0 := by
  rw [List.getD_eq_getElem?_getD, List.getElem?_eq_getElem hk]
  exact hw _ (List.getElem_mem hk)

/-- total weight of the outcomes whose upper-tail p-value is ≤ α is at most α -/
theorem upper_tail_valid (w : List Rat) (hw : ∀ v ∈ w, 0 ≤ v) (α : Rat) (hα : 0 ≤ α) :
    rsum (((List.range w.length).filter (fun k => decide (upperTail w k ≤ α))).map (fun k => w.getD k 0)) ≤ α := by
  rw [rsum_filter_map]
  simp only [decide_eq_true_eq, upperTail_eq]
  exact fin_upper_valid _ _ (getD_nonneg w hw) α hα

/-- … and the same for lower-tail p-values -/
theorem lower_tail_valid (w : List Rat) (hw : ∀ v ∈ w, 0 ≤ v) (α : Rat) (hα : 0 ≤ α) :
    rsum (((List.range w.length).filter (fun k => decide (lowerTail w k ≤ α))).map (fun k => w.getD k 0)) ≤ α := by
  rw [rsum_filter_map]
  simp only [decide_eq_true_eq]
  rw [Finset.filter_congr (q := fun k => ∑ i ∈ Finset.range (k + 1), w.getD i 0 ≤ α)]
  · exact fin_lower_valid _ _ (getD_nonneg w hw) α hα
  · intro k hk
    rw [lowerTail_eq w k (Finset.mem_range.mp hk)]

/-- two-sided: min(1, 2·min(lower, upper)) ≤ α has total weight at most α, for sub-probability
    weights (the hypothesis `rsum w ≤ 1` is needed: for α ≥ 1 every outcome is selected; the first
    statement of this theorem lacked it and was refuted by `w = [100]`, `α = 1`) -/
theorem two_sided_tail_valid (w : List Rat) (hw : ∀ v ∈ w, 0 ≤ v) (htot : rsum w ≤ 1) (α : Rat) (hα : 0 ≤ α) :
    rsum (((List.range w.length).filter (fun k =>
        decide (twoSidedTail (lowerTail w k) (upperTail w k) ≤ α))).map (fun k => w.getD k 0)) ≤ α := by
  rw [rsum_filter_map]
  simp only [decide_eq_true_eq]
  rw [Finset.filter_congr (q := fun k => twoSidedTail (∑ i ∈ Finset.range (k + 1), w.getD i 0)
      (∑ i ∈ Finset.Ico k w.length, w.getD i 0) ≤ α)]
  · refine fin_two_valid _ _ (getD_nonneg w hw) ?_ α hα
    rw [← list_sum_eq_range, ← rsum_eq_sum]; exact htot
  · intro k hk
    rw [lowerTail_eq w k (Finset.mem_range.mp hk), upperTail_eq]



theorem twoSidedTail_eq (l u : Rat) : twoSidedTail l u = min 1 (2 * min l u) := by
  unfold twoSidedTail
  rcases le_total l u with h | h <;> rcases le_total u (1/2) with h2 | h2 <;>
    rcases le_total l (1/2) with h3 | h3 <;>
    simp only [min_def] <;> split_ifs <;> linarith



/-! ### C14: binomial_p -/

/-- the list of binomial probabilities -/
def binomWeights (n : Nat) (p : Rat) : List Rat := (List.range (n + 1)).map (binomPmf n p)

theorem binomPmf_nonneg (n : Nat) (p : Rat) (h0 : 0 ≤ p) (h1 : p ≤ 1) (k : Nat) : 0 ≤ binomPmf n p k := by
  unfold binomPmf
  have : 0 ≤ 1 - p := by linarith
  positivity

theorem binomWeights_nonneg (n : Nat) (p : Rat) (h0 : 0 ≤ p) (h1 : p ≤ 1) :
    ∀ v ∈ binomWeights n p, 0 ≤ v := by
  intro v hv
  unfold binomWeights at hv
  rw [List.mem_map] at hv
  obtain ⟨k, _, rfl⟩ := hv
  exact binomPmf_nonneg n p h0 h1 k

theorem binomPmf_sum (n : Nat) (p : Rat) : ∑ k ∈ Finset.range (n + 1), binomPmf n p k = 1 := by
  have h := add_pow p (1 - p) n
  rw [show p + (1 - p) = 1 by ring, one_pow] at h
  rw [h]
  apply Finset.sum_congr rfl
  intro k _
  unfold binomPmf
  rw [choose_eq]; ring

theorem binomWeights_sum (n : Nat) (p : Rat) : rsum (binomWeights n p) = 1 := by
  unfold binomWeights
  rw [rsum_range_map, binomPmf_sum]

theorem binomWeights_length (n : Nat) (p : Rat) : (binomWeights n p).length = n + 1 := by
  simp [binomWeights]

theorem binomWeights_getD (n : Nat) (p : Rat) (k : Nat) (hk : k < n + 1) :
    (binomWeights n p).getD k 0 = binomPmf n p k := by
  simp [binomWeights, List.getD_eq_getElem?_getD, hk]

theorem filter_le_range (x m : Nat) :
    (Finset.range m).filter (fun k => decide (x ≤ k) = true) = Finset.Ico x m := by
  ext k; simp [Finset.mem_Ico, and_comm]

theorem binomSf_fin (n : Nat) (p : Rat) (x : Nat) :
    binomSf n p x = ∑ k ∈ Finset.Ico x (n + 1), binomPmf n p k := by
  unfold binomSf
  rw [rsum_filter_map, filter_le_range]

theorem binomCdf_fin (n : Nat) (p : Rat) (x : Nat) :
    binomCdf n p x = ∑ k ∈ Finset.range (min x n + 1), binomPmf n p k := by
  unfold binomCdf
  rw [rsum_range_map]

theorem binomCdf_fin' (n : Nat) (p : Rat) (x : Nat) (hx : x ≤ n) :
    binomCdf n p x = ∑ k ∈ Finset.range (x + 1), binomPmf n p k := by
  rw [binomCdf_fin, min_eq_left hx]

theorem binomSf_eq_upperTail (n : Nat) (p : Rat) (x : Nat) (hx : x ≤ n) :
    binomSf n p x = upperTail (binomWeights n p) x := by
  rw [binomSf_fin, upperTail_eq, binomWeights_length]
  apply Finset.sum_congr rfl
  intro k hk
  rw [binomWeights_getD n p k (Finset.mem_Ico.mp hk).2]

theorem binomCdf_eq_lowerTail (n : Nat) (p : Rat) (x : Nat) (hx : x ≤ n) :
    binomCdf n p x = lowerTail (binomWeights n p) x := by
  rw [binomCdf_fin' n p x hx, lowerTail_eq _ _ (by rw [binomWeights_length]; omega)]
  apply Finset.sum_congr rfl
  intro k hk
  have := Finset.mem_range.mp hk
  rw [binomWeights_getD n p k (by omega)]

theorem binom_less_plus_greater (n : Nat) (p : Rat) (x : Nat) (hx : x ≤ n) :
    binomCdf n p x + binomSf n p (x + 1) = 1 := by
  rw [binomCdf_fin' n p x hx, binomSf_fin, Finset.sum_range_add_sum_Ico _ (by omega), binomPmf_sum]

theorem binomSf_antitone (n : Nat) (p : Rat) (h0 : 0 ≤ p) (h1 : p ≤ 1) (x x' : Nat) (h : x ≤ x') :
    binomSf n p x' ≤ binomSf n p x := by
  rw [binomSf_fin, binomSf_fin]
  apply Finset.sum_le_sum_of_subset_of_nonneg
  · intro k hk
    rw [Finset.mem_Ico] at hk ⊢
    omega
  · intro i _ _
    exact binomPmf_nonneg n p h0 h1 i

theorem binomCdf_monotone (n : Nat) (p : Rat) (h0 : 0 ≤ p) (h1 : p ≤ 1) (x x' : Nat) (h : x ≤ x')
    (hx' : x' ≤ n) : binomCdf n p x ≤ binomCdf n p x' := by
  rw [binomCdf_fin, binomCdf_fin]
  apply Finset.sum_le_sum_of_subset_of_nonneg
  · intro k hk
    rw [Finset.mem_range] at hk ⊢
    omega
  · intro i _ _
    exact binomPmf_nonneg n p h0 h1 i

theorem binomialP_rejects (x n : Nat) (p : Rat) (alt : Alt) (h : n < x) :
    binomialP x n p alt = .valueError := by
  simp [binomialP, h]

theorem binomialP_valid (n : Nat) (p : Rat) (h0 : 0 ≤ p) (h1 : p ≤ 1) (alt : Alt) (α : Rat) (hα : 0 ≤ α) :
    rsum (((List.range (n + 1)).filter (fun x =>
        match binomialP x n p alt with
        | .ok v => decide (v ≤ α)
        | .valueError => false)).map (binomPmf n p)) ≤ α := by
  rw [rsum_filter_map]
  have hf : ∀ k < n + 1, 0 ≤ binomPmf n p k := fun k _ => binomPmf_nonneg n p h0 h1 k
  cases alt with
  | greater =>
    rw [Finset.filter_congr (q := fun k => ∑ i ∈ Finset.Ico k (n + 1), binomPmf n p i ≤ α)]
    · exact fin_upper_valid _ _ hf α hα
    · intro x hx
      have hx' : ¬ n < x := by have := Finset.mem_range.mp hx; omega
      simp [binomialP, hx', binomSf_fin]
  | less =>
    rw [Finset.filter_congr (q := fun k => ∑ i ∈ Finset.range (k + 1), binomPmf n p i ≤ α)]
    · exact fin_lower_valid _ _ hf α hα
    · intro x hx
      have hx' : ¬ n < x := by have := Finset.mem_range.mp hx; omega
      simp [binomialP, hx', binomCdf_fin' n p x (by omega)]
  | twoSided =>
    rw [Finset.filter_congr (q := fun k => twoSidedTail (∑ i ∈ Finset.range (k + 1), binomPmf n p i)
      (∑ i ∈ Finset.Ico k (n + 1), binomPmf n p i) ≤ α)]
    · exact fin_two_valid _ _ hf (le_of_eq (binomPmf_sum n p)) α hα
    · intro x hx
      have hx' : ¬ n < x := by have := Finset.mem_range.mp hx; omega
      simp [binomialP, hx', binomCdf_fin' n p x (by omega), binomSf_fin]



/-! ### C14: hypergeometric -/
def hyperWeights (N G n : Nat) : List Rat := (List.range (n + 1)).map (hyperPmf N G n)

theorem hyperPmf_nonneg (N G n k : Nat) : 0 ≤ hyperPmf N G n k := by
  unfold hyperPmf
  split
  · exact le_refl _
  · positivity

theorem hyperWeights_nonneg (N G n : Nat) : ∀ v ∈ hyperWeights N G n, 0 ≤ v := by
  intro v hv
  unfold hyperWeights at hv
  rw [List.mem_map] at hv
  obtain ⟨k, _, rfl⟩ := hv
  exact hyperPmf_nonneg N G n k

theorem hyperPmf_sum (N G n : Nat) (hG : G ≤ N) (hn : n ≤ N) :
    ∑ k ∈ Finset.range (n + 1), hyperPmf N G n k = 1 := by
  have hpos : (0 : Rat) < (Nat.choose N n : Rat) := by
    exact_mod_cast Nat.choose_pos hn
  have h := Nat.add_choose_eq G (N - G) n
  rw [Nat.add_sub_cancel' hG, Finset.Nat.sum_antidiagonal_eq_sum_range_succ
    (fun i j => G.choose i * (N - G).choose j)] at h
  have : ∀ k ∈ Finset.range (n + 1), hyperPmf N G n k
      = ((G.choose k * (N - G).choose (n - k) : Nat) : Rat) / (Nat.choose N n : Rat) := by
    intro k hk
    have hk' : ¬ n < k := by have := Finset.mem_range.mp hk; omega
    simp only [hyperPmf, hk', if_false, hyperNum, choose_eq]
  rw [Finset.sum_congr rfl this]
  simp only [div_eq_mul_inv]
  rw [← Finset.sum_mul, ← Nat.cast_sum, ← h]
  exact mul_inv_cancel₀ (ne_of_gt hpos)

theorem hyperWeights_sum (N G n : Nat) (hG : G ≤ N) (hn : n ≤ N) : rsum (hyperWeights N G n) = 1 := by
  unfold hyperWeights
  rw [rsum_range_map, hyperPmf_sum N G n hG hn]

theorem hyperWeights_length (N G n : Nat) : (hyperWeights N G n).length = n + 1 := by
  simp [hyperWeights]

theorem hyperWeights_getD (N G n : Nat) (k : Nat) (hk : k < n + 1) :
    (hyperWeights N G n).getD k 0 = hyperPmf N G n k := by
  simp [hyperWeights, List.getD_eq_getElem?_getD, hk]

theorem hyperSf_fin (N G n x : Nat) :
    hyperSf N G n x = ∑ k ∈ Finset.Ico x (n + 1), hyperPmf N G n k := by
  unfold hyperSf
  rw [rsum_filter_map, filter_le_range]

theorem hyperCdf_fin (N G n x : Nat) :
    hyperCdf N G n x = ∑ k ∈ Finset.range (min x n + 1), hyperPmf N G n k := by
  unfold hyperCdf
  rw [rsum_range_map]

theorem hyperCdf_fin' (N G n x : Nat) (hx : x ≤ n) :
    hyperCdf N G n x = ∑ k ∈ Finset.range (x + 1), hyperPmf N G n k := by
  rw [hyperCdf_fin, min_eq_left hx]

theorem hyperSf_eq_upperTail (N G n x : Nat) (hx : x ≤ n) :
    hyperSf N G n x = upperTail (hyperWeights N G n) x := by
  rw [hyperSf_fin, upperTail_eq, hyperWeights_length]
  apply Finset.sum_congr rfl
  intro k hk
  rw [hyperWeights_getD N G n k (Finset.mem_Ico.mp hk).2]

theorem hyperCdf_eq_lowerTail (N G n x : Nat) (hx : x ≤ n) :
    hyperCdf N G n x = lowerTail (hyperWeights N G n) x := by
  rw [hyperCdf_fin' N G n x hx, lowerTail_eq _ _ (by rw [hyperWeights_length]; omega)]
  apply Finset.sum_congr rfl
  intro k hk
  have := Finset.mem_range.mp hk
  rw [hyperWeights_getD N G n k (by omega)]

theorem hyper_less_plus_greater (N G n x : Nat) (hG : G ≤ N) (hn : n ≤ N) (hx : x ≤ n) :
    hyperCdf N G n x + hyperSf N G n (x + 1) = 1 := by
  rw [hyperCdf_fin' N G n x hx, hyperSf_fin, Finset.sum_range_add_sum_Ico _ (by omega),
    hyperPmf_sum N G n hG hn]

theorem hypergeometricP_rejects (x N n G : Nat) (alt : Alt) (h : n < x ∨ N < n ∨ N < G ∨ G < x) :
    hypergeometricP x N n G alt = .valueError := by
  unfold hypergeometricP
  rcases h with h | h | h | h
  · simp [h]
  · simp [h]
  · simp [h]
  · simp [h]

theorem hypergeometricP_valid (N G n : Nat) (alt : Alt) (α : Rat) (hα : 0 ≤ α) :
    rsum (((List.range (n + 1)).filter (fun x =>
        match hypergeometricP x N n G alt with
        | .ok v => decide (v ≤ α)
        | .valueError => false)).map (hyperPmf N G n)) ≤ α := by
  rw [rsum_filter_map]
  have hf : ∀ k < n + 1, 0 ≤ hyperPmf N G n k := fun k _ => hyperPmf_nonneg N G n k
  by_cases hbad : N < n ∨ N < G
  · rw [Finset.filter_congr (q := fun _ => False)]
    · simpa using hα
    · intro x _
      rw [hypergeometricP_rejects x N n G alt (Or.inr (by tauto))]
      simp
  · push Not at hbad
    obtain ⟨hn, hG⟩ := hbad
    have hn' : ¬ N < n := by omega
    have hG' : ¬ N < G := by omega
    cases alt with
    | greater =>
      refine le_trans (fin_sum_le_of_imp _ _ hf _
        (fun k => ∑ i ∈ Finset.Ico k (n + 1), hyperPmf N G n i ≤ α) ?_) (fin_upper_valid _ _ hf α hα)
      intro x hx
      have hx' : ¬ n < x := by omega
      by_cases hGx : G < x
      · simp [hypergeometricP, hx', hn', hG', hGx]
      · simp [hypergeometricP, hx', hn', hG', hGx, hyperSf_fin]
    | less =>
      refine le_trans (fin_sum_le_of_imp _ _ hf _
        (fun k => ∑ i ∈ Finset.range (k + 1), hyperPmf N G n i ≤ α) ?_) (fin_lower_valid _ _ hf α hα)
      intro x hx
      have hx' : ¬ n < x := by omega
      by_cases hGx : G < x
      · simp [hypergeometricP, hx', hn', hG', hGx]
      · simp [hypergeometricP, hx', hn', hG', hGx, hyperCdf_fin' N G n x (by omega)]
    | twoSided =>
      refine le_trans (fin_sum_le_of_imp _ _ hf _
        (fun k => twoSidedTail (∑ i ∈ Finset.range (k + 1), hyperPmf N G n i)
          (∑ i ∈ Finset.Ico k (n + 1), hyperPmf N G n i) ≤ α) ?_)
        (fin_two_valid _ _ hf (le_of_eq (hyperPmf_sum N G n hG hn)) α hα)
      intro x hx
      have hx' : ¬ n < x := by omega
      by_cases hGx : G < x
      · simp [hypergeometricP, hx', hn', hG', hGx]
      · simp [hypergeometricP, hx', hn', hG', hGx, hyperCdf_fin' N G n x (by omega), hyperSf_fin]



/-! ### search specs -/

theorem find_range_spec (P : Nat → Bool) (M : Nat) :
    match (List.range M).find? P with
    | some G0 => G0 < M ∧ P G0 = true ∧ ∀ G, G < G0 → P G = false
    | none => ∀ G, G < M → P G = false := by
  induction M with
  | zero => simp
  | succ M ih =>
    rw [List.range_succ, List.find?_append]
    cases hfind : (List.range M).find? P with
    | some G0 =>
      rw [hfind] at ih
      simp only [Option.some_or]
      exact ⟨by omega, ih.2.1, ih.2.2⟩
    | none =>
      rw [hfind] at ih
      simp only [Option.none_or, List.find?_cons, List.find?_nil]
      cases hPM : P M with
      | true =>
        simp only
        exact ⟨by omega, hPM, ih⟩
      | false =>
        simp only
        intro G hG
        rcases Nat.lt_succ_iff_lt_or_eq.mp hG with h | h
        · exact ih G h
        · rw [h]; exact hPM

theorem find_range_rev_spec (P : Nat → Bool) (M : Nat) :
    match (List.range M).reverse.find? P with
    | some G0 => G0 < M ∧ P G0 = true ∧ ∀ G, G0 < G → G < M → P G = false
    | none => ∀ G, G < M → P G = false := by
  induction M with
  | zero => simp
  | succ M ih =>
    rw [List.range_succ, List.reverse_append, List.reverse_singleton, List.singleton_append,
      List.find?_cons]
    cases hPM : P M with
    | true =>
      simp only
      exact ⟨by omega, hPM, fun G h1 h2 => by omega⟩
    | false =>
      simp only
      cases hfind : (List.range M).reverse.find? P with
      | some G0 =>
        rw [hfind] at ih
        simp only
        refine ⟨by omega, ih.2.1, ?_⟩
        intro G h1 h2
        rcases Nat.lt_succ_iff_lt_or_eq.mp h2 with h | h
        · exact ih.2.2 G h1 h
        · rw [h]; exact hPM
      | none =>
        rw [hfind] at ih
        simp only
        intro G hG
        rcases Nat.lt_succ_iff_lt_or_eq.mp hG with h | h
        · exact ih G h
        · rw [h]; exact hPM

theorem hyperSf_full (N n x : Nat) (hxn : x ≤ n) (hn : n ≤ N) : hyperSf N N n x = 1 := by
  rw [hyperSf_fin, Finset.sum_eq_single n]
  · have hpos : (0 : Rat) < (Nat.choose N n : Rat) := by exact_mod_cast Nat.choose_pos hn
    simp [hyperPmf, hyperNum, choose_eq, ne_of_gt hpos]
  · intro k hk hkn
    have := Finset.mem_Ico.mp hk
    have h1 : ¬ n < k := by omega
    have h2 : Nat.choose 0 (n - k) = 0 := Nat.choose_eq_zero_of_lt (by omega)
    simp [hyperPmf, hyperNum, choose_eq, h1, h2]
  · intro h
    exact absurd (Finset.mem_Ico.mpr ⟨hxn, by omega⟩) h

theorem hyperCdf_zero (N n x : Nat) (hn : n ≤ N) : hyperCdf N 0 n x = 1 := by
  rw [hyperCdf_fin, Finset.sum_eq_single 0]
  · have hpos : (0 : Rat) < (Nat.choose N n : Rat) := by exact_mod_cast Nat.choose_pos hn
    simp [hyperPmf, hyperNum, choose_eq, ne_of_gt hpos]
  · intro k hk hk0
    have h2 : Nat.choose 0 k = 0 := Nat.choose_eq_zero_of_lt (by omega)
    simp [hyperPmf, hyperNum, choose_eq, h2]
  · intro h
    exact absurd (Finset.mem_range.mpr (by omega)) h

theorem hgLower_spec (N n x : Nat) (a : Rat) (hx : 0 < x) (hxn : x ≤ n) (hn : n ≤ N) (ha : a ≤ 1) :
    a ≤ hyperSf N (hgLowerSearch N n x a) n x ∧
    hgLowerSearch N n x a ≤ N ∧
    ∀ G, G < hgLowerSearch N n x a → hyperSf N G n x < a := by
  have hspec := find_range_spec (fun G => decide (a ≤ hyperSf N G n x)) (N + 1)
  unfold hgLowerSearch
  cases hfind : (List.range (N + 1)).find? (fun G => decide (a ≤ hyperSf N G n x)) with
  | some G0 =>
    rw [hfind] at hspec
    simp only [Option.getD_some]
    simp only [decide_eq_true_eq, decide_eq_false_iff_not, not_le] at hspec
    exact ⟨hspec.2.1, by omega, hspec.2.2⟩
  | none =>
    rw [hfind] at hspec
    simp only [decide_eq_false_iff_not, not_le] at hspec
    have := hspec N (by omega)
    rw [hyperSf_full N n x hxn hn] at this
    linarith

theorem hgUpper_spec (N n x : Nat) (a : Rat) (hxn : x < n) (hn : n ≤ N) (ha : a ≤ 1) :
    a ≤ hyperCdf N (hgUpperSearch N n x a) n x ∧
    hgUpperSearch N n x a ≤ N ∧
    ∀ G, hgUpperSearch N n x a < G → G ≤ N → hyperCdf N G n x < a := by
  have hspec := find_range_rev_spec (fun G => decide (a ≤ hyperCdf N G n x)) (N + 1)
  unfold hgUpperSearch
  cases hfind : (List.range (N + 1)).reverse.find? (fun G => decide (a ≤ hyperCdf N G n x)) with
  | some G0 =>
    rw [hfind] at hspec
    simp only [Option.getD_some]
    simp only [decide_eq_true_eq, decide_eq_false_iff_not, not_le] at hspec
    exact ⟨hspec.2.1, by omega, fun G h1 h2 => hspec.2.2 G h1 (by omega)⟩
  | none =>
    rw [hfind] at hspec
    simp only [decide_eq_false_iff_not, not_le] at hspec
    have := hspec 0 (by omega)
    rw [hyperCdf_zero N n x hn] at this
    linarith



theorem hg_coverage_lower (N n G : Nat) (a : Rat) (ha0 : 0 ≤ a) (ha : a ≤ 1) (hn : n ≤ N) (hG : G ≤ N)
    (alt : CIAlt) (cl : Rat) (hcl : tailLevel cl alt = a) :
    rsum (((List.range (n + 1)).filter (fun x => decide (G < (hypergeomCI n x N cl alt).1))).map
      (hyperPmf N G n)) ≤ a := by
  rw [rsum_filter_map]
  have hf : ∀ k < n + 1, 0 ≤ hyperPmf N G n k := fun k _ => hyperPmf_nonneg N G n k
  refine le_trans (fin_sum_le_of_imp _ _ hf _
    (fun k => ∑ i ∈ Finset.Ico k (n + 1), hyperPmf N G n i ≤ a) ?_) (fin_upper_valid _ _ hf a ha0)
  intro x hx hsel
  simp only [decide_eq_true_eq, hypergeomCI, hcl] at hsel
  split at hsel
  · rename_i hc
    simp only [Bool.and_eq_true, decide_eq_true_eq] at hc
    have := (hgLower_spec N n x a hc.2 (by omega) hn ha).2.2 G hsel
    rw [hyperSf_fin] at this
    exact le_of_lt this
  · omega

theorem hg_coverage_upper (N n G : Nat) (a : Rat) (ha0 : 0 ≤ a) (ha : a ≤ 1) (hn : n ≤ N) (hG : G ≤ N)
    (alt : CIAlt) (cl : Rat) (hcl : tailLevel cl alt = a) :
    rsum (((List.range (n + 1)).filter (fun x => decide ((hypergeomCI n x N cl alt).2 < G))).map
      (hyperPmf N G n)) ≤ a := by
  rw [rsum_filter_map]
  have hf : ∀ k < n + 1, 0 ≤ hyperPmf N G n k := fun k _ => hyperPmf_nonneg N G n k
  refine le_trans (fin_sum_le_of_imp _ _ hf _
    (fun k => ∑ i ∈ Finset.range (k + 1), hyperPmf N G n i ≤ a) ?_) (fin_lower_valid _ _ hf a ha0)
  intro x hx hsel
  simp only [decide_eq_true_eq, hypergeomCI, hcl] at hsel
  split at hsel
  · rename_i hc
    simp only [Bool.and_eq_true, decide_eq_true_eq] at hc
    have := (hgUpper_spec N n x a hc.2 hn ha).2.2 G hsel hG
    rw [hyperCdf_fin' N G n x (by omega)] at this
    exact le_of_lt this
  · omega

theorem hg_trivial_limits (n x N : Nat) (cl : Rat) (alt : CIAlt) :
    ((x = 0 ∨ alt = .upper) → (hypergeomCI n x N cl alt).1 = 0) ∧
    ((n ≤ x ∨ alt = .lower) → (hypergeomCI n x N cl alt).2 = N) := by
  constructor
  · intro h
    simp only [hypergeomCI]
    rcases h with h | h
    · simp [h]
    · simp [h]
  · intro h
    simp only [hypergeomCI]
    rcases h with h | h
    · have : ¬ x < n := by omega
      simp [this]
    · simp [h]

theorem binomCICert_sound (n x : Nat) (cl : Rat) (alt : CIAlt) (L U δ : Rat)
    (h : binomCICert n x cl alt L U δ = true) :
    ((alt ≠ .upper ∧ 0 < x) → binomSf n (max 0 (L - δ)) x ≤ tailLevel cl alt) ∧
    ((alt = .upper ∨ x = 0) → L = 0) ∧
    ((alt ≠ .lower ∧ x < n) → binomCdf n (min 1 (U + δ)) x ≤ tailLevel cl alt) ∧
    ((alt = .lower ∨ n ≤ x) → U = 1) := by
  simp only [binomCICert, Bool.and_eq_true] at h
  obtain ⟨hlo, hup⟩ := h
  refine ⟨?_, ?_, ?_, ?_⟩
  · rintro ⟨h1, h2⟩
    have : (alt != CIAlt.upper) = true ∧ decide (0 < x) = true := by simp [h1, h2]
    rw [if_pos this] at hlo
    simp only [cpLowerCert, Bool.and_eq_true, decide_eq_true_eq] at hlo
    exact hlo.1
  · intro h1
    have : ¬ ((alt != CIAlt.upper) = true ∧ decide (0 < x) = true) := by
      rcases h1 with h1 | h1 <;> simp [h1]
    rw [if_neg this] at hlo
    simpa using hlo
  · rintro ⟨h1, h2⟩
    have : (alt != CIAlt.lower) = true ∧ decide (x < n) = true := by simp [h1, h2]
    rw [if_pos this] at hup
    simp only [cpUpperCert, Bool.and_eq_true, decide_eq_true_eq] at hup
    exact hup.2
  · intro h1
    have : ¬ ((alt != CIAlt.lower) = true ∧ decide (x < n) = true) := by
      rcases h1 with h1 | h1
      · simp [h1]
      · have : ¬ x < n := by omega
        simp [this]
    rw [if_neg this] at hup
    simpa using hup



/-! ### monotonicity in p -/

theorem binomPmf_pascal (n : Nat) (p : Rat) (k : Nat) :
    binomPmf (n + 1) p (k + 1) = p * binomPmf n p k + (1 - p) * binomPmf n p (k + 1) := by
  unfold binomPmf
  rw [choose_eq, choose_eq, choose_eq, Nat.choose_succ_succ, Nat.succ_sub_succ]
  by_cases hk : k < n
  · have : n - k = (n - (k + 1)) + 1 := by omega
    rw [this, Nat.cast_add]
    ring
  · rw [Nat.choose_eq_zero_of_lt (show n < k + 1 by omega), Nat.cast_add]
    simp
    ring

theorem binomPmf_gt (n : Nat) (p : Rat) (k : Nat) (hk : n < k) : binomPmf n p k = 0 := by
  unfold binomPmf
  rw [choose_eq, Nat.choose_eq_zero_of_lt hk]
  simp

/-- Finset form of the survival function -/
def bS (n : Nat) (p : Rat) (x : Nat) : Rat := ∑ k ∈ Finset.Ico x (n + 1), binomPmf n p k

theorem bS_rec (n : Nat) (p : Rat) (x : Nat) :
    bS (n + 1) p (x + 1) = p * bS n p x + (1 - p) * bS n p (x + 1) := by
  unfold bS
  have h1 : ∑ k ∈ Finset.Ico (x + 1) (n + 1 + 1), binomPmf (n + 1) p k
      = ∑ k ∈ Finset.Ico x (n + 1), binomPmf (n + 1) p (k + 1) := by
    rw [Finset.sum_Ico_add']
  have h2 : ∑ k ∈ Finset.Ico x (n + 1), binomPmf n p (k + 1)
      = ∑ k ∈ Finset.Ico (x + 1) (n + 1), binomPmf n p k := by
    rw [Finset.sum_Ico_add']
    by_cases hx : x + 1 ≤ n + 1
    · rw [Finset.sum_Ico_succ_top hx, binomPmf_gt n p (n + 1) (by omega), add_zero]
    · rw [Finset.Ico_eq_empty (by omega), Finset.Ico_eq_empty (by omega)]
  rw [h1, Finset.sum_congr rfl (fun k _ => binomPmf_pascal n p k), Finset.sum_add_distrib,
    ← Finset.mul_sum, ← Finset.mul_sum, h2]

theorem bS_zero (n : Nat) (p : Rat) : bS n p 0 = 1 := by
  unfold bS
  rw [← Finset.range_eq_Ico, binomPmf_sum]

theorem bS_anti (n : Nat) (p : Rat) (h0 : 0 ≤ p) (h1 : p ≤ 1) (x : Nat) : bS n p (x + 1) ≤ bS n p x := by
  have := binomSf_antitone n p h0 h1 x (x + 1) (by omega)
  rwa [binomSf_fin, binomSf_fin] at this

theorem bS_mono_p (n : Nat) : ∀ (x : Nat) (p q : Rat), 0 ≤ p → p ≤ q → q ≤ 1 → bS n p x ≤ bS n q x := by
  induction n with
  | zero =>
    intro x p q _ _ _
    unfold bS
    apply le_of_eq
    apply Finset.sum_congr rfl
    intro k hk
    have : k = 0 := by have := Finset.mem_Ico.mp hk; omega
    subst this
    simp [binomPmf]
  | succ n ih =>
    intro x p q h0 hpq h1
    cases x with
    | zero => rw [bS_zero, bS_zero]
    | succ x =>
      rw [bS_rec, bS_rec]
      have hA := ih x p q h0 hpq h1
      have hB := ih (x + 1) p q h0 hpq h1
      have hAB := bS_anti n q (le_trans h0 hpq) h1 x
      have e : q * bS n q x + (1 - q) * bS n q (x + 1) - (p * bS n p x + (1 - p) * bS n p (x + 1))
          = (q - p) * (bS n q x - bS n q (x + 1)) + p * (bS n q x - bS n p x)
            + (1 - p) * (bS n q (x + 1) - bS n p (x + 1)) := by ring
      have t1 : 0 ≤ (q - p) * (bS n q x - bS n q (x + 1)) :=
        mul_nonneg (by linarith) (by linarith)
      have t2 : 0 ≤ p * (bS n q x - bS n p x) := mul_nonneg h0 (by linarith)
      have t3 : 0 ≤ (1 - p) * (bS n q (x + 1) - bS n p (x + 1)) :=
        mul_nonneg (by linarith) (by linarith)
      linarith

theorem binomSf_mono_p (n x : Nat) (p q : Rat) (h0 : 0 ≤ p) (hpq : p ≤ q) (h1 : q ≤ 1) :
    binomSf n p x ≤ binomSf n q x := by
  rw [binomSf_fin, binomSf_fin]
  exact bS_mono_p n x p q h0 hpq h1

theorem binomCdf_anti_p (n x : Nat) (p q : Rat) (h0 : 0 ≤ p) (hpq : p ≤ q) (h1 : q ≤ 1) (hx : x ≤ n) :
    binomCdf n q x ≤ binomCdf n p x := by
  have e1 := binom_less_plus_greater n p x hx
  have e2 := binom_less_plus_greater n q x hx
  have := binomSf_mono_p n (x + 1) p q h0 hpq h1
  linarith

theorem cp_coverage_lower (n : Nat) (a δ : Rat) (ha : 0 ≤ a) (hδ : 0 ≤ δ) (L : Nat → Rat)
    (hL0 : L 0 = 0)
    (hcert : ∀ x, 0 < x → x ≤ n → binomSf n (max 0 (L x - δ)) x ≤ a ∧ L x - δ ≤ 1)
    (p : Rat) (h0 : 0 ≤ p) (h1 : p ≤ 1) :
    rsum (((List.range (n + 1)).filter (fun x => decide (p < L x - δ))).map (binomPmf n p)) ≤ a := by
  rw [rsum_filter_map]
  have hf : ∀ k < n + 1, 0 ≤ binomPmf n p k := fun k _ => binomPmf_nonneg n p h0 h1 k
  refine le_trans (fin_sum_le_of_imp _ _ hf _
    (fun k => ∑ i ∈ Finset.Ico k (n + 1), binomPmf n p i ≤ a) ?_) (fin_upper_valid _ _ hf a ha)
  intro x hx hsel
  simp only [decide_eq_true_eq] at hsel
  have hx0 : 0 < x := by
    rcases Nat.eq_zero_or_pos x with h | h
    · subst h; rw [hL0] at hsel; linarith
    · exact h
  obtain ⟨hc1, hc2⟩ := hcert x hx0 (by omega)
  rw [max_eq_right (by linarith)] at hc1
  have := binomSf_mono_p n x p (L x - δ) h0 (le_of_lt hsel) hc2
  rw [← binomSf_fin]
  linarith

theorem cp_coverage_upper (n : Nat) (a δ : Rat) (ha : 0 ≤ a) (hδ : 0 ≤ δ) (U : Nat → Rat)
    (hUn : U n = 1)
    (hcert : ∀ x, x < n → binomCdf n (min 1 (U x + δ)) x ≤ a ∧ 0 ≤ U x + δ)
    (p : Rat) (h0 : 0 ≤ p) (h1 : p ≤ 1) :
    rsum (((List.range (n + 1)).filter (fun x => decide (U x + δ < p))).map (binomPmf n p)) ≤ a := by
  rw [rsum_filter_map]
  have hf : ∀ k < n + 1, 0 ≤ binomPmf n p k := fun k _ => binomPmf_nonneg n p h0 h1 k
  refine le_trans (fin_sum_le_of_imp _ _ hf _
    (fun k => ∑ i ∈ Finset.range (k + 1), binomPmf n p i ≤ a) ?_) (fin_lower_valid _ _ hf a ha)
  intro x hx hsel
  simp only [decide_eq_true_eq] at hsel
  have hxn : x < n := by
    rcases Nat.lt_or_ge x n with h | h
    · exact h
    · have : x = n := by omega
      subst this; rw [hUn] at hsel; linarith
  obtain ⟨hc1, hc2⟩ := hcert x hxn
  rw [min_eq_right (by linarith)] at hc1
  have := binomCdf_anti_p n x (U x + δ) p hc2 (le_of_lt hsel) h1 (by omega)
  rw [← binomCdf_fin' n p x (by omega)]
  linarith

/-- non-vacuity -/
example : hypergeomCI 10 5 20 (19/20) .twoSided = (6, 14) := by decide +kernel
example : binomialP 3 10 (1/2) .greater = .ok (121/128) := by decide +kernel

end PV.Tails