/-
  Props/CPMono.lean — C12: what the certificates of binom_conf_interval force on the limits themselves.
  Any two certified Clopper–Pearson limits are ordered as the property says, up to the certificate slack δ:
  monotone in x, nested in the confidence level, and lower ≤ upper.
-/
import PermuteVerif.Model.Tails
import PermuteVerif.Props.Tails
namespace PV.CPMono
open PV.Tails

/-! ### helpers: strict monotonicity of the Finset-form survival function -/

theorem bS_top (n : Nat) (q : Rat) : bS n q n = q ^ n := by
  unfold bS
  rw [Finset.sum_Ico_succ_top (le_refl n), Finset.Ico_self, Finset.sum_empty, zero_add]
  unfold binomPmf
  rw [choose_eq, Nat.choose_self, Nat.sub_self]
  simp

theorem bS_above (n : Nat) (q : Rat) : bS n q (n + 1) = 0 := by
  unfold bS
  rw [Finset.Ico_self, Finset.sum_empty]

theorem bS_strictMono_p (n : Nat) :
    ∀ (x : Nat) (p q : Rat), 0 < x → x ≤ n → 0 ≤ p → p < q → q ≤ 1 → bS n p x < bS n q x := by
  induction n with
  | zero =>
    intro x p q hx0 hxn _ _ _
    omega
  | succ n ih =>
    intro x p q hx0 hxn h0 hpq h1
    cases x with
    | zero => omega
    | succ x =>
      rw [bS_rec, bS_rec]
      have hA := bS_mono_p n x p q h0 (le_of_lt hpq) h1
      have hB := bS_mono_p n (x + 1) p q h0 (le_of_lt hpq) h1
      have hAB := bS_anti n q (le_trans h0 (le_of_lt hpq)) h1 x
      have e : q * bS n q x + (1 - q) * bS n q (x + 1) - (p * bS n p x + (1 - p) * bS n p (x + 1))
          = (q - p) * (bS n q x - bS n q (x + 1)) + p * (bS n q x - bS n p x)
            + (1 - p) * (bS n q (x + 1) - bS n p (x + 1)) := by ring
      have t1 : 0 ≤ (q - p) * (bS n q x - bS n q (x + 1)) :=
        mul_nonneg (by linarith) (by linarith)
      have t2 : 0 ≤ p * (bS n q x - bS n p x) := mul_nonneg h0 (by linarith)
      have t3 : 0 ≤ (1 - p) * (bS n q (x + 1) - bS n p (x + 1)) :=
        mul_nonneg (by linarith) (by linarith)
      by_cases hx : x + 1 ≤ n
      · have hS := ih (x + 1) p q (by omega) hx h0 hpq h1
        have t3' : 0 < (1 - p) * (bS n q (x + 1) - bS n p (x + 1)) :=
          mul_pos (by linarith) (by linarith)
        linarith
      · have hxe : x = n := by omega
        subst hxe
        have hq : 0 < q := lt_of_le_of_lt h0 hpq
        have t1' : 0 < (q - p) * (bS x q x - bS x q (x + 1)) := by
          rw [bS_top, bS_above, sub_zero]
          exact mul_pos (by linarith) (pow_pos hq x)
        linarith


/-- for 0 < x ≤ n the upper tail P_p(X ≥ x) is strictly increasing in p on [0, 1] -/
theorem binomSf_strictMono_p (n x : Nat) (hx0 : 0 < x) (hxn : x ≤ n) (p q : Rat)
    (h0 : 0 ≤ p) (hpq : p < q) (h1 : q ≤ 1) : binomSf n p x < binomSf n q x := by
  rw [binomSf_fin, binomSf_fin]
  exact bS_strictMono_p n x p q hx0 hxn h0 hpq h1

/-- for x < n the lower tail P_p(X ≤ x) is strictly decreasing in p on [0, 1] -/
theorem binomCdf_strictAnti_p (n x : Nat) (hxn : x < n) (p q : Rat)
    (h0 : 0 ≤ p) (hpq : p < q) (h1 : q ≤ 1) : binomCdf n q x < binomCdf n p x := by
  have e1 := binom_less_plus_greater n p x (le_of_lt hxn)
  have e2 := binom_less_plus_greater n q x (le_of_lt hxn)
  have := binomSf_strictMono_p n (x + 1) (Nat.succ_pos x) hxn p q h0 hpq h1
  linarith

/-- certified lower limits are monotone in x (up to the slack): the limit for x is at most the limit for x+1 -/
theorem cp_lower_mono_x (n x : Nat) (hx0 : 0 < x) (hxn : x + 1 ≤ n) (a L L' δ : Rat) (hδ : 0 ≤ δ)
    (hr : 0 ≤ L ∧ L ≤ 1) (hr' : 0 ≤ L' ∧ L' ≤ 1)
    (hL : cpLowerCert n x a L δ = true) (hL' : cpLowerCert n (x + 1) a L' δ = true) :
    max 0 (L - δ) ≤ min 1 (L' + δ) := by
  simp only [cpLowerCert, Bool.and_eq_true, decide_eq_true_eq] at hL hL'
  by_contra hc
  rw [not_le] at hc
  have hu0 : (0 : Rat) ≤ min 1 (L' + δ) := le_min (by norm_num) (by linarith [hr'.1])
  have hp1 : max 0 (L - δ) ≤ (1 : Rat) := max_le (by norm_num) (by linarith [hr.2])
  have hp0 : (0 : Rat) ≤ max 0 (L - δ) := le_max_left _ _
  have s1 := binomSf_strictMono_p n (x + 1) (Nat.succ_pos x) hxn _ _ hu0 hc hp1
  have s2 := binomSf_antitone n (max 0 (L - δ)) hp0 hp1 x (x + 1) (Nat.le_succ x)
  linarith [hL.1, hL'.2]

/-- certified upper limits are monotone in x (up to the slack) -/
theorem cp_upper_mono_x (n x : Nat) (hxn : x + 1 < n) (a U U' δ : Rat) (hδ : 0 ≤ δ)
    (hr : 0 ≤ U ∧ U ≤ 1) (hr' : 0 ≤ U' ∧ U' ≤ 1)
    (hU : cpUpperCert n x a U δ = true) (hU' : cpUpperCert n (x + 1) a U' δ = true) :
    max 0 (U - δ) ≤ min 1 (U' + δ) := by
  simp only [cpUpperCert, Bool.and_eq_true, decide_eq_true_eq] at hU hU'
  by_contra hc
  rw [not_le] at hc
  have hu0 : (0 : Rat) ≤ min 1 (U' + δ) := le_min (by norm_num) (by linarith [hr'.1])
  have hp1 : max 0 (U - δ) ≤ (1 : Rat) := max_le (by norm_num) (by linarith [hr.2])
  have hp0 : (0 : Rat) ≤ max 0 (U - δ) := le_max_left _ _
  have s1 := binomCdf_strictAnti_p n (x + 1) hxn _ _ hu0 hc hp1
  have s2 := binomCdf_monotone n (max 0 (U - δ)) hp0 hp1 x (x + 1) (Nat.le_succ x) (le_of_lt hxn)
  linarith [hU.1, hU'.2]

/-- nesting in the level: a smaller tail level (a higher confidence level) gives a lower limit that is not larger … -/
theorem cp_lower_nested (n x : Nat) (hx0 : 0 < x) (hxn : x ≤ n) (a a' L L' δ : Rat) (haa : a' ≤ a) (hδ : 0 ≤ δ)
    (hr : 0 ≤ L ∧ L ≤ 1) (hr' : 0 ≤ L' ∧ L' ≤ 1)
    (hL : cpLowerCert n x a L δ = true) (hL' : cpLowerCert n x a' L' δ = true) :
    max 0 (L' - δ) ≤ min 1 (L + δ) := by
  simp only [cpLowerCert, Bool.and_eq_true, decide_eq_true_eq] at hL hL'
  by_contra hc
  rw [not_le] at hc
  have hu0 : (0 : Rat) ≤ min 1 (L + δ) := le_min (by norm_num) (by linarith [hr.1])
  have hp1 : max 0 (L' - δ) ≤ (1 : Rat) := max_le (by norm_num) (by linarith [hr'.2])
  have s1 := binomSf_strictMono_p n x hx0 hxn _ _ hu0 hc hp1
  linarith [hL.2, hL'.1]

/-- … and an upper limit that is not smaller -/
theorem cp_upper_nested (n x : Nat) (hxn : x < n) (a a' U U' δ : Rat) (haa : a' ≤ a) (hδ : 0 ≤ δ)
    (hr : 0 ≤ U ∧ U ≤ 1) (hr' : 0 ≤ U' ∧ U' ≤ 1)
    (hU : cpUpperCert n x a U δ = true) (hU' : cpUpperCert n x a' U' δ = true) :
    max 0 (U - δ) ≤ min 1 (U' + δ) := by
  simp only [cpUpperCert, Bool.and_eq_true, decide_eq_true_eq] at hU hU'
  by_contra hc
  rw [not_le] at hc
  have hu0 : (0 : Rat) ≤ min 1 (U' + δ) := le_min (by norm_num) (by linarith [hr'.1])
  have hp1 : max 0 (U - δ) ≤ (1 : Rat) := max_le (by norm_num) (by linarith [hr.2])
  have s1 := binomCdf_strictAnti_p n x hxn _ _ hu0 hc hp1
  linarith [hU.1, hU'.2]

/-- lower ≤ upper (up to the slack) whenever the two tail levels sum to at most 1 (always the case for
    confidence levels cl ≥ 0 two-sided: a = (1 - cl)/2 ≤ 1/2) -/
theorem cp_lower_le_upper (n x : Nat) (hx0 : 0 < x) (hxn : x < n) (a L U δ : Rat) (ha : a ≤ 1 / 2) (hδ : 0 ≤ δ)
    (hrL : 0 ≤ L ∧ L ≤ 1) (hrU : 0 ≤ U ∧ U ≤ 1)
    (hL : cpLowerCert n x a L δ = true) (hU : cpUpperCert n x a U δ = true) :
    max 0 (L - δ) ≤ min 1 (U + δ) := by
  simp only [cpLowerCert, Bool.and_eq_true, decide_eq_true_eq] at hL
  simp only [cpUpperCert, Bool.and_eq_true, decide_eq_true_eq] at hU
  by_contra hc
  rw [not_le] at hc
  have hu0 : (0 : Rat) ≤ min 1 (U + δ) := le_min (by norm_num) (by linarith [hrU.1])
  have hp1 : max 0 (L - δ) ≤ (1 : Rat) := max_le (by norm_num) (by linarith [hrL.2])
  have hp0 : (0 : Rat) ≤ max 0 (L - δ) := le_max_left _ _
  have s1 := binomCdf_strictAnti_p n x hxn _ _ hu0 hc hp1
  have s2 := binomSf_antitone n (max 0 (L - δ)) hp0 hp1 x (x + 1) (Nat.le_succ x)
  have e := binom_less_plus_greater n (max 0 (L - δ)) x (le_of_lt hxn)
  linarith [hL.1, hU.2]

/-- the hypotheses are satisfiable: n = 2, x = 1, a = 1/4: P_p(X ≥ 1) = 2p − p² equals 1/4 at p ≈ 0.134 -/
example : cpLowerCert 2 1 (1/4) (134/1000) (1/100) = true := by decide +kernel

end PV.CPMono
