import PermuteVerif.Model.Incidence
import Mathlib.Tactic.Linarith

/-!
# permute_incidence_fixed_sums: which matrices are accepted (C19)

`incidenceValid` (the model of the input check: entries in {0, 1}, minimum 0, maximum 1) accepts a matrix iff every
entry is 0 or 1 and both values occur.  In particular anything with an entry outside {0, 1} is rejected, whatever the
other entries are.
-/

namespace PV.IncValid
open PV

theorem isBinary_iff (m : Mat) : isBinary m = true ↔ ∀ r ∈ m, ∀ v ∈ r, v = 0 ∨ v = 1 := by
  simp [isBinary, List.all_eq_true]

theorem mem_flatten_iff (m : Mat) (v : Int) : v ∈ m.flatten ↔ ∃ r ∈ m, v ∈ r := by
  simp [List.mem_flatten]

theorem incidenceValid_iff (m : Mat) :
    incidenceValid m = true ↔
      (∀ r ∈ m, ∀ v ∈ r, v = 0 ∨ v = 1) ∧ (∃ r ∈ m, (0 : Int) ∈ r) ∧ (∃ r ∈ m, (1 : Int) ∈ r) := by
  unfold incidenceValid matMin matMax
  simp only [Bool.and_eq_true, beq_iff_eq, isBinary_iff]
  constructor
  · rintro ⟨⟨hb, hmin⟩, hmax⟩
    refine ⟨hb, ?_, ?_⟩
    · have := (List.min?_eq_some_iff.1 hmin).1
      exact (mem_flatten_iff m 0).1 this
    · have := (List.max?_eq_some_iff.1 hmax).1
      exact (mem_flatten_iff m 1).1 this
  · rintro ⟨hb, h0, h1⟩
    have hall : ∀ v ∈ m.flatten, v = 0 ∨ v = 1 := by
      intro v hv
      obtain ⟨r, hr, hvr⟩ := (mem_flatten_iff m v).1 hv
      exact hb r hr v hvr
    refine ⟨⟨hb, ?_⟩, ?_⟩
    · apply List.min?_eq_some_iff.2
      refine ⟨(mem_flatten_iff m 0).2 h0, ?_⟩
      intro b hb'
      rcases hall b hb' with rfl | rfl <;> omega
    · apply List.max?_eq_some_iff.2
      refine ⟨(mem_flatten_iff m 1).2 h1, ?_⟩
      intro b hb'
      rcases hall b hb' with rfl | rfl <;> omega

/-- one entry outside {0, 1} is enough for rejection -/
theorem rejects_nonbinary (m : Mat) (r : List Int) (v : Int) (hr : r ∈ m) (hv : v ∈ r) (h0 : v ≠ 0) (h1 : v ≠ 1) :
    incidenceValid m = false := by
  cases h : incidenceValid m with
  | false => rfl
  | true =>
    have := ((incidenceValid_iff m).1 h).1 r hr v hv
    rcases this with h' | h' <;> contradiction

example : incidenceValid [[1, 0], [0, 1]] = true ∧ incidenceValid [[1, 0], [0, 2]] = false ∧ incidenceValid [[1, 1], [1, 1]] = false := by
  decide

end PV.IncValid
