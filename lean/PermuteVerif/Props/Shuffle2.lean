/-
  Props/Shuffle2.lean — C03 / C04 / C06 for sample_by_index, sign flips, within-group and row
  permutation.  Statements are fixed; only proofs (and helper lemmas above them) may change.
-/
import PermuteVerif.Model.Shuffle
import PermuteVerif.Model.Tests
import Mathlib.Data.List.Perm.Basic
import Mathlib.Data.List.Nodup
import Mathlib.Data.List.Permutation
import Mathlib.Data.List.Forall2
import Mathlib.Tactic.Linarith
namespace PV.Shuffle2
/-! ### sample_by_index (`randomize_group`, `randomize_in_strata`) -/

theorem cons_set_perm' {α : Type} (x : α) (xs : List α) (k : Nat) (hk : k < xs.length) :
    (xs[k] :: xs.set k x).Perm (x :: xs) := by
  rw [List.set_eq_take_append_cons_drop]
  simp only [hk, if_true]
  have : xs = xs.take k ++ xs[k] :: xs.drop (k+1) := by simp
  conv_rhs => rw [this]
  exact ((List.perm_middle.cons _).trans (List.Perm.swap ..)).trans (List.perm_middle.symm.cons x)

/-- the list `sbi` continues with after drawing position `w` -/
def sbiStep {α : Type} (l : List α) (w : Nat) : List α :=
  match l.getLast? with
  | some last => if w < l.dropLast.length then l.dropLast.set w last else l.dropLast
  | none => l.dropLast

theorem sbi_nil' {α : Type} (l : List α) : sbi l [] = [] := by
  unfold sbi; rfl

theorem sbi_cons' {α : Type} (l : List α) (w : Nat) (ws : List Nat) :
    sbi l (w :: ws) = match l[w]? with
      | none => []
      | some y => y :: sbi (sbiStep l w) ws := by
  rw [sbi]; rfl

theorem sbi_cons_lt' {α : Type} (l : List α) (w : Nat) (ws : List Nat) (hw : w < l.length) :
    sbi l (w :: ws) = l[w] :: sbi (sbiStep l w) ws := by
  rw [sbi_cons', List.getElem?_eq_getElem hw]

theorem sbiStep_length {α : Type} (l : List α) (w : Nat) : (sbiStep l w).length = l.length - 1 := by
  unfold sbiStep
  cases l.getLast? with
  | none => simp
  | some last => simp only []; split_ifs <;> simp

theorem sbiStep_map {α β : Type} (f : α → β) (l : List α) (w : Nat) :
    sbiStep (l.map f) w = (sbiStep l w).map f := by
  unfold sbiStep
  rw [List.getLast?_map]
  cases l.getLast? with
  | none => simp [List.map_dropLast]
  | some last =>
    simp only [Option.map_some, List.length_dropLast, List.length_map]
    split_ifs <;> simp [List.map_dropLast, List.map_set]

theorem sbiStep_perm {α : Type} (l : List α) (w : Nat) (hw : w < l.length) :
    (l[w] :: sbiStep l w).Perm l := by
  rcases List.eq_nil_or_concat' l with rfl | ⟨init, last, rfl⟩
  · simp at hw
  · have hs : sbiStep (init ++ [last]) w = if w < init.length then init.set w last else init := by
      simp [sbiStep]
    rw [hs]
    by_cases h : w < init.length
    · rw [if_pos h, List.getElem_append_left h]
      exact (cons_set_perm' last init w h).trans (List.perm_append_singleton last init).symm
    · have hw' : w = init.length := by simp at hw; omega
      subst hw'
      rw [if_neg h]
      simp only [List.getElem_concat_length]
      exact (List.perm_append_singleton last init).symm

theorem validC_nil' (n : Nat) : ValidC n [] ↔ n = 0 := by
  cases n <;> simp [ValidC]

theorem validC_cons' (n w : Nat) (ws : List Nat) :
    ValidC n (w :: ws) ↔ w < n ∧ ValidC (n - 1) ws := by
  cases n <;> simp [ValidC]

theorem sbi_perm {α : Type} (l : List α) (ws : List Nat) (h : ValidC l.length ws) :
    (sbi l ws).Perm l := by
  induction ws generalizing l with
  | nil =>
    rw [validC_nil'] at h
    rw [sbi_nil', List.eq_nil_of_length_eq_zero h]
  | cons w ws ih =>
    rw [validC_cons'] at h
    rw [sbi_cons_lt' l w ws h.1]
    have := ih (sbiStep l w) (by rw [sbiStep_length]; exact h.2)
    exact (this.cons _).trans (sbiStep_perm l w h.1)

theorem sbi_map {α β : Type} (f : α → β) (l : List α) (ws : List Nat) :
    sbi (l.map f) ws = (sbi l ws).map f := by
  induction ws generalizing l with
  | nil => simp [sbi_nil']
  | cons w ws ih =>
    rw [sbi_cons', sbi_cons', List.getElem?_map]
    cases l[w]? with
    | none => simp
    | some y => simp [sbiStep_map, ih]

theorem mem_allValidC' (n : Nat) (cs : List Nat) : cs ∈ allValidC n ↔ ValidC n cs := by
  induction n generalizing cs with
  | zero => simp [allValidC, ValidC]
  | succ n ih =>
    cases cs with
    | nil => simp [allValidC, ValidC]
    | cons c cs => simp [allValidC, ValidC, ih]

theorem allValidC_nodup' (n : Nat) : (allValidC n).Nodup := by
  induction n with
  | zero => simp [allValidC]
  | succ n ih =>
    simp only [allValidC]
    rw [List.nodup_flatMap]
    refine ⟨fun c _ => ih.map (fun a b h => by simpa using h), ?_⟩
    refine List.nodup_range.pairwise_of_forall_ne ?_
    intro a _ b _ hab
    simp only [Function.onFun, List.disjoint_left, List.mem_map]
    rintro x ⟨y, _, rfl⟩ ⟨z, _, hz⟩
    simp at hz
    exact hab hz.1.symm

theorem sbi_inj' {α : Type} (l : List α) (hnd : l.Nodup) (ws ws' : List Nat)
    (h : ValidC l.length ws) (h' : ValidC l.length ws') (e : sbi l ws = sbi l ws') : ws = ws' := by
  induction ws generalizing l ws' with
  | nil =>
    rw [validC_nil'] at h
    rw [h] at h'
    simpa [ValidC] using h'.symm
  | cons w ws ih =>
    rw [validC_cons'] at h
    cases ws' with
    | nil => rw [validC_nil'] at h'; omega
    | cons w' ws' =>
      rw [validC_cons'] at h'
      rw [sbi_cons_lt' l w ws h.1, sbi_cons_lt' l w' ws' h'.1] at e
      simp only [List.cons.injEq] at e
      have hw : w = w' := (hnd.getElem_inj_iff).mp e.1
      subst hw
      have hnd' : (sbiStep l w).Nodup :=
        (List.nodup_cons.mp ((sbiStep_perm l w h.1).nodup_iff.mpr hnd)).2
      rw [ih (sbiStep l w) hnd' ws' (by rw [sbiStep_length]; exact h.2)
        (by rw [sbiStep_length]; exact h'.2) e.2]

theorem sbi_exists' {α : Type} (l t : List α) (hnd : l.Nodup) (hp : t.Perm l) :
    ∃ ws, ValidC l.length ws ∧ sbi l ws = t := by
  induction t generalizing l with
  | nil =>
    refine ⟨[], ?_, sbi_nil' l⟩
    rw [hp.symm.eq_nil]; simp [ValidC]
  | cons y t ih =>
    have hy : y ∈ l := hp.subset (List.mem_cons_self ..)
    obtain ⟨w, hw, hyw⟩ := List.getElem_of_mem hy
    have hsp := sbiStep_perm l w hw
    have hnd' : (sbiStep l w).Nodup := (List.nodup_cons.mp (hsp.nodup_iff.mpr hnd)).2
    have hp' : t.Perm (sbiStep l w) := by
      rw [hyw] at hsp
      exact (List.perm_cons y).mp (hp.trans hsp.symm)
    obtain ⟨ws, hv, hs⟩ := ih (sbiStep l w) hnd' hp'
    refine ⟨w :: ws, ?_, ?_⟩
    · rw [validC_cons']; rw [sbiStep_length] at hv; exact ⟨hw, hv⟩
    · rw [sbi_cons_lt' l w ws hw, hyw, hs]

theorem sbi_uniform {α : Type} (l : List α) (hnd : l.Nodup) :
    ((allValidC l.length).map (sbi l)).Perm l.permutations := by
  have h1 : ((allValidC l.length).map (sbi l)).Nodup := by
    refine (allValidC_nodup' _).map_on ?_
    intro a ha b hb e
    exact sbi_inj' l hnd a b ((mem_allValidC' _ _).mp ha) ((mem_allValidC' _ _).mp hb) e
  have h2 : l.permutations.Nodup := List.nodup_permutations l hnd
  rw [List.perm_ext_iff_of_nodup h1 h2]
  intro t
  rw [List.mem_permutations, List.mem_map]
  constructor
  · rintro ⟨ws, hws, rfl⟩
    exact sbi_perm l ws ((mem_allValidC' _ _).mp hws)
  · intro hp
    obtain ⟨ws, hv, hs⟩ := sbi_exists' l t hnd hp
    exact ⟨ws, (mem_allValidC' _ _).mpr hv, hs⟩

/-! ### sign flips (`one_sample`) -/

theorem signFlip_length (z : List Rat) (bits : List Nat) (h : bits.length = z.length) :
    (signFlip z bits).length = z.length := by
  simp [signFlip, h]

/-- C03: nothing but signs changes -/
theorem signFlip_abs (z : List Rat) (bits : List Nat) (h : bits.length = z.length)
    (hb : ∀ b ∈ bits, b = 0 ∨ b = 1) :
    ∀ i (hi : i < z.length), (signFlip z bits).getD i 0 = z[i] ∨ (signFlip z bits).getD i 0 = -z[i] := by
  intro i hi
  have hi' : i < bits.length := by omega
  have hlen : i < (signFlip z bits).length := by simp [signFlip, h]; exact hi
  have : (signFlip z bits).getD i 0 = z[i] * (1 - 2 * (bits[i] : Rat)) := by
    rw [List.getD_eq_getElem?_getD, List.getElem?_eq_getElem hlen]
    simp [signFlip]
  rw [this]
  rcases hb _ (List.getElem_mem hi') with h0 | h1
  · left; rw [h0]; simp
  · right; rw [h1]; norm_num

/-- all 0/1 vectors of length n -/
def allBits : Nat → List (List Nat)
  | 0 => [[]]
  | n + 1 => (allBits n).flatMap (fun b => [0 :: b, 1 :: b])

theorem mem_allBits (n : Nat) : ∀ b, b ∈ allBits n ↔ (b.length = n ∧ ∀ v ∈ b, v = 0 ∨ v = 1) := by
  induction n with
  | zero => intro b; simp only [allBits, List.mem_singleton]; constructor
            · rintro rfl; simp
            · rintro ⟨h, _⟩; exact List.eq_nil_of_length_eq_zero h
  | succ n ih =>
    intro b
    simp only [allBits, List.mem_flatMap, List.mem_cons, List.not_mem_nil, or_false]
    constructor
    · rintro ⟨a, ha, rfl | rfl⟩ <;> · have := (ih a).mp ha; simp [this.1]; exact this.2
    · rintro ⟨hl, hv⟩
      cases b with
      | nil => simp at hl
      | cons v t =>
        refine ⟨t, (ih t).mpr ⟨by simpa using hl, fun w hw => hv w (List.mem_cons_of_mem _ hw)⟩, ?_⟩
        rcases hv v (List.mem_cons_self ..) with h | h <;> simp [h]

/-- C04: the 2^n bit vectors are distinct and each yields its own sign vector -/
theorem allBits_spec (n : Nat) :
    (allBits n).Nodup ∧ (allBits n).length = 2 ^ n ∧
    ∀ b, b ∈ allBits n ↔ (b.length = n ∧ ∀ v ∈ b, v = 0 ∨ v = 1) := by
  refine ⟨?_, ?_, mem_allBits n⟩
  · induction n with
    | zero => simp [allBits]
    | succ n ih =>
      simp only [allBits]
      rw [List.nodup_flatMap]
      refine ⟨fun b _ => by simp, ?_⟩
      refine ih.pairwise_of_forall_ne ?_
      intro a _ b _ hab
      simp [Function.onFun, List.disjoint_left]
      grind
  · induction n with
    | zero => simp [allBits]
    | succ n ih =>
      simp only [allBits, List.length_flatMap]
      simp [ih, pow_succ]

theorem signVector_inj (b b' : List Nat) (hl : b.length = b'.length)
    (hb : ∀ v ∈ b, v = 0 ∨ v = 1) (hb' : ∀ v ∈ b', v = 0 ∨ v = 1)
    (e : signFlip (List.replicate b.length 1) b = signFlip (List.replicate b'.length 1) b') : b = b' := by
  induction b generalizing b' with
  | nil => cases b' with
    | nil => rfl
    | cons => simp at hl
  | cons v t ih =>
    cases b' with
    | nil => simp at hl
    | cons v' t' =>
      simp only [List.length_cons, List.replicate_succ, signFlip, List.zipWith_cons_cons, List.cons.injEq] at e
      have ht := ih t' (by simpa using hl) (fun w hw => hb w (List.mem_cons_of_mem _ hw))
        (fun w hw => hb' w (List.mem_cons_of_mem _ hw)) e.2
      have hv : v = v' := by
        have h1 := e.1
        rcases hb v (List.mem_cons_self ..) with h | h <;>
        rcases hb' v' (List.mem_cons_self ..) with h' | h' <;> subst h <;> subst h' <;> norm_num at h1 <;> rfl
      rw [hv, ht]

/-! ### within-group permutation and row permutation -/

theorem fy_perm' {α : Type} : ∀ (l : List α) (cs : List Nat), (fy l cs).Perm l
  | [], cs => by simp [fy]
  | x :: xs, [] => by simp [fy]
  | x :: xs, 0 :: cs => by
      simp only [fy]; exact (fy_perm' xs cs).cons x
  | x :: xs, (k+1) :: cs => by
      simp only [fy]
      cases h : xs[k]? with
      | none => simp only []; exact (fy_perm' xs cs).cons x
      | some y =>
        simp only []
        obtain ⟨hk, hy⟩ := List.getElem?_eq_some_iff.mp h
        have h1 : (fy (xs.set k x) cs).Perm (xs.set k x) := fy_perm' _ cs
        exact (h1.cons y).trans (hy ▸ cons_set_perm' x xs k hk)
termination_by _ cs => cs.length

theorem fy_map' {α β : Type} (f : α → β) : ∀ (l : List α) (cs : List Nat),
    fy (l.map f) cs = (fy l cs).map f
  | [], cs => by simp [fy]
  | x :: xs, [] => by simp [fy]
  | x :: xs, 0 :: cs => by
      simp only [List.map_cons, fy]; rw [fy_map' f xs cs]
  | x :: xs, (k+1) :: cs => by
      simp only [List.map_cons, fy, List.getElem?_map]
      cases h : xs[k]? with
      | none => simp only [Option.map_none, List.map_cons]; rw [fy_map' f xs cs]
      | some y =>
        simp only [Option.map_some, List.map_cons]
        rw [← fy_map' f (xs.set k x) cs, List.map_set]
termination_by _ cs => cs.length

/-! scatter / gather -/

theorem scatter_nil_idx {α : Type} (x : List α) (vals : List α) : scatter x [] vals = x := by
  simp [scatter]

theorem scatter_nil_vals {α : Type} (x : List α) (idx : List Nat) : scatter x idx [] = x := by
  simp [scatter]

theorem scatter_cons {α : Type} (x : List α) (i : Nat) (idx : List Nat) (v : α) (vals : List α) :
    scatter x (i :: idx) (v :: vals) = scatter (x.set i v) idx vals := by
  simp [scatter]

theorem scatter_length {α : Type} (x : List α) (idx : List Nat) (vals : List α) :
    (scatter x idx vals).length = x.length := by
  induction idx generalizing x vals with
  | nil => rw [scatter_nil_idx]
  | cons i idx ih =>
    cases vals with
    | nil => rw [scatter_nil_vals]
    | cons v vals => rw [scatter_cons, ih]; simp

theorem scatter_getElem?_of_not_mem {α : Type} (x : List α) (idx : List Nat) (vals : List α)
    (j : Nat) (hj : j ∉ idx) : (scatter x idx vals)[j]? = x[j]? := by
  induction idx generalizing x vals with
  | nil => rw [scatter_nil_idx]
  | cons i idx ih =>
    cases vals with
    | nil => rw [scatter_nil_vals]
    | cons v vals =>
      rw [scatter_cons, ih _ _ (fun h => hj (List.mem_cons_of_mem _ h))]
      rw [List.getElem?_set_ne]
      rintro rfl; exact hj (List.mem_cons_self ..)

theorem scatter_map {α β : Type} (f : α → β) (x : List α) (idx : List Nat) (vals : List α) :
    scatter (x.map f) idx (vals.map f) = (scatter x idx vals).map f := by
  induction idx generalizing x vals with
  | nil => simp [scatter_nil_idx]
  | cons i idx ih =>
    cases vals with
    | nil => simp [scatter_nil_vals]
    | cons v vals => rw [List.map_cons, scatter_cons, scatter_cons, ← ih, List.map_set]

theorem gather_congr {α : Type} [Inhabited α] (a b : List α) (idx : List Nat)
    (h : ∀ j ∈ idx, a[j]? = b[j]?) : gather a idx = gather b idx := by
  unfold gather
  apply List.map_congr_left
  intro j hj
  simp only [List.getD_eq_getElem?_getD, h j hj]

theorem gather_length {α : Type} [Inhabited α] (a : List α) (idx : List Nat) :
    (gather a idx).length = idx.length := by simp [gather]

theorem gather_scatter {α : Type} [Inhabited α] (x : List α) (idx : List Nat) (vals : List α)
    (hnd : idx.Nodup) (hr : ∀ i ∈ idx, i < x.length) (hl : vals.length = idx.length) :
    gather (scatter x idx vals) idx = vals := by
  induction idx generalizing x vals with
  | nil =>
    simp at hl; subst hl; simp [gather]
  | cons i idx ih =>
    cases vals with
    | nil => simp at hl
    | cons v vals =>
      rw [scatter_cons]
      have hi : i ∉ idx := (List.nodup_cons.mp hnd).1
      have hix : i < x.length := hr i (List.mem_cons_self ..)
      have h1 := ih (x.set i v) vals (List.nodup_cons.mp hnd).2
        (fun j hj => by simpa using hr j (List.mem_cons_of_mem _ hj)) (by simpa using hl)
      unfold gather at h1 ⊢
      rw [List.map_cons, h1, List.getD_eq_getElem?_getD,
        scatter_getElem?_of_not_mem _ _ _ _ hi]
      simp [hix]

theorem gather_map {α β : Type} [Inhabited α] [Inhabited β] (f : α → β) (x : List α)
    (idx : List Nat) (hr : ∀ i ∈ idx, i < x.length) :
    gather (x.map f) idx = (gather x idx).map f := by
  unfold gather
  rw [List.map_map]
  apply List.map_congr_left
  intro j hj
  have := hr j hj
  simp [List.getD_eq_getElem?_getD, this]

theorem eq_gather_range {α : Type} [Inhabited α] (a : List α) :
    a = gather a (List.range a.length) := by
  apply List.ext_getElem
  · simp [gather]
  · intro i h1 h2
    simp [gather, List.getD_eq_getElem?_getD, h1]

/-- two lists of equal length that agree outside a duplicate-free index set and whose values on
    that set are rearrangements of each other are rearrangements of each other -/
theorem perm_of_gather_perm {α : Type} [Inhabited α] (a b : List α) (idx : List Nat)
    (hlen : a.length = b.length) (hnd : idx.Nodup) (hr : ∀ i ∈ idx, i < a.length)
    (hout : ∀ j, j ∉ idx → a[j]? = b[j]?) (hp : (gather a idx).Perm (gather b idx)) :
    a.Perm b := by
  let comp := (List.range a.length).filter (fun j => decide (j ∉ idx))
  have hperm : (idx ++ comp).Perm (List.range a.length) := by
    rw [List.perm_ext_iff_of_nodup]
    · intro j
      simp only [comp, List.mem_append, List.mem_filter, List.mem_range, decide_eq_true_eq]
      constructor
      · rintro (h | h)
        · exact hr j h
        · exact h.1
      · intro h
        by_cases hj : j ∈ idx
        · exact Or.inl hj
        · exact Or.inr ⟨h, hj⟩
    · rw [List.nodup_append]
      refine ⟨hnd, List.nodup_range.filter _, ?_⟩
      intro x hx y hy
      simp only [comp, List.mem_filter, decide_eq_true_eq] at hy
      rintro rfl; exact hy.2 hx
    · exact List.nodup_range
  have ha : a.Perm (gather a idx ++ gather a comp) := by
    conv_lhs => rw [eq_gather_range a]
    unfold gather
    rw [← List.map_append]
    exact hperm.symm.map _
  have hb : b.Perm (gather b idx ++ gather b comp) := by
    conv_lhs => rw [eq_gather_range b]
    unfold gather
    rw [← List.map_append, ← hlen]
    exact hperm.symm.map _
  have hc : gather a comp = gather b comp := by
    apply gather_congr
    intro j hj
    simp only [comp, List.mem_filter, decide_eq_true_eq] at hj
    exact hout j hj.2
  rw [hc] at ha
  exact ha.trans ((hp.append_right _).trans hb.symm)

/-! positionsOf -/

theorem mem_positionsOf (l : List Int) (g : Int) (i : Nat) :
    i ∈ positionsOf l g ↔ l[i]? = some g := by
  simp only [positionsOf, List.mem_map, List.mem_filter, Prod.exists, List.mem_zipIdx_iff_getElem?]
  simp

theorem positionsOf_nodup (l : List Int) (g : Int) : (positionsOf l g).Nodup := by
  unfold positionsOf
  have h : (l.zipIdx.map Prod.snd).Nodup := by
    rw [List.zipIdx_map_snd]; exact List.nodup_range' ..
  exact h.sublist (List.filter_sublist.map _)

theorem positionsOf_lt (l : List Int) (g : Int) (i : Nat) (hi : i ∈ positionsOf l g) :
    i < l.length := by
  rw [mem_positionsOf] at hi
  exact (List.getElem?_eq_some_iff.mp hi).1

/-! one step of permuteWithinGroups -/

def pwgStep {α : Type} [Inhabited α] (group : List Int) (acc : List α) (gd : Int × List Nat) :
    List α :=
  scatter acc (positionsOf group gd.1) (fy (gather acc (positionsOf group gd.1)) gd.2)

theorem pwg_eq_foldl {α : Type} [Inhabited α] (x : List α) (group : List Int)
    (draws : List (List Nat)) :
    permuteWithinGroups x group draws = ((uniqSorted group).zip draws).foldl (pwgStep group) x := rfl

theorem pwgStep_length {α : Type} [Inhabited α] (group : List Int) (acc : List α)
    (gd : Int × List Nat) : (pwgStep group acc gd).length = acc.length := by
  simp [pwgStep, scatter_length]

theorem pwgFold_length {α : Type} [Inhabited α] (group : List Int) (acc : List α)
    (gds : List (Int × List Nat)) : (gds.foldl (pwgStep group) acc).length = acc.length := by
  induction gds generalizing acc with
  | nil => rfl
  | cons gd gds ih => rw [List.foldl_cons, ih, pwgStep_length]

theorem pwgStep_gather_same {α : Type} [Inhabited α] (group : List Int) (acc : List α)
    (gd : Int × List Nat) (hl : group.length = acc.length) :
    gather (pwgStep group acc gd) (positionsOf group gd.1) =
      fy (gather acc (positionsOf group gd.1)) gd.2 := by
  unfold pwgStep
  apply gather_scatter _ _ _ (positionsOf_nodup ..)
  · intro i hi; rw [← hl]; exact positionsOf_lt _ _ _ hi
  · rw [(fy_perm' _ _).length_eq, gather_length]

theorem pwgStep_gather_other {α : Type} [Inhabited α] (group : List Int) (acc : List α)
    (gd : Int × List Nat) (g : Int) (hg : g ≠ gd.1) :
    gather (pwgStep group acc gd) (positionsOf group g) = gather acc (positionsOf group g) := by
  apply gather_congr
  intro j hj
  unfold pwgStep
  apply scatter_getElem?_of_not_mem
  intro hj'
  rw [mem_positionsOf] at hj hj'
  rw [hj] at hj'
  exact hg (Option.some.inj hj')

theorem pwgStep_stratum_perm {α : Type} [Inhabited α] (group : List Int) (acc : List α)
    (gd : Int × List Nat) (hl : group.length = acc.length) (g : Int) :
    (gather (pwgStep group acc gd) (positionsOf group g)).Perm (gather acc (positionsOf group g)) := by
  by_cases hg : g = gd.1
  · subst hg
    rw [pwgStep_gather_same group acc gd hl]
    exact fy_perm' _ _
  · rw [pwgStep_gather_other group acc gd g hg]

theorem pwgStep_perm {α : Type} [Inhabited α] (group : List Int) (acc : List α)
    (gd : Int × List Nat) (hl : group.length = acc.length) :
    (pwgStep group acc gd).Perm acc := by
  apply perm_of_gather_perm _ _ (positionsOf group gd.1) (pwgStep_length ..) (positionsOf_nodup ..)
  · intro i hi; rw [pwgStep_length, ← hl]; exact positionsOf_lt _ _ _ hi
  · intro j hj
    unfold pwgStep
    exact scatter_getElem?_of_not_mem _ _ _ _ hj
  · exact pwgStep_stratum_perm group acc gd hl gd.1

theorem pwgStep_map {α β : Type} [Inhabited α] [Inhabited β] (f : α → β) (group : List Int)
    (acc : List α) (gd : Int × List Nat) (hl : group.length = acc.length) :
    pwgStep group (acc.map f) gd = (pwgStep group acc gd).map f := by
  unfold pwgStep
  rw [gather_map f acc _ (fun i hi => by rw [← hl]; exact positionsOf_lt _ _ _ hi), fy_map',
    scatter_map]

theorem pwg_length {α : Type} [Inhabited α] (x : List α) (group : List Int) (draws : List (List Nat)) :
    (permuteWithinGroups x group draws).length = x.length := by
  rw [pwg_eq_foldl, pwgFold_length]

/-- C03: within every stratum the values are rearranged among that stratum's positions … -/
theorem pwg_stratum_perm {α : Type} [Inhabited α] (x : List α) (group : List Int)
    (draws : List (List Nat)) (hl : group.length = x.length) (g : Int) :
    (gather (permuteWithinGroups x group draws) (positionsOf group g)).Perm
      (gather x (positionsOf group g)) := by
  rw [pwg_eq_foldl]
  generalize (uniqSorted group).zip draws = gds
  induction gds generalizing x with
  | nil => exact List.Perm.refl _
  | cons gd gds ih =>
    rw [List.foldl_cons]
    exact (ih (pwgStep group x gd) (by rw [pwgStep_length]; exact hl)).trans
      (pwgStep_stratum_perm group x gd hl g)

/-- … so the whole vector is a rearrangement too -/
theorem pwg_perm {α : Type} [Inhabited α] (x : List α) (group : List Int)
    (draws : List (List Nat)) (hl : group.length = x.length) :
    (permuteWithinGroups x group draws).Perm x := by
  rw [pwg_eq_foldl]
  generalize (uniqSorted group).zip draws = gds
  induction gds generalizing x with
  | nil => exact List.Perm.refl _
  | cons gd gds ih =>
    rw [List.foldl_cons]
    exact (ih (pwgStep group x gd) (by rw [pwgStep_length]; exact hl)).trans
      (pwgStep_perm group x gd hl)

/-- C06: the within-group rearrangement depends on the draws and the stratification only -/
theorem pwg_map {α β : Type} [Inhabited α] [Inhabited β] (f : α → β) (x : List α) (group : List Int)
    (draws : List (List Nat)) (hl : group.length = x.length) :
    permuteWithinGroups (x.map f) group draws = (permuteWithinGroups x group draws).map f := by
  rw [pwg_eq_foldl, pwg_eq_foldl]
  generalize (uniqSorted group).zip draws = gds
  induction gds generalizing x with
  | nil => rfl
  | cons gd gds ih =>
    rw [List.foldl_cons, List.foldl_cons, pwgStep_map f group x gd hl]
    exact ih (pwgStep group x gd) (by rw [pwgStep_length]; exact hl)

/-- C03: permute_rows rearranges every row within itself -/
theorem prows_rowwise_perm {α : Type} (m : List (List α)) (draws : List (List Nat))
    (h : draws.length = m.length) :
    List.Forall₂ (fun r' r => r'.Perm r) (permuteRows m draws) m := by
  induction m generalizing draws with
  | nil => simp [permuteRows]
  | cons r m ih =>
    cases draws with
    | nil => simp at h
    | cons d draws =>
      simp only [permuteRows, List.zipWith_cons_cons]
      exact List.Forall₂.cons (fy_perm' r d) (ih draws (by simpa using h))

/-- non-vacuity -/
example : sbi [5, 6, 7] [0, 0, 0] = [5, 7, 6] := by decide
example : permuteWithinGroups [10, 20, 30, 40] [1, 0, 1, 0] [[1, 0], [1, 0]] = [30, 40, 10, 20] := by decide

end PV.Shuffle2