/-
  Props/Experiment.lean — C17: Experiment randomization histories conserve labels and respect
  in_place.  Statements are fixed; only proofs (and helper lemmas above them) may change.
-/
import PermuteVerif.Model.Experiment
import PermuteVerif.Props.Shuffle2
import Mathlib.Data.List.Basic
import Mathlib.Data.List.Perm.Basic
import Mathlib.Data.List.Nodup
import Mathlib.Tactic.Linarith
namespace PV.Experiment
open PV.Shuffle2
/-- the draws of one randomisation are admissible for an experiment of this shape: one valid
    index vector for the whole group (unstratified) or one per stratum (stratified) -/
def DrawsOK (stratified : Bool) (e : Exp) (d : List (List Nat)) : Prop :=
  if stratified then
    d.length = (uniqSorted e.strata).length ∧
    ∀ sd ∈ (uniqSorted e.strata).zip d, ValidC (positionsOf e.strata sd.1).length sd.2
  else
    ValidC e.group.length (d.headD [])

def OpOK (stratified : Bool) (e : Exp) : Op → Prop
  | .randomize _ d => DrawsOK stratified e d
  | .simNpc _ ds => ∀ d ∈ ds, DrawsOK stratified e d
  | .westfallYoung _ ds => ∀ d ∈ ds, DrawsOK stratified e d

/-- the invariant: responses and covariates unchanged, the group vector a rearrangement of the
    original labels, and — for the stratified randomizer — a rearrangement within every stratum -/
def Inv (stratified : Bool) (e0 e : Exp) : Prop :=
  e.response = e0.response ∧ e.strata = e0.strata ∧ e.group.Perm e0.group ∧
  (stratified = true → ∀ s, (gather e.group (positionsOf e0.strata s)).Perm
                              (gather e0.group (positionsOf e0.strata s)))


/-! ### helper lemmas -/

/-- one step of `randomizeInStrata` -/
def strStep (strata : List Int) (acc : List Int) (sd : Int × List Nat) : List Int :=
  scatter acc (positionsOf strata sd.1) (sbi (gather acc (positionsOf strata sd.1)) sd.2)

theorem ris_eq_foldl (g strata : List Int) (draws : List (List Nat)) :
    randomizeInStrata g strata draws = ((uniqSorted strata).zip draws).foldl (strStep strata) g := rfl

theorem strStep_length (strata acc : List Int) (sd : Int × List Nat) :
    (strStep strata acc sd).length = acc.length := by
  simp [strStep, scatter_length]

theorem strStep_gather_same (strata acc : List Int) (sd : Int × List Nat)
    (hl : strata.length = acc.length) (hv : ValidC (positionsOf strata sd.1).length sd.2) :
    gather (strStep strata acc sd) (positionsOf strata sd.1) =
      sbi (gather acc (positionsOf strata sd.1)) sd.2 := by
  unfold strStep
  apply gather_scatter _ _ _ (positionsOf_nodup ..)
  · intro i hi; rw [← hl]; exact positionsOf_lt _ _ _ hi
  · rw [(sbi_perm _ _ (by rw [gather_length]; exact hv)).length_eq, gather_length]

theorem strStep_gather_other (strata acc : List Int) (sd : Int × List Nat) (s : Int)
    (hs : s ≠ sd.1) :
    gather (strStep strata acc sd) (positionsOf strata s) = gather acc (positionsOf strata s) := by
  apply gather_congr
  intro j hj
  unfold strStep
  apply scatter_getElem?_of_not_mem
  intro hj'
  rw [mem_positionsOf] at hj hj'
  rw [hj] at hj'
  exact hs (Option.some.inj hj')

theorem strStep_stratum_perm (strata acc : List Int) (sd : Int × List Nat)
    (hl : strata.length = acc.length) (hv : ValidC (positionsOf strata sd.1).length sd.2) (s : Int) :
    (gather (strStep strata acc sd) (positionsOf strata s)).Perm
      (gather acc (positionsOf strata s)) := by
  by_cases hs : s = sd.1
  · subst hs
    rw [strStep_gather_same strata acc sd hl hv]
    exact sbi_perm _ _ (by rw [gather_length]; exact hv)
  · rw [strStep_gather_other strata acc sd s hs]

theorem strStep_perm (strata acc : List Int) (sd : Int × List Nat)
    (hl : strata.length = acc.length) (hv : ValidC (positionsOf strata sd.1).length sd.2) :
    (strStep strata acc sd).Perm acc := by
  apply perm_of_gather_perm _ _ (positionsOf strata sd.1) (strStep_length ..) (positionsOf_nodup ..)
  · intro i hi; rw [strStep_length, ← hl]; exact positionsOf_lt _ _ _ hi
  · intro j hj
    unfold strStep
    exact scatter_getElem?_of_not_mem _ _ _ _ hj
  · exact strStep_stratum_perm strata acc sd hl hv sd.1

theorem strFold_spec (strata : List Int) (sds : List (Int × List Nat)) (acc : List Int)
    (hl : strata.length = acc.length)
    (hv : ∀ sd ∈ sds, ValidC (positionsOf strata sd.1).length sd.2) :
    (sds.foldl (strStep strata) acc).Perm acc ∧
    ∀ s, (gather (sds.foldl (strStep strata) acc) (positionsOf strata s)).Perm
      (gather acc (positionsOf strata s)) := by
  induction sds generalizing acc with
  | nil => exact ⟨List.Perm.refl _, fun _ => List.Perm.refl _⟩
  | cons sd sds ih =>
    rw [List.foldl_cons]
    have hsd := hv sd (List.mem_cons_self ..)
    obtain ⟨h1, h2⟩ := ih (strStep strata acc sd) (by rw [strStep_length]; exact hl)
      (fun sd' h => hv sd' (List.mem_cons_of_mem _ h))
    exact ⟨h1.trans (strStep_perm strata acc sd hl hsd),
      fun s => (h2 s).trans (strStep_stratum_perm strata acc sd hl hsd s)⟩

theorem randomizeOnce_response (stratified : Bool) (e : Exp) (d : List (List Nat)) :
    (randomizeOnce stratified e d).response = e.response := by
  unfold randomizeOnce; split <;> rfl

theorem randomizeOnce_strata (stratified : Bool) (e : Exp) (d : List (List Nat)) :
    (randomizeOnce stratified e d).strata = e.strata := by
  unfold randomizeOnce; split <;> rfl

theorem groupSeq_resp_strata (stratified : Bool) (e : Exp) (ds : List (List (List Nat))) :
    ∀ e' ∈ groupSeq stratified e ds, e'.response = e.response ∧ e'.strata = e.strata := by
  induction ds generalizing e with
  | nil => intro e' h; simp [groupSeq] at h
  | cons d rest ih =>
    intro e' h
    simp only [groupSeq, List.mem_cons] at h
    rcases h with rfl | h
    · exact ⟨randomizeOnce_response .., randomizeOnce_strata ..⟩
    · obtain ⟨h1, h2⟩ := ih _ e' h
      exact ⟨h1.trans (randomizeOnce_response ..), h2.trans (randomizeOnce_strata ..)⟩

theorem getLastD_prop {α : Type} (P : α → Prop) (l : List α) (a : α) (ha : P a)
    (hl : ∀ x ∈ l, P x) : P (l.getLastD a) := by
  rcases List.eq_nil_or_concat' l with rfl | ⟨init, last, rfl⟩
  · simpa using ha
  · rw [List.getLastD_concat]; exact hl _ (by simp)

theorem inv_refl (stratified : Bool) (e : Exp) : Inv stratified e e := by
  exact ⟨rfl, rfl, List.Perm.refl _, fun _ _ => List.Perm.refl _⟩

/-- one randomisation preserves the invariant -/
theorem randomizeOnce_inv (stratified : Bool) (e0 e : Exp) (d : List (List Nat))
    (hl : e0.strata.length = e0.group.length) (hinv : Inv stratified e0 e)
    (hok : DrawsOK stratified e0 d) : Inv stratified e0 (randomizeOnce stratified e d) := by
  obtain ⟨hr, hs, hp, hst⟩ := hinv
  cases stratified with
  | false =>
    refine ⟨(randomizeOnce_response ..).trans hr, (randomizeOnce_strata ..).trans hs, ?_, fun h => by simp at h⟩
    simp only [DrawsOK, Bool.false_eq_true, if_false] at hok
    simp only [randomizeOnce, Bool.false_eq_true, if_false, randomizeGroup]
    exact (sbi_perm _ _ (by rw [hp.length_eq]; exact hok)).trans hp
  | true =>
    simp only [DrawsOK, if_true] at hok
    have hlen : e0.strata.length = e.group.length := by rw [hl, hp.length_eq]
    have hfold := strFold_spec e0.strata ((uniqSorted e0.strata).zip d) e.group hlen hok.2
    refine ⟨(randomizeOnce_response ..).trans hr, (randomizeOnce_strata ..).trans hs, ?_, fun _ s => ?_⟩
    · simp only [randomizeOnce, if_true, hs, ris_eq_foldl]
      exact hfold.1.trans hp
    · simp only [randomizeOnce, if_true, hs, ris_eq_foldl]
      exact (hfold.2 s).trans (hst rfl s)

/-- every assignment seen during sim_npc / westfall_young satisfies the invariant -/
theorem groupSeq_inv (stratified : Bool) (e0 e : Exp) (ds : List (List (List Nat)))
    (hl : e0.strata.length = e0.group.length) (hinv : Inv stratified e0 e)
    (hok : ∀ d ∈ ds, DrawsOK stratified e0 d) :
    ∀ e' ∈ groupSeq stratified e ds, Inv stratified e0 e' := by
  induction ds generalizing e with
  | nil => intro e' h; simp [groupSeq] at h
  | cons d rest ih =>
    intro e' h
    simp only [groupSeq, List.mem_cons] at h
    have h1 := randomizeOnce_inv stratified e0 e d hl hinv (hok d (List.mem_cons_self ..))
    rcases h with rfl | h
    · exact h1
    · exact ih _ h1 (fun d' hd' => hok d' (List.mem_cons_of_mem _ hd')) e' h

/-- one operation preserves the invariant -/
theorem step_inv (stratified : Bool) (e0 e : Exp) (op : Op)
    (hl : e0.strata.length = e0.group.length) (hinv : Inv stratified e0 e)
    (hok : OpOK stratified e0 op) : Inv stratified e0 (stepExp stratified e op) := by
  cases op with
  | randomize ip d =>
    simp only [stepExp]
    split
    · exact randomizeOnce_inv stratified e0 e d hl hinv hok
    · exact hinv
  | simNpc ip ds =>
    simp only [stepExp]
    split
    · exact getLastD_prop _ _ _ hinv (groupSeq_inv stratified e0 e ds hl hinv hok)
    · exact hinv
  | westfallYoung ip ds =>
    simp only [stepExp]
    split
    · exact getLastD_prop _ _ _ hinv (groupSeq_inv stratified e0 e ds hl hinv hok)
    · exact hinv

/-- over any sequence of randomize / sim_npc / westfall_young calls the invariant holds -/
theorem history_inv (stratified : Bool) (e0 : Exp) (ops : List Op)
    (hl : e0.strata.length = e0.group.length) (hok : ∀ op ∈ ops, OpOK stratified e0 op) :
    Inv stratified e0 (runHistory stratified e0 ops) ∧
    ∀ e ∈ historyStates stratified e0 ops, Inv stratified e0 e := by
  have key : ∀ (ops : List Op) (e : Exp), Inv stratified e0 e →
      (∀ op ∈ ops, OpOK stratified e0 op) →
      Inv stratified e0 (runHistory stratified e ops) ∧
      ∀ e' ∈ historyStates stratified e ops, Inv stratified e0 e' := by
    intro ops
    induction ops with
    | nil => intro e hinv _; exact ⟨hinv, fun e' h => by simp [historyStates] at h⟩
    | cons o rest ih =>
      intro e hinv hok
      have h1 := step_inv stratified e0 e o hl hinv (hok o (List.mem_cons_self ..))
      obtain ⟨h2, h3⟩ := ih _ h1 (fun op h => hok op (List.mem_cons_of_mem _ h))
      refine ⟨by simpa [runHistory] using h2, ?_⟩
      intro e' h
      simp only [historyStates, List.mem_cons] at h
      rcases h with rfl | h
      · exact h1
      · exact h3 e' h
  exact key ops e0 (inv_refl stratified e0) hok

/-- calls with in_place=False leave the Experiment identical -/
theorem not_in_place_id (stratified : Bool) (e : Exp) (d : List (List Nat)) (ds : List (List (List Nat))) :
    stepExp stratified e (.randomize false d) = e ∧
    stepExp stratified e (.simNpc false ds) = e ∧
    stepExp stratified e (.westfallYoung false ds) = e := by
  simp [stepExp]

/-- in_place=True changes nothing but the group assignment (no hypothesis on the draws needed) -/
theorem in_place_only_group (stratified : Bool) (e : Exp) (op : Op) :
    (stepExp stratified e op).response = e.response ∧ (stepExp stratified e op).strata = e.strata := by
  have hg : ∀ ds, ((groupSeq stratified e ds).getLastD e).response = e.response ∧
      ((groupSeq stratified e ds).getLastD e).strata = e.strata := fun ds =>
    getLastD_prop (fun x : Exp => x.response = e.response ∧ x.strata = e.strata) _ _ ⟨rfl, rfl⟩
      (groupSeq_resp_strata stratified e ds)
  cases op with
  | randomize ip d =>
    simp only [stepExp]
    split
    · exact ⟨randomizeOnce_response .., randomizeOnce_strata ..⟩
    · exact ⟨rfl, rfl⟩
  | simNpc ip ds =>
    simp only [stepExp]
    split
    · exact hg ds
    · exact ⟨rfl, rfl⟩
  | westfallYoung ip ds =>
    simp only [stepExp]
    split
    · exact hg ds
    · exact ⟨rfl, rfl⟩

/-- built-in test functions: mean_diff is the difference in means of the first group (sorted label
    order) against the second, and needs exactly two groups -/
theorem tfMeanDiff_spec (e : Exp) (i : Nat) (g0 g1 : Int) (h : uniqSorted e.group = [g0, g1]) :
    tfMeanDiff e i = .ok (mean (gather (respCol e i) (positionsOf e.group g0))
                          - mean (gather (respCol e i) (positionsOf e.group g1))) := by
  simp only [tfMeanDiff, h]

theorem tfMeanDiff_rejects (e : Exp) (i : Nat) (h : (uniqSorted e.group).length ≠ 2) :
    tfMeanDiff e i = .valueError ∧ tfTTestKey e i = .valueError := by
  unfold tfMeanDiff tfTTestKey
  constructor
  · split
    · next g0 g1 heq => rw [heq] at h; simp at h
    · rfl
  · split
    · next g0 g1 heq => rw [heq] at h; simp at h
    · rfl

/-- one_way_anova is the size-weighted between-group sum of squares -/
theorem tfOneWayAnova_spec (e : Exp) (i : Nat) :
    tfOneWayAnova e i = rsum ((uniqSorted e.group).map (fun k =>
      let gk := gather (respCol e i) (positionsOf e.group k)
      (mean gk - mean (respCol e i)) * (mean gk - mean (respCol e i)) * (gk.length : Rat))) := by
  rfl

/-- non-vacuity: a stratified history with admissible draws -/
example : (runHistory true ⟨[1, 0, 1, 0], [], [5, 5, 7, 7]⟩
    [.randomize true [[1, 0], [0, 0]], .simNpc false [[[0, 0], [1, 0]]]]).group = [0, 1, 1, 0] := by decide
example : DrawsOK true ⟨[1, 0, 1, 0], [], [5, 5, 7, 7]⟩ [[1, 0], [0, 0]] := by
  unfold DrawsOK; decide

end PV.Experiment