/-
  Props/Uniform2.lean — C04 (and the last sentences of C01 / C02): uniformity statements beyond
  "every order of distinct items is equally likely":
    * allocations to the two samples are uniform over all subsets of the right size,
    * the stratified helpers are uniform over all products of within-group orders,
    * label vectors with repeated labels: every distinct arrangement is equally likely.
  Also two small additions for C08 (Liptak's combining function for any increasing quantile
  function) and C14 (hypergeometric tails monotone in x).
  Statements are fixed; only proofs (and helper lemmas above them) may change.
-/
import PermuteVerif.Model.Tests
import PermuteVerif.Model.Tails
import PermuteVerif.Props.Shuffle
import PermuteVerif.Props.Shuffle2
import Mathlib.Data.List.Perm.Basic
import Mathlib.Data.List.Permutation
import Mathlib.Data.List.Nodup
import Mathlib.Data.List.Forall2
import Mathlib.Data.Finset.Basic
import Mathlib.Data.Finset.Card
import Mathlib.Data.Nat.Factorial.Basic
import Mathlib.Tactic.Linarith
import Mathlib.Tactic.Choose
import Mathlib.Data.List.ProdSigma
import Mathlib.Data.List.Perm.Subperm
import Mathlib.Tactic.Ring
import Mathlib.Tactic.Positivity
import Mathlib.Algebra.BigOperators.Group.List.Basic
import Mathlib.Algebra.Order.Field.Rat
namespace PV.Uniform2
open PV.Shuffle PV.Shuffle2

/-! ### helper lemmas: sums -/

theorem foldl_add_start (l : List Rat) (a : Rat) :
    l.foldl (· + ·) a = a + l.foldl (· + ·) 0 := by
  induction l generalizing a with
  | nil => simp
  | cons c l ih =>
    simp only [List.foldl_cons]
    rw [ih (a + c), ih (0 + c)]
    ring

theorem rsum_nil : rsum [] = 0 := rfl

theorem rsum_cons (a : Rat) (l : List Rat) : rsum (a :: l) = a + rsum l := by
  unfold rsum
  simp only [List.foldl_cons]
  rw [foldl_add_start l (0 + a)]
  ring

theorem rsum_nonneg (l : List Rat) (h : ∀ v ∈ l, 0 ≤ v) : 0 ≤ rsum l := by
  induction l with
  | nil => exact le_refl _
  | cons a l ih =>
    rw [rsum_cons]
    have h1 := h a (List.mem_cons_self ..)
    have h2 := ih (fun v hv => h v (List.mem_cons_of_mem _ hv))
    linarith

theorem rsum_sublist_le {l₁ l₂ : List Rat} (hs : l₁.Sublist l₂) (h : ∀ v ∈ l₂, 0 ≤ v) :
    rsum l₁ ≤ rsum l₂ := by
  induction hs with
  | slnil => exact le_refl _
  | @cons l₁ l₂ a _ ih =>
    rw [rsum_cons]
    have h1 := h a (List.mem_cons_self ..)
    have h2 := ih (fun v hv => h v (List.mem_cons_of_mem _ hv))
    linarith
  | @cons_cons l₁ l₂ a _ ih =>
    rw [rsum_cons, rsum_cons]
    have h2 := ih (fun v hv => h v (List.mem_cons_of_mem _ hv))
    linarith

theorem hyperPmf_nonneg' (N G n k : Nat) : 0 ≤ hyperPmf N G n k := by
  unfold hyperPmf
  split
  · exact le_refl _
  · positivity

/-! ### subsets of the right size -/

/-- For a duplicate-free pool of N units and every set S of nx of them, exactly nx!·(N−nx)! of the N!
    equally likely orders put precisely S into the first sample: every allocation is equally likely. -/
theorem alloc_fiber (l : List Nat) (hnd : l.Nodup) (nx : Nat) (hnx : nx ≤ l.length)
    (S : Finset Nat) (hS : S ⊆ l.toFinset) (hc : S.card = nx) :
    (l.permutations.countP (fun p => decide ((p.take nx).toFinset = S)))
      = nx.factorial * (l.length - nx).factorial := by
  classical
  set s := l.filter (fun a => decide (a ∈ S)) with hs
  set r := l.filter (fun a => !decide (a ∈ S)) with hr
  have hsnd : s.Nodup := hnd.filter _
  have hrnd : r.Nodup := hnd.filter _
  have hsS : s.toFinset = S := by
    ext a
    simp only [hs, List.mem_toFinset, List.mem_filter, decide_eq_true_eq]
    constructor
    · exact fun h => h.2
    · intro h; exact ⟨List.mem_toFinset.mp (hS h), h⟩
  have hslen : s.length = nx := by
    rw [← List.toFinset_card_of_nodup hsnd, hsS, hc]
  have hrlen : r.length = l.length - nx := by
    have := List.length_eq_length_filter_add (l := l) (fun a => decide (a ∈ S))
    rw [← hs, ← hr] at this
    omega
  have hsr : (s ++ r).Perm l := List.filter_append_perm _ l
  have hmemr : ∀ a, a ∈ r ↔ a ∈ l ∧ a ∉ S := by
    intro a; simp [hr]
  rw [List.countP_eq_length_filter]
  have key : (l.permutations.filter (fun p => decide ((p.take nx).toFinset = S))).Perm
      ((s.permutations ×ˢ r.permutations).map (fun ab => ab.1 ++ ab.2)) := by
    rw [List.perm_ext_iff_of_nodup]
    · intro p
      simp only [List.mem_filter, List.mem_permutations, decide_eq_true_eq, List.mem_map,
        List.mem_product, Prod.exists]
      constructor
      · rintro ⟨hp, hps⟩
        have hpnd : p.Nodup := hp.nodup_iff.mpr hnd
        have hpd : (p.take nx ++ p.drop nx).Nodup := by rwa [List.take_append_drop]
        refine ⟨p.take nx, p.drop nx, ⟨?_, ?_⟩, List.take_append_drop nx p⟩
        · exact List.perm_of_nodup_nodup_toFinset_eq (hpnd.sublist (List.take_sublist _ _)) hsnd
            (by rw [hps, hsS])
        · rw [List.perm_ext_iff_of_nodup (hpnd.sublist (List.drop_sublist _ _)) hrnd]
          intro a
          rw [hmemr]
          have hdisj := (List.nodup_append.mp hpd).2.2
          have hta : ∀ b, b ∈ p.take nx ↔ b ∈ S := by
            intro b; rw [← hps, List.mem_toFinset]
          constructor
          · intro ha
            refine ⟨hp.subset (List.mem_of_mem_drop ha), ?_⟩
            intro haS
            exact hdisj a ((hta a).mpr haS) a ha rfl
          · rintro ⟨hal, haS⟩
            have : a ∈ p.take nx ++ p.drop nx := by
              rw [List.take_append_drop]; exact hp.symm.subset hal
            rcases List.mem_append.mp this with h | h
            · exact absurd ((hta a).mp h) haS
            · exact h
      · rintro ⟨a, b, ⟨ha, hb⟩, rfl⟩
        have hal : a.length = nx := by rw [ha.length_eq, hslen]
        refine ⟨(ha.append hb).trans hsr, ?_⟩
        rw [List.take_left' hal, List.toFinset_eq_of_perm _ _ ha, hsS]
    · exact (List.nodup_permutations l hnd).filter _
    · refine List.Nodup.map_on ?_ ((List.nodup_permutations s hsnd).product
        (List.nodup_permutations r hrnd))
      rintro ⟨a, b⟩ hab ⟨a', b'⟩ hab' e
      simp only [List.mem_product, List.mem_permutations] at hab hab'
      have := List.append_inj e (by rw [hab.1.length_eq, hab'.1.length_eq])
      exact Prod.ext this.1 this.2
  rw [key.length_eq, List.length_map, List.length_product, List.length_permutations,
    List.length_permutations, hslen, hrlen]

/-- the same count in terms of the draw vectors of the CPython shuffle, from any starting order -/
theorem alloc_fiber_draws (rr : List Nat) (hnd : rr.Nodup) (nx : Nat) (hnx : nx ≤ rr.length)
    (S : Finset Nat) (hS : S ⊆ rr.toFinset) (hc : S.card = nx) :
    ((allValidJ rr.length).countP (fun js => decide (((pyShuffle rr js).take nx).toFinset = S)))
      = nx.factorial * (rr.length - nx).factorial := by
  rw [← alloc_fiber rr hnd nx hnx S hS hc, ← (pyShuffle_uniform rr hnd).countP_eq, List.countP_map]
  rfl

/-! ### repeated labels -/


theorem perm_map_lift {α β : Type} (g : α → β) {l₁ l₂ : List β} (h : l₁.Perm l₂) :
    ∀ L : List α, l₂ = L.map g → ∃ L' : List α, L'.Perm L ∧ l₁ = L'.map g := by
  induction h with
  | nil => intro L hL; exact ⟨L, List.Perm.refl _, hL⟩
  | cons x _ ih =>
    intro L hL
    cases L with
    | nil => simp at hL
    | cons y L =>
      rw [List.map_cons] at hL
      obtain ⟨h1, h2⟩ := List.cons.inj hL
      obtain ⟨L', hp, he⟩ := ih L h2
      exact ⟨y :: L', hp.cons y, by rw [List.map_cons, h1, he]⟩
  | swap x y l =>
    intro L hL
    cases L with
    | nil => simp at hL
    | cons a L =>
      cases L with
      | nil => simp at hL
      | cons b L =>
        simp only [List.map_cons, List.cons.injEq] at hL
        obtain ⟨h1, h2, h3⟩ := hL
        exact ⟨b :: a :: L, List.Perm.swap .., by simp [h1, h2, h3]⟩
  | trans _ _ ih1 ih2 =>
    intro L hL
    obtain ⟨L', hp, he⟩ := ih2 L hL
    obtain ⟨L'', hp', he'⟩ := ih1 L' he
    exact ⟨L'', hp'.trans hp, he'⟩

/-- one direction of the fiber comparison -/
theorem idx_fiber_le (n : Nat) (f : Nat → Int) (u u' : List Int) (h : u'.Perm u) :
    (List.range n).permutations.countP (fun σ => decide (σ.map f = u))
      ≤ (List.range n).permutations.countP (fun σ => decide (σ.map f = u')) := by
  -- u' = π.map (u.getD · 0) with π an order of the positions of u
  obtain ⟨π, hπ, hu'⟩ := perm_map_lift (fun i => u.getD i 0) h (List.range u.length)
    (range_map_getD u 0).symm
  rw [List.countP_eq_length_filter, List.countP_eq_length_filter]
  set A := (List.range n).permutations.filter (fun σ => decide (σ.map f = u)) with hA
  set B := (List.range n).permutations.filter (fun σ => decide (σ.map f = u')) with hB
  let φ : List Nat → List Nat := fun σ => π.map (fun i => σ.getD i 0)
  have hAnd : A.Nodup := (List.nodup_permutations _ List.nodup_range).filter _
  have hmemA : ∀ σ, σ ∈ A → σ.Perm (List.range n) ∧ σ.map f = u ∧ σ.length = u.length := by
    intro σ hσ
    simp only [hA, List.mem_filter, List.mem_permutations, decide_eq_true_eq] at hσ
    refine ⟨hσ.1, hσ.2, ?_⟩
    rw [← hσ.2, List.length_map]
  have hinj : ∀ σ ∈ A, ∀ σ' ∈ A, φ σ = φ σ' → σ = σ' := by
    intro σ hσ σ' hσ' e
    obtain ⟨_, _, hl⟩ := hmemA σ hσ
    obtain ⟨_, _, hl'⟩ := hmemA σ' hσ'
    have e' := List.map_inj_left.mp e
    apply List.ext_getElem (by rw [hl, hl'])
    intro i h1 h2
    have hi : i ∈ π := hπ.symm.subset (List.mem_range.mpr (by omega))
    have := e' i hi
    simpa [h1, h2] using this
  have hsub : A.map φ ⊆ B := by
    intro τ hτ
    rw [List.mem_map] at hτ
    obtain ⟨σ, hσ, rfl⟩ := hτ
    obtain ⟨hp, hm, hl⟩ := hmemA σ hσ
    simp only [hB, List.mem_filter, List.mem_permutations, decide_eq_true_eq]
    constructor
    · have h1 : (φ σ).Perm ((List.range σ.length).map (fun i => σ.getD i 0)) := by
        rw [hl]; exact hπ.map _
      rw [range_map_getD] at h1
      exact h1.trans hp
    · rw [hu']
      show (π.map (fun i => σ.getD i 0)).map f = _
      rw [List.map_map]
      apply List.map_congr_left
      intro i hi
      have hi' : i < u.length := List.mem_range.mp (hπ.subset hi)
      have hi'' : i < σ.length := by omega
      simp only [Function.comp]
      subst hm
      simp [hi'']
  have hnd' : (A.map φ).Nodup := List.Nodup.map_on hinj hAnd
  have := (List.subperm_of_subset hnd' hsub).length_le
  rwa [List.length_map] at this

theorem idx_fiber_const (n : Nat) (f : Nat → Int) (u u' : List Int) (h : u'.Perm u) :
    (List.range n).permutations.countP (fun σ => decide (σ.map f = u))
      = (List.range n).permutations.countP (fun σ => decide (σ.map f = u')) :=
  Nat.le_antisymm (idx_fiber_le n f u u' h) (idx_fiber_le n f u' u h.symm)

/-- For a label vector with repeats, any two arrangements of it are produced by the same number of
    valid offset vectors: every *distinct* arrangement is equally likely. -/
theorem fy_fiber_const (l t t' : List Int) (ht : t.Perm l) (ht' : t'.Perm l) :
    (allValidC l.length).countP (fun cs => decide (fy l cs = t))
      = (allValidC l.length).countP (fun cs => decide (fy l cs = t')) := by
  have key : ∀ u : List Int, (allValidC l.length).countP (fun cs => decide (fy l cs = u))
      = (List.range l.length).permutations.countP
          (fun σ => decide (σ.map (fun i => l.getD i 0) = u)) := by
    intro u
    have h := fy_count_transfer (List.range l.length) List.nodup_range
      (fun σ => decide (σ.map (fun i => l.getD i 0) = u))
    rw [List.length_range] at h
    rw [← h]
    congr 1
    funext cs
    rw [← fy_map, range_map_getD]
  rw [key t, key t']
  exact idx_fiber_const _ _ t t' (ht'.trans ht.symm)

theorem sbi_fiber_const (l t t' : List Int) (ht : t.Perm l) (ht' : t'.Perm l) :
    (allValidC l.length).countP (fun cs => decide (sbi l cs = t))
      = (allValidC l.length).countP (fun cs => decide (sbi l cs = t')) := by
  have key : ∀ u : List Int, (allValidC l.length).countP (fun cs => decide (sbi l cs = u))
      = (List.range l.length).permutations.countP
          (fun σ => decide (σ.map (fun i => l.getD i 0) = u)) := by
    intro u
    have h := (sbi_uniform (List.range l.length) List.nodup_range).countP_eq
      (fun σ => decide (σ.map (fun i => l.getD i 0) = u))
    rw [List.length_range, List.countP_map] at h
    rw [← h]
    congr 1
    funext cs
    simp only [Function.comp]
    rw [← sbi_map, range_map_getD]
  rw [key t, key t']
  exact idx_fiber_const _ _ t t' (ht'.trans ht.symm)

/-! ### products of within-group orders -/

/-- all tuples of valid offset vectors, one per stratum size -/
def allStrataDraws : List Nat → List (List (List Nat))
  | [] => [[]]
  | n :: rest => (allValidC n).flatMap (fun cs => (allStrataDraws rest).map (fun ds => cs :: ds))

/-- stratum sizes in the order permute_within_groups visits them -/
def strataSizes (group : List Int) : List Nat :=
  (uniqSorted group).map (fun g => (positionsOf group g).length)

theorem foldl_mul_start (l : List Nat) (a : Nat) :
    l.foldl (· * ·) a = a * l.foldl (· * ·) 1 := by
  induction l generalizing a with
  | nil => simp
  | cons c l ih =>
    simp only [List.foldl_cons]
    rw [ih (a * c), ih (1 * c)]
    ring

theorem allStrataDraws_length (sizes : List Nat) :
    (allStrataDraws sizes).length = (sizes.map Nat.factorial).foldl (· * ·) 1 := by
  induction sizes with
  | nil => simp [allStrataDraws]
  | cons n rest ih =>
    rw [allStrataDraws, List.length_flatMap]
    simp only [List.length_map, List.map_const', List.sum_replicate, allValidC_length]
    show _ = _
    rw [List.map_cons, List.foldl_cons, foldl_mul_start _ (1 * n.factorial), ih]
    ring

theorem mem_allStrataDraws (sizes : List Nat) (ds : List (List Nat)) :
    ds ∈ allStrataDraws sizes ↔ List.Forall₂ (fun n cs => ValidC n cs) sizes ds := by
  induction sizes generalizing ds with
  | nil =>
    simp only [allStrataDraws, List.mem_singleton, List.forall₂_nil_left_iff]
  | cons n rest ih =>
    simp only [allStrataDraws, List.mem_flatMap, List.mem_map, mem_allValidC]
    constructor
    · rintro ⟨cs, hcs, ds', hds', rfl⟩
      exact List.Forall₂.cons hcs ((ih ds').mp hds')
    · intro h
      cases h with
      | cons h1 h2 => exact ⟨_, h1, _, (ih _).mpr h2, rfl⟩

theorem allStrataDraws_nodup (sizes : List Nat) : (allStrataDraws sizes).Nodup := by
  induction sizes with
  | nil => simp [allStrataDraws]
  | cons n rest ih =>
    rw [allStrataDraws, List.nodup_flatMap]
    refine ⟨fun c _ => ih.map (fun a b h => (List.cons.inj h).2), ?_⟩
    refine List.Nodup.pairwise_of_forall_ne (allValidC_nodup n) ?_
    intro a _ b _ hab l hl1 hl2
    simp only [List.mem_map] at hl1 hl2
    obtain ⟨u, _, rfl⟩ := hl1
    obtain ⟨v, _, hv⟩ := hl2
    exact hab (List.cons.inj hv).1.symm

/-! uniqSorted -/

theorem ins_perm {α : Type} (le : α → α → Bool) (a : α) (l : List α) : (ins le a l).Perm (a :: l) := by
  induction l with
  | nil => simp [ins]
  | cons b t ih =>
    simp only [ins]
    split
    · exact List.Perm.refl _
    · exact (ih.cons b).trans (List.Perm.swap ..)

theorem isort_perm {α : Type} (le : α → α → Bool) (l : List α) : (isort le l).Perm l := by
  induction l with
  | nil => simp [isort]
  | cons a t ih =>
    have : isort le (a :: t) = ins le a (isort le t) := rfl
    rw [this]
    exact (ins_perm le a _).trans (ih.cons a)

theorem eraseDups_nodup_aux (n : Nat) : ∀ l : List Int, l.length ≤ n → l.eraseDups.Nodup := by
  induction n with
  | zero =>
    intro l hl
    have : l = [] := List.eq_nil_of_length_eq_zero (by omega)
    subst this; simp
  | succ n ih =>
    intro l hl
    cases l with
    | nil => simp
    | cons a l =>
      rw [List.eraseDups_cons, List.nodup_cons]
      constructor
      · rw [List.mem_eraseDups, List.mem_filter]
        rintro ⟨_, h⟩
        simp at h
      · apply ih
        have := List.length_filter_le (fun b => !b == a) l
        simp only [List.length_cons] at hl
        omega

theorem uniqSorted_nodup (group : List Int) : (uniqSorted group).Nodup :=
  eraseDups_nodup_aux _ _ (le_refl _)

theorem mem_uniqSorted (group : List Int) (g : Int) : g ∈ uniqSorted group ↔ g ∈ group := by
  unfold uniqSorted
  rw [List.mem_eraseDups]
  exact (isort_perm _ group).mem_iff

/-! gather -/

theorem gather_nodup (x : List Nat) (hnd : x.Nodup) (idx : List Nat) (hi : idx.Nodup)
    (hr : ∀ i ∈ idx, i < x.length) : (gather x idx).Nodup := by
  unfold gather
  refine List.Nodup.map_on ?_ hi
  intro i hi' j hj e
  have h1 := hr i hi'
  have h2 := hr j hj
  simp only [List.getD_eq_getElem?_getD, List.getElem?_eq_getElem h1,
    List.getElem?_eq_getElem h2, Option.getD_some] at e
  exact (hnd.getElem_inj_iff).mp e

theorem gather_pos_nodup (x : List Nat) (hnd : x.Nodup) (group : List Int)
    (hl : group.length = x.length) (g : Int) : (gather x (positionsOf group g)).Nodup :=
  gather_nodup x hnd _ (positionsOf_nodup ..) (fun _ hi => hl ▸ positionsOf_lt _ _ _ hi)

/-- two lists of the same length as `group` whose gathers agree on every stratum are equal -/
theorem eq_of_gather_eq (group : List Int) (a b : List Nat) (ha : a.length = group.length)
    (hb : b.length = group.length)
    (h : ∀ g ∈ group, gather a (positionsOf group g) = gather b (positionsOf group g)) : a = b := by
  apply List.ext_getElem (by rw [ha, hb])
  intro i h1 h2
  have hi : i < group.length := by omega
  have hg := h group[i] (List.getElem_mem hi)
  unfold gather at hg
  have := List.map_inj_left.mp hg i ((mem_positionsOf _ _ _).mpr (List.getElem?_eq_getElem hi))
  simpa [h1, h2] using this

/-! the fold -/

theorem pwgFold_gather_notin (group : List Int) (gds : List (Int × List Nat)) (acc : List Nat)
    (g : Int) (hg : g ∉ gds.map Prod.fst) :
    gather (gds.foldl (pwgStep group) acc) (positionsOf group g) = gather acc (positionsOf group g) := by
  induction gds generalizing acc with
  | nil => rfl
  | cons gd gds ih =>
    rw [List.foldl_cons]
    rw [List.map_cons, List.mem_cons, not_or] at hg
    rw [ih _ hg.2, pwgStep_gather_other group acc gd g hg.1]

theorem pwgFold_gather_in (group : List Int) (gds : List (Int × List Nat)) (acc : List Nat)
    (hl : group.length = acc.length) (hnd : (gds.map Prod.fst).Nodup)
    (g : Int) (cs : List Nat) (hm : (g, cs) ∈ gds) :
    gather (gds.foldl (pwgStep group) acc) (positionsOf group g)
      = fy (gather acc (positionsOf group g)) cs := by
  induction gds generalizing acc with
  | nil => simp at hm
  | cons gd gds ih =>
    rw [List.foldl_cons]
    rw [List.map_cons, List.nodup_cons] at hnd
    rcases List.mem_cons.mp hm with h | h
    · subst h
      rw [pwgFold_gather_notin group gds _ _ hnd.1]
      exact pwgStep_gather_same group acc _ hl
    · have hne : g ≠ gd.1 := by
        rintro rfl
        exact hnd.1 (List.mem_map.mpr ⟨_, h, rfl⟩)
      rw [ih _ (by rw [pwgStep_length]; exact hl) hnd.2 h, pwgStep_gather_other group acc gd g hne]

theorem zip_map_fst_nodup (gs : List Int) (ds : List (List Nat)) (h : gs.Nodup)
    (hlen : gs.length = ds.length) : ((gs.zip ds).map Prod.fst).Nodup := by
  rw [List.map_fst_zip (by omega)]; exact h

theorem zip_unique (gs : List Int) (ds ds' : List (List Nat)) (h : gs.length = ds.length)
    (h' : gs.length = ds'.length)
    (hu : ∀ g cs cs', (g, cs) ∈ gs.zip ds → (g, cs') ∈ gs.zip ds' → cs = cs') : ds = ds' := by
  induction gs generalizing ds ds' with
  | nil =>
    have h1 : ds = [] := List.eq_nil_of_length_eq_zero (by simpa using h.symm)
    have h2 : ds' = [] := List.eq_nil_of_length_eq_zero (by simpa using h'.symm)
    rw [h1, h2]
  | cons g gs ih =>
    cases ds with
    | nil => simp at h
    | cons d ds =>
      cases ds' with
      | nil => simp at h'
      | cons d' ds' =>
        have e1 : d = d' := hu g d d' (by simp) (by simp)
        have e2 : ds = ds' := ih ds ds' (by simpa using h) (by simpa using h')
          (fun g cs cs' hm hm' => hu g cs cs' (by simp [hm]) (by simp [hm']))
        rw [e1, e2]

/-- For duplicate-free data, different draw tuples give different within-group rearrangements: the
    Π n_g! equally likely draw tuples are in bijection with the products of within-group orders. -/
theorem pwg_injective (x : List Nat) (hnd : x.Nodup) (group : List Int) (hl : group.length = x.length) :
    ((allStrataDraws (strataSizes group)).map (permuteWithinGroups x group)).Nodup := by
  refine List.Nodup.map_on ?_ (allStrataDraws_nodup _)
  intro ds hds ds' hds' e
  rw [mem_allStrataDraws, strataSizes, List.forall₂_map_left_iff] at hds hds'
  apply zip_unique (uniqSorted group) ds ds' hds.length_eq hds'.length_eq
  intro g cs cs' hm hm'
  have hv := List.forall₂_zip hds hm
  have hv' := List.forall₂_zip hds' hm'
  have h1 := pwgFold_gather_in group _ x hl
    (zip_map_fst_nodup _ ds (uniqSorted_nodup group) hds.length_eq) g cs hm
  have h2 := pwgFold_gather_in group _ x hl
    (zip_map_fst_nodup _ ds' (uniqSorted_nodup group) hds'.length_eq) g cs' hm'
  rw [pwg_eq_foldl, pwg_eq_foldl] at e
  rw [e] at h1
  have h3 := h1.symm.trans h2
  exact fy_inj _ (gather_pos_nodup x hnd group hl g) cs cs' (by rw [gather_length]; exact hv)
    (by rw [gather_length]; exact hv') h3

/-- … and every product of within-group orders is reached -/
theorem pwg_surjective (x : List Nat) (hnd : x.Nodup) (group : List Int) (hl : group.length = x.length)
    (t : List Nat) (hlen : t.length = x.length)
    (ht : ∀ g, (gather t (positionsOf group g)).Perm (gather x (positionsOf group g))) :
    t ∈ (allStrataDraws (strataSizes group)).map (permuteWithinGroups x group) := by
  have hex : ∀ g, ∃ cs, ValidC (positionsOf group g).length cs ∧
      fy (gather x (positionsOf group g)) cs = gather t (positionsOf group g) := by
    intro g
    obtain ⟨cs, hv, hf⟩ := fy_exists _ _ (gather_pos_nodup x hnd group hl g) (ht g)
    rw [gather_length] at hv
    exact ⟨cs, hv, hf⟩
  choose c hc using hex
  rw [List.mem_map]
  refine ⟨(uniqSorted group).map c, ?_, ?_⟩
  · rw [mem_allStrataDraws, strataSizes, List.forall₂_map_left_iff, List.forall₂_map_right_iff,
      List.forall₂_same]
    intro g _
    exact (hc g).1
  · apply eq_of_gather_eq group _ _ ((pwg_length ..).trans hl.symm) (hlen.trans hl.symm)
    intro g hg
    rw [pwg_eq_foldl, pwgFold_gather_in group _ x hl
      (zip_map_fst_nodup _ _ (uniqSorted_nodup group) (by simp)) g (c g) ?_]
    · exact (hc g).2
    · rw [← List.map_prod_left_eq_zip, List.mem_map]
      exact ⟨g, (mem_uniqSorted group g).mpr hg, rfl⟩

/-! ### C08: Liptak for any non-decreasing quantile function; C14: hypergeometric tails in x -/

/-- Liptak's combining function Σ q(1 − p_i) with q any non-decreasing function (the normal quantile
    function in the code) is non-increasing in every argument -/
theorem liptak_antitone (q : Rat → Rat) (hq : Monotone q) (a b : List Rat)
    (h : List.Forall₂ (· ≤ ·) a b) :
    rsum (b.map (fun p => q (1 - p))) ≤ rsum (a.map (fun p => q (1 - p))) := by
  induction h with
  | nil => exact le_refl _
  | @cons x y a' b' hxy _ ih =>
    rw [List.map_cons, List.map_cons, rsum_cons, rsum_cons]
    have : q (1 - y) ≤ q (1 - x) := hq (by linarith)
    linarith

theorem hyperSf_antitone (N G n : Nat) (x x' : Nat) (h : x ≤ x') :
    hyperSf N G n x' ≤ hyperSf N G n x := by
  unfold hyperSf
  apply rsum_sublist_le
  · apply List.Sublist.map
    apply List.monotone_filter_right
    intro k hk
    simp only [decide_eq_true_eq] at hk ⊢
    omega
  · intro v hv
    rw [List.mem_map] at hv
    obtain ⟨k, _, rfl⟩ := hv
    exact hyperPmf_nonneg' N G n k

theorem hyperCdf_monotone (N G n : Nat) (x x' : Nat) (h : x ≤ x') (hx' : x' ≤ n) :
    hyperCdf N G n x ≤ hyperCdf N G n x' := by
  unfold hyperCdf
  apply rsum_sublist_le
  · apply List.Sublist.map
    rw [List.range_sublist]
    omega
  · intro v hv
    rw [List.mem_map] at hv
    obtain ⟨k, _, rfl⟩ := hv
    exact hyperPmf_nonneg' N G n k

end PV.Uniform2
