import PermuteVerif.Model.NPC
import Mathlib.Analysis.SpecialFunctions.Log.Basic
import Mathlib.Tactic.Linarith

/-!
# Fisher's combining function: the logarithm-free key is faithful

The code computes `-2 * sum(log p)`; the exact model orders rows by `fisherKey p = -(product of p)`.  For p-values in
(0, 1] (every p-value the library produces is positive) the two orders coincide, ties included.
-/

namespace PV.Recode
open PV

/-- Fisher's statistic as the real number the code approximates -/
noncomputable def fisherR (p : List Rat) : ℝ := -2 * (p.map (fun t => Real.log ((t : Rat) : ℝ))).sum

theorem foldl_mul_pos (p : List Rat) (a : Rat) (ha : 0 < a) (hp : ∀ t ∈ p, 0 < t) : 0 < p.foldl (· * ·) a := by
  induction p generalizing a with
  | nil => simpa
  | cons x xs ih =>
    simp only [List.foldl_cons]
    exact ih (a * x) (mul_pos ha (hp x (by simp))) (fun t ht => hp t (by simp [ht]))

theorem log_foldl_mul (p : List Rat) (a : Rat) (ha : 0 < a) (hp : ∀ t ∈ p, 0 < t) :
    Real.log (((p.foldl (· * ·) a : Rat)) : ℝ) = Real.log (a : ℝ) + (p.map (fun t => Real.log ((t : Rat) : ℝ))).sum := by
  induction p generalizing a with
  | nil => simp
  | cons x xs ih =>
    have hx : 0 < x := hp x (by simp)
    simp only [List.foldl_cons, List.map_cons, List.sum_cons]
    rw [ih (a * x) (mul_pos ha hx) (fun t ht => hp t (by simp [ht]))]
    push_cast
    have haR : (0 : ℝ) < (a : ℝ) := by exact_mod_cast ha
    have hxR : (0 : ℝ) < (x : ℝ) := by exact_mod_cast hx
    rw [Real.log_mul haR.ne' hxR.ne']
    ring

/-- Fisher's statistic is `-2 log` of the product the model keys on -/
theorem fisherR_eq (p : List Rat) (hp : ∀ t ∈ p, 0 < t) :
    fisherR p = -2 * Real.log ((-(fisherKey p) : Rat) : ℝ) := by
  unfold fisherR fisherKey
  rw [neg_neg, log_foldl_mul p 1 one_pos hp]
  simp

/-- **order embedding**: rows are ordered by the model's key exactly as by Fisher's statistic -/
theorem fisherKey_le_iff (p q : List Rat) (hp : ∀ t ∈ p, 0 < t) (hq : ∀ t ∈ q, 0 < t) :
    fisherKey p ≤ fisherKey q ↔ fisherR p ≤ fisherR q := by
  rw [fisherR_eq p hp, fisherR_eq q hq]
  have h1 : 0 < p.foldl (· * ·) (1 : Rat) := foldl_mul_pos p 1 one_pos hp
  have h2 : 0 < q.foldl (· * ·) (1 : Rat) := foldl_mul_pos q 1 one_pos hq
  unfold fisherKey
  rw [neg_neg, neg_neg]
  have h1R : (0 : ℝ) < ((p.foldl (· * ·) (1 : Rat) : Rat) : ℝ) := by exact_mod_cast h1
  have h2R : (0 : ℝ) < ((q.foldl (· * ·) (1 : Rat) : Rat) : ℝ) := by exact_mod_cast h2
  constructor
  · intro h
    have h' : ((q.foldl (· * ·) (1 : Rat) : Rat) : ℝ) ≤ ((p.foldl (· * ·) (1 : Rat) : Rat) : ℝ) := by
      exact_mod_cast neg_le_neg_iff.1 h
    have := Real.log_le_log h2R h'
    linarith
  · intro h
    have hl : Real.log ((q.foldl (· * ·) (1 : Rat) : Rat) : ℝ) ≤ Real.log ((p.foldl (· * ·) (1 : Rat) : Rat) : ℝ) := by linarith
    have := (Real.log_le_log_iff h2R h1R).1 hl
    have h' : q.foldl (· * ·) (1 : Rat) ≤ p.foldl (· * ·) (1 : Rat) := by exact_mod_cast this
    exact neg_le_neg h'

theorem fisherKey_eq_iff (p q : List Rat) (hp : ∀ t ∈ p, 0 < t) (hq : ∀ t ∈ q, 0 < t) :
    fisherKey p = fisherKey q ↔ fisherR p = fisherR q := by
  rw [le_antisymm_iff, le_antisymm_iff, fisherKey_le_iff p q hp hq, fisherKey_le_iff q p hq hp]

/-- non-vacuity -/
example : ∀ t ∈ ([1/2, 1/3, 1] : List Rat), 0 < t := by decide +kernel

end PV.Recode
