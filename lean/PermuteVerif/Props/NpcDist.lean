import PermuteVerif.Model.NPC
import PermuteVerif.Props.Uniform2
import Mathlib.Tactic.Ring

/-!
# irr.simulate_npc_dist: the documented formula (C18)

Per-stratum p-values are `(#{simulated values ≥ reference} + c)/(B + c)` column by column (or the p-values the caller
supplied), the combined statistic is the inverse-root-n weighted sum `−Σ_j w_j p_j` of exactly those p-values, and a
call with neither references nor p-values is rejected.
-/

namespace PV.NpcDist
open PV PV.Uniform2

theorem rejects (D : List (List Rat)) (w : List Rat) (plus1 : Bool) :
    simulateNpcDist D w none none plus1 = .valueError := by
  simp [simulateNpcDist]

/-- references supplied: the p-values are the per-column upper counts, and the statistic is the weighted sum of them -/
theorem from_references (D : List (List Rat)) (w t : List Rat) (plus1 : Bool) (r : Rat × Rat × List Rat)
    (h : simulateNpcDist D w (some t) none plus1 = .ok r) :
    r.2.2 = t.zipIdx.map (fun tj => ((cntGe (column D tj.2) tj.1 + c1 plus1 : Nat) : Rat) / ((D.length + c1 plus1 : Nat) : Rat))
    ∧ r.1 = invNWeight w r.2.2 := by
  simp only [simulateNpcDist, Option.getD_some] at h
  split at h
  · injection h with h; subst h; exact ⟨rfl, rfl⟩
  · exact absurd h (by simp)

/-- p-values supplied: they are used as given -/
theorem from_pvalues (D : List (List Rat)) (w p : List Rat) (t : Option (List Rat)) (plus1 : Bool) (r : Rat × Rat × List Rat)
    (h : simulateNpcDist D w t (some p) plus1 = .ok r) :
    r.2.2 = p ∧ r.1 = invNWeight w p := by
  cases t <;>
  · simp only [simulateNpcDist] at h
    split at h
    · injection h with h; subst h; exact ⟨rfl, rfl⟩
    · exact absurd h (by simp)

/-- the statistic is `−Σ_j w_j p_j` -/
theorem invNWeight_eq (w p : List Rat) : invNWeight w p = -(rsum (List.zipWith (fun a b => a * b) w p)) := by
  unfold invNWeight
  induction w generalizing p with
  | nil => simp [rsum]
  | cons a ws ih =>
    cases p with
    | nil => simp [rsum]
    | cons b ps =>
      simp only [List.zipWith_cons_cons]
      rw [rsum_cons, rsum_cons, ih ps]; ring

/-- non-vacuity: a call that succeeds, with its per-stratum p-values and statistic -/
example : (match simulateNpcDist [[1, 0], [0, 1], [1, 1]] [1, 1/2] (some [1, 1]) none false with
    | .ok r => (r.1, r.2.2) | .valueError => (0, [])) = (-1, [2/3, 2/3]) := by decide +kernel

end PV.NpcDist
