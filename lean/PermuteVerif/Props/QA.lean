/-
  Props/QA.lean — C20: duplicate-row finders report exactly the repeated rows.
  Statements are fixed; only proofs (and helper lemmas above them) may change.
-/
import PermuteVerif.Model.QA
import Mathlib.Data.List.Basic
import Mathlib.Data.List.Count
import Mathlib.Data.List.Perm.Basic
import Mathlib.Tactic.Linarith
namespace PV.QA
/-! ### helper lemmas: insertion sort -/

theorem qa_ins_perm {α : Type} (le : α → α → Bool) (a : α) (l : List α) :
    (ins le a l).Perm (a :: l) := by
  induction l with
  | nil => simp [ins]
  | cons b t ih =>
    simp only [ins]
    split
    · exact List.Perm.refl _
    · exact (List.Perm.cons b ih).trans (List.Perm.swap a b t)

theorem qa_isort_cons {α : Type} (le : α → α → Bool) (a : α) (l : List α) :
    isort le (a :: l) = ins le a (isort le l) := rfl

theorem qa_isort_perm {α : Type} (le : α → α → Bool) (l : List α) : (isort le l).Perm l := by
  induction l with
  | nil => exact List.Perm.refl _
  | cons a t ih =>
    rw [qa_isort_cons]
    exact (qa_ins_perm le a _).trans (List.Perm.cons a ih)

theorem qa_ins_sorted {α : Type} (le : α → α → Bool)
    (htot : ∀ a b, le a b = true ∨ le b a = true)
    (htr : ∀ a b c, le a b = true → le b c = true → le a c = true)
    (a : α) (l : List α) (hl : l.Pairwise (fun a b => le a b = true)) :
    (ins le a l).Pairwise (fun a b => le a b = true) := by
  induction l with
  | nil => simp [ins]
  | cons b t ih =>
    simp only [ins]
    rw [List.pairwise_cons] at hl
    split
    · rename_i hab
      rw [List.pairwise_cons]
      refine ⟨?_, List.pairwise_cons.mpr hl⟩
      intro c hc
      rcases List.mem_cons.mp hc with rfl | hc
      · exact hab
      · exact htr _ _ _ hab (hl.1 c hc)
    · rename_i hab
      rw [List.pairwise_cons]
      refine ⟨?_, ih hl.2⟩
      intro c hc
      have hc' : c ∈ a :: t := (qa_ins_perm le a t).subset hc
      rcases List.mem_cons.mp hc' with rfl | hc'
      · rcases htot c b with h | h
        · exact absurd h hab
        · exact h
      · exact hl.1 c hc'

theorem qa_isort_sorted {α : Type} (le : α → α → Bool)
    (htot : ∀ a b, le a b = true ∨ le b a = true)
    (htr : ∀ a b c, le a b = true → le b c = true → le a c = true)
    (l : List α) : (isort le l).Pairwise (fun a b => le a b = true) := by
  induction l with
  | nil => exact List.Pairwise.nil
  | cons a t ih =>
    rw [qa_isort_cons]
    exact qa_ins_sorted le htot htr a _ ih

/-! ### lexLe is a total order -/

theorem qa_lexLe_total (a b : List Int) : lexLe a b = true ∨ lexLe b a = true := by
  induction a generalizing b with
  | nil => left; simp [lexLe]
  | cons x xs ih =>
    cases b with
    | nil => right; simp [lexLe]
    | cons y ys =>
      simp only [lexLe, Bool.or_eq_true, Bool.and_eq_true, decide_eq_true_eq, beq_iff_eq]
      rcases lt_trichotomy x y with h | h | h
      · left; left; exact h
      · rcases ih ys with h' | h'
        · left; right; exact ⟨h, h'⟩
        · right; right; exact ⟨h.symm, h'⟩
      · right; left; exact h

theorem qa_lexLe_trans (a b c : List Int) (h1 : lexLe a b = true) (h2 : lexLe b c = true) :
    lexLe a c = true := by
  induction a generalizing b c with
  | nil => simp [lexLe]
  | cons x xs ih =>
    cases b with
    | nil => simp [lexLe] at h1
    | cons y ys =>
      cases c with
      | nil => simp [lexLe] at h2
      | cons z zs =>
        simp only [lexLe, Bool.or_eq_true, Bool.and_eq_true, decide_eq_true_eq, beq_iff_eq]
          at h1 h2 ⊢
        rcases h1 with h1 | ⟨h1, h1'⟩
        · rcases h2 with h2 | ⟨h2, _⟩
          · left; omega
          · left; omega
        · rcases h2 with h2 | ⟨h2, h2'⟩
          · left; omega
          · right; exact ⟨by omega, ih ys zs h1' h2'⟩

theorem qa_lexLe_antisymm (a b : List Int) (h1 : lexLe a b = true) (h2 : lexLe b a = true) :
    a = b := by
  induction a generalizing b with
  | nil =>
    cases b with
    | nil => rfl
    | cons y ys => simp [lexLe] at h2
  | cons x xs ih =>
    cases b with
    | nil => simp [lexLe] at h1
    | cons y ys =>
      simp only [lexLe, Bool.or_eq_true, Bool.and_eq_true, decide_eq_true_eq, beq_iff_eq]
        at h1 h2
      rcases h1 with h1 | ⟨h1, h1'⟩
      · rcases h2 with h2 | ⟨h2, _⟩ <;> omega
      · rcases h2 with h2 | ⟨_, h2'⟩
        · omega
        · rw [h1, ih ys h1' h2']

theorem qa_rowLe_total (a b : List Int) : rowLe a b = true ∨ rowLe b a = true :=
  qa_lexLe_total _ _

theorem qa_rowLe_trans (a b c : List Int) (h1 : rowLe a b = true) (h2 : rowLe b c = true) :
    rowLe a c = true := qa_lexLe_trans _ _ _ h1 h2

theorem qa_rowLe_antisymm (a b : List Int) (h1 : rowLe a b = true) (h2 : rowLe b a = true) :
    a = b := List.reverse_injective (qa_lexLe_antisymm _ _ h1 h2)

/-! ### adjacent duplicates of a sorted list -/

theorem qa_adjDups_count_sorted (r : List Int) (l : List (List Int))
    (hl : l.Pairwise (fun a b => rowLe a b = true)) :
    (adjDups l).count r = l.count r - 1 := by
  induction l with
  | nil => simp [adjDups]
  | cons a t ih =>
    cases t with
    | nil => simp [adjDups, List.count_cons]; split <;> rfl
    | cons b t =>
      have hl' := hl
      rw [List.pairwise_cons] at hl
      have ih' := ih hl.2
      simp only [adjDups]
      by_cases hab : a = b
      · subst hab
        simp only [if_true]
        rw [List.count_cons, ih', List.count_cons (a := r) (b := a) (l := a :: t)]
        by_cases har : a = r
        · subst har
          have : 0 < (a :: t).count a := List.count_pos_iff.mpr (List.mem_cons_self)
          simp only [beq_self_eq_true, if_true]
          omega
        · simp [har]
      · simp only [hab, if_false]
        rw [ih', List.count_cons (a := r) (b := a) (l := b :: t)]
        by_cases har : a = r
        · subst har
          have hnot : a ∉ b :: t := by
            intro hmem
            rcases List.mem_cons.mp hmem with h | h
            · exact hab h
            · have h1 : rowLe a b = true := hl.1 b (List.mem_cons_self)
              have h2 : rowLe b a = true := (List.pairwise_cons.mp hl.2).1 a h
              exact hab (qa_rowLe_antisymm a b h1 h2)
          have : (b :: t).count a = 0 := List.count_eq_zero_of_not_mem hnot
          simp [this]
        · simp [har]

/-- C20 (find_duplicate_rows): every row value that occurs m times in the array is reported exactly
    m − 1 times (truncated subtraction: rows that occur once or never are not reported). -/
theorem dups_count (x : List (List Int)) (r : List Int) :
    (findDuplicateRows x).count r = x.count r - 1 := by
  unfold findDuplicateRows
  rw [qa_adjDups_count_sorted r _ (qa_isort_sorted rowLe qa_rowLe_total qa_rowLe_trans x),
    (qa_isort_perm rowLe x).count_eq]

/-- C20 (find_consecutive_duplicate_rows): exactly one copy of row i+1 for every i with
    row i+1 = row i, in order of occurrence. -/
theorem consec_spec (x : List (List Int)) :
    findConsecutiveDuplicateRows x
      = ((x.zip x.tail).filter (fun p => decide (p.2 = p.1))).map Prod.snd := by
  induction x with
  | nil => simp [findConsecutiveDuplicateRows]
  | cons a t ih =>
    cases t with
    | nil => simp [findConsecutiveDuplicateRows]
    | cons b t =>
      simp only [findConsecutiveDuplicateRows, List.tail_cons, List.zip_cons_cons] at ih ⊢
      rw [List.filter_cons]
      by_cases hba : b = a
      · subst hba
        simp only [if_true, decide_true, List.map_cons]
        rw [ih]
      · simp only [hba, if_false, decide_false]
        rw [ih]
        simp

/-- nothing is reported that does not occur at least twice -/
theorem dups_mem (x : List (List Int)) (r : List Int) (h : r ∈ findDuplicateRows x) :
    2 ≤ x.count r := by
  have := dups_count x r
  have h2 : 0 < (findDuplicateRows x).count r := List.count_pos_iff.mpr h
  omega

/-- non-vacuity: a concrete array with a row occurring three times -/
example : findDuplicateRows [[1, 2], [3, 4], [1, 2], [1, 2]] = [[1, 2], [1, 2]] := by decide
example : findConsecutiveDuplicateRows [[1, 2], [1, 2], [3, 4], [1, 2]] = [[1, 2]] := by decide

end PV.QA