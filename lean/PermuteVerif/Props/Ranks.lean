import PermuteVerif.Model.Tests
import Mathlib.Tactic.Linarith
import Mathlib.Tactic.Ring
import Mathlib.Tactic.FieldSimp
import Mathlib.Algebra.Order.Field.Basic
import Mathlib.Data.List.Perm.Basic
import Mathlib.Data.List.Nodup

/-!
# Mid-ranks (`scipy.stats.rankdata`, method 'average') as used by `spearman_corr`

`ranks x` gives every entry the number of strictly smaller entries plus the mean position inside its block of ties.
Proved for every list: length, equal values get equal ranks, strictly larger values get strictly larger ranks, the
tie-free case is `1 + #smaller`, ranks depend on the multiset only, are invariant under strictly increasing
re-scalings of the data, and sum to n(n+1)/2 whatever the ties.
-/

namespace PV.Ranks
open PV

/-- the rank a value `v` receives in the list `x` -/
def rankOf (x : List Rat) (v : Rat) : Rat :=
  ((x.countP (fun u => decide (u < v)) : Nat) : Rat) + (((x.countP (fun u => decide (u = v)) : Nat) : Rat) + 1) / 2

theorem ranks_eq_map (x : List Rat) : ranks x = x.map (rankOf x) := rfl

theorem ranks_length (x : List Rat) : (ranks x).length = x.length := by
  simp [ranks]

/-- entries with equal values get equal ranks (positions `i`, `j`) -/
theorem ranks_tie (x : List Rat) (i j : Nat) (hi : i < x.length) (hj : j < x.length) (h : x[i] = x[j]) :
    (ranks x)[i]'(by simpa [ranks_length] using hi) = (ranks x)[j]'(by simpa [ranks_length] using hj) := by
  simp only [ranks_eq_map, List.getElem_map, h]

theorem countP_lt_add_eq_le (x : List Rat) (u v : Rat) (h : u < v) :
    x.countP (fun t => decide (t < u)) + x.countP (fun t => decide (t = u)) ≤ x.countP (fun t => decide (t < v)) := by
  induction x with
  | nil => simp
  | cons a xs ih =>
    simp only [List.countP_cons]
    by_cases h1 : a < u
    · have h2 : a < v := lt_trans h1 h
      have h3 : ¬ a = u := ne_of_lt h1
      simp [h1, h2, h3]; omega
    · by_cases h3 : a = u
      · subst h3
        simp [h1, h]; omega
      · simp only [h1, h3, decide_false, Bool.false_eq_true, if_false, Nat.add_zero]
        split <;> omega

/-- a strictly larger value present in the list gets a strictly larger rank -/
theorem rankOf_strictMono (x : List Rat) (u v : Rat) (hu : u ∈ x) (h : u < v) : rankOf x u < rankOf x v := by
  unfold rankOf
  have h1 := countP_lt_add_eq_le x u v h
  have h2 : 0 < x.countP (fun t => decide (t = u)) := List.countP_pos_iff.2 ⟨u, hu, by simp⟩
  have h1' : ((x.countP (fun t => decide (t < u)) : Nat) : Rat) + ((x.countP (fun t => decide (t = u)) : Nat) : Rat)
      ≤ ((x.countP (fun t => decide (t < v)) : Nat) : Rat) := by exact_mod_cast h1
  have h2' : (1 : Rat) ≤ ((x.countP (fun t => decide (t = u)) : Nat) : Rat) := by exact_mod_cast h2
  have h3 : (0 : Rat) ≤ ((x.countP (fun t => decide (t = v)) : Nat) : Rat) := by exact_mod_cast Nat.zero_le _
  linarith

theorem ranks_strictMono (x : List Rat) (i j : Nat) (hi : i < x.length) (hj : j < x.length) (h : x[i] < x[j]) :
    (ranks x)[i]'(by simpa [ranks_length] using hi) < (ranks x)[j]'(by simpa [ranks_length] using hj) := by
  simp only [ranks_eq_map, List.getElem_map]
  exact rankOf_strictMono x _ _ (List.getElem_mem hi) h

/-- tie-free data: the rank is one plus the number of strictly smaller entries (the ranks 1..n) -/
theorem rankOf_nodup (x : List Rat) (hx : x.Nodup) (v : Rat) (hv : v ∈ x) :
    rankOf x v = ((1 + x.countP (fun u => decide (u < v)) : Nat) : Rat) := by
  unfold rankOf
  have h1 : x.countP (fun u => decide (u = v)) = 1 := by
    have := List.count_eq_one_of_mem hx hv
    rw [List.count_eq_countP] at this
    rw [← this]; congr 1
  rw [h1]; push_cast; ring

/-- ranks depend on the data only as a multiset: rearranging the data rearranges the ranks -/
theorem rankOf_perm (x y : List Rat) (h : x.Perm y) (v : Rat) : rankOf x v = rankOf y v := by
  unfold rankOf
  rw [h.countP_eq, h.countP_eq]

/-- invariance under strictly increasing transformations of the data (units, monotone re-scalings) -/
theorem ranks_strictMono_invariant (x : List Rat) (f : Rat → Rat) (hf : StrictMono f) :
    ranks (x.map f) = ranks x := by
  simp only [ranks_eq_map, List.map_map]
  apply List.map_congr_left
  intro v _
  simp only [Function.comp, rankOf, List.countP_map]
  congr 3
  · congr 1; funext u; simp [Function.comp, hf.lt_iff_lt]
  · congr 2; funext u; simp [Function.comp, hf.injective.eq_iff]

/-! ### the ranks sum to n(n+1)/2 -/

theorem sum_countP_swap (r : Rat → Rat → Bool) (x y : List Rat) :
    (x.map (fun v => y.countP (fun u => r u v))).sum = (y.map (fun u => x.countP (fun v => r u v))).sum := by
  induction x with
  | nil => simp
  | cons a xs ih =>
    simp only [List.map_cons, List.sum_cons, ih, List.countP_cons]
    have : ∀ l : List Rat, (l.map (fun u => xs.countP (fun v => r u v) + if r u a = true then 1 else 0)).sum
        = (l.map (fun u => xs.countP (fun v => r u v))).sum + l.countP (fun u => r u a) := by
      intro l
      induction l with
      | nil => simp
      | cons b l ihl =>
        simp only [List.map_cons, List.sum_cons, ihl, List.countP_cons]
        omega
    rw [this y]; omega

theorem trichotomy_counts (x : List Rat) (v : Rat) :
    x.countP (fun u => decide (u < v)) + x.countP (fun u => decide (u = v)) + x.countP (fun u => decide (v < u)) = x.length := by
  induction x with
  | nil => simp
  | cons a xs ih =>
    simp only [List.countP_cons, List.length_cons]
    rcases lt_trichotomy a v with h | h | h
    · have h2 : ¬ a = v := ne_of_lt h
      have h3 : ¬ v < a := not_lt.2 h.le
      simp [h, h2, h3]; omega
    · subst h; simp; omega
    · have h2 : ¬ a = v := ne_of_gt h
      have h3 : ¬ a < v := not_lt.2 h.le
      simp [h, h2, h3]; omega

/-- whatever the ties, the ranks sum to n(n+1)/2 -/
theorem ranks_sum (x : List Rat) : (ranks x).sum = (x.length : Rat) * ((x.length : Rat) + 1) / 2 := by
  -- L = Σ_v #{u < v},  G = Σ_v #{u > v},  E = Σ_v #{u = v};  L = G and L + E + G = n²
  have hLG : (x.map (fun v => x.countP (fun u => decide (u < v)))).sum
      = (x.map (fun v => x.countP (fun u => decide (v < u)))).sum := by
    have := sum_countP_swap (fun u v => decide (u < v)) x x
    simpa using this
  have hTot : (x.map (fun v => x.countP (fun u => decide (u < v)))).sum
      + (x.map (fun v => x.countP (fun u => decide (u = v)))).sum
      + (x.map (fun v => x.countP (fun u => decide (v < u)))).sum = x.length * x.length := by
    have : ∀ l : List Rat, (l.map (fun v => x.countP (fun u => decide (u < v)))).sum
        + (l.map (fun v => x.countP (fun u => decide (u = v)))).sum
        + (l.map (fun v => x.countP (fun u => decide (v < u)))).sum = l.length * x.length := by
      intro l
      induction l with
      | nil => simp
      | cons b l ihl =>
        simp only [List.map_cons, List.sum_cons, List.length_cons]
        have := trichotomy_counts x b
        rw [Nat.add_mul]; omega
    exact this x
  have hsum : ∀ l : List Rat, (l.map (rankOf x)).sum
      = (((l.map (fun v => x.countP (fun u => decide (u < v)))).sum : Nat) : Rat)
        + ((((l.map (fun v => x.countP (fun u => decide (u = v)))).sum : Nat) : Rat) + (l.length : Rat)) / 2 := by
    intro l
    induction l with
    | nil => simp
    | cons b l ihl =>
      simp only [List.map_cons, List.sum_cons, ihl, List.length_cons, rankOf]
      push_cast; ring
  rw [ranks_eq_map, hsum x]
  have hLGq : (((x.map (fun v => x.countP (fun u => decide (u < v)))).sum : Nat) : Rat)
      = (((x.map (fun v => x.countP (fun u => decide (v < u)))).sum : Nat) : Rat) := by exact_mod_cast hLG
  have hTq : (((x.map (fun v => x.countP (fun u => decide (u < v)))).sum : Nat) : Rat)
      + (((x.map (fun v => x.countP (fun u => decide (u = v)))).sum : Nat) : Rat)
      + (((x.map (fun v => x.countP (fun u => decide (v < u)))).sum : Nat) : Rat) = (x.length : Rat) * (x.length : Rat) := by
    exact_mod_cast hTot
  linarith

/-- non-vacuity / sanity: heavy ties -/
example : ranks [3, 1, 3, 2, 1, 3] = [5, 3/2, 5, 3, 3/2, 5] := by decide +kernel

/-- ranking a rearrangement of the data gives the same rearrangement of the ranks: `spearman_corr` may rank first and
    permute afterwards -/
theorem ranks_perm_map (x y : List Rat) (h : x.Perm y) : ranks y = y.map (rankOf x) := by
  rw [ranks_eq_map]
  apply List.map_congr_left
  intro v _
  exact (rankOf_perm x y h v).symm

theorem ranks_perm (x y : List Rat) (h : x.Perm y) : (ranks x).Perm (ranks y) := by
  rw [ranks_perm_map x y h, ranks_eq_map]
  exact h.map _


end PV.Ranks
