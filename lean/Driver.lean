/-
  Driver.lean — line protocol between the Python harness and the executable model.
  One operation per input line, fields separated by `|`; one output line per input line.
  Run as `lake env lean --run Driver.lean < ops.txt`.  Imports the model only (no Mathlib).

  Numbers: integers or `num/den`.  Lists: space separated.  Lists of lists: `;` separated.
  Lists of lists of lists: `#` separated.  A malformed line yields `bad-op: …` (never a default).
-/
import PermuteVerif.Model.Basic
import PermuteVerif.Model.Shuffle
import PermuteVerif.Model.Tests
import PermuteVerif.Model.NPC
import PermuteVerif.Model.Tails
import PermuteVerif.Model.Sprt
import PermuteVerif.Model.QA
import PermuteVerif.Model.Incidence
import PermuteVerif.Model.Experiment
import PermuteVerif.Model.Prng
import PermuteVerif.Model.Nan
open PV

abbrev P := Except String

def fail {α : Type} (msg : String) : P α := .error msg

def words (s : String) : List String := (s.splitOn " ").filter (· ≠ "")

def pNat (s : String) : P Nat :=
  match s.toNat? with | some n => pure n | none => fail s!"nat '{s}'"
def pInt (s : String) : P Int :=
  match s.toInt? with | some n => pure n | none => fail s!"int '{s}'"
def pRat (s : String) : P Rat :=
  match s.splitOn "/" with
  | [a] => do let i ← pInt a; pure (i : Rat)
  | [a, b] => do
      let n ← pInt a
      let d ← pNat b
      if d = 0 then fail s!"rat '{s}'" else pure (mkRat n d)
  | _ => fail s!"rat '{s}'"
def pBool (s : String) : P Bool :=
  match s with | "1" => pure true | "0" => pure false | _ => fail s!"bool '{s}'"
def pAlt (s : String) : P Alt :=
  match s with
  | "greater" => pure .greater | "less" => pure .less | "two-sided" => pure .twoSided
  | _ => fail s!"alt '{s}'"
def pCIAlt (s : String) : P CIAlt :=
  match s with
  | "two-sided" => pure .twoSided | "lower" => pure .lower | "upper" => pure .upper
  | _ => fail s!"cialt '{s}'"

def pList {α : Type} (f : String → P α) (s : String) : P (List α) := (words s).mapM f
def pList2 {α : Type} (f : String → P α) (s : String) : P (List (List α)) :=
  if s.trimAscii.toString = "" then pure [] else (s.splitOn ";").mapM (pList f)
def pList3 {α : Type} (f : String → P α) (s : String) : P (List (List (List α))) :=
  if s.trimAscii.toString = "" then pure [] else (s.splitOn "#").mapM (pList2 f)

def showRat (r : Rat) : String := if r.den = 1 then toString r.num else s!"{r.num}/{r.den}"
def showList {α : Type} (f : α → String) (l : List α) : String := " ".intercalate (l.map f)
def showList2 {α : Type} (f : α → String) (l : List (List α)) : String :=
  ";".intercalate (l.map (showList f))
def showRats := showList showRat
def showNats := showList (fun (n : Nat) => toString n)
def showInts := showList (fun (n : Int) => toString n)
def showRes {α : Type} (f : α → String) : Res α → String
  | .ok v => f v
  | .valueError => "ValueError"

/-- two-argument statistics known to both sides -/
def pStat2 (s : String) : P (List Rat → List Rat → Rat) :=
  match s.splitOn ":" with
  | ["mean"] => pure meanDiff
  | ["t"] => pure tKey
  | ["wsum", wx, wy] => do
      let a ← pList pInt wx; let b ← pList pInt wy; pure (wsum2 a b)
  | _ => fail s!"stat2 '{s}'"

def pStat1 (s : String) : P (List Rat → Rat) :=
  match s.splitOn ":" with
  | ["mean"] => pure mean
  | ["t"] => pure t1Key
  | ["wsum", w] => do let a ← pList pInt w; pure (wsum a)
  | _ => fail s!"stat1 '{s}'"

def dot (x y : List Rat) : Rat := rsum (List.zipWith (· * ·) x y)

def pCombine (s : String) : P ((List Rat → Rat) × Bool × Bool) :=
  -- (function, clip, userCallable)
  match s.splitOn ":" with
  | ["fisher"] => pure (fisherKey, false, false)
  | ["tippett"] => pure (tippett, false, false)
  | ["negsum"] => pure (fun p => -(rsum p), false, true)          -- user callable −Σp
  | ["negwsum", w] => do
      let ws ← pList pRat w
      pure (invNWeight ws, false, true)
  | ["negminsum", t] => do
      let tau ← pRat t
      pure (fun p => -(rsum (p.map (fun v => min v tau))), false, true)                -- flat above tau
  | ["countbelow", t] => do
      let tau ← pRat t
      pure (fun p => ((p.countP (fun v => decide (v ≤ tau)) : Nat) : Rat), false, true)   -- step function
  | ["negposw"] => pure (fun p => -(rsum (p.zipIdx.map (fun tk => tk.1 / ((tk.2 + 1 : Nat) : Rat)))), false, true)  -- −Σ p_i/(i+1): not symmetric
  | ["possum"] => pure (fun p => rsum p, false, true)             -- invalid: increasing
  | _ => fail s!"combine '{s}'"

def showTS (o : TSOut) : String :=
  s!"p={showRat o.p}|up={o.hitsUp}|dn={o.hitsDn}|obs={showRat o.obs}|dist={showRats o.dist}|args=" ++
    "#".intercalate (o.args.map (fun a => showRats a.1 ++ ";" ++ showRats a.2)) ++ s!"|rr={showNats o.rr}"

def showOS (o : OSOut) : String :=
  s!"p={showRat o.p}|up={o.hitsUp}|dn={o.hitsDn}|obs={showRat o.obs}|dist={showRats o.dist}|args=" ++
    showList2 showRat o.args

def showKS (o : KSOut) : String :=
  s!"p={showRat o.p}|hits={o.hits}|obs={showRat o.obs}|dist={showRats o.dist}|args=" ++
    showList2 (fun (n : Int) => toString n) o.args

def showST (o : STOut) : String :=
  s!"p={showRat o.p}|up={o.hitsUp}|dn={o.hitsDn}|obs={showRat o.obs}|dist={showRats o.dist}"

def lrOfSpec (s : String) : P (List Nat → Rat) :=
  match s.splitOn ":" with
  | ["bern", po, pa] => do
      let a ← pRat po; let b ← pRat pa; pure (bernoulliLR a b)
  | ["lentable", t] => do
      let tab ← pList pRat t; pure (fun x => tab.getD x.length 1)
  | ["sumtable", t] => do
      -- ratio depends on (length, number of ones): index len*(len+1)/2 + sum
      let tab ← pList pRat t
      pure (fun x => let n := x.length; tab.getD (n * (n + 1) / 2 + x.foldl (· + ·) 0) 1)
  | _ => fail s!"lr '{s}'"

def pOps (s : String) : P (List Op) :=
  if s.trimAscii.toString = "" then pure [] else
  (s.splitOn "&").mapM (fun o =>
    match o.splitOn "@" with
    | ["randomize", ip, d] => do pure (Op.randomize (← pBool ip) (← pList2 pNat d))
    | ["simnpc", ip, d] => do pure (Op.simNpc (← pBool ip) (← pList3 pNat d))
    | ["wy", ip, d] => do pure (Op.westfallYoung (← pBool ip) (← pList3 pNat d))
    | _ => fail s!"op '{o}'")

def handle (line : String) : P String := do
  match line.splitOn "|" with
  | ["fy", l, cs] => pure (showInts (fy (← pList pInt l) (← pList pNat cs)))
  | ["pyshuffle", l, js] => pure (showInts (pyShuffle (← pList pInt l) (← pList pNat js)))
  | ["sbi", l, ws] => pure (showInts (sbi (← pList pInt l) (← pList pNat ws)))
  | ["pwg", x, g, d] =>
      pure (showInts (permuteWithinGroups (← pList pInt x) (← pList pInt g) (← pList2 pNat d)))
  | ["prows", m, d] =>
      pure (showList2 (fun (n : Int) => toString n) (permuteRows (← pList2 pInt m) (← pList2 pNat d)))
  | ["signflip", z, b] => pure (showRats (signFlip (← pList pRat z) (← pList pNat b)))
  | ["randbelow", n, ws] =>
      match randbelow (← pNat n) (← pList pNat ws) with
      | none => pure "none"
      | some (r, rest) => pure s!"{r}|{showNats rest}"
  | ["wordbits", n] => do let k ← pNat n; pure s!"{pyWordBits k} {crWordBits k}"
  | ["pcore", alt, p1, reps, obs, dist] => do
      let d ← pList pRat dist; let o ← pRat obs
      pure s!"{showRat (corePValue (← pAlt alt) (← pBool p1) (← pNat reps) (cntGe d o) (cntLe d o))}|{cntGe d o}|{cntLe d o}"
  | ["pcorr", alt, p1, reps, obs, dist] => do
      let d ← pList pRat dist; let o ← pRat obs
      pure s!"{showRat (corrPValue (← pAlt alt) (← pBool p1) (← pNat reps) (cntGe d o) (cntLe d o))}|{cntGe d o}|{cntLe d o}"
  | ["pupper", p1, reps, obs, dist] => do
      let d ← pList pRat dist; let o ← pRat obs
      pure s!"{showRat (upperPValue (← pBool p1) (← pNat reps) (cntGe d o))}|{cntGe d o}|{cntLe d o}"
  | ["pstrat", alt, p1, reps, obs, dist] => do
      let d ← pList pRat dist; let o ← pRat obs
      pure s!"{showRat (stratUpperOnlyPValue (← pAlt alt) (← pBool p1) (← pNat reps) (cntGe d o))}|{cntGe d o}|{cntLe d o}"
  | ["twosamplecore", alt, p1, nx, c0, c1, stat, draws] => do
      let a ← pList pRat c0; let b ← pList pRat c1
      pure (showTS (twoSampleCore (a.zip b) (← pNat nx) (← pStat2 stat) (← pAlt alt) (← pBool p1)
        (← pList2 pNat draws)))
  | ["twosample", alt, p1, x, y, stat, draws] =>
      pure (showTS (twoSample (← pList pRat x) (← pList pRat y) (← pStat2 stat) (← pAlt alt)
        (← pBool p1) (← pList2 pNat draws)))
  | ["twosampleshift", alt, p1, x, y, d, stat, draws] =>
      pure (showTS (twoSampleShift (← pList pRat x) (← pList pRat y) (← pRat d) (← pStat2 stat)
        (← pAlt alt) (← pBool p1) (← pList2 pNat draws)))
  | ["shifttable", x, y, d] => do
      let t := shiftTable (← pList pRat x) (← pList pRat y) (← pRat d)
      pure (showRats (t.map Prod.fst) ++ ";" ++ showRats (t.map Prod.snd))
  | ["potout", x, y, a, b] => do
      -- f(u) = a*u + b, finv(u) = (u - b)/a
      let a ← pRat a; let b ← pRat b
      let t := potentialOutcomes (← pList pRat x) (← pList pRat y) (fun u => a * u + b) (fun u => (u - b) / a)
      pure (showRats (t.map Prod.fst) ++ ";" ++ showRats (t.map Prod.snd))
  | ["onesample", alt, p1, z, stat, draws] =>
      pure (showOS (oneSample (← pList pRat z) (← pStat1 stat) (← pAlt alt) (← pBool p1)
        (← pList2 pNat draws)))
  | ["corr", alt, p1, x, y, stat, draws] => do
      let st ← match stat with
        | "pearson" => pure pearsonKey
        | "dot" => pure dot
        | _ => fail s!"corr stat '{stat}'"
      pure (showOS (corrTest (← pList pRat x) (← pList pRat y) st (← pAlt alt) (← pBool p1)
        (← pList2 pNat draws)))
  | ["spearman", alt, p1, x, y, draws] =>
      pure (showOS (spearmanTest (← pList pRat x) (← pList pRat y) (← pAlt alt) (← pBool p1)
        (← pList2 pNat draws)))
  | ["ranks", x] => pure (showRats (ranks (← pList pRat x)))
  | ["ksample", p1, x, g, stat, draws] => do
      let st : List Rat → List Int → Rat → Rat ← match stat with
        | "anova" => pure oneWayAnova
        | "gdot" => pure (fun x g _ => rsum (List.zipWith (fun (a : Rat) (b : Int) => a * (b : Rat)) x g))
        | _ => fail s!"ksample stat '{stat}'"
      pure (showKS (kSample (← pList pRat x) (← pList pInt g) st (← pBool p1) (← pList2 pNat draws)))
  | ["bivariate", p1, x, g1, g2, stat, draws] => do
      let st : List Rat → List Int → List Int → Rat → Rat ← match stat with
        | "twoway" => pure (fun x _ g2 m => twoWayAnova x g2 m)
        | "gdot" => pure (fun x _ g2 _ => rsum (List.zipWith (fun (a : Rat) (b : Int) => a * (b : Rat)) x g2))
        | _ => fail s!"bivariate stat '{stat}'"
      pure (showKS (bivariateKSample (← pList pRat x) (← pList pInt g1) (← pList pInt g2) st
        (← pBool p1) (← pList3 pNat draws)))
  | ["stratperm", alt, p1, g, c, r, stat, draws] => do
      let g ← pList pInt g; let r ← pList pRat r
      let st : List Int → Rat ← match stat with
        | "mean2" => pure (fun c => stratMean2 g c r)
        | "cdot" => pure (fun c => rsum (List.zipWith (fun (a : Rat) (b : Int) => a * (b : Rat)) r c))
        | _ => fail s!"stratperm stat '{stat}'"
      let (o, args) := stratPermTest g (← pList pInt c) st (← pAlt alt) (← pBool p1) (← pList3 pNat draws)
      pure (showST o ++ "|args=" ++ showList2 (fun (n : Int) => toString n) args)
  | ["simcorr", alt, p1, x, y, g, draws] => do
      let y ← pList pRat y
      let (o, args) := simCorr (← pList pRat x) (← pList pInt g) (fun xp => dot xp y) (← pAlt alt)
        (← pBool p1) (← pList3 pNat draws)
      pure (showST o ++ "|args=" ++ showList2 showRat args)
  | ["strat2", alt, p1, g, r, ntreat, stat, draws] => do
      let nt ← pNat ntreat
      let st : List Rat → Rat ← match stat.splitOn ":" with
        | ["mean"] => pure (fun u => mean (u.take nt) - mean (u.drop nt))
        | ["t"] => pure (fun u => tKey (u.take nt) (u.drop nt))
        | ["wsum", w] => do let ws ← pList pInt w; pure (wsum ws)
        | _ => fail s!"strat2 stat '{stat}'"
      let (o, args) := stratTwoSample (← pList pInt g) (← pList pRat r) st (← pAlt alt) (← pBool p1)
        (← pList3 pNat draws)
      pure (showST o ++ "|args=" ++ showList2 showRat args)
  | ["strat2nan", alt, p1, g, r, ntreat, stat, draws] => do
      let nt ← pNat ntreat
      let stf : List (Option Rat) → Option Rat ← match stat with
        | "mean" => pure (nanMeanDiff nt)
        | "t" => pure (nanT nt)
        | _ => fail s!"strat2nan stat '{stat}'"
      let pOpt : String → P (Option Rat) := fun t => if t = "nan" then pure none else (do pure (some (← pRat t)))
      let showO : Option Rat → String := fun o => match o with | none => "nan" | some v => showRat v
      let (o, args) := stratTwoSampleNan (← pList pInt g) (← pList pOpt r) stf (← pAlt alt) (← pBool p1)
        (← pList3 pNat draws)
      pure (s!"p={showRat o.p}|up={o.hitsUp}|dn={o.hitsDn}|obs={showO o.obs}|dist={" ".intercalate (o.dist.map showO)}"
        ++ "|args=" ++ showList2 showO args)
  | ["stratmean2", g, c, r] =>
      pure (showRat (stratMean2 (← pList pInt g) (← pList pInt c) (← pList pRat r)))
  | ["computets", m] => do
      let m ← pList2 pNat m
      pure s!"{showRat (computeTs m)}|{computeTsNum m}|{agreeingPairs m}"
  | ["tsdist", p1, obs, m, draws] => do
      let o ← if obs = "-" then pure none else (do pure (some (← pRat obs)))
      let r := simulateTsDist (← pList2 pNat m) o (← pBool p1) (← pList3 pNat draws)
      pure s!"obs={showRat r.obs}|geq={r.geq}|p={showRat r.p}|dist={showRats r.dist}"
  | ["npc", p1, comb, pv, distr] => do
      let (f, clip, user) ← pCombine comb
      pure (showRes showRat (npc (← pList pRat pv) (← pList2 pRat distr) f (← pBool p1) clip user))
  | ["rowpvals", p1, distr] =>
      pure (showList2 showRat (rowPvals (← pList2 pRat distr) (← pBool p1) false))
  | ["simnpc", comb, ts, tv] => do
      let (f, clip, user) ← pCombine comb
      let (ps, r) := simNpc (← pList pRat ts) (← pList2 pRat tv) f clip user
      pure s!"{showRats ps}|{showRes showRat r}"
  | ["fwer", p1, comb, pv, order, distr] => do
      let (f, clip, _) ← pCombine comb
      let p ← pList pRat pv; let o ← pList pNat order
      if !(isSortingPerm p o) then pure "not-a-sorting-permutation" else
      pure (showRes showRats (fwerMinp p (← pList2 pRat distr) o f (← pBool p1) clip))
  | ["adjust", meth, pv] => do
      let p ← pList pRat pv
      match meth with
      | "holm-bonferroni" => pure (showRats (holm p))
      | "bonferroni" => pure (showRats (bonferroni p))
      | "benjamini-hochberg" => pure (showRats (benjaminiHochberg p))
      | _ => pure "ValueError"
  | ["wyminp", alts, ts, tv] => do
      let (adj, raw) := wyMinP (← pList pRat ts) (← pList2 pRat tv) (← pList pBool alts)
      pure s!"{showRats adj}|{showRats raw}"
  | ["wymaxtl", alts, ts, tv] => do
      let (adj, raw) := wyMaxTL (← pList pRat ts) (← pList2 pRat tv) (← pList pBool alts)
      pure s!"{showRats adj}|{showRats raw}"
  | ["wymaxt", two, ts, tv] => do
      let (adj, raw) := wyMaxT (← pList pRat ts) (← pList2 pRat tv) (← pBool two)
      pure s!"{showRats adj}|{showRats raw}"
  | ["npcdist", p1, w, obs, pv, distr] => do
      let o ← if obs = "-" then pure none else (do pure (some (← pList pRat obs)))
      let p ← if pv = "-" then pure none else (do pure (some (← pList pRat pv)))
      match simulateNpcDist (← pList2 pRat distr) (← pList pRat w) o p (← pBool p1) with
      | .valueError => pure "ValueError"
      | .ok (c, r, pvs) => pure s!"{showRat c}|{showRat r}|{showRats pvs}"
  | ["binomp", alt, x, n, p] =>
      pure (showRes showRat (binomialP (← pNat x) (← pNat n) (← pRat p) (← pAlt alt)))
  | ["hyperp", alt, x, N, n, G] =>
      pure (showRes showRat (hypergeometricP (← pNat x) (← pNat N) (← pNat n) (← pNat G) (← pAlt alt)))
  | ["hgci", alt, n, x, N, cl] => do
      let (lo, hi) := hypergeomCI (← pNat n) (← pNat x) (← pNat N) (← pRat cl) (← pCIAlt alt)
      pure s!"{lo} {hi}"
  | ["hgtails", N, n, x, G] => do
      let N ← pNat N; let n ← pNat n; let x ← pNat x; let G ← pNat G
      pure s!"{showRat (hyperSf N G n x)}|{showRat (hyperCdf N G n x)}"
  | ["cpcert", alt, n, x, cl, L, U, d] =>
      pure (toString (binomCICert (← pNat n) (← pNat x) (← pRat cl) (← pCIAlt alt) (← pRat L) (← pRat U) (← pRat d)))
  | ["sprt", alpha, beta, ro, x, lr] => do
      let o := sprt (← lrOfSpec lr) (← pRat alpha) (← pRat beta) (← pList pNat x) (← pBool ro)
      pure s!"{if o.rejectH0 then 1 else 0} {if o.rejectHa then 1 else 0}|{showRat o.ts}"
  | ["bernlr", po, pa, x] => do
      let a ← pRat po; let b ← pRat pa; let x ← pList pNat x
      pure s!"{showRat (bernoulliLR a b x)}|{showRat (bernoulliLRProd a b x)}"
  | ["dups", m] => pure (showList2 (fun (n : Int) => toString n) (findDuplicateRows (← pList2 pInt m)))
  | ["consec", m] =>
      pure (showList2 (fun (n : Int) => toString n) (findConsecutiveDuplicateRows (← pList2 pInt m)))
  | ["dupstr", m] => pure (";".intercalate ((findDuplicateRows (← pList2 pInt m)).map rowString))
  | ["incidence", k, m, att] => do
      let m ← pList2 pInt m
      let att ← pList2 pNat att
      let atts ← att.mapM (fun a => match a with
        | [s0, s1, p0, p1] => pure (⟨s0, s1, p0, p1⟩ : Attempt)
        | _ => fail "attempt")
      let r := incidenceRun m (← pNat k) atts
      pure s!"{showList2 (fun (n : Int) => toString n) r}|{showInts (rowSums r)}|{showInts (colSumsI r)}|{cellDiff m r}"
  | ["incvalid", m] => pure (toString (incidenceValid (← pList2 pInt m)))
  | ["rowpair", n, w1, w2] => do
      let (a, b) := rowPair (← pNat n) (← pNat w1) (← pNat w2); pure s!"{a} {b}"
  | ["history", strat, g, strata, ops] => do
      let e : Exp := { group := (← pList pInt g), response := [], strata := (← pList pInt strata) }
      let sts := historyStates (← pBool strat) e (← pOps ops)
      pure (showList2 (fun (n : Int) => toString n) (sts.map (·.group)))
  | ["groupseq", strat, g, strata, ds] => do
      let e : Exp := { group := (← pList pInt g), response := [], strata := (← pList pInt strata) }
      pure (showList2 (fun (n : Int) => toString n) ((groupSeq (← pBool strat) e (← pList3 pNat ds)).map (·.group)))
  | ["testfunc", name, idx, g, resp] => do
      let e : Exp := { group := (← pList pInt g), response := (← pList2 pRat resp), strata := [] }
      let i ← pNat idx
      match name with
      | "mean_diff" => pure (showRes showRat (tfMeanDiff e i))
      | "ttest" => pure (showRes showRat (tfTTestKey e i))
      | "one_way_anova" => pure (showRat (tfOneWayAnova e i))
      | _ => fail s!"testfunc '{name}'"
  | ["getprng", kind] => do
      let k ← match kind with
        | "none" => pure SeedArg.none | "nprandom" => pure SeedArg.npRandomModule | "number" => pure SeedArg.number
        | "string" => pure SeedArg.string | "randomstate" => pure SeedArg.randomState | "sha256" => pure SeedArg.sha256
        | "other" => pure SeedArg.other | _ => fail s!"seed kind '{kind}'"
      let out := match getPrng k with
        | .freshSHA256FromGlobalDraw => "fresh-sha256-from-global-draw" | .globalRandomState => "global-randomstate"
        | .freshSHA256OfSeed => "fresh-sha256-of-seed" | .sameObject => "same-object" | .valueError => "ValueError"
      pure s!"{out}|{if readsGlobalState k then 1 else 0}"
  | _ => fail "unknown operation"

partial def loop (h : IO.FS.Stream) (out : IO.FS.Stream) : IO Unit := do
  let line ← h.getLine
  if line.isEmpty then return ()
  let l := (line.dropEndWhile (fun c => c == '\n' || c == '\r')).toString
  match handle l with
  | .ok s => out.putStrLn s
  | .error e => out.putStrLn s!"bad-op: {e}"
  loop h out

def main : IO Unit := do
  let out ← IO.getStdout
  loop (← IO.getStdin) out
  out.flush
