/-
  Props/WY.lean — C10: Westfall–Young adjusted p-values dominate raw ones and control FWER exactly.
  Statements are fixed; only proofs (and helper lemmas above them) may change.
-/
import PermuteVerif.Model.NPC
import Mathlib.Data.List.Basic
import Mathlib.Data.List.Count
import Mathlib.Data.List.Perm.Basic
import Mathlib.Data.List.MinMax
import Mathlib.Data.Finset.Max
import Mathlib.Tactic.Linarith
import Mathlib.Tactic.Positivity
import Mathlib.Tactic.FieldSimp
import Mathlib.Algebra.Order.Field.Rat
namespace PV

/-- table shape: every simulated row has one statistic per hypothesis -/
def WYShape (ts : List Rat) (tv : List (List Rat)) : Prop := ∀ r ∈ tv, r.length = ts.length

/-- the statistic as used for test c: |·| for two-sided, signed for greater -/
def wyVal (twoSided : List Bool) (c : Nat) (v : Rat) : Rat := if twoSided.getD c false then absR v else v

/-! ### minP -/

/-- raw p-values are the usual (count + 1)/(reps + 1) permutation p-values -/
theorem wy_minp_raw_spec (ts : List Rat) (tv : List (List Rat)) (two : List Bool) (c : Nat)
    (hc : c < ts.length) :
    (wyMinP ts tv two).2.getD c 0
      = ((cntGe ((column tv c).map (wyVal two c)) (wyVal two c (ts.getD c 0)) + 1 : Nat) : Rat)
          / ((tv.length + 1 : Nat) : Rat) := by
  sorry

theorem wy_minp_lengths (ts : List Rat) (tv : List (List Rat)) (two : List Bool) :
    (wyMinP ts tv two).1.length = ts.length ∧ (wyMinP ts tv two).2.length = ts.length := by
  sorry

/-- every adjusted p-value is at least the raw one -/
theorem wy_minp_adj_ge_raw (ts : List Rat) (tv : List (List Rat)) (two : List Bool)
    (hw : WYShape ts tv) (c : Nat) (hc : c < ts.length) :
    (wyMinP ts tv two).2.getD c 0 ≤ (wyMinP ts tv two).1.getD c 0 := by
  sorry

/-- … and lies in [1/(reps+1), 1] -/
theorem wy_minp_range (ts : List Rat) (tv : List (List Rat)) (two : List Bool)
    (hw : WYShape ts tv) (c : Nat) (hc : c < ts.length) :
    1 / ((tv.length : Rat) + 1) ≤ (wyMinP ts tv two).1.getD c 0 ∧ (wyMinP ts tv two).1.getD c 0 ≤ 1 := by
  sorry

/-- adjusted values are ordered like the raw p-values -/
theorem wy_minp_order (ts : List Rat) (tv : List (List Rat)) (two : List Bool)
    (hw : WYShape ts tv) (c c' : Nat) (hc : c < ts.length) (hc' : c' < ts.length)
    (h : (wyMinP ts tv two).2.getD c 0 < (wyMinP ts tv two).2.getD c' 0) :
    (wyMinP ts tv two).1.getD c 0 ≤ (wyMinP ts tv two).1.getD c' 0 := by
  sorry

/-- the min-P statistic of a row r of a table T (T includes r): the smallest over hypotheses of
    #{rows at least as large in that column}/#rows -/
def minPStat (T : List (List Rat)) (two : List Bool) (r : List Rat) : Rat :=
  ((List.range r.length).map (fun c =>
      ((cntGe ((column T c).map (wyVal two c)) (wyVal two c (r.getD c 0)) : Nat) : Rat) / (T.length : Rat))).foldl min 1

/-- the smallest adjusted p-value is the rank p-value of the observed row's min-P statistic among
    all reps+1 rows (observed row included) -/
theorem wy_minp_min_is_rank (ts : List Rat) (tv : List (List Rat)) (two : List Bool)
    (hw : WYShape ts tv) (hm : 0 < ts.length) :
    (wyMinP ts tv two).1.foldl min 1
      = ((cntLe ((tv ++ [ts]).map (minPStat (tv ++ [ts]) two)) (minPStat (tv ++ [ts]) two ts) : Nat) : Rat)
          / ((tv.length + 1 : Nat) : Rat) := by
  sorry

/-- exact validity of "≤"-rank p-values: at most k entries have at most k entries ≤ themselves -/
theorem rank_valid_le (T : List Rat) (k : Nat) :
    (T.filter (fun t => decide (cntLe T t ≤ k))).length ≤ k := by
  sorry

/-- exact family-wise error control under the complete null, counting form: of the rows of any
    table, at most k would obtain a smallest adjusted p-value ≤ k/#rows when taken as the observed
    row -/
theorem wy_minp_fwer_exact (T : List (List Rat)) (two : List Bool) (k : Nat) :
    (T.filter (fun r =>
        decide (cntLe (T.map (minPStat T two)) (minPStat T two r) ≤ k))).length ≤ k := by
  sorry

/-! ### maxT (uniform alternatives) -/

theorem wy_maxt_raw_spec (ts : List Rat) (tv : List (List Rat)) (two : Bool) (c : Nat)
    (hc : c < ts.length) :
    (wyMaxT ts tv two).2.getD c 0
      = ((cntGe ((column tv c).map (fun v => if two then absR v else v))
            (if two then absR (ts.getD c 0) else ts.getD c 0) + 1 : Nat) : Rat)
          / ((tv.length + 1 : Nat) : Rat) := by
  sorry

theorem wy_maxt_lengths (ts : List Rat) (tv : List (List Rat)) (two : Bool) :
    (wyMaxT ts tv two).1.length = ts.length ∧ (wyMaxT ts tv two).2.length = ts.length := by
  sorry

theorem wy_maxt_adj_ge_raw (ts : List Rat) (tv : List (List Rat)) (two : Bool)
    (hw : WYShape ts tv) (c : Nat) (hc : c < ts.length) :
    (wyMaxT ts tv two).2.getD c 0 ≤ (wyMaxT ts tv two).1.getD c 0 := by
  sorry

theorem wy_maxt_range (ts : List Rat) (tv : List (List Rat)) (two : Bool)
    (hw : WYShape ts tv) (c : Nat) (hc : c < ts.length) :
    1 / ((tv.length : Rat) + 1) ≤ (wyMaxT ts tv two).1.getD c 0 ∧ (wyMaxT ts tv two).1.getD c 0 ≤ 1 := by
  sorry

/-- adjusted values are ordered like the observed statistics: a larger statistic never gets a
    larger adjusted p-value -/
theorem wy_maxt_order (ts : List Rat) (tv : List (List Rat)) (two : Bool)
    (hw : WYShape ts tv) (c c' : Nat) (hc : c < ts.length) (hc' : c' < ts.length)
    (h : (if two then absR (ts.getD c 0) else ts.getD c 0) < (if two then absR (ts.getD c' 0) else ts.getD c' 0)) :
    (wyMaxT ts tv two).1.getD c' 0 ≤ (wyMaxT ts tv two).1.getD c 0 := by
  sorry

/-- non-vacuity: the table on which the unrepaired minP returned 0.2 for the hypothesis whose
    correct adjusted value is 0.6 -/
example : wyMinP [1, 3, -2] [[0, 0, -1], [-2, 2, 1], [1, 2, 3], [3, 0, 0]] [true, true, true]
    = ([4/5, 3/5, 4/5], [4/5, 1/5, 2/5]) := by decide +kernel
example : wyMaxT [-211/1000] [[-224/1000]] false = ([1/2], [1/2]) := by decide +kernel

end PV
