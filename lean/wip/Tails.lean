/-
  Props/Tails.lean — C14 (exact valid tail p-values; bad inputs rejected), C12 (Clopper–Pearson
  coverage from certified limits), C13 (hypergeometric test inversion covers).
  Statements are fixed; only proofs (and helper lemmas above them) may change.
-/
import PermuteVerif.Model.Tails
import Mathlib.Data.List.Basic
import Mathlib.Data.Nat.Choose.Basic
import Mathlib.Data.Nat.Choose.Sum
import Mathlib.Data.Nat.Factorial.Basic
import Mathlib.Tactic.Linarith
import Mathlib.Tactic.Positivity
import Mathlib.Tactic.FieldSimp
import Mathlib.Tactic.Ring
import Mathlib.Algebra.Order.Field.Rat
namespace PV

/-! ### the model's own `choose` is the binomial coefficient -/

theorem fact_eq (n : Nat) : fact n = n.factorial := by
  sorry

theorem choose_eq (n k : Nat) : choose n k = Nat.choose n k := by
  sorry

/-! ### generic validity of tail p-values for any non-negative weights -/

/-- upper-tail sum of a weight list from position k -/
def upperTail (w : List Rat) (k : Nat) : Rat := rsum (w.drop k)
/-- lower-tail sum up to and including position k -/
def lowerTail (w : List Rat) (k : Nat) : Rat := rsum (w.take (k + 1))

/-- total weight of the outcomes whose upper-tail p-value is ≤ α is at most α -/
theorem upper_tail_valid (w : List Rat) (hw : ∀ v ∈ w, 0 ≤ v) (α : Rat) (hα : 0 ≤ α) :
    rsum (((List.range w.length).filter (fun k => decide (upperTail w k ≤ α))).map (fun k => w.getD k 0)) ≤ α := by
  sorry

/-- … and the same for lower-tail p-values -/
theorem lower_tail_valid (w : List Rat) (hw : ∀ v ∈ w, 0 ≤ v) (α : Rat) (hα : 0 ≤ α) :
    rsum (((List.range w.length).filter (fun k => decide (lowerTail w k ≤ α))).map (fun k => w.getD k 0)) ≤ α := by
  sorry

/-- two-sided: min(1, 2·min(lower, upper)) ≤ α has total weight at most α -/
theorem two_sided_tail_valid (w : List Rat) (hw : ∀ v ∈ w, 0 ≤ v) (α : Rat) (hα : 0 ≤ α) :
    rsum (((List.range w.length).filter (fun k =>
        decide (twoSidedTail (lowerTail w k) (upperTail w k) ≤ α))).map (fun k => w.getD k 0)) ≤ α := by
  sorry

theorem twoSidedTail_eq (l u : Rat) : twoSidedTail l u = min 1 (2 * min l u) := by
  sorry

/-! ### C14: binomial_p -/

/-- the list of binomial probabilities -/
def binomWeights (n : Nat) (p : Rat) : List Rat := (List.range (n + 1)).map (binomPmf n p)

theorem binomWeights_nonneg (n : Nat) (p : Rat) (h0 : 0 ≤ p) (h1 : p ≤ 1) :
    ∀ v ∈ binomWeights n p, 0 ≤ v := by
  sorry

/-- the probabilities sum to one (binomial theorem) -/
theorem binomWeights_sum (n : Nat) (p : Rat) : rsum (binomWeights n p) = 1 := by
  sorry

/-- 'greater' is the upper tail P(X ≥ x), 'less' the lower tail P(X ≤ x) of that law -/
theorem binomSf_eq_upperTail (n : Nat) (p : Rat) (x : Nat) (hx : x ≤ n) :
    binomSf n p x = upperTail (binomWeights n p) x := by
  sorry

theorem binomCdf_eq_lowerTail (n : Nat) (p : Rat) (x : Nat) (hx : x ≤ n) :
    binomCdf n p x = lowerTail (binomWeights n p) x := by
  sorry

/-- less(x) + greater(x+1) = 1 -/
theorem binom_less_plus_greater (n : Nat) (p : Rat) (x : Nat) (hx : x ≤ n) :
    binomCdf n p x + binomSf n p (x + 1) = 1 := by
  sorry

/-- one-sided values are monotone in x -/
theorem binomSf_antitone (n : Nat) (p : Rat) (h0 : 0 ≤ p) (h1 : p ≤ 1) (x x' : Nat) (h : x ≤ x') :
    binomSf n p x' ≤ binomSf n p x := by
  sorry

theorem binomCdf_monotone (n : Nat) (p : Rat) (h0 : 0 ≤ p) (h1 : p ≤ 1) (x x' : Nat) (h : x ≤ x')
    (hx' : x' ≤ n) : binomCdf n p x ≤ binomCdf n p x' := by
  sorry

/-- validity of binomial_p: for every null p the probability of a p-value ≤ α is at most α
    (each of the three alternatives) -/
theorem binomialP_valid (n : Nat) (p : Rat) (h0 : 0 ≤ p) (h1 : p ≤ 1) (alt : Alt) (α : Rat) (hα : 0 ≤ α) :
    rsum (((List.range (n + 1)).filter (fun x =>
        match binomialP x n p alt with
        | .ok v => decide (v ≤ α)
        | .valueError => false)).map (binomPmf n p)) ≤ α := by
  sorry

theorem binomialP_rejects (x n : Nat) (p : Rat) (alt : Alt) (h : n < x) :
    binomialP x n p alt = .valueError := by
  sorry

/-! ### C14: hypergeometric -/

def hyperWeights (N G n : Nat) : List Rat := (List.range (n + 1)).map (hyperPmf N G n)

theorem hyperWeights_nonneg (N G n : Nat) : ∀ v ∈ hyperWeights N G n, 0 ≤ v := by
  sorry

/-- Vandermonde: the probabilities sum to one -/
theorem hyperWeights_sum (N G n : Nat) (hG : G ≤ N) (hn : n ≤ N) : rsum (hyperWeights N G n) = 1 := by
  sorry

theorem hyperSf_eq_upperTail (N G n x : Nat) (hx : x ≤ n) :
    hyperSf N G n x = upperTail (hyperWeights N G n) x := by
  sorry

theorem hyperCdf_eq_lowerTail (N G n x : Nat) (hx : x ≤ n) :
    hyperCdf N G n x = lowerTail (hyperWeights N G n) x := by
  sorry

theorem hyper_less_plus_greater (N G n x : Nat) (hG : G ≤ N) (hn : n ≤ N) (hx : x ≤ n) :
    hyperCdf N G n x + hyperSf N G n (x + 1) = 1 := by
  sorry

theorem hypergeometricP_valid (N G n : Nat) (alt : Alt) (α : Rat) (hα : 0 ≤ α) :
    rsum (((List.range (n + 1)).filter (fun x =>
        match hypergeometricP x N n G alt with
        | .ok v => decide (v ≤ α)
        | .valueError => false)).map (hyperPmf N G n)) ≤ α := by
  sorry

/-- arguments that cannot occur are rejected -/
theorem hypergeometricP_rejects (x N n G : Nat) (alt : Alt) (h : n < x ∨ N < n ∨ N < G ∨ G < x) :
    hypergeometricP x N n G alt = .valueError := by
  sorry

/-! ### C13: hypergeom_conf_interval covers -/

/-- the lower limit is the smallest G whose upper tail reaches the level -/
theorem hgLower_spec (N n x : Nat) (a : Rat) (hx : 0 < x) (hxn : x ≤ n) (hn : n ≤ N) (ha : a ≤ 1) :
    a ≤ hyperSf N (hgLowerSearch N n x a) n x ∧
    hgLowerSearch N n x a ≤ N ∧
    ∀ G, G < hgLowerSearch N n x a → hyperSf N G n x < a := by
  sorry

/-- the upper limit is the largest G whose lower tail reaches the level -/
theorem hgUpper_spec (N n x : Nat) (a : Rat) (hxn : x < n) (hn : n ≤ N) (ha : a ≤ 1) :
    a ≤ hyperCdf N (hgUpperSearch N n x a) n x ∧
    hgUpperSearch N n x a ≤ N ∧
    ∀ G, hgUpperSearch N n x a < G → G ≤ N → hyperCdf N G n x < a := by
  sorry

/-- for every true G the probability that the lower limit exceeds G is at most the tail level -/
theorem hg_coverage_lower (N n G : Nat) (a : Rat) (ha0 : 0 ≤ a) (ha : a ≤ 1) (hn : n ≤ N) (hG : G ≤ N)
    (alt : CIAlt) (cl : Rat) (hcl : tailLevel cl alt = a) :
    rsum (((List.range (n + 1)).filter (fun x => decide (G < (hypergeomCI n x N cl alt).1))).map
      (hyperPmf N G n)) ≤ a := by
  sorry

/-- … and that the upper limit falls below G -/
theorem hg_coverage_upper (N n G : Nat) (a : Rat) (ha0 : 0 ≤ a) (ha : a ≤ 1) (hn : n ≤ N) (hG : G ≤ N)
    (alt : CIAlt) (cl : Rat) (hcl : tailLevel cl alt = a) :
    rsum (((List.range (n + 1)).filter (fun x => decide ((hypergeomCI n x N cl alt).2 < G))).map
      (hyperPmf N G n)) ≤ a := by
  sorry

/-- trivial limits: 0 when x = 0 or only an upper bound is requested; N when x = n or only a lower
    bound is requested -/
theorem hg_trivial_limits (n x N : Nat) (cl : Rat) (alt : CIAlt) :
    ((x = 0 ∨ alt = .upper) → (hypergeomCI n x N cl alt).1 = 0) ∧
    ((n ≤ x ∨ alt = .lower) → (hypergeomCI n x N cl alt).2 = N) := by
  sorry

/-! ### C12: Clopper–Pearson coverage from certified limits -/

/-- the upper tail P_p(X ≥ x) is non-decreasing in p -/
theorem binomSf_mono_p (n x : Nat) (p q : Rat) (h0 : 0 ≤ p) (hpq : p ≤ q) (h1 : q ≤ 1) :
    binomSf n p x ≤ binomSf n q x := by
  sorry

/-- the lower tail P_p(X ≤ x) is non-increasing in p -/
theorem binomCdf_anti_p (n x : Nat) (p q : Rat) (h0 : 0 ≤ p) (hpq : p ≤ q) (h1 : q ≤ 1) (hx : x ≤ n) :
    binomCdf n q x ≤ binomCdf n p x := by
  sorry

/-- If every reported lower limit L(x) carries the certificate "the upper tail at L(x) − δ is at
    most a" (x > 0) and L(0) = 0, then for every true p the probability that L(X) − δ exceeds p is
    at most a. -/
theorem cp_coverage_lower (n : Nat) (a δ : Rat) (ha : 0 ≤ a) (hδ : 0 ≤ δ) (L : Nat → Rat)
    (hL0 : L 0 = 0)
    (hcert : ∀ x, 0 < x → x ≤ n → binomSf n (max 0 (L x - δ)) x ≤ a ∧ L x - δ ≤ 1)
    (p : Rat) (h0 : 0 ≤ p) (h1 : p ≤ 1) :
    rsum (((List.range (n + 1)).filter (fun x => decide (p < L x - δ))).map (binomPmf n p)) ≤ a := by
  sorry

/-- mirror statement for the upper limit U(x) (certificate: lower tail at U(x) + δ at most a;
    U(n) = 1) -/
theorem cp_coverage_upper (n : Nat) (a δ : Rat) (ha : 0 ≤ a) (hδ : 0 ≤ δ) (U : Nat → Rat)
    (hUn : U n = 1)
    (hcert : ∀ x, x < n → binomCdf n (min 1 (U x + δ)) x ≤ a ∧ 0 ≤ U x + δ)
    (p : Rat) (h0 : 0 ≤ p) (h1 : p ≤ 1) :
    rsum (((List.range (n + 1)).filter (fun x => decide (U x + δ < p))).map (binomPmf n p)) ≤ a := by
  sorry

/-- the certificate checker accepts only limits that satisfy the hypotheses of the coverage
    theorems -/
theorem binomCICert_sound (n x : Nat) (cl : Rat) (alt : CIAlt) (L U δ : Rat)
    (h : binomCICert n x cl alt L U δ = true) :
    ((alt ≠ .upper ∧ 0 < x) → binomSf n (max 0 (L - δ)) x ≤ tailLevel cl alt) ∧
    ((alt = .upper ∨ x = 0) → L = 0) ∧
    ((alt ≠ .lower ∧ x < n) → binomCdf n (min 1 (U + δ)) x ≤ tailLevel cl alt) ∧
    ((alt = .lower ∨ n ≤ x) → U = 1) := by
  sorry

/-- non-vacuity -/
example : hypergeomCI 10 5 20 (19/20) .twoSided = (6, 14) := by decide +kernel
example : binomialP 3 10 (1/2) .greater = .ok (121/128) := by decide +kernel

end PV
