/-
  Props/WYMixed.lean — C10, maxT with a per-test list of alternatives (repair D17): the mixed-list step-down is the
  uniform one run on the table transformed to each test's own scale, so every maxT theorem transfers; for a list of equal
  entries it is exactly the single-alternative maxT.
-/
import PermuteVerif.Model.NPC
import PermuteVerif.Props.WY
namespace PV.WYMixed
open PV.WY

theorem wyTransform_length (two : List Bool) (row : List Rat) : (wyTransform two row).length = row.length := by
  simp [wyTransform]

theorem wyTransform_getD (two : List Bool) (row : List Rat) (c : Nat) (hc : c < row.length) :
    (wyTransform two row).getD c 0 = if two.getD c false then absR (row.getD c 0) else row.getD c 0 := by
  sorry

/-- raw p-values: (count + 1)/(reps + 1) on each test's own scale -/
theorem wy_maxtl_raw_spec (ts : List Rat) (tv : List (List Rat)) (two : List Bool) (c : Nat) (hc : c < ts.length)
    (hw : ∀ r ∈ tv, r.length = ts.length) :
    (wyMaxTL ts tv two).2.getD c 0
      = ((cntGe ((column tv c).map (fun v => if two.getD c false then absR v else v))
            (if two.getD c false then absR (ts.getD c 0) else ts.getD c 0) + 1 : Nat) : Rat)
          / ((tv.length + 1 : Nat) : Rat) := by
  sorry

/-- a list of equal entries is the single-alternative maxT -/
theorem wy_maxtl_uniform (ts : List Rat) (tv : List (List Rat)) (b : Bool) (hw : ∀ r ∈ tv, r.length = ts.length) :
    wyMaxTL ts tv (List.replicate ts.length b) = wyMaxT ts tv b := by
  sorry

/-- adjusted ≥ raw, for every list of alternatives -/
theorem wy_maxtl_adj_ge_raw (ts : List Rat) (tv : List (List Rat)) (two : List Bool)
    (hw : ∀ r ∈ tv, r.length = ts.length) (hts : 0 < ts.length) (c : Nat) (hc : c < ts.length) :
    (wyMaxTL ts tv two).2.getD c 0 ≤ (wyMaxTL ts tv two).1.getD c 0 := by
  sorry

/-- adjusted p-values lie in [1/(reps+1), 1], for every list of alternatives -/
theorem wy_maxtl_range (ts : List Rat) (tv : List (List Rat)) (two : List Bool)
    (hw : ∀ r ∈ tv, r.length = ts.length) (hts : 0 < ts.length) (c : Nat) (hc : c < ts.length) :
    1 / ((tv.length : Rat) + 1) ≤ (wyMaxTL ts tv two).1.getD c 0 ∧ (wyMaxTL ts tv two).1.getD c 0 ≤ 1 := by
  sorry

/-- adjusted p-values are ordered like the observed statistics on their own scales -/
theorem wy_maxtl_order (ts : List Rat) (tv : List (List Rat)) (two : List Bool)
    (hw : ∀ r ∈ tv, r.length = ts.length) (hts : 0 < ts.length) (c c' : Nat) (hc : c < ts.length) (hc' : c' < ts.length)
    (h : (if two.getD c false then absR (ts.getD c 0) else ts.getD c 0)
          < (if two.getD c' false then absR (ts.getD c' 0) else ts.getD c' 0)) :
    (wyMaxTL ts tv two).1.getD c' 0 ≤ (wyMaxTL ts tv two).1.getD c 0 := by
  sorry

/-- the regression input of D17: one randomisation (1, −3), observed (3, 1), ['two-sided', 'greater'] gives (1/2, 1/2) -/
example : wyMaxTL [3, 1] [[1, -3]] [true, false] = ([1/2, 1/2], [1/2, 1/2]) := by decide +kernel

end PV.WYMixed
