#!/usr/bin/env python3
"""give a Props file its own namespace PV.<File> so helper lemma names never clash"""
import sys, re, os
for p in sys.argv[1:]:
    name = os.path.basename(p)[:-5]
    s = open(p).read()
    if f"namespace PV.{name}" in s:
        continue
    s = re.sub(r"^namespace PV\s*$", f"namespace PV.{name}", s, count=1, flags=re.M)
    s = re.sub(r"^end PV\s*$", f"end PV.{name}", s, flags=re.M)
    open(p, "w").write(s)
