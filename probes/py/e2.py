import numpy as np, warnings, traceback, signal, itertools
warnings.simplefilter('ignore')
from permute import core, utils, npc, stratified, ksample, irr, sprt, qa
from cryptorandom.cryptorandom import SHA256
class TO(Exception): pass
def _h(*a): raise TO('timeout')
signal.signal(signal.SIGALRM,_h)
def attempt(name, f, t=20):
    try:
        signal.alarm(t); r = f(); signal.alarm(0)
        print(name, '->', r)
    except Exception as e:
        signal.alarm(0)
        print(name, 'EXC', type(e).__name__, e)

# spearman mismatch search
from scipy.stats import spearmanr
rs=np.random.RandomState(1)
for _ in range(20):
    x=rs.permutation(5).astype(float); y=rs.permutation(5).astype(float)
    a=core.spearman_corr(x,y,reps=1,seed=1)[0]; b=spearmanr(x,y)[0]
    if abs(a-b)>1e-9: print('spearman mismatch', x,y,a,b); break

# npc float self tie: mismatch between 1 - r/B + 1/B and (B-r+1)/B
bad=[]
for B in range(2,200):
    for r in range(1,B+1):
        a = 1 - r/B + 1/B; b=(B-r+1)/B
        if a!=b: bad.append((B,r,a>b))
print('npc float mismatches', len(bad), bad[:10], 'greater:', sum(1 for t in bad if t[2]))

# build sim_npc scenario with scripted randomizer: observed most extreme -> p should be 1/(reps+1)
class ScriptRand(npc.Experiment.Randomizer):
    pass
def make_exp(table, obs):
    # table: reps x m; test functions look up by a counter stored in group
    state={'i':-1}
    def rnd(data):
        state['i']+=1
        data.group=np.array([state['i']+1],dtype=object)  # row index+1 ; 0 == observed
        return data
    e=npc.Experiment(group=[0],response=[[0]],randomizer=npc.Experiment.Randomizer(randomize=rnd))
    full=np.vstack([obs[None,:],table])
    tests=[(lambda d,c=c: full[int(d.group[0]),c]) for c in range(table.shape[1])]
    return e,tests
cnt0=0; tot=0
for reps in range(2,60):
    table=np.arange(reps*2,dtype=float).reshape(reps,2)
    obs=np.array([1e6,1e6])
    e,t=make_exp(table,obs)
    p,ts,ps=npc.sim_npc(e,t,combine='fisher',reps=reps)
    tot+=1
    if p==0: cnt0+=1; print('sim_npc p==0 at reps',reps, ps)
print('sim_npc zero count',cnt0,'of',tot)
