import numpy as np, warnings, signal, itertools
warnings.simplefilter('ignore')
from fractions import Fraction as F
from cryptorandom.cryptorandom import SHA256
from permute import utils, core, npc
class TO(Exception): pass
def _h(*a): raise TO('timeout')
signal.signal(signal.SIGALRM,_h)

class Scripted(SHA256):
    def __init__(self, script):
        super().__init__(0); self.script=list(script); self.req=[]
    def _next(self): return self.script.pop(0)
    def random(self, size=None):
        if size is None:
            self.req.append(('random',None)); return self._next()
        n=int(np.prod(size)); self.req.append(('random',n))
        # script entries are offsets c_i for fykd: U_i=(c_i+.5)/(n-i)
        return np.array([(self._next()+0.5)/(n-i) for i in range(n)],dtype=object)
    def getrandbits(self,k):
        self.req.append(('bits',k)); return self._next()
    def randint(self,a,b,size=None):
        self.req.append(('randint',a,b,size))
        if size is None: return self._next()
        return np.array([self._next() for _ in range(int(np.prod(size)))])

# 1. permute via fykd: enumerate all choice vectors n=3
outs={}
for cs in itertools.product(range(3),range(2),range(1)):
    s=Scripted(cs); r=tuple(utils.permute(np.array([10,20,30]), s)); outs.setdefault(r,[]).append(cs)
print('permute n=3 outcomes', {k:len(v) for k,v in outs.items()})
# 2. shuffle through getrandbits: list of 3 -> _randbelow(3) k=2 bits, _randbelow(2) k=2? 
s=Scripted([3,1,0]); l=[0,1,2]; s.shuffle(l); print('shuffle', l, s.req, 'rest', s.script)
# 3. two_sample with scripted generator, reps=1, plus1=False -> indicator
def indicator(cs):
    s=Scripted(cs); return core.two_sample(np.array([1.,2.]),np.array([2.]),reps=1,seed=s,plus1=False,stat='mean',alternative='greater'), s.req
print(indicator([2,1]))
# enumerate: _randbelow(3): words in 0..3 with rejection of 3; _randbelow(2): k=2 words 0..3 reject >=2?  inspect
import random
print('randbelow impl', SHA256._randbelow.__name__)
tot=0; hits=F(0)
for j2 in range(3):
    for j1 in range(2):
        (p,obs),req=indicator([j2,j1]); tot+=1; hits+=F(p).limit_denominator(10)
print('exhaustive two_sample [1,2] vs [2] greater:', hits, '/', tot, ' exact: arrangements with mean diff >= -0.5')
# one_sample randint(0,2,n)
s=Scripted([1,0,1]); print(core.one_sample(np.array([1.,2,3]),reps=1,seed=s,plus1=False,keep_dist=True), s.req)
# 4. RandomState recording subclass
class RecRS(np.random.RandomState):
    def __init__(self,*a): super().__init__(*a); self.log=[]
    def shuffle(self,x):
        before=list(x); super().shuffle(x); self.log.append(('shuffle',before,list(x)))
    def randint(self,*a,**k):
        r=super().randint(*a,**k); self.log.append(('randint',a,np.array(r).tolist())); return r
    def random(self,*a,**k):
        r=super().random(*a,**k); self.log.append(('random',a,np.array(r).tolist())); return r
r=RecRS(5); print(core.two_sample(np.array([1.,2.,5]),np.array([2.,4]),reps=2,seed=r,keep_dist=True)); print(r.log)
r=RecRS(5); print(utils.permute(np.array([1,2,3]), r), r.log)
# 5. incidence non-binary with swappable pair
m=np.array([[1,0.5,0],[0,1,1]])
try:
    signal.alarm(10); print('incidence non-binary ->', utils.permute_incidence_fixed_sums(m,k=1,seed=3)); signal.alarm(0)
except Exception as e: signal.alarm(0); print('incidence non-binary EXC',type(e).__name__,e)
# 6. npc float mismatch count denominator
print(sum(range(2,200)))
