import numpy as np, warnings, signal, itertools, math, copy, pickle
from fractions import Fraction as F
warnings.simplefilter('ignore')
from permute import core, utils, npc, stratified, ksample, irr, sprt, qa
from cryptorandom.cryptorandom import SHA256
class TO(Exception): pass
def _h(*a): raise TO('timeout')
signal.signal(signal.SIGALRM,_h)
issues=[]
def note(*a): issues.append(a); print('ISSUE',*a)
rs=np.random.RandomState(11)

def calls():
    x=rs.randint(0,5,size=5).astype(float); y=rs.randint(0,5,size=4).astype(float)
    g=np.array([1,1,1,2,2,2,2,3,3]); c=np.array([0,1,0,1,0,1,0,1,0]); r=rs.randint(0,4,size=9).astype(float)
    grp=np.array(['a','b','a','c','b','c','a','b','c'],dtype=object)
    rat=rs.randint(0,2,size=(3,5))
    inc=np.array([[1,0,1,0],[0,1,0,1],[1,1,0,0]])
    z=rs.randn(9)
    def mk(): return npc.Experiment(group=[1,1,1,2,2,2],response=rs.randint(0,5,size=(6,2)).astype(float).tolist(),covariate=[[0],[0],[1],[0],[1],[1]])
    T=npc.Experiment.make_test_array(npc.Experiment.TestFunc.mean_diff,[0,1])
    L=[
     ('two_sample',lambda s: core.two_sample(x,y,reps=20,seed=s,keep_dist=True),[x,y]),
     ('two_sample_t',lambda s: core.two_sample(x,y,reps=20,seed=s,stat='t',alternative='two-sided'),[x,y]),
     ('two_sample_shift',lambda s: core.two_sample_shift(x,y,reps=20,seed=s,shift=1.5,keep_dist=True),[x,y]),
     ('one_sample',lambda s: core.one_sample(x[:4],y,reps=20,seed=s,keep_dist=True),[x,y]),
     ('one_sample1',lambda s: core.one_sample(z,reps=20,seed=s,alternative='less'),[z]),
     ('corr',lambda s: core.corr(x[:4],y,reps=20,seed=s),[x,y]),
     ('spearman',lambda s: core.spearman_corr(x[:4],y,reps=20,seed=s),[x,y]),
     ('k_sample',lambda s: ksample.k_sample(z,g,reps=20,seed=s,keep_dist=True),[z,g]),
     ('k_sample_obj',lambda s: ksample.k_sample(z,grp,reps=20,seed=s),[z,grp]),
     ('bivariate',lambda s: ksample.bivariate_k_sample(z,g,c,reps=20,seed=s,keep_dist=True),[z,g,c]),
     ('sim_corr',lambda s: stratified.sim_corr(z,r,g,reps=20,seed=s),[z,r,g]),
     ('strat_perm',lambda s: stratified.stratified_permutationtest(g,c,r,reps=20,seed=s),[g,c,r]),
     ('strat_two',lambda s: stratified.stratified_two_sample(g,c,r,reps=20,seed=s,keep_dist=True),[g,c,r]),
     ('ts_dist',lambda s: irr.simulate_ts_dist(rat,num_perm=20,seed=s,keep_dist=True),[rat]),
     ('pwg',lambda s: utils.permute_within_groups(c,g,s),[c,g]),
     ('permute',lambda s: utils.permute(x,s),[x]),
     ('permute_rows',lambda s: utils.permute_rows(rat,s),[rat]),
     ('incidence',lambda s: utils.permute_incidence_fixed_sums(inc,k=3,seed=s),[inc]),
    ]
    return L
def canon(v):
    return pickle.dumps(v, protocol=4)
def eq(a,b):
    try:
        np.testing.assert_equal(a,b); return True
    except AssertionError: return False
for name,f,arrs in calls():
    try:
        snaps=[a.copy() for a in arrs]
        np.random.seed(1); st0=np.random.get_state(); signal.alarm(30); r1=f(7); signal.alarm(0); st1=np.random.get_state()
        touched = not (st0[1]==st1[1]).all() or st0[2]!=st1[2]
        np.random.seed(2); np.random.rand(5); signal.alarm(30); r2=f(7); r3=f(SHA256(7)); signal.alarm(0)
        ra=f(np.random.RandomState(3)); rb=f(np.random.RandomState(3))
        if touched: note('C06 global state advanced',name)
        if not eq(r1,r2): note('C06 not reproducible under global-state change',name)
        if not eq(r1,r3): note('C06 int vs SHA256',name)
        if not eq(ra,rb): note('C06 RandomState replay',name)
        for a,s in zip(arrs,snaps):
            if not eq(a,s): note('C03 caller array modified',name)
    except Exception as e:
        signal.alarm(0); note('EXC',name,repr(e))
# ---- C17 histories
def snap(e): return (e.group.copy(), e.response.copy(), None if e.covariate is None else e.covariate.copy())
for strat in (False,True):
  for it in range(30):
    n=8; grp=rs.choice(['a','b'],size=n).tolist()
    if len(set(grp))<2: continue
    cov=[[int(v)] for v in rs.randint(0,2,size=n)]
    rz=npc.Experiment.Randomizer(randomize=npc.randomize_in_strata if strat else npc.randomize_group, seed=5)
    e=npc.Experiment(group=grp,response=rs.randint(0,5,size=(n,2)).astype(float).tolist(),covariate=cov,randomizer=rz)
    g0,r0,c0=snap(e)
    T=npc.Experiment.make_test_array(npc.Experiment.TestFunc.one_way_anova,[0,1])
    for step in range(6):
        op=rs.randint(3); ip=bool(rs.randint(2)); sd=[None,3][rs.randint(2)]
        before=snap(e)
        try:
            if op==0: out=e.randomize(in_place=ip,seed=sd)
            elif op==1: npc.sim_npc(e,T,reps=3,in_place=ip,seed=sd)
            else: npc.westfall_young(e,T,reps=3,in_place=ip,seed=sd)
        except Exception as ex: note('C17 EXC',strat,op,ip,repr(ex)); break
        after=snap(e)
        if not eq(after[1],r0) or not eq(after[2],c0): note('C17 response/covariate changed',strat,op,ip)
        if sorted(after[0].tolist())!=sorted(g0.tolist()): note('C17 labels not conserved',strat,op,ip)
        if strat:
            for v in (0,1):
                m=np.array([cc[0]==v for cc in cov])
                if sorted(after[0][m].tolist())!=sorted(g0[m].tolist()): note('C17 stratum labels moved',op,ip)
        if not ip and not eq(after[0],before[0]): note('C17 in_place=False changed group',strat,op)
        if op==0 and not ip and out is e: note('C17 randomize(in_place=False) returned self')
print('ISSUES',len(issues))
