import numpy as np, warnings, traceback
warnings.simplefilter('ignore')
from permute import core, utils, npc, stratified, ksample, irr, sprt, qa
from cryptorandom.cryptorandom import SHA256

import signal
class TO(Exception): pass
def _h(*a): raise TO('timeout')
signal.signal(signal.SIGALRM,_h)
def attempt(name, f):
    try:
        signal.alarm(10)
        r = f()
        signal.alarm(0)
        print(name, '->', r)
    except Exception as e:
        print(name, 'EXC', type(e).__name__, e)

# spearman
x = np.array([3., 1., 2., 5., 4.]); y = np.array([2., 3., 1., 4., 5.])
from scipy.stats import spearmanr
attempt('spearman tst', lambda: (core.spearman_corr(x,y,reps=10,seed=1)[0], spearmanr(x,y)[0]))
attempt('spearman plus1', lambda: (core.spearman_corr(x,y,reps=10,seed=1,plus1=False)[1], core.spearman_corr(x,y,reps=10,seed=1,plus1=True)[1]))
# one_sample python float callable
attempt('one_sample pyfloat keep', lambda: core.one_sample(np.array([1.,2,3]), stat=lambda u: float(np.mean(u)), reps=5, seed=1, keep_dist=True)[:2])
attempt('one_sample pyfloat nokeep', lambda: core.one_sample(np.array([1.,2,3]), stat=lambda u: float(np.mean(u)), reps=5, seed=1))
attempt('two_sample pyfloat keep', lambda: core.two_sample(np.array([1.,2,3]), np.array([2.,5.]), stat=lambda u,v: float(np.mean(u)-np.mean(v)), reps=5, seed=1, keep_dist=True)[:2])
# binom kwargs
attempt('binom ci', lambda: utils.binom_conf_interval(10,3))
attempt('binom ci xtol', lambda: utils.binom_conf_interval(10,3,xtol=1e-8))
attempt('hyper ci', lambda: utils.hypergeom_conf_interval(2,1,5))
attempt('hyper ci', lambda: utils.hypergeom_conf_interval(10,5,20))
# sprt
attempt('sprt last', lambda: sprt.sprt(lambda x: 100.0 if len(x)==3 else 1.0, 0.05,0.05,[1,1,1]))
# stratified t
g=np.array([1,1,1,1,2,2,2,2]); c=np.array([0,1,0,1,0,1,0,1]); r=np.array([1.,2,3,4,5,6,7,9])
attempt('strat t', lambda: stratified.stratified_two_sample(g,c,r,stat='t',reps=10,seed=1))
attempt('strat less', lambda: stratified.stratified_two_sample(g,c,r,stat='mean',alternative='less',reps=10,seed=1,keep_dist=True))
# fwer_minp
rs=np.random.RandomState(0); distr=rs.rand(200,3)
p=np.array([0.3,0.01,0.2])
attempt('fwer', lambda: npc.fwer_minp(p,distr))
attempt('fwer sorted', lambda: npc.fwer_minp(np.sort(p),distr[:,np.argsort(p)]))
# adjust_p ties
attempt('holm ties', lambda: npc.adjust_p(np.array([0.01,0.01,0.5])))
attempt('bh ties', lambda: npc.adjust_p(np.array([0.01,0.01,0.5]),'benjamini-hochberg'))
# incidence
m=np.array([[1,0,1],[0,1,0],[1,1,0]])
def inc():
    np.random.seed(1); a=utils.permute_incidence_fixed_sums(m,k=3,seed=5)
    np.random.seed(2); b=utils.permute_incidence_fixed_sums(m,k=3,seed=5)
    return (a==b).all()
attempt('incidence repro', inc)
attempt('incidence 0.5', lambda: utils.permute_incidence_fixed_sums(np.array([[1,0.5],[0,1]]),k=1,seed=5))
# qa
attempt('qa single row', lambda: qa.find_consecutive_duplicate_rows(np.array([[1,2]])))
attempt('qa single row2', lambda: qa.find_duplicate_rows(np.array([[1,2]])))
attempt('qa', lambda: qa.find_duplicate_rows(np.array([[1],[1],[2],[1]])))
