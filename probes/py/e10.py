import numpy as np, warnings, signal, itertools, math
from fractions import Fraction as F
warnings.simplefilter('ignore')
from permute import core, utils, npc, stratified, ksample, irr
from cryptorandom.cryptorandom import SHA256
signal.signal(signal.SIGALRM,lambda *a: (_ for _ in ()).throw(TimeoutError()))

class Tree(SHA256):
    """scripted generator: follows `prefix`, then picks 0 and records arities"""
    def __init__(self,prefix):
        super().__init__(0); self.prefix=list(prefix); self.pos=0; self.path=[]  # (choice, arity)
    def pick(self,arity):
        c=self.prefix[self.pos] if self.pos<len(self.prefix) else 0
        self.pos+=1; self.path.append((c,arity)); return c
    def random(self,size=None):
        if size is None: raise RuntimeError('scalar random() not scripted')
        n=int(np.prod(size)); return np.array([(self.pick(n-i)+0.5)/(n-i) for i in range(n)],dtype=object)
    def randint(self,a,b,size=None):
        if size is None: return a+self.pick(b-a)
        return np.array([a+self.pick(b-a) for _ in range(int(np.prod(size)))]).reshape(size)
    def _randbelow(self,n): return self.pick(n)
    def getrandbits(self,k): raise RuntimeError('raw bits not scripted')

def enumerate_tree(run):
    """yield (weight, result) over the whole choice tree of run(prng)"""
    prefix=[]
    while True:
        t=Tree(prefix); res=run(t); path=t.path
        w=F(1)
        for c,a in path: w*=F(1,a)
        yield w,res
        # next path
        i=len(path)-1
        while i>=0 and path[i][0]+1>=path[i][1]: i-=1
        if i<0: return
        prefix=[c for c,a in path[:i]]+[path[i][0]+1]

def mc_expect(run):
    tot=F(0); n=0; wsum=F(0)
    for w,p in enumerate_tree(run):
        tot+=w*F(float(p)).limit_denominator(1000); wsum+=w; n+=1
    assert wsum==1,wsum
    return tot,n

issues=[]
def check(name,run,exact):
    signal.alarm(120)
    try:
        got,n=mc_expect(run)
    except Exception as e:
        signal.alarm(0); print('EXC',name,repr(e)); issues.append((name,repr(e))); return
    signal.alarm(0)
    ok = got==exact
    print(('ok  ' if ok else 'DIFF'),name,'leaves',n,'impl',got,'exact',exact)
    if not ok: issues.append((name,got,exact))

def tail(vals,obs,alt):
    n=len(vals)
    up=F(sum(1 for v in vals if v>=obs),n); dn=F(sum(1 for v in vals if v<=obs),n)
    return {'greater':up,'less':dn,'two-sided':min(F(1),2*min(up,dn))}[alt]

# two_sample mean: x=[1,3,3], y=[2,5]
x=[F(1),F(3),F(3)]; y=[F(2),F(5)]
pool=x+y; nx=len(x)
def md(u,v): return sum(u)/len(u)-sum(v)/len(v)
vals=[md([pool[i] for i in p[:nx]],[pool[i] for i in p[nx:]]) for p in itertools.permutations(range(5))]
for alt in ('greater','less','two-sided'):
    check('two_sample mean '+alt, lambda s: core.two_sample(np.array(x,float),np.array(y,float),reps=1,seed=s,plus1=False,alternative=alt)[0], tail(vals,md(x,y),alt))
# two repetitions (persisting list): E[p] with reps=2 equals the same tail
check('two_sample mean greater reps=2', lambda s: core.two_sample(np.array([1.,3.]),np.array([2.]),reps=2,seed=s,plus1=False)[0],
      tail([md([a,b],[c]) for a,b,c in itertools.permutations([F(1),F(3),F(2)])],F(0),'greater'))
# one_sample
z=[F(1),F(-2),F(3),F(1)]
vals=[sum(s*v for s,v in zip(sg,z))/4 for sg in itertools.product([1,-1],repeat=4)]
for alt in ('greater','less','two-sided'):
    check('one_sample '+alt, lambda s: core.one_sample(np.array(z,float),reps=1,seed=s,plus1=False,alternative=alt)[0], tail(vals,sum(z)/4,alt))
# corr: monotone in sum x_pi y
xx=[1,2,4,7]; yy=[3,1,5,2]
vals=[sum(xx[p[i]]*yy[i] for i in range(4)) for p in itertools.permutations(range(4))]
obs=sum(a*b for a,b in zip(xx,yy))
for alt in ('greater','less','two-sided'):
    check('corr '+alt, lambda s: core.corr(np.array(xx,float),np.array(yy,float),reps=1,seed=s,plus1=False,alternative=alt)[1], tail(vals,obs,alt))
# k_sample
xv=[F(1),F(2),F(2),F(5),F(4)]; g=[0,0,1,1,2]
def anova(xv,g):
    m=sum(xv)/len(xv); t=F(0)
    for k in set(g):
        gk=[v for v,gg in zip(xv,g) if gg==k]; t+=(sum(gk)/len(gk)-m)**2*len(gk)
    return t
vals=[anova(xv,[g[i] for i in p]) for p in itertools.permutations(range(5))]
check('k_sample', lambda s: ksample.k_sample(np.array(xv,float),np.array(g),reps=1,seed=s,plus1=False)[0], tail(vals,anova(xv,g),'greater'))
# stratified designs: groups [0,0,0,1,1], condition [0,1,1,0,1]
grp=[0,0,0,1,1]; cond=[0,1,1,0,1]; resp=[F(1),F(2),F(4),F(3),F(3)]
def within(grp):
    idx=[[i for i,gg in enumerate(grp) if gg==k] for k in sorted(set(grp))]
    for ps in itertools.product(*[itertools.permutations(ix) for ix in idx]):
        m=list(range(len(grp)))
        for ix,p in zip(idx,ps):
            for a,b in zip(ix,p): m[a]=b
        yield m
def s2(resp,cond):
    a=[r for r,c in zip(resp,cond) if c==0]; b=[r for r,c in zip(resp,cond) if c==1]; return sum(a)/len(a)-sum(b)/len(b)
vals=[s2([resp[i] for i in m],cond) for m in within(grp)]
for alt in ('greater','less','two-sided'):
    check('stratified_two_sample mean '+alt, lambda s: stratified.stratified_two_sample(np.array(grp),np.array(cond),np.array(resp,float),reps=1,seed=s,plus1=False,alternative=alt)[0], tail(vals,s2(resp,cond),alt))
def sptm(grp,cond,resp):
    t=F(0)
    for k in sorted(set(grp)):
        ms=[]
        for c in sorted(set(cond)):
            v=[r for r,gg,cc in zip(resp,grp,cond) if gg==k and cc==c]; ms.append(sum(v)/len(v))
        t+=abs(ms[0]-ms[1])
    return t
vals=[sptm(grp,[cond[i] for i in m],resp) for m in within(grp)]
for alt in ('greater','less','two-sided'):
    check('stratified_permutationtest '+alt, lambda s: stratified.stratified_permutationtest(np.array(grp),np.array(cond),np.array(resp,float),reps=1,seed=s,plus1=False,alternative=alt)[0], tail(vals,sptm(grp,cond,resp),alt))
# bivariate_k_sample
def twa(xv,g2):
    m=sum(xv)/len(xv); sst=sum((v-m)**2 for v in xv); ss2=F(0)
    for k in set(g2):
        v=[a for a,gg in zip(xv,g2) if gg==k]; ss2+=(sum(v)/len(v)-m)**2
    return ss2/(sst-ss2)
vals=[twa(resp,[cond[i] for i in m]) for m in within(grp)]
check('bivariate_k_sample', lambda s: ksample.bivariate_k_sample(np.array(resp,float),np.array(grp),np.array(cond),reps=1,seed=s,plus1=False)[0], tail(vals,twa(resp,cond),'greater'))
# simulate_ts_dist
rat=[[1,0,1],[1,1,0]]
def cts(m):
    R=len(m); Ns=len(m[0]); return F(sum(1 for i in range(Ns) for a in range(R) for b in range(a+1,R) if m[a][i]==m[b][i]), Ns*R*(R-1)//2)
vals=[cts([[rat[0][i] for i in p],[rat[1][i] for i in q]]) for p in itertools.permutations(range(3)) for q in itertools.permutations(range(3))]
check('simulate_ts_dist', lambda s: irr.simulate_ts_dist(np.array(rat),num_perm=1,seed=s,plus1=False)['pvalue'], tail(vals,cts(rat),'greater'))
print('ISSUES',len(issues))
