import numpy as np, warnings, signal, itertools
from fractions import Fraction as F
warnings.simplefilter('ignore')
from permute import npc
def make_exp(table, obs, pyfloat=False):
    state={'i':-1}
    def rnd(data):
        state['i']+=1
        data.group=np.array([state['i']+1],dtype=object)
        return data
    e=npc.Experiment(group=[0],response=[[0]],randomizer=npc.Experiment.Randomizer(randomize=rnd))
    full=np.vstack([obs[None,:],table])
    if pyfloat:
        tests=[(lambda d,c=c: float(full[int(d.group[0]),c])) for c in range(table.shape[1])]
    else:
        tests=[(lambda d,c=c: full[int(d.group[0]),c]) for c in range(table.shape[1])]
    return e,tests
def oracle(table, obs, method, alt):
    # textbook step-down with the observed row included in the reference set
    full=np.vstack([table,obs[None,:]]).astype(float)
    if alt=='two-sided': full=np.abs(full)
    B,m=full.shape; reps=B-1
    if method=='minP':
        P=np.array([[F(int((full[:,j]>=full[i,j]).sum()),B) for j in range(m)] for i in range(B)],dtype=object)
        raw=[P[-1,j] for j in range(m)]
        order=sorted(range(m), key=lambda j: raw[j])  # increasing
        adj=[None]*m; prev=F(0)
        for k,j in enumerate(order):
            rest=order[k:]
            cnt=sum(1 for i in range(B) if min(P[i,r] for r in rest)<=raw[j])
            a=max(F(cnt,B),prev); adj[j]=a; prev=a
        return adj,raw
    else:
        raw=[F(int((full[:,j]>=full[-1,j]).sum()),B) for j in range(m)]
        order=sorted(range(m), key=lambda j: -full[-1,j])  # decreasing stat
        adj=[None]*m; prev=F(0)
        for k,j in enumerate(order):
            rest=order[k:]
            cnt=sum(1 for i in range(B) if max(full[i,r] for r in rest)>=full[-1,j])
            a=max(F(cnt,B),prev); adj[j]=a; prev=a
        return adj,raw
rs=np.random.RandomState(5)
for pyf in (False,True):
    try:
        e,t=make_exp(rs.rand(5,2),rs.rand(2),pyfloat=pyf); print('pyfloat',pyf, npc.westfall_young(e,t,reps=5))
    except Exception as ex: print('pyfloat',pyf,'EXC',type(ex).__name__,ex)
stats={}
ex={}
for it in range(2000):
    reps=rs.randint(1,9); m=rs.randint(1,4)
    full=(rs.randint(-3,4,size=(reps+1,m)).astype(float) if it%2 else rs.randn(reps+1,m))
    table=full[1:]; obs=full[0]
    for method in ('minP','maxT'):
        for alt in ('greater','two-sided'):
            e,t=make_exp(table,obs)
            try:
                adj,raw=npc.westfall_young(e,t,method=method,alternatives=alt,reps=reps)
            except Exception as exn:
                k=(method,alt,'EXC '+type(exn).__name__); stats[k]=stats.get(k,0)+1; ex.setdefault(k,(str(exn),table.tolist(),obs.tolist())); continue
            oadj,oraw=oracle(table,obs,method,alt)
            okr=all(abs(raw[c]-float(oraw[c]))<1e-12 for c in range(m))
            oka=all(abs(adj[c]-float(oadj[c]))<1e-12 for c in range(m))
            dom=all(adj[c]>=raw[c]-1e-12 for c in range(m))
            k=(method,alt); s=stats.setdefault(k,[0,0,0,0]); s[0]+=1; s[1]+=(not okr); s[2]+=(not oka); s[3]+=(not dom)
            if not oka: ex.setdefault(k,(reps,table.tolist(),obs.tolist(),adj,[float(a) for a in oadj]))
print(stats)
for k,v in ex.items(): print(k,v)
