import numpy as np, warnings, signal, itertools, math, copy
from fractions import Fraction as F
warnings.simplefilter('ignore')
from permute import core, utils, npc, stratified, ksample, irr, sprt, qa
from cryptorandom.cryptorandom import SHA256
from scipy.stats import beta as betad
class TO(Exception): pass
def _h(*a): raise TO('timeout')
signal.signal(signal.SIGALRM,_h)
def guard(f,t=20):
    signal.alarm(t)
    try: return f()
    finally: signal.alarm(0)
issues=[]
def note(*a): issues.append(a); print('ISSUE',*a)

# ---- C14 exhaustive hypergeometric N<=9 and binomial
from math import comb
def hpmf(N,G,n,k):
    if k<0 or k>n or k>G or n-k>N-G: return F(0)
    return F(comb(G,k)*comb(N-G,n-k), comb(N,n))
cnt=0
for N in range(1,10):
  for G in range(0,N+1):
    for n in range(0,N+1):
      for x in range(0,min(n,G)+1):
        lo=sum(hpmf(N,G,n,k) for k in range(0,x+1)); up=sum(hpmf(N,G,n,k) for k in range(x,n+1))
        for alt,ex in (('less',lo),('greater',up),('two-sided',min(F(1),2*min(lo,up)))):
            try:
                v=guard(lambda: utils.hypergeometric(x,N,n,G,alt))
            except Exception as e: note('C14 hyper exc',x,N,n,G,alt,repr(e)); continue
            cnt+=1
            if not abs(v-float(ex))<1e-9: note('C14 hyper',x,N,n,G,alt,v,float(ex))
print('C14 hyper cases',cnt)
cnt=0
for n in range(1,9):
  for pn in range(0,9):
    p=pn/8
    for x in range(0,n+1):
        pm=lambda k: F(comb(n,k))*F(pn,8)**k*(1-F(pn,8))**(n-k)
        lo=sum(pm(k) for k in range(0,x+1)); up=sum(pm(k) for k in range(x,n+1))
        for alt,ex in (('less',lo),('greater',up),('two-sided',min(F(1),2*min(lo,up)))):
            v=utils.binomial_p(x,n,p,alt); cnt+=1
            if not abs(v-float(ex))<1e-9: note('C14 binom',x,n,p,alt,v,float(ex))
print('C14 binom cases',cnt)
# ---- C12 against beta quantiles
cnt=0
for n in (1,2,5,10,37):
  for x in range(0,n+1):
    for cl in (0.5,0.9,0.975):
      for alt in ('two-sided','lower','upper'):
        for p0 in (None,0.0,1.0,0.3):
          try: lo,hi=guard(lambda: utils.binom_conf_interval(n,x,cl=cl,alternative=alt,p=p0))
          except Exception as e: note('C12 exc',n,x,cl,alt,p0,repr(e)); continue
          a=(1-cl)/2 if alt=='two-sided' else 1-cl
          elo=0.0 if (x==0 or alt=='upper') else betad.ppf(a,x,n-x+1)
          ehi=1.0 if (x==n or alt=='lower') else betad.ppf(1-a,x+1,n-x)
          cnt+=1
          if abs(lo-elo)>1e-7 or abs(hi-ehi)>1e-7: note('C12',n,x,cl,alt,p0,(lo,hi),(elo,ehi))
print('C12 cases',cnt)
# ---- C18 exhaustive
cnt=0
for R in (2,3,4):
  for Ns in (1,2,3):
    for bits in itertools.product([0,1],repeat=R*Ns):
        m=np.array(bits).reshape(R,Ns); v=irr.compute_ts(m)
        agree=sum(1 for i in range(Ns) for a in range(R) for b in range(a+1,R) if m[a,i]==m[b,i])
        ex=F(agree, Ns*R*(R-1)//2); cnt+=1
        if abs(v-float(ex))>1e-12: note('C18',m.tolist(),v,ex)
print('C18 cases',cnt)
# ---- C20 exhaustive
from collections import Counter
cnt=0
for nr in (1,2,3,4):
  for nc in (1,2):
    for vals in itertools.product([0,1,2],repeat=nr*nc):
        a=np.array(vals).reshape(nr,nc); a0=a.copy()
        d=qa.find_duplicate_rows(a); c=Counter(map(tuple,a.tolist()))
        exp=Counter({k:v-1 for k,v in c.items() if v>1})
        if Counter(map(tuple,np.array(d).reshape(-1,nc).tolist()))!=exp: note('C20 dup',a.tolist(),np.array(d).tolist())
        d2=qa.find_consecutive_duplicate_rows(a)
        exp2=[a[i+1].tolist() for i in range(nr-1) if (a[i+1]==a[i]).all()]
        if np.array(d2).reshape(-1,nc).tolist()!=exp2: note('C20 consec',a.tolist(),np.array(d2).tolist(),exp2)
        s=qa.find_duplicate_rows(a,as_string=True)
        if sorted(s)!=sorted(','.join(map(str,k)) for k,v in exp.items() for _ in range(v)): note('C20 str',a.tolist(),s)
        if not (a==a0).all(): note('C20 mutated',a0.tolist())
        cnt+=1
print('C20 cases',cnt)
print('ISSUES',len(issues))
