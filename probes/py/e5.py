import numpy as np, warnings, signal, itertools
from fractions import Fraction as F
warnings.simplefilter('ignore')
from permute import npc, stratified, core, utils, irr
rs=np.random.RandomState(7)
# C08 relabel invariance at float level
bad=0; tot=0; ex=None
for it in range(4000):
    B=rs.randint(3,15); n=rs.randint(3,5)
    D=rs.randint(0,5,size=(B,n)).astype(float)
    obs=D[rs.randint(B)]
    p=np.array([(D[:,j]>=obs[j]).sum()/B for j in range(n)])
    perm=rs.permutation(n)
    for comb in ('fisher','liptak','tippett'):
        for plus1 in (True,False):
            a=npc.npc(p,D,comb,plus1); b=npc.npc(p[perm],D[:,perm],comb,plus1)
            tot+=1
            if a!=b:
                bad+=1
                if ex is None: ex=(comb,plus1,p.tolist(),perm.tolist(),D.tolist(),a,b)
print('relabel mismatches',bad,'of',tot); print(ex)
# C08 monotone in p
bad=0
for it in range(3000):
    B=rs.randint(3,15); n=rs.randint(2,5)
    D=rs.rand(B,n); p=rs.rand(n)*0.9+0.01; q=p.copy(); j=rs.randint(n); q[j]=min(1.0,q[j]+rs.rand()*0.3)
    for comb in ('fisher','liptak','tippett'):
        if npc.npc(q,D,comb) < npc.npc(p,D,comb): bad+=1
print('monotone failures',bad)
# stratified mean: 2 groups x 3 conditions
g=np.array([1,1,1,2,2,2]); c=np.array([1,2,3,1,2,3]); r=np.array([0.,0,9,0,0,9])
print('sptm 2 groups 3 conds', stratified.stratified_permutationtest_mean(g,c,r), 'expected sum of std', 2*np.std([0,0,9]))
g=np.array([1,1,2,2,3,3]); c=np.array([1,2,1,2,1,2]); r=np.array([0.,1,0,2,0,3])
print('sptm 3 groups 2 conds', stratified.stratified_permutationtest_mean(g,c,r), 'expected sum absdiff', 6)
# C16: shift vs translate
x=np.array([1.,4,6,7]); y=np.array([2.,3,5])
for d in (0,2,-3.5):
    a=core.two_sample_shift(x,y,reps=200,seed=11,shift=d,keep_dist=True); b=core.two_sample(x,y+d,reps=200,seed=11,keep_dist=True)
    c2=core.two_sample_shift(x,y,reps=200,seed=11,shift=(lambda u:u+d, lambda u:u-d),keep_dist=True)
    print('shift',d,a[0],b[0],c2[0],a[1],np.mean(x)-np.mean(y), np.allclose(a[2],b[2]+d), np.array_equal(a[2],c2[2]))
# TestFunc types
e=npc.Experiment(group=[1,1,2,2,2],response=[[1.,2],[3,4],[5,6],[7,9],[2,2]])
print(type(npc.Experiment.TestFunc.mean_diff(e,0)), type(npc.Experiment.TestFunc.ttest(e,0)), type(npc.Experiment.TestFunc.one_way_anova(e,0)))
t=npc.Experiment.make_test_array(npc.Experiment.TestFunc.mean_diff,[0,1])
try: print(npc.westfall_young(e,t,reps=5,seed=3))
except Exception as exn: print('WY mean_diff EXC',type(exn).__name__,exn)
try: print(npc.westfall_young(e,t,method='maxT',reps=5,seed=3))
except Exception as exn: print('WY mean_diff maxT EXC',type(exn).__name__,exn)
print(npc.sim_npc(e,t,reps=5,seed=3))
