import numpy as np, warnings, signal, itertools
from fractions import Fraction as F
warnings.simplefilter('ignore')
from permute import npc
def make_exp(table, obs):
    state={'i':-1}
    def rnd(data):
        state['i']+=1
        data.group=np.array([state['i']+1],dtype=object)
        return data
    e=npc.Experiment(group=[0],response=[[0]],randomizer=npc.Experiment.Randomizer(randomize=rnd))
    full=np.vstack([obs[None,:],table])
    tests=[(lambda d,c=c: full[int(d.group[0]),c]) for c in range(table.shape[1])]
    return e,tests
def exact(table, obs, comb):
    full=np.vstack([table,obs[None,:]]); B,n=full.shape
    pv=[[F(int((full[:,j]>=full[i,j]).sum()),B) for j in range(n)] for i in range(B)]
    if comb=='fisher':
        key=[ -np.prod(r) if False else None for r in pv]
        prod=[F(1)]*B
        for i in range(B):
            q=F(1)
            for v in pv[i]: q*=v
            prod[i]=q
        cnt=sum(1 for i in range(B) if prod[i]<=prod[-1])
    elif comb=='tippett':
        mn=[min(r) for r in pv]; cnt=sum(1 for i in range(B) if mn[i]<=mn[-1])
    return F(cnt,B)
rs=np.random.RandomState(3)
fails={'fisher':0,'tippett':0}; zeros={'fisher':0,'tippett':0}; tot=0
ex=None
for it in range(3000):
    reps=rs.randint(2,12); m=rs.randint(2,4)
    full=rs.randint(0,6,size=(reps+1,m)).astype(float) if it%2 else rs.rand(reps+1,m)
    table=full[1:]; obs=full[0]
    for comb in ('fisher','tippett'):
        e,t=make_exp(table,obs)
        p,ts,ps=npc.sim_npc(e,t,combine=comb,reps=reps)
        q=exact(table,obs,comb)
        if abs(p-float(q))>1e-12:
            fails[comb]+=1
            if p==0: zeros[comb]+=1
            if ex is None or (p==0 and ex[0]!=0): ex=(p,q,comb,reps,table.tolist(),obs.tolist())
    tot+=1
print(tot,fails,zeros); print(ex)
