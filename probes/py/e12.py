import numpy as np, itertools, warnings, signal
warnings.simplefilter('ignore')
from permute import utils, npc
signal.signal(signal.SIGALRM,lambda *a: (_ for _ in ()).throw(TimeoutError()))
def swappable(m):
    r,c=m.shape
    for a in range(r):
        for b in range(r):
            if a!=b and ((m[a]==1)&(m[b]==0)).any() and ((m[a]==0)&(m[b]==1)).any(): return True
    return False
bad=0; tot=0
for (r,c) in ((2,2),(2,3),(3,2),(3,3)):
    for bits in itertools.product([0,1],repeat=r*c):
        m=np.array(bits).reshape(r,c)
        if m.min()!=0 or m.max()!=1 or not swappable(m): continue
        for k in (0,1,2,3):
            m0=m.copy(); signal.alarm(20)
            try: out=utils.permute_incidence_fixed_sums(m,k=k,seed=3)
            except Exception as e: signal.alarm(0); bad+=1; print('EXC',m.tolist(),k,repr(e)); continue
            signal.alarm(0); tot+=1
            ok=(out.shape==m.shape and set(np.unique(out))<= {0,1} and (out.sum(0)==m.sum(0)).all() and (out.sum(1)==m.sum(1)).all()
                and (out!=m).sum()<=4*k and (m==m0).all() and (k>0 or (out==m).all()))
            if not ok: bad+=1; print('BAD',m.tolist(),k,out.tolist())
print('C19 cases',tot,'bad',bad)
# C11 without ties vs textbook
from fractions import Fraction as F
rs=np.random.RandomState(2); bad=0
for it in range(2000):
    n=rs.randint(1,7); p=rs.permutation(40)[:n]/41.0
    o=np.argsort(p); ps=p[o]
    holm=np.empty(n); bh=np.empty(n)
    run=0
    for j in range(n): run=max(run,min(1,(n-j)*ps[j])); holm[o[j]]=run
    run=1
    for j in reversed(range(n)): run=min(run,min(1,n*ps[j]/(j+1))); bh[o[j]]=run
    if not np.allclose(npc.adjust_p(p),holm) or not np.allclose(npc.adjust_p(p,'benjamini-hochberg'),bh) or not np.allclose(npc.adjust_p(p,'bonferroni'),np.minimum(1,n*p)): bad+=1
print('C11 untied mismatches',bad)
