import numpy as np, math, itertools, warnings
from fractions import Fraction as F
from math import comb
from scipy.stats import hypergeom
warnings.simplefilter('ignore')
def hci(n, x, N, cl=0.975, alternative="two-sided", G=None, **kwargs):
    # candidate repair: same defining inequalities, searched over integers
    assert alternative in ("two-sided", "lower", "upper")
    ci_low = 0; ci_upp = N
    if alternative == 'two-sided':
        cl = 1 - (1 - cl) / 2
    if alternative != "upper" and x > 0:
        lo, hi = x, N - (n - x)            # P_G(X >= x) is 0 below x and 1 at N-(n-x)... nondecreasing in G
        while lo < hi:
            mid = (lo + hi) // 2
            if hypergeom.sf(x - 1, N, mid, n) >= 1 - cl: hi = mid
            else: lo = mid + 1
        ci_low = lo
    if alternative != "lower" and x < n:
        lo, hi = x, N - (n - x)
        while lo < hi:
            mid = (lo + hi + 1) // 2
            if hypergeom.cdf(x, N, mid, n) >= 1 - cl: lo = mid
            else: hi = mid - 1
        ci_upp = lo
    return ci_low, ci_upp
def pm(N,G,n,k):
    if k<0 or k>n or k>G or n-k>N-G: return F(0)
    return F(comb(G,k)*comb(N-G,n-k),comb(N,n))
bad=0; tot=0; order=0
for N in range(1,15):
  for n in range(1,N+1):
    for x in range(0,n+1):
      for cl in (0.5,0.8,0.95):
        for alt in ('two-sided','lower','upper'):
          a=F(1-cl).limit_denominator(10**6); a = a/2 if alt=='two-sided' else a
          up=lambda G: sum(pm(N,G,n,k) for k in range(x,n+1)); dn=lambda G: sum(pm(N,G,n,k) for k in range(0,x+1))
          elo=0 if (x==0 or alt=='upper') else min(G for G in range(N+1) if up(G)>=a)
          ehi=N if (x==n or alt=='lower') else max(G for G in range(N+1) if dn(G)>=a)
          got=hci(n,x,N,cl=cl,alternative=alt); tot+=1
          if got!=(elo,ehi): bad+=1; print('DIFF',n,x,N,cl,alt,got,(elo,ehi)) if bad<5 else None
          if alt=='two-sided' and not (x<=elo<=ehi<=N-(n-x)): order+=1; print('ORDER',n,x,N,cl,(elo,ehi)) if order<5 else None
print('cases',tot,'diffs',bad,'order violations of exact definition',order)
print(hci(10,5,20,cl=.95), hci(2,1,5,cl=.95), hci(2,2,5,cl=.95))
