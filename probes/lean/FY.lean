import Mathlib.Data.List.Perm.Basic
import Mathlib.Data.List.Nodup
import Mathlib.Tactic.Linarith

/-- cryptorandom `fykd_sample(n, n)`: position i swaps with position i + c_i, c_i < n - i.
Recursive on the not-yet-fixed suffix. -/
def fy {α : Type} : List α → List Nat → List α
  | [], _ => []
  | l, [] => l
  | x :: xs, c :: cs =>
    match c with
    | 0 => x :: fy xs cs
    | k+1 =>
      match xs[k]? with
      | none => x :: fy xs cs
      | some y => y :: fy (xs.set k x) cs

/-- valid choice vectors for a list of length n: length n and c_i < n - i -/
def ValidC : Nat → List Nat → Prop
  | 0, cs => cs = []
  | _+1, [] => False
  | n+1, c :: cs => c < n+1 ∧ ValidC n cs

theorem cons_set_perm {α : Type} (x : α) (xs : List α) (k : Nat) (hk : k < xs.length) :
    (xs[k] :: xs.set k x).Perm (x :: xs) := by
  rw [List.set_eq_take_append_cons_drop]
  simp only [hk, if_true]
  have : xs = xs.take k ++ xs[k] :: xs.drop (k+1) := by simp
  conv_rhs => rw [this]
  exact ((List.perm_middle.cons _).trans (List.Perm.swap ..)).trans (List.perm_middle.symm.cons x)

theorem fy_perm {α : Type} : ∀ (l : List α) (cs : List Nat), (fy l cs).Perm l
  | [], cs => by simp [fy]
  | x :: xs, [] => by simp [fy]
  | x :: xs, 0 :: cs => by
      simp only [fy]; exact (fy_perm xs cs).cons x
  | x :: xs, (k+1) :: cs => by
      simp only [fy]
      cases h : xs[k]? with
      | none => simp only []; exact (fy_perm xs cs).cons x
      | some y =>
        simp only []
        obtain ⟨hk, hy⟩ := List.getElem?_eq_some_iff.mp h
        have h1 : (fy (xs.set k x) cs).Perm (xs.set k x) := fy_perm _ cs
        exact (h1.cons y).trans (hy ▸ cons_set_perm x xs k hk)
termination_by l cs => cs.length

/-- existence: every permutation of a duplicate-free list is produced by a valid choice vector -/
theorem fy_exists {α : Type} : ∀ (l t : List α), l.Nodup → t.Perm l →
    ∃ cs, ValidC l.length cs ∧ fy l cs = t
  | [], t, _, hp => ⟨[], by simp [ValidC], by simp [fy, hp.eq_nil]⟩
  | x :: xs, t, hnd, hp => by
      cases t with
      | nil => exact absurd hp.symm.eq_nil (by simp)
      | cons y t' =>
        have hy : y ∈ x :: xs := hp.subset (List.mem_cons_self ..)
        rcases List.mem_cons.mp hy with rfl | hyx
        · have hp' : t'.Perm xs := (List.perm_cons y).mp hp
          obtain ⟨cs, hv, hf⟩ := fy_exists xs t' (List.nodup_cons.mp hnd).2 hp'
          exact ⟨0 :: cs, ⟨by simp, hv⟩, by simp [fy, hf]⟩
        · obtain ⟨k, hk, hyk⟩ := List.getElem_of_mem hyx
          have hnd' : (xs.set k x).Nodup :=
            (List.nodup_cons.mp hnd).2.set (List.nodup_cons.mp hnd).1
          have hp' : t'.Perm (xs.set k x) := by
            have h2 := cons_set_perm x xs k hk
            rw [hyk] at h2
            exact (List.perm_cons y).mp (hp.trans h2.symm)
          obtain ⟨cs, hv, hf⟩ := fy_exists (xs.set k x) t' hnd' hp'
          refine ⟨(k+1) :: cs, ⟨by simp; omega, by simpa using hv⟩, ?_⟩
          simp [fy, List.getElem?_eq_getElem hk, hyk, hf]
termination_by l => l.length

#print axioms fy_perm
#print axioms fy_exists
example : fy [10, 20, 30] [2, 0, 0] = [30, 20, 10] := by decide
