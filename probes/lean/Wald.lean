import Mathlib.Tactic.Linarith
import Mathlib.Tactic.Positivity
import Mathlib.Tactic.FieldSimp
import Mathlib.Tactic.Ring
import Mathlib.Algebra.Order.Field.Rat

/-- one branch: observation with null probability `q`, likelihood-ratio factor `r`;
`cont` is the value of continuing from the updated ratio. -/
def branch (A B lr q r : Rat) (cont : Rat → Rat) : Rat :=
  if B ≤ lr * r then q else if lr * r ≤ A then 0 else q * cont (lr * r)

/-- `W p0 pa A B useAlt k lr`: probability (under H0 if `useAlt = false`, under Ha otherwise) of
eventually rejecting H0 within `k` further Bernoulli observations, from a continuation state with
current likelihood ratio `lr`.  No decision at the end of the data counts as "not rejected". -/
def W (p0 pa A B : Rat) (useAlt : Bool) : Nat → Rat → Rat
  | 0, _ => 0
  | k+1, lr =>
    branch A B lr (if useAlt then pa else p0) (pa / p0) (W p0 pa A B useAlt k) +
    branch A B lr (if useAlt then 1 - pa else 1 - p0) ((1 - pa) / (1 - p0)) (W p0 pa A B useAlt k)

theorem Wa_le_one (p0 pa A B : Rat) (h0 : 0 < p0) (h0' : p0 < 1) (ha : 0 < pa) (ha' : pa < 1) :
    ∀ k lr, 0 ≤ W p0 pa A B true k lr ∧ W p0 pa A B true k lr ≤ 1 := by
  intro k
  induction k with
  | zero => intro lr; simp [W]
  | succ k ih =>
    intro lr
    simp only [W, branch, if_true]
    have h1 := ih (lr * (pa / p0))
    have h2 := ih (lr * ((1 - pa) / (1 - p0)))
    have hb1 : 0 ≤ (if B ≤ lr * (pa / p0) then pa else if lr * (pa / p0) ≤ A then 0 else pa * W p0 pa A B true k (lr * (pa / p0))) ∧
        (if B ≤ lr * (pa / p0) then pa else if lr * (pa / p0) ≤ A then 0 else pa * W p0 pa A B true k (lr * (pa / p0))) ≤ pa := by
      split_ifs
      · exact ⟨le_of_lt ha, le_refl _⟩
      · exact ⟨le_refl _, le_of_lt ha⟩
      · exact ⟨mul_nonneg (le_of_lt ha) h1.1, by nlinarith [h1.2]⟩
    have hb2 : 0 ≤ (if B ≤ lr * ((1 - pa) / (1 - p0)) then 1 - pa else if lr * ((1 - pa) / (1 - p0)) ≤ A then 0 else (1 - pa) * W p0 pa A B true k (lr * ((1 - pa) / (1 - p0)))) ∧
        (if B ≤ lr * ((1 - pa) / (1 - p0)) then 1 - pa else if lr * ((1 - pa) / (1 - p0)) ≤ A then 0 else (1 - pa) * W p0 pa A B true k (lr * ((1 - pa) / (1 - p0)))) ≤ 1 - pa := by
      have : 0 < 1 - pa := by linarith
      split_ifs
      · exact ⟨le_of_lt this, le_refl _⟩
      · exact ⟨le_refl _, le_of_lt this⟩
      · exact ⟨mul_nonneg (le_of_lt this) h2.1, by nlinarith [h2.2]⟩
    constructor <;> linarith [hb1.1, hb1.2, hb2.1, hb2.2]

/-- Wald's inequality, inductive core: `B · P0(reject H0) ≤ lr · Pa(reject H0)`. -/
theorem wald_core (p0 pa A B : Rat) (h0 : 0 < p0) (h0' : p0 < 1) (ha : 0 < pa) (ha' : pa < 1) :
    ∀ k lr, 0 ≤ lr → B * W p0 pa A B false k lr ≤ lr * W p0 pa A B true k lr := by
  intro k
  induction k with
  | zero => intro lr _; simp [W]
  | succ k ih =>
    intro lr hlr
    have hq : 0 < 1 - p0 := by linarith
    have hr1 : 0 ≤ lr * (pa / p0) := mul_nonneg hlr (le_of_lt (div_pos ha h0))
    have hr2 : 0 ≤ lr * ((1 - pa) / (1 - p0)) := mul_nonneg hlr (le_of_lt (div_pos (by linarith) hq))
    have e1 : lr * pa = lr * (pa / p0) * p0 := by field_simp
    have e2 : lr * (1 - pa) = lr * ((1 - pa) / (1 - p0)) * (1 - p0) := by field_simp
    have i1 := ih _ hr1
    have i2 := ih _ hr2
    simp only [W, branch, if_true, Bool.false_eq_true, if_false]
    have b1 : B * (if B ≤ lr * (pa / p0) then p0 else if lr * (pa / p0) ≤ A then 0 else p0 * W p0 pa A B false k (lr * (pa / p0)))
        ≤ lr * (if B ≤ lr * (pa / p0) then pa else if lr * (pa / p0) ≤ A then 0 else pa * W p0 pa A B true k (lr * (pa / p0))) := by
      split_ifs with hB hA
      · rw [e1]; nlinarith
      · simp
      · calc B * (p0 * W p0 pa A B false k (lr * (pa / p0)))
            = p0 * (B * W p0 pa A B false k (lr * (pa / p0))) := by ring
          _ ≤ p0 * (lr * (pa / p0) * W p0 pa A B true k (lr * (pa / p0))) :=
              mul_le_mul_of_nonneg_left i1 (le_of_lt h0)
          _ = lr * (pa * W p0 pa A B true k (lr * (pa / p0))) := by rw [show lr * (pa * W p0 pa A B true k (lr * (pa / p0))) = (lr * pa) * W p0 pa A B true k (lr * (pa / p0)) by ring, e1]; ring
    have b2 : B * (if B ≤ lr * ((1 - pa) / (1 - p0)) then 1 - p0 else if lr * ((1 - pa) / (1 - p0)) ≤ A then 0 else (1 - p0) * W p0 pa A B false k (lr * ((1 - pa) / (1 - p0))))
        ≤ lr * (if B ≤ lr * ((1 - pa) / (1 - p0)) then 1 - pa else if lr * ((1 - pa) / (1 - p0)) ≤ A then 0 else (1 - pa) * W p0 pa A B true k (lr * ((1 - pa) / (1 - p0)))) := by
      split_ifs with hB hA
      · rw [e2]; nlinarith
      · simp
      · calc B * ((1 - p0) * W p0 pa A B false k (lr * ((1 - pa) / (1 - p0))))
            = (1 - p0) * (B * W p0 pa A B false k (lr * ((1 - pa) / (1 - p0)))) := by ring
          _ ≤ (1 - p0) * (lr * ((1 - pa) / (1 - p0)) * W p0 pa A B true k (lr * ((1 - pa) / (1 - p0)))) :=
              mul_le_mul_of_nonneg_left i2 (le_of_lt hq)
          _ = lr * ((1 - pa) * W p0 pa A B true k (lr * ((1 - pa) / (1 - p0)))) := by rw [show lr * ((1 - pa) * W p0 pa A B true k (lr * ((1 - pa) / (1 - p0)))) = (lr * (1 - pa)) * W p0 pa A B true k (lr * ((1 - pa) / (1 - p0))) by ring, e2]; ring
    linarith [b1, b2, mul_add B (if B ≤ lr * (pa / p0) then p0 else if lr * (pa / p0) ≤ A then 0 else p0 * W p0 pa A B false k (lr * (pa / p0))) (if B ≤ lr * ((1 - pa) / (1 - p0)) then 1 - p0 else if lr * ((1 - pa) / (1 - p0)) ≤ A then 0 else (1 - p0) * W p0 pa A B false k (lr * ((1 - pa) / (1 - p0)))), mul_add lr (if B ≤ lr * (pa / p0) then pa else if lr * (pa / p0) ≤ A then 0 else pa * W p0 pa A B true k (lr * (pa / p0))) (if B ≤ lr * ((1 - pa) / (1 - p0)) then 1 - pa else if lr * ((1 - pa) / (1 - p0)) ≤ A then 0 else (1 - pa) * W p0 pa A B true k (lr * ((1 - pa) / (1 - p0))))]

/-- Wald: from the start (`lr = 1`) the null probability of rejecting H0 is at most `1/B`. -/
theorem wald_alpha (p0 pa A B : Rat) (h0 : 0 < p0) (h0' : p0 < 1) (ha : 0 < pa) (ha' : pa < 1)
    (hB : 0 < B) (n : Nat) : W p0 pa A B false n 1 ≤ 1 / B := by
  have h := wald_core p0 pa A B h0 h0' ha ha' n 1 (by norm_num)
  have h1 := (Wa_le_one p0 pa A B h0 h0' ha ha' n 1).2
  rw [le_div_iff₀ hB]; nlinarith

#print axioms wald_alpha
