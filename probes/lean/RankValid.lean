import Mathlib.Data.List.MinMax
import Mathlib.Data.Finset.Max
import Mathlib.Order.Basic

variable {β : Type} [LinearOrder β]

/-- number of entries of `T` that are at least `t` -/
def cntGe (T : List β) (t : β) : Nat := (T.filter (fun u => decide (t ≤ u))).length

/-- Exact validity of rank p-values, counting form: at most `k` entries have "at most k entries ≥ me". -/
theorem rank_valid (T : List β) (k : Nat) :
    (T.filter (fun t => decide (cntGe T t ≤ k))).length ≤ k := by
  set S := T.filter (fun t => decide (cntGe T t ≤ k)) with hS
  by_cases hne : S = []
  · simp [hne]
  · -- a minimal element of S
    obtain ⟨m, hmS, hmin⟩ : ∃ m ∈ S, ∀ s ∈ S, m ≤ s := by
      have hfin : S.toFinset.Nonempty := by
        obtain ⟨a, ha⟩ := List.exists_mem_of_ne_nil S hne
        exact ⟨a, List.mem_toFinset.mpr ha⟩
      obtain ⟨m, hm, hle⟩ := Finset.exists_min_image S.toFinset id hfin
      exact ⟨m, List.mem_toFinset.mp hm, fun s hs => hle s (List.mem_toFinset.mpr hs)⟩
    have hmT : m ∈ T ∧ cntGe T m ≤ k := by
      have := List.mem_filter.mp hmS
      exact ⟨this.1, by simpa using this.2⟩
    -- S is a sublist of the entries ≥ m
    have hsub : S.length ≤ (T.filter (fun u => decide (m ≤ u))).length := by
      have hcongr : S = (T.filter (fun u => decide (m ≤ u))).filter (fun t => decide (cntGe T t ≤ k)) := by
        rw [hS, List.filter_filter]
        apply List.filter_congr
        intro x hx
        by_cases hP : cntGe T x ≤ k
        · have hxS : x ∈ S := by rw [hS]; exact List.mem_filter.mpr ⟨hx, by simpa using hP⟩
          have := hmin x hxS
          simp [hP, this]
        · simp [hP]
      rw [hcongr]
      exact List.length_filter_le _ _
    exact le_trans hsub hmT.2

#print axioms rank_valid
example : cntGe [3, 1, 2, 3] 2 = 3 := by decide
