#!/usr/bin/env python3
"""seed_eval.py <seed_dir> <property> [--checks C01,C05] [--skip-suite]

Confirms a seeded change in a scratch worktree of /repo and runs the checks against it:
  1. demo passes on the unchanged tree, fails with the patch applied;
  2. the 61 stable baseline tests still pass with the patch (unless --skip-suite);
  3. the property's quick check (and any others named) is run with PERMUTE_REPO pointing at the
     patched scratch worktree; exit codes and VIOLATION lines are recorded.
Writes <seed_dir>/eval.json and prints a one-line summary.  The scratch worktree is removed.
"""
import os, sys, json, subprocess, shutil, tempfile, xml.etree.ElementTree as ET

VERIF = os.path.dirname(os.path.abspath(__file__))
PY = "/venv/bin/python"


def sh(cmd, cwd=None, env=None, timeout=3600):
    r = subprocess.run(cmd, shell=True, cwd=cwd, env=env, capture_output=True, text=True, timeout=timeout)
    return r.returncode, (r.stdout + r.stderr)


def main():
    seed = os.path.abspath(sys.argv[1]); prop = sys.argv[2]
    checks = [prop]
    if "--checks" in sys.argv:
        checks = sys.argv[sys.argv.index("--checks") + 1].split(",")
    wt = tempfile.mkdtemp(prefix="confirm_", dir="/tmp")
    os.rmdir(wt)
    res = {"seed": seed, "property": prop}
    try:
        rc, out = sh(f"git -C /repo worktree add --detach {wt} HEAD")
        assert rc == 0, out
        env = dict(os.environ, PYTHONPATH=wt)
        rc0, o0 = sh(f"timeout 600 {PY} {seed}/demo.py", cwd=wt, env=env)
        res["demo_clean_rc"] = rc0
        rc, out = sh(f"git apply {seed}/patch.diff", cwd=wt)
        if rc != 0:   # the seed may predate a later fix: commit touching the same lines: fall back to the seed's base
            for base in ("HEAD~1", "HEAD~2"):
                sh(f"git -C {wt} checkout -q --detach {base}")
                rc, out = sh(f"git apply {seed}/patch.diff", cwd=wt)
                if rc == 0:
                    res["base"] = base
                    break
        res["patch_applies"] = rc == 0
        if rc != 0:
            res["error"] = out[-500:]
            return res
        rc1, o1 = sh(f"timeout 600 {PY} {seed}/demo.py", cwd=wt, env=env)
        res["demo_patched_rc"] = rc1; res["demo_patched_tail"] = o1[-600:]
        if "--skip-suite" not in sys.argv:
            x = os.path.join(wt, "junit.xml")
            sh(f"timeout 3000 {PY} -m pytest -q -p no:cacheprovider --timeout=900 --continue-on-collection-errors --junitxml={x} permute", cwd=wt, timeout=3200)
            base = set(json.load(open("/root/.vp/BASELINE.json"))["stable_pass"])
            passed = set()
            if os.path.exists(x):
                for tc in ET.parse(x).iter("testcase"):
                    if not any(c.tag in ("failure", "error", "skipped") for c in tc):
                        passed.add(tc.get("classname") + "::" + tc.get("name"))
            res["baseline_missing"] = sorted(base - passed)
        res["checks"] = {}
        for c in checks:
            env2 = dict(os.environ, PERMUTE_REPO=wt, VERIF_EVIDENCE_DIR=os.path.join(wt, "_ev"))
            rc, out = sh(f"timeout 1500 {PY} check.py {c} quick", cwd=VERIF, env=env2, timeout=1600)
            lines = [l for l in out.split("\n") if l.startswith("VIOLATION") or "CHECK-BROKEN" in l]
            res["checks"][c] = {"rc": rc, "line": lines[0] if lines else ""}
            if lines and "replay=" in lines[0]:
                rp = lines[0].split("replay=")[1].split()[0]
                try:
                    d = json.load(open(os.path.join(VERIF, rp)))
                    res["checks"][c]["first"] = json.dumps(d["first"], default=str)[:700]
                except Exception:
                    pass
        return res
    finally:
        sh(f"git -C /repo worktree remove --force {wt}")
        shutil.rmtree(wt, ignore_errors=True)
        json.dump(res, open(os.path.join(seed, "eval.json"), "w"), indent=1)
        det = {c: v["rc"] for c, v in res.get("checks", {}).items()}
        print(f"{os.path.basename(os.path.dirname(seed))}/{os.path.basename(seed)} prop={prop} demo(clean/patched)={res.get('demo_clean_rc')}/{res.get('demo_patched_rc')} "
              f"baseline_missing={len(res.get('baseline_missing', []))} checks={det}")


if __name__ == "__main__":
    main()
