#!/bin/bash
# run every claimed quick check on the current tree (regenerates evidence/); prints exit codes
cd "$(dirname "$0")"
tier=${1:-quick}
ids=$(python3 -c "import json; print(' '.join(c['property_id'] for c in json.load(open('MANIFEST.json'))['checks']))")
for id in $ids; do
  s=$(date +%s)
  timeout 3000 /venv/bin/python check.py $id $tier > /tmp/run_all_$id.log 2>&1
  rc=$?
  echo "$id rc=$rc $(( $(date +%s) - s ))s $(grep -c KNOWN-FINDING /tmp/run_all_$id.log) known $(grep VIOLATION /tmp/run_all_$id.log | head -1)"
done
