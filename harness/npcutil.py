"""helpers shared by the NPC-family checks (C07–C10, C17, C18)"""
from fractions import Fraction as Fr
import numpy as np


def scripted_experiment(table, obs, kinds=None):
    """an Experiment whose randomizer just advances a row counter and whose test functions look the
    statistics up in `table` (one row per randomisation); `obs` is returned before the first
    randomisation.  kinds[c] selects the Python type the c-th test function returns."""
    from permute import npc
    st = {"i": -1, "calls": 0}

    def rnd(data):
        st["i"] += 1
        return data

    conv = {"np": np.float64, "float": float, "int": lambda v: int(v) if float(v).is_integer() else float(v),
            "f32": np.float32, "i64": lambda v: np.int64(v) if float(v).is_integer() else np.float64(v)}

    def mk(c):
        k = conv[(kinds or ["np"] * len(obs))[c]]
        def t(data):
            st["calls"] += 1
            v = obs[c] if st["i"] < 0 else table[st["i"]][c]
            return k(v)
        return t

    e = npc.Experiment(group=[0, 1], response=[[0], [1]], randomizer=npc.Experiment.Randomizer(randomize=rnd))
    return e, [mk(c) for c in range(len(obs))], st


def row_pvals_exact(distr, plus1):
    """exact per-row p-values (#{u >= v} + 2c)/(B + c) of the repaired npc"""
    B = len(distr)
    c = 1 if plus1 else 0
    n = len(distr[0]) if B else 0
    cols = [[Fr(r[j]) for r in distr] for j in range(n)]
    return [[Fr(sum(1 for u in cols[j] if u >= Fr(r[j])) + 2 * c, B + c) for j in range(n)] for r in distr]


def comb_exact(name):
    if name == "fisher":
        def f(p):
            v = Fr(1)
            for t in p:
                v *= t
            return -v
        return f
    if name == "tippett":
        return lambda p: max(1 - t for t in p)
    if name == "negsum":
        return lambda p: -sum(p)
    if name.startswith("negwsum:"):
        w = [Fr(t) for t in name.split(":")[1].split()]
        return lambda p: -sum(a * b for a, b in zip(w, p))
    if name.startswith("negminsum:"):      # flat above the truncation point: -sum(min(p_i, tau))
        tau = Fr(name.split(":")[1])
        return lambda p: -sum(min(t, tau) for t in p)
    if name.startswith("countbelow:"):     # number of partial p-values at or below the threshold (a step function)
        tau = Fr(name.split(":")[1])
        return lambda p: Fr(sum(1 for t in p if t <= tau))
    if name == "negposw":      # position-dependent weights 1, 1/2, 1/3, ...: not symmetric in its arguments
        return lambda p: -sum(t / (i + 1) for i, t in enumerate(p))
    raise KeyError(name)


def npc_exact(pvalues, distr, name, plus1):
    """(ge, ambiguous) : rows whose exact combined statistic is >= the observed one, and how many
    of those are exact ties between *different* p-vectors (which double arithmetic may order
    either way for Fisher products)"""
    P = row_pvals_exact(distr, plus1)
    f = comb_exact(name)
    pv = [Fr(t) for t in pvalues]
    obs = f(pv)
    ge = sum(1 for r in P if f(r) >= obs)
    amb = sum(1 for r in P if f(r) == obs and r != pv) if (name in ("fisher", "negsum", "negposw") or name.startswith(("negwsum", "negminsum"))) else 0
    return ge, amb


def liptak_bracket(pv, distr, plus1, tol=1e-9):
    """double-precision oracle of the documented Liptak rule: numerators (lo, hi) such that the global p-value must be
    k/(B+c) with lo <= k <= hi; rows within `tol` of the observed statistic may be counted either way"""
    from scipy.stats import norm
    B = len(distr); n = len(distr[0]); c = 1 if plus1 else 0
    P = np.array([[(sum(1 for u in distr if u[j] >= row[j]) + 2 * c) / (B + c) for j in range(n)] for row in distr])
    P[P >= 1] = 1 - np.finfo(float).eps
    stat = np.array([np.sum(norm.ppf(1 - row)) for row in P]); obs = np.sum(norm.ppf(1 - np.array([float(t) for t in pv])))
    return int(np.sum(stat > obs + tol)) + c, int(np.sum(stat >= obs - tol)) + c
