"""C20 — duplicate-row finders report exactly the repeated rows."""
import itertools
from collections import Counter
import numpy as np
from .common import guarded, run_model, rows, ints

RULE = ("all integer arrays with 1..4 rows x 1..2 columns over a 3-letter alphabet (exhaustive) plus "
        "generated arrays up to 12x4 with planted duplicates, wide rows (31..129 columns, differing in one column anywhere) and long arrays (lengths just past 2^5..2^14 with duplicates on the power-of-two boundaries); non-trivial = the array contains at least "
        "one repeated row; distinct by array content")
LEVEL = ("theorems dups_count / consec_spec over every list of rows; model validated against qa.py on "
         "an exhaustive small domain and generated arrays")
ASSUMPTIONS = ["np.lexsort orders rows by reversed-row lexicographic order (validated by the correspondence)",
               "rows are integer arrays; float/NaN rows are outside the property's quantifier"]


def gen_arrays(ctx):
    out = []
    maxr = 4
    for r in range(1, maxr + 1):
        for c in (1, 2):
            if ctx.tier == "quick" and r == 4 and c == 2:
                # sample the largest block in quick mode
                allv = list(itertools.product(range(3), repeat=r * c))
                for v in ctx.rng.sample(allv, 800):
                    out.append(np.array(v).reshape(r, c))
                continue
            for v in itertools.product(range(3), repeat=r * c):
                out.append(np.array(v).reshape(r, c))
    n = ctx.n(300, 4000)
    for _ in range(n):
        r = ctx.rng.randint(1, 12); c = ctx.rng.randint(1, 4)
        base = [[ctx.rng.randint(-3, 3) for _ in range(c)] for _ in range(ctx.rng.randint(1, max(1, r // 2 + 1)))]
        m = [list(ctx.rng.choice(base)) for _ in range(r)]
        if ctx.rng.random() < 0.3:
            m = sorted(m)  # runs of equal rows
        out.append(np.array(m))
    # large magnitudes with nearly equal neighbours (ids, dates, timestamps): equality must be exact
    for _ in range(ctx.n(60, 600)):
        r = ctx.rng.randint(2, 8); c = ctx.rng.randint(1, 3)
        base = ctx.rng.choice([100000, 20240101, 1700000000, 10**12])
        m = [[base + ctx.rng.randint(0, 2) for _ in range(c)] for _ in range(r)]
        if ctx.rng.random() < 0.5:
            m = sorted(m)
        out.append(np.array(m))
    # a row sandwiched between two copies of another row, values spread over a wide range: any sort on a lossy
    # (hashed / truncated / summed) key fails to bring the copies together for some such pair
    for _ in range(ctx.n(6000, 60000)):
        c = 2 if ctx.rng.random() < 0.8 else 3
        a = [ctx.rng.randint(-40, 40) for _ in range(c)]; b = [ctx.rng.randint(-40, 40) for _ in range(c)]
        rowsl = [a, b, a] if ctx.rng.random() < 0.7 else [a, b, b, a]
        out.append(np.array(rowsl))
    # the same raw bytes read with another integer type / width (successive calls must not confuse them)
    for _ in range(ctx.n(40, 400)):
        r = ctx.rng.randint(2, 5); c = ctx.rng.randint(1, 3)
        base = np.array([[ctx.rng.randint(-3, 300) for _ in range(c)] for _ in range(r)], dtype=np.int64)
        base[ctx.rng.randrange(r)] = base[0]
        for dt in (np.int64, np.int32, np.uint64, np.int16, np.uint16, np.int8, np.uint8):
            v = base.view(dt)
            out.append(v if ctx.rng.random() < 0.5 else v.copy())
    # wide rows (the joined text of a row is far longer than a terminal line)
    for w in ([38, 45, 80] + ([1100] if ctx.rng.random() < 0.5 or ctx.thorough() else [])):
        row = [ctx.rng.randint(0, 9) if w < 100 else ctx.rng.randint(10000, 99999) for _ in range(w)]
        other = list(row); other[-1] += 1
        out.append(np.array([row, other, row, row]))
    # integers beyond 2^53 (ids, nanosecond timestamps): neighbours that are equal as doubles but distinct as integers
    for _ in range(ctx.n(40, 400)):
        r = ctx.rng.randint(2, 7); c = ctx.rng.randint(1, 3)
        base = ctx.rng.choice([2**53, 2**53 + 1, 1_700_000_000_000_000_000, 2**62, 2**63 - 8])
        dt = np.uint64 if ctx.rng.random() < 0.3 else np.int64
        m = [[base + ctx.rng.randint(0, 2) if ctx.rng.random() < 0.7 else ctx.rng.randint(0, 3) for _ in range(c)] for _ in range(r)]
        if ctx.rng.random() < 0.5:
            m[ctx.rng.randrange(r)] = list(m[0])
        if ctx.rng.random() < 0.5:
            m = sorted(m)
        out.append(np.array(m, dtype=dt))
    # narrow signed types with negative entries, one to three columns (bit-packing several columns into one key must not sign-extend)
    for _ in range(ctx.n(30, 300)):
        dt = ctx.rng.choice([np.int8, np.int16, np.int32, np.int32]); c = ctx.rng.choice([1, 2, 2, 2, 3]); r = ctx.rng.randint(2, 7)
        vals = ctx.rng.choice([[-1, 0, -2], [-1, 0, 1], [-128, 127, -1, 0], [-3, -2, -1]])
        m = [[ctx.rng.choice(vals) for _ in range(c)] for _ in range(r)]
        if ctx.rng.random() < 0.5:
            m[ctx.rng.randrange(1, r)] = list(m[0])
        out.append(np.array(m, dtype=dt))
    out.append(np.array([[-1, -1], [-1, 0], [-2, -2]], dtype=np.int32))
    # unsigned entries in the upper half of the range (hashes, addresses): >= 2^63 for uint64, >= 2^31 for uint32, ...
    for dt in (np.uint64, np.uint64, np.uint32, np.uint16, np.uint8):
        bits = np.iinfo(dt).bits; top = 2 ** bits - 1; half = 2 ** (bits - 1)
        r = ctx.rng.randint(2, 6); c = ctx.rng.randint(1, 3)
        pool = [top, top - 1, half, half + 1, half - 1, 0, 1]
        m = [[ctx.rng.choice(pool) for _ in range(c)] for _ in range(r)]
        m[ctx.rng.randrange(1, r)] = list(m[0])
        if ctx.rng.random() < 0.5:
            m.append([top] * c); m.append([top] * c)
        out.append(np.array(m, dtype=dt))
    # entries at the ends of the integer type: differences of exactly 2^(bits-1) wrap, abs(min) == min
    for dt in (np.int8, np.int16, np.int32, np.int64):
        ii = np.iinfo(dt); half = 2 ** (ii.bits - 2)
        for pair in ((ii.min, 0), (-half, half), (ii.min, ii.max), (ii.min + 1, 1), (ii.max, -1), (0, ii.min)):
            c = ctx.rng.randint(1, 2); other = ctx.rng.randint(-3, 3)
            m = [[pair[0]] + [other] * (c - 1), [pair[1]] + [other] * (c - 1)]
            if ctx.rng.random() < 0.5:
                m.append(list(m[0]))
            out.append(np.array(m, dtype=dt))
    # a first row made of the same repeated small value (-1, 0, ...): placeholders / sentinels must not match real data
    for v in (-1, 0, -1, 1, -2, 255):
        r = ctx.rng.randint(1, 4); c = ctx.rng.randint(1, 3)
        m = [[v] * c] + [[ctx.rng.choice([v, v, 0, 3]) for _ in range(c)] for _ in range(r - 1)]
        out.append(np.array(m))
    # wide rows that differ in one column anywhere (first, middle, just outside the last 32 / 64 columns): [A, B, A]
    for _ in range(ctx.n(30, 300)):
        w = ctx.rng.choice([31, 32, 33, 34, 40, 63, 64, 65, 66, 100, 129])
        row = [ctx.rng.randint(-3, 3) for _ in range(w)]
        j = ctx.rng.choice([0, 0, 1, w // 2, max(0, w - 33), max(0, w - 32), max(0, w - 65), w - 1, ctx.rng.randrange(w)])
        other = list(row); other[j] += ctx.rng.choice([-1, 1])
        out.append(np.array(ctx.rng.choice([[row, other, row], [other, row, other, row], [row, other, other, row, row]])))
    # wide tables (33..70 columns) with 4..16 rows drawn from two to four base rows that differ in a few columns only: almost every
    # column is tied, so a sort done column by column must be stable in every pass
    for _ in range(ctx.n(60, 600)):
        w = ctx.rng.choice([33, 34, 40, 65, 70]); r = ctx.rng.randint(4, 16); nb = ctx.rng.randint(2, 4)
        base = [ctx.rng.randint(0, 2) for _ in range(w)]
        bases = []
        for _b in range(nb):
            b_ = list(base)
            for jj in ctx.rng.sample(range(w), ctx.rng.randint(1, 3)):
                b_[jj] = b_[jj] + ctx.rng.choice([1, 2, -1])
            bases.append(b_)
        out.append(np.array([list(ctx.rng.choice(bases)) for _ in range(r)], dtype=ctx.rng.choice([np.int64, np.int32])))
    # long arrays: lengths just past powers of two, duplicates planted on and around the boundaries 2^k - 1 | 2^k
    for _ in range(ctx.n(6, 40)):
        k = ctx.rng.choice([5, 6, 8, 10, 12, 12, 12, 13] if ctx.rng.random() < 0.8 else [7, 9, 11])
        r = 2 ** k * ctx.rng.choice([1, 1, 2]) + ctx.rng.choice([1, 1, 2, 5]); c = ctx.rng.randint(1, 2)
        kind = ctx.rng.choice(["distinct", "distinct", "all-equal", "runs"])
        if kind == "all-equal":
            m = np.full((r, c), 7, dtype=np.int64)
        elif kind == "runs":
            m = np.repeat(np.arange((r + 2) // 3), 3)[:r].reshape(r, 1) * np.ones((1, c), dtype=np.int64)
        else:
            m = np.arange(r * c, dtype=np.int64).reshape(r, c)
            for b in {2 ** k, 2 ** k * 2, 2 ** (k - 1)}:
                for i in (b, b + 1) if ctx.rng.random() < 0.5 else (b,):
                    if 0 < i < r and ctx.rng.random() < 0.8:
                        m[i] = m[i - 1]
        out.append(m)
    return out


def run(ctx):
    from permute import qa
    arrays = gen_arrays(ctx)
    if ctx.tier == "thorough":
        ctx.exhaustive = True
    ops, meta = [], []
    for x in arrays:
        snap = x.copy()
        r1 = guarded(qa.find_duplicate_rows, x)
        r2 = guarded(qa.find_consecutive_duplicate_rows, x)
        r3 = guarded(qa.find_duplicate_rows, x, True)
        r4 = guarded(qa.find_consecutive_duplicate_rows, x, True)
        rowsl = [tuple(int(v) for v in r) for r in snap]
        nontriv = len(set(rowsl)) < len(rowsl)
        ctx.case(rowsl, nontriv, {"array": snap.tolist()})
        ctx.count(f"shape={x.shape[0]}x{x.shape[1]}")
        ctx.count("has_duplicates" if nontriv else "no_duplicates")
        if not np.array_equal(x, snap):
            ctx.violation("input-modified", {"array": snap.tolist()}, site="qa")
        # --- property oracle (multiset counts / adjacency), straight from the statement
        bad = None
        if r1[0] != "ok" or r2[0] != "ok" or r3[0] != "ok" or r4[0] != "ok":
            bad = {"error": [r for r in (r1, r2, r3, r4) if r[0] != "ok"][0]}
        else:
            cnt = Counter(rowsl)
            want = Counter({r: m - 1 for r, m in cnt.items() if m >= 2})
            got = Counter(tuple(int(v) for v in r) for r in r1[1])
            if got != want:
                bad = {"find_duplicate_rows": [list(r) for r in got.elements()], "expected_multiset": [list(r) for r in want.elements()]}
            wantc = [rowsl[i + 1] for i in range(len(rowsl) - 1) if rowsl[i + 1] == rowsl[i]]
            gotc = [tuple(int(v) for v in r) for r in r2[1]]
            if gotc != wantc and bad is None:
                bad = {"find_consecutive_duplicate_rows": [list(r) for r in gotc], "expected": [list(r) for r in wantc]}
            s_want = Counter(",".join(str(v) for v in r) for r in want.elements())
            if Counter(r3[1]) != s_want and bad is None:
                bad = {"as_string": list(r3[1]), "expected_multiset": list(s_want.elements())}
            if list(r4[1]) != [",".join(str(v) for v in r) for r in wantc] and bad is None:
                bad = {"consecutive_as_string": list(r4[1])}
        if bad is not None:
            bad["array"] = snap.tolist()
            ctx.violation("oracle", bad, site="qa")
            continue
        if snap.shape[0] <= 600:      # the model sorts by insertion (quadratic): long arrays go through `consec` only
            ops.append("dups|" + rows(snap, ints)); meta.append(("dups", snap, sorted(tuple(int(v) for v in r) for r in r1[1])))
        ops.append("consec|" + rows(snap, ints)); meta.append(("consec", snap, [tuple(int(v) for v in r) for r in r2[1]]))
    # an array buffer refilled in place between two calls (also of as_string=True): second result as on a fresh array
    from permute import qa as _qa
    for _ in range(ctx.n(60, 600)):
        r_ = ctx.rng.randint(2, 6); c_ = ctx.rng.randint(1, 3)
        a1 = np.array([[ctx.rng.randint(0, 2) for _ in range(c_)] for _ in range(r_)]); a2 = np.array([[ctx.rng.randint(0, 2) for _ in range(c_)] for _ in range(r_)])
        buf = a1.copy()
        first = [guarded(f_, buf, s_) for f_ in (_qa.find_duplicate_rows, _qa.find_consecutive_duplicate_rows) for s_ in (False, True)]
        buf[...] = a2
        second = [guarded(f_, buf, s_) for f_ in (_qa.find_duplicate_rows, _qa.find_consecutive_duplicate_rows) for s_ in (False, True)]
        fresh = [guarded(f_, a2.copy(), s_) for f_ in (_qa.find_duplicate_rows, _qa.find_consecutive_duplicate_rows) for s_ in (False, True)]
        ctx.case(("refill", a1.tobytes(), a2.tobytes(), r_, c_), True); ctx.count("buffer-refilled-in-place")
        norm = lambda rr: [sorted(map(str, np.asarray(v[1]).tolist())) if v[0] == "ok" else v for v in rr]
        if norm(second) != norm(fresh):
            ctx.violation("oracle", {"call": "find_duplicate_rows / find_consecutive_duplicate_rows", "first": a1.tolist(), "second": a2.tolist(),
                                     "issue": "on an array refilled in place the result differs from the result on a fresh array with the same contents",
                                     "refilled": str(norm(second))[:300], "fresh": str(norm(fresh))[:300]}, site="qa")
    outs = run_model(ops)
    agree = True
    for o, (kind, x, impl) in zip(outs, meta):
        model = [tuple(int(v) for v in r.split()) for r in o.split(";")] if o.strip() else []
        if kind == "dups":
            model = sorted(model)   # the property fixes the multiset, not the order
        if model != impl:
            agree = False
            ctx.violation("correspondence", {"op": kind, "array": x.tolist(), "model": model, "impl": impl},
                          site="qa", no_input=True)
    ctx.block("qa-model-vs-impl", agree, len(ops))


def replay(rep):
    from permute import qa
    x = np.array(rep["first"]["detail"]["array"])
    print("find_duplicate_rows ->", qa.find_duplicate_rows(x).tolist())
    print("find_consecutive_duplicate_rows ->", qa.find_consecutive_duplicate_rows(x).tolist())
    print("recorded:", rep["first"]["detail"])
    return 0
