"""C16 — shift-null tests impute potential outcomes; a shift equals translating the data."""
from fractions import Fraction as Fr
import numpy as np
from .common import guarded, run_model, rat, rats, fracs, close, F
from . import randtests as rt
from .prng import RecSHA256

RULE = ("generated samples (sizes 1..6, ties, halves), shifts d in {0, +-integers, +-halves, 1000}, affine invertible pairs "
        "(f, finv), all statistics / alternatives / plus1 / keep_dist; potential_outcomes tables, the arrays handed to the "
        "statistic (recorded), and paired runs under one seed (shift 0 vs two_sample, constant vs pair, shift d vs "
        "two_sample(x, y+d)); non-trivial = d != 0 or a non-identity pair; distinct by parameters and seed")
LEVEL = ("theorems potential_outcomes_table, shift_const_eq_pair, shift_zero_table, shift_zero_eq_two_sample, shift_obs, "
         "shift_args, shift_mean_equiv (for every sample, shift and draw sequence); model validated against "
         "utils.potential_outcomes and core.two_sample_shift")
ASSUMPTIONS = ["the p-value identity with two_sample(x, y+d) holds for translation-equivariant statistics; it is proved and checked "
               "for the difference in means (data on dyadic grids so that y+d is exact in doubles)",
               "np.allclose in the inverse sanity check is modelled by exact equality on 1..5 (only exactly invertible or clearly "
               "non-inverse pairs are generated)"]


def run(ctx):
    from permute import core, utils
    ops, meta = [], []
    # ---- potential_outcomes tables
    for _ in range(ctx.n(150, 2000)):
        nx, ny = ctx.rng.randint(1, 6), ctx.rng.randint(1, 6)
        x = rt.small_values(ctx.rng, nx, "halves"); y = rt.small_values(ctx.rng, ny, "halves")
        a = ctx.rng.choice([1, 2, -1, 4, 0.5]); b = ctx.rng.choice([0, 3, -2.5, 1000])
        f = lambda u, a=a, b=b: a * u + b
        finv = lambda u, a=a, b=b: (u - b) / a
        xa, ya = np.array(x), np.array(y); sx, sy = xa.copy(), ya.copy()
        r = guarded(utils.potential_outcomes, xa, ya, f, finv)
        det = {"call": "potential_outcomes", "x": x, "y": y, "f": f"u -> {a}*u + {b}"}
        ctx.case(("po", tuple(x), tuple(y), a, b), True, det); ctx.count("potential_outcomes")
        if r[0] != "ok" or not (np.array_equal(xa, sx) and np.array_equal(ya, sy)):
            det.update({"issue": "call failed or inputs modified", "returned": r[1:]}); ctx.violation("oracle", det, site="potential_outcomes"); continue
        t = np.array(r[1])
        want0 = [F(v) for v in x] + [F(a) * F(v) + F(b) for v in y]
        want1 = [(F(v) - F(b)) / F(a) for v in x] + [F(v) for v in y]
        if t.shape != (nx + ny, 2) or [F(v) for v in t[:, 0]] != want0 or [F(v) for v in t[:, 1]] != want1:
            det.update({"issue": "not (x, f(y) | finv(x), y), treated units first", "returned": t.tolist()}); ctx.violation("oracle", det, site="potential_outcomes"); continue
        ops.append(f"potout|{rats(x)}|{rats(y)}|{rat(a)}|{rat(b)}"); meta.append(("potout", det, t.tolist()))
    # observed outcomes are returned bit for bit, imputed ones are exactly f(y) / finv(x), also where finv(f(y)) != y in doubles
    #      (decimal data, pairs that are inverse only up to rounding)
    cbrt = lambda u: np.sign(u) * np.abs(u) ** (1.0 / 3.0)
    smooth = [("u+0.1", lambda u: u + 0.1, lambda u: u - 0.1), ("3u", lambda u: 3 * u, lambda u: u / 3), ("u/7", lambda u: u / 7, lambda u: u * 7),
              ("exp", np.exp, np.log), ("u^3", lambda u: u ** 3, cbrt), ("u+2^40", lambda u: u + 2.0 ** 40, lambda u: u - 2.0 ** 40),
              ("1.1u+0.3", lambda u: 1.1 * u + 0.3, lambda u: (u - 0.3) / 1.1)]
    for _ in range(ctx.n(100, 1000)):
        nx, ny = ctx.rng.randint(1, 5), ctx.rng.randint(1, 5)
        name_, f, finv = ctx.rng.choice(smooth)
        lo_ = 0.1 if name_ == "exp" else -2.0
        x = [round(ctx.rng.uniform(max(lo_, 0.1) if name_ == "exp" else lo_, 3.0), ctx.rng.choice([1, 2])) for _ in range(nx)]
        y = [round(ctx.rng.uniform(lo_, 3.0), ctx.rng.choice([1, 2])) for _ in range(ny)]
        if name_ == "exp":
            x = [abs(v) + 0.1 for v in x]
        xa, ya = np.array(x), np.array(y)
        r = guarded(utils.potential_outcomes, xa, ya, f, finv)
        det = {"call": "potential_outcomes", "x": x, "y": y, "f": name_}
        ctx.case(("po-float", tuple(x), tuple(y), name_), True, det); ctx.count("potential_outcomes-decimal-data")
        if r[0] != "ok":
            det.update({"issue": "an (approximately) inverse pair was rejected or the call failed", "returned": r[1:]}); ctx.violation("oracle", det, site="potential_outcomes"); continue
        t = np.array(r[1])
        with np.errstate(all="ignore"):
            w0 = np.concatenate([xa, f(ya)]); w1 = np.concatenate([finv(xa), ya])
        if t.shape != (nx + ny, 2) or not np.array_equal(t[:, 0], w0, equal_nan=True) or not np.array_equal(t[:, 1], w1, equal_nan=True):
            det.update({"issue": "not (x, f(y) | finv(x), y) bit for bit: an observed outcome was changed or an imputed one is not f(y) / finv(x)",
                        "returned": t.tolist(), "expected": np.column_stack([w0, w1]).tolist()}); ctx.violation("oracle", det, site="potential_outcomes")
    # pairs that are not inverse to each other are rejected
    one_way = [(lambda u: 10 * u, lambda u: u // 10), (lambda u: u // 10, lambda u: 10 * u), (lambda u: 3 * u, lambda u: np.round(u / 3)),
               (lambda u: np.round(u / 3), lambda u: 3 * u), (lambda u: u + 0.5, lambda u: np.floor(u)), (lambda u: np.floor(u / 2), lambda u: 2 * u),
               (lambda u: 2 * u, lambda u: np.floor(u / 2) + (u % 2))]       # inverse in one direction only
    def _q(fn_):       # NumPy warnings off: these functions are not defined at the probe points
        def g_(u):
            with np.errstate(all="ignore"):
                return fn_(np.asarray(u, dtype=float))
        return g_
    off_domain = [(_q(lambda u: np.sqrt(u - 100)), _q(lambda v: v ** 2 - 100)), (_q(lambda u: np.log(u - 1000)), _q(lambda v: np.exp(v) - 1000)),
                  (_q(lambda u: np.log(u - 1000)), _q(lambda v: np.exp(v))), (_q(lambda u: np.sqrt(u - 50)), _q(lambda v: v ** 2)),
                  (_q(lambda u: np.log10(u - 2e5)), _q(lambda v: 10 ** v - 2e5))]      # not inverse, and NaN on the whole probe range: a check must not pass vacuously
    for f, finv in [(lambda u: u + 1, lambda u: u + 1), (lambda u: 2 * u, lambda u: u - 2), (lambda u: u * u, lambda u: u)] + one_way + off_domain:
        r = guarded(utils.potential_outcomes, np.array([1.0, 2.0]), np.array([3.0]), f, finv)
        ctx.case(("po-reject", id(f)), True); ctx.count("non-inverse-pairs")
        if r[0] != "exc":
            ctx.violation("oracle", {"call": "potential_outcomes", "issue": "a pair that is not inverse was accepted", "returned": np.array(r[1]).tolist()}, site="potential_outcomes")
    class Add:
        def __init__(self, d): self.d = d
        def __call__(self, u): return u + self.d
    for _ in range(ctx.n(40, 400)):
        d = ctx.rng.choice([1, 2, -3, 0.5])
        f, finv = Add(d), Add(-d)
        a = guarded(utils.potential_outcomes, np.array([1.0, 2.0]), np.array([3.0]), f, finv)
        f.d = d + ctx.rng.choice([1, 2.5])                 # the same objects, no longer inverse to each other
        b = guarded(utils.potential_outcomes, np.array([1.0, 2.0]), np.array([3.0]), f, finv)
        c = guarded(core.two_sample_shift, np.array([1.0, 2.0]), np.array([3.0, 5.0]), reps=3, seed=1, shift=(f, finv))
        # throw-away lambdas: a valid pair, dropped, then an invalid pair (CPython tends to reuse the addresses)
        v = guarded(utils.potential_outcomes, np.array([1.0]), np.array([2.0]), (lambda u: u + d), (lambda u: u - d))
        w = guarded(utils.potential_outcomes, np.array([1.0]), np.array([2.0]), (lambda u: u + d), (lambda u: 3 * u))
        ctx.case(("stale-inverse-check", d, f.d), True); ctx.count("inverse-check-sequences")
        if a[0] != "ok" or v[0] != "ok" or b[0] != "exc" or c[0] != "exc" or w[0] != "exc":
            ctx.violation("oracle", {"call": "potential_outcomes / two_sample_shift", "issue": "a pair that is not inverse is accepted when the same callable objects (or recycled ones) passed the check earlier",
                                     "valid_first": a[0], "same_objects_changed": b[0], "via_two_sample_shift": c[0], "fresh_invalid_lambdas": w[0]}, site="potential_outcomes")
    # ---- two_sample_shift: recorded arrays and model
    fn = rt.FUNCS["two_sample_shift"]
    o2, m2 = rt.run_recorded(ctx, ["two_sample_shift"], ctx.n(200, 3000))
    # ---- paired runs under one seed
    for _ in range(ctx.n(200, 3000)):
        p = fn.gen(ctx.rng)
        x, y = np.array(p["x"]), np.array(p["y"]); seed = ctx.rng.randint(0, 10**9)
        if all(float(v).is_integer() for v in p["x"] + p["y"]) and ctx.rng.random() < 0.4:
            # counts / ranks stored as integers, shifted by a fraction: nothing may be truncated back to the integer type
            if ctx.rng.random() < 0.5:
                x, y = x.astype(np.int64), y.astype(np.int64); p["shift"] = ctx.rng.choice([0.5, -1.5, 2.75, 0.25]); ctx.count("integer-data-fractional-shift")
            elif all(0 <= v <= 100 for v in p["x"] + p["y"]):
                # counts held in a narrow / unsigned integer type, shifted by a float with a whole value: x - d and y + d leave the type's
                # range, so nothing may be computed in that type
                ndt_ = ctx.rng.choice([np.uint8, np.int8, np.uint16, np.uint32]); x, y = x.astype(ndt_), y.astype(ndt_)
                p["shift"] = ctx.rng.choice([2.0, -3.0, 200.0, 120.0, -130.0]); ctx.count("narrow-integer-data-whole-float-shift")
        kw = dict(reps=p["reps"], alternative=p["alt"], keep_dist=True, plus1=p["plus1"])
        stat = ctx.rng.choice(["mean", "t", "callable"])
        if stat == "t" and (len(p["x"]) + len(p["y"]) < 4 or len(set(p["x"] + p["y"])) < 3):
            stat = "mean"
        wx, wy = np.array(p["wx"], dtype=float), np.array(p["wy"], dtype=float)
        st = (lambda u, v: float(np.dot(wx, u) + np.dot(wy, v))) if stat == "callable" else stat
        d = p["shift"]
        det = {"call": "two_sample_shift", "x": p["x"], "y": p["y"], "shift": d, "stat": stat, "seed": seed, **{k: v for k, v in kw.items()}}
        ctx.case(("pair", tuple(p["x"]), tuple(p["y"]), d, stat, seed, p["alt"], p["plus1"]), d != 0, det); ctx.count("paired-runs"); ctx.count(f"shift={d}")
        same = lambda a, b: a[0] == "ok" and b[0] == "ok" and a[1][0] == b[1][0] and (a[1][1] == b[1][1] or (a[1][1] != a[1][1] and b[1][1] != b[1][1])) and np.array_equal(a[1][2], b[1][2], equal_nan=True)
        # shift 0 reproduces two_sample exactly
        r0 = guarded(core.two_sample_shift, x, y, stat=st, seed=seed, shift=0, **kw)
        rt0 = guarded(core.two_sample, x, y, stat=st, seed=seed, **kw)
        if not same(r0, rt0):
            det2 = dict(det); det2.update({"issue": "shift 0 does not reproduce two_sample under the same seed", "shift0": str(r0)[:300], "two_sample": str(rt0)[:300]})
            ctx.violation("oracle", det2, site="two_sample_shift")
        # ... also for samples stored in single / half precision (small integers and halves are exact there): both functions must
        #     evaluate the same statistic on the same table in the same precision
        if ctx.rng.random() < 0.3 and all(abs(v) < 1000 and float(v * 2).is_integer() for v in p["x"] + p["y"]):
            ndt = ctx.rng.choice([np.float32, np.float16]); xs, ys = np.array(p["x"], dtype=ndt), np.array(p["y"], dtype=ndt); ctx.count("narrow-float-storage-" + np.dtype(ndt).name)
            q0 = guarded(core.two_sample_shift, xs, ys, stat=st, seed=seed, shift=0, **kw); qt0 = guarded(core.two_sample, xs, ys, stat=st, seed=seed, **kw)
            if not same(q0, qt0):
                det2 = dict(det); det2.update({"issue": "shift 0 does not reproduce two_sample under the same seed for samples stored as " + np.dtype(ndt).name,
                                               "shift0": str(q0)[:300], "two_sample": str(qt0)[:300]})
                ctx.violation("oracle", det2, site="two_sample_shift")
        # constant d and the pair (u+d, u-d) give identical results
        d_arg = d
        if ctx.rng.random() < 0.35:      # a shift that comes out of a NumPy computation (np.mean(x) - np.mean(y), an element of linspace)
            d_arg = np.float64(d); ctx.count("shift-given-as-np.float64")
        rc = guarded(core.two_sample_shift, x, y, stat=st, seed=seed, shift=d_arg, **kw)
        if rc[0] != "ok":
            det2 = dict(det); det2.update({"issue": "a constant shift was not accepted", "shift_type": type(d_arg).__name__, "returned": str(rc[1:])[:200]})
            ctx.violation("oracle", det2, site="two_sample_shift"); continue
        # ... and without keep_dist the same p-value and statistic come back (same seed, same re-allocations)
        kw2 = dict(kw); kw2["keep_dist"] = False
        rk = guarded(core.two_sample_shift, x, y, stat=st, seed=seed, shift=d, **kw2)
        ctx.count("keep_dist-pairs")
        if rc[0] == "ok" and (rk[0] != "ok" or abs(rk[1][0] - rc[1][0]) > 1e-12 or not (rk[1][1] == rc[1][1] or (rk[1][1] != rk[1][1] and rc[1][1] != rc[1][1]))):
            det2 = dict(det); det2.update({"issue": "keep_dist=False gives another p-value / statistic than keep_dist=True under the same seed",
                                           "keep_dist_true": [float(rc[1][0]), float(rc[1][1])], "keep_dist_false": str(rk[1:])[:200]})
            ctx.violation("oracle", det2, site="two_sample_shift")
        rp = guarded(core.two_sample_shift, x, y, stat=st, seed=seed, shift=((lambda u: u + d), (lambda u: u - d)), **kw)
        if not same(rc, rp):
            det2 = dict(det); det2.update({"issue": "the constant shift and the pair (u+d, u-d) give different results", "constant": str(rc)[:300], "pair": str(rp)[:300]})
            ctx.violation("oracle", det2, site="two_sample_shift")
        # the reported statistic is that of the data as given; mean: p-value of two_sample(x, y+d)
        if rc[0] == "ok" and stat == "mean":
            obs = sum(F(v) for v in p["x"]) / len(p["x"]) - sum(F(v) for v in p["y"]) / len(p["y"])
            r3 = guarded(core.two_sample, x, y + d, stat="mean", seed=seed, **kw)
            same_dist = r3[0] == "ok" and len(rc[1][2]) == len(r3[1][2]) and all(abs((a_ - d) - b_) <= 1e-9 * max(1.0, abs(b_), abs(d)) for a_, b_ in zip(rc[1][2], r3[1][2]))
            if not close(rc[1][1], obs) or r3[0] != "ok" or abs(r3[1][0] - rc[1][0]) > 1e-12 or not same_dist:
                det2 = dict(det); det2.update({"issue": "shift d: not the statistic of the data as given / not the p-value (or, up to the constant d, the distribution) of two_sample(x, y+d) under the same seed",
                                               "returned": [float(rc[1][0]), float(rc[1][1])], "two_sample_translated": str(r3)[:200], "statistic_expected": float(obs)})
                ctx.violation("oracle", det2, site="two_sample_shift")
    # ---- very large constant shifts (|d| >= 2^53: y + d absorbs y in doubles).  Exact agreement with two_sample(x, y+d) is not
    #      demanded there (the translated data are not representable); the call must still answer, report the statistic of the data as
    #      given and a p-value k/(reps+c)
    for _ in range(ctx.n(40, 400)):
        nx, ny = ctx.rng.randint(1, 5), ctx.rng.randint(1, 5)
        x = rt.small_values(ctx.rng, nx, "halves"); y = rt.small_values(ctx.rng, ny, "halves")
        d = ctx.rng.choice([2.0**53, -2.0**53, 1e16, 1e17, 2.0**60, -2.0**60, 1e300, 2**53, 10**17])
        reps = ctx.rng.choice([1, 5, 20]); plus1 = ctx.rng.random() < 0.5; alt = ctx.rng.choice(["greater", "less", "two-sided"])
        r = guarded(core.two_sample_shift, np.array(x), np.array(y), reps=reps, stat="mean", alternative=alt, keep_dist=ctx.rng.random() < 0.5,
                    seed=ctx.rng.randint(0, 10**6), shift=d, plus1=plus1)
        det = {"call": "two_sample_shift", "x": x, "y": y, "shift": d if isinstance(d, float) else str(d), "reps": reps, "alternative": alt, "plus1": plus1}
        ctx.case(("huge-shift", tuple(x), tuple(y), str(d), reps, alt, plus1), True, det); ctx.count("huge-constant-shifts")
        obs = sum(F(v) for v in x) / nx - sum(F(v) for v in y) / ny
        from .common import numerator_of
        if r[0] != "ok" or not close(r[1][1], obs) or numerator_of(r[1][0], reps + (1 if plus1 else 0)) is None or not (0 <= r[1][0] <= 1):
            det.update({"issue": "a very large constant shift is not handled: the call fails, or does not report the statistic of the data as given / a p-value k/(reps+c)",
                        "returned": str(r[1:])[:300], "statistic_expected": float(obs)})
            ctx.violation("oracle", det, site="two_sample_shift")
    # ---- missing shift / a single callable
    for sh, what in [(None, "missing shift"), ((lambda u: u), "a single callable"), ("3", "a string")]:
        r = guarded(core.two_sample_shift, np.array([1.0, 2.0]), np.array([3.0, 4.0]), reps=2, shift=sh, seed=1)
        ctx.case(("reject", what), True); ctx.count("rejected-shifts")
        if not (r[0] == "exc" and r[1] == "ValueError"):
            ctx.violation("oracle", {"call": "two_sample_shift", "issue": what + " not rejected with ValueError", "returned": r[1:]}, site="two_sample_shift")
    outs = run_model(ops + o2)
    agree = True
    for o, (kind, det, t) in zip(outs[:len(ops)], meta):
        c0, c1 = o.split(";")
        if [F(r_[0]) for r_ in t] != fracs(c0) or [F(r_[1]) for r_ in t] != fracs(c1):
            agree = False
            ctx.violation("correspondence", {"model": o, "impl": t, "input": det}, site="potential_outcomes", no_input=True)
    ctx.block("potential_outcomes-model-vs-impl", agree, len(ops))
    rt.compare_recorded(ctx, o2, m2, outs[len(ops):], "two_sample_shift-model-vs-impl")


def replay(rep):
    print("recorded:", str(rep["first"]["detail"])[:3000])
    return 0
