"""C08 — NPC is monotone in the partial p-values, symmetric in the tests and rank-based."""
from fractions import Fraction as Fr
import math
import numpy as np
from .common import guarded, run_model, rats, rows, frac, close, numerator_of, POOL, layout
from .npcutil import npc_exact, row_pvals_exact

RULE = ("paired npc calls on generated integer distr matrices (B = 2..30, 2..5 columns, ties): p vs p raised in "
        "one coordinate, relabelled (pvalues and columns permuted together), one column replaced by a strictly "
        "increasing transformation; combiner values against their formulas; malformed shapes; non-trivial = the "
        "pair differs (a coordinate really moved / a non-identity relabelling / a non-linear transformation); "
        "distinct by inputs")
LEVEL = ("theorems npc_mono, npc_relabel, npc_rank_invariant (for every combining function with the stated "
         "property), fisherKey/tippett/invNWeight antitone, npc_rejects_*; model validated against npc.npc")
ASSUMPTIONS = ["np.prod / np.sum are not exactly permutation-invariant in doubles: relabelling pairs with an exact tie between the "
               "observed statistic and a row with a different p-vector are excluded from the equality comparison and counted",
               "Fisher's -2 log(prod p) and Liptak's normal quantiles are compared with their formulas numerically (1e-9)"]


def prefix_hazard(rng, tries=400):
    """a short table (plus1, so the column minima get row p-values above 1) and large observed p-values such that on some proper
    prefix of the columns every row's product of p-values is at most the observed full product, although some row's full product
    exceeds it: any shortcut that decides from a prefix of the columns is wrong here (found by rejection sampling with exact arithmetic)"""
    for _ in range(tries):
        B = rng.randint(3, 12); n = rng.randint(2, 4); hi = rng.choice([2, 3, 9])
        D = [[rng.randint(0, hi) for _ in range(n)] for _ in range(B)]
        pv = [Fr(B + 1 - rng.choice([0, 0, 1, 1, 2]), B + 1) for _ in range(n)]
        P = row_pvals_exact(D, True)
        obs = Fr(1)
        for t in pv:
            obs *= t
        def prod(v):
            o = Fr(1)
            for t in v:
                o *= t
            return o
        if not any(prod(r) > obs for r in P):
            continue
        for j in range(n - 1):
            if all(prod(r[:j + 1]) <= obs for r in P):
                return B, n, D, pv
    return None


LADDER = [Fr(1) - Fr(1, 10**9), Fr(float(1 - 2.0 ** -52)), Fr(float(np.nextafter(1.0, 0.0))), Fr(1)]


def run(ctx):
    from permute import npc
    from scipy.stats import norm
    ops, meta = [], []
    user = lambda p: -np.sum(p)
    def call(pv, D, comb, plus1, reuse=True):
        # reused buffers in varying memory layouts: results may depend on the contents only
        Darr = layout(POOL.get("distr", D, float), ctx.rng) if reuse else np.array(D, dtype=float)
        return guarded(npc.npc, POOL.get("pv", [float(t) for t in pv], float) if reuse else np.array([float(t) for t in pv]), Darr,
                       combine=(user if comb == "callable" else comb), plus1=plus1)
    for _ in range(ctx.n(500, 8000)):
        B = ctx.rng.randint(2, 30) if ctx.rng.random() < 0.93 else ctx.rng.choice([64, 120]); n = ctx.rng.randint(2, 5); plus1 = ctx.rng.random() < 0.5
        c = 1 if plus1 else 0
        comb = ctx.rng.choice(["fisher", "tippett", "liptak", "callable"])
        name = {"callable": "negsum"}.get(comb, comb)
        hi = ctx.rng.choice([2, 4, 9])
        D = [[ctx.rng.randint(0, hi) for _ in range(n)] for _ in range(B)]
        pv = [Fr(ctx.rng.randint(1, B + c - (1 if comb == "liptak" else 0)), B + c) for _ in range(n)]
        if comb == "liptak" and ctx.rng.random() < 0.5:      # all observed p-values very large: rows clipped at 1 - eps matter
            pv = [Fr(ctx.rng.choice([990, 995, 999]), 1000) for _ in range(n)]
        boundary = False
        if comb == "liptak" and ctx.rng.random() < 0.3:     # the doubles next to 1 and 1 itself: legal observed p-values
            boundary = True
            if ctx.rng.random() < 0.7:      # long tables with few ties: finely spaced row statistics around the observed one
                B = ctx.rng.choice([30, 60, 100, 150]); hi = ctx.rng.choice([9, 2000])
                D = [[ctx.rng.randint(0, hi) for _ in range(n)] for _ in range(B)]
            pv = [ctx.rng.choice(LADDER[:-1] + [Fr(ctx.rng.randint(1, B + c - 1), B + c)]) for _ in range(n)]
            if ctx.rng.random() < 0.25:
                # a partial p-value far below machine epsilon next to one that is exactly 1: the Liptak statistic is inf - inf
                pv = [ctx.rng.choice([Fr(1, 10**17), Fr(1, 10**300), Fr(1), Fr(1), Fr(9, 10), Fr(ctx.rng.randint(1, B + c - 1), B + c)]) for _ in range(n)]
                pv[ctx.rng.randrange(n)] = ctx.rng.choice([Fr(1, 10**17), Fr(1, 10**300)])
                boundary = False; ctx.count("liptak-tiny-and-one")
            elif ctx.rng.random() < 0.7:
                # one coordinate at the boundary, the others equal or adjacent to the p-values of the row that is lowest in that
                # column: that row's statistic and the observed one then differ by about the boundary coordinate only
                i0 = ctx.rng.randrange(n); P0 = row_pvals_exact(D, plus1)
                r0_ = min(range(B), key=lambda r: D[r][i0])
                pv = [min(Fr(B + c - 1, B + c), max(Fr(1, B + c), P0[r0_][j] + Fr(ctx.rng.choice([-1, -1, 0, 1]), B + c))) for j in range(n)]
                pv[i0] = ctx.rng.choice(LADDER[:-1])
        if comb != "liptak" and ctx.rng.random() < 0.25:    # all observed p-values at the top of the range (and a short table)
            pv = [Fr(B + c - ctx.rng.choice([0, 0, 1, 2]), B + c) if B + c > 3 else Fr(1) for _ in range(n)]
        if comb == "fisher" and ctx.rng.random() < 0.25:
            hz = prefix_hazard(ctx.rng)
            if hz is not None:
                B, n, D, pv = hz; plus1 = True; c = 1; hi = 9; ctx.count("fisher-prefix-hazard")
        elif comb == "fisher" and ctx.rng.random() < 0.35:
            # short table, plus1 (row p-values of the column minima exceed 1), every observed p-value large: a row can overtake
            # the observed product only through a later column
            B = ctx.rng.randint(3, 12); plus1 = True; c = 1; n = ctx.rng.randint(2, 4); hi = ctx.rng.choice([2, 3, 9])
            D = [[ctx.rng.randint(0, hi) for _ in range(n)] for _ in range(B)]
            pv = [Fr(B + 1 - ctx.rng.choice([0, 0, 1, 1, 2]), B + 1) for _ in range(n)]; ctx.count("fisher-large-p-short-table")
        det = {"call": "npc", "pvalues": [str(t) for t in pv], "distr": D, "combine": comb, "plus1": plus1}
        r0 = call(pv, D, comb, plus1)
        ctx.case((tuple(pv), tuple(map(tuple, D)), comb, plus1), True, det); ctx.count("base-" + comb)
        if r0[0] != "ok":
            det.update({"issue": "call failed", "returned": r0[1:]}); ctx.violation("oracle", det, site="npc"); continue
        k0 = numerator_of(r0[1], B + c)
        if comb == "liptak":      # double-precision oracle of the documented formula (single-quotient p-values, every column clipped)
            P = np.array([[(sum(1 for u in D if u[j] >= row[j]) + 2 * c) / (B + c) for j in range(n)] for row in D])
            P[P >= 1] = 1 - np.finfo(float).eps
            stat = np.array([np.sum(norm.ppf(1 - row)) for row in P]); obs = np.sum(norm.ppf(1 - np.array([float(t) for t in pv])))
            lo_, hi_ = int(np.sum(stat > obs + 1e-9)) + c, int(np.sum(stat >= obs - 1e-9)) + c
            ctx.count("liptak-oracle")
            if k0 is None or not (lo_ <= k0 <= hi_):
                det.update({"issue": "Liptak global p-value is not (c + #{rows whose sum of normal quantiles >= observed})/(c + B)", "returned": float(r0[1]), "numerator_bracket": [lo_, hi_]})
                ctx.violation("oracle", det, site="npc"); continue
        # ---- monotone: raise one coordinate
        i = ctx.rng.randrange(n)
        steps = [Fr(1, B + c), Fr(1, 2 * (B + c)), Fr(ctx.rng.randint(1, B), B + c)]
        up = min(Fr(1) - (Fr(1, 10**6) if comb == "liptak" else 0), pv[i] + ctx.rng.choice(steps))
        if boundary:
            tops = [j for j in range(n) if pv[j] in LADDER[:-1]]
            if tops:
                i = ctx.rng.choice(tops); up = ctx.rng.choice(LADDER[LADDER.index(pv[i]) + 1:])
        if up > pv[i]:
            pv2 = pv[:i] + [up] + pv[i + 1:]
            r1 = call(pv2, D, comb, plus1)
            ctx.case(("mono", tuple(pv2), tuple(map(tuple, D)), comb, plus1), True); ctx.count("pair-monotone")
            if r1[0] != "ok" or r1[1] < r0[1] - 1e-15:
                det.update({"issue": "raising a partial p-value lowered the global p-value", "raised_index": i, "raised_to": str(up),
                            "before": float(r0[1]), "after": r1[1:] if r1[0] != "ok" else float(r1[1])})
                ctx.violation("oracle", det, site="npc")
        # ---- relabel
        perm = list(range(n)); ctx.rng.shuffle(perm)
        r2 = call([pv[j] for j in perm], [[row[j] for j in perm] for row in D], comb, plus1)
        ctx.count("pair-relabel")
        ctx.case(("relabel", tuple(perm), tuple(pv), tuple(map(tuple, D)), comb, plus1), perm != sorted(perm))
        if name in ("fisher", "tippett", "negsum"):
            ge, amb = npc_exact(pv, D, name, plus1)
            # any exact tie with a different vector may flip under re-ordering of the product / sum
            P = row_pvals_exact(D, plus1)
            ties = 0 if name == "tippett" else amb
        else:
            ties = None
        if r2[0] != "ok":
            det.update({"issue": "relabelled call failed", "perm": perm, "returned": r2[1:]}); ctx.violation("oracle", det, site="npc")
        elif r2[1] != r0[1]:
            if ties == 0:
                det.update({"issue": "relabelling the partial tests changed the global p-value", "perm": perm, "before": float(r0[1]), "after": float(r2[1])})
                ctx.violation("oracle", det, site="npc")
            else:
                ctx.bracketed += 1
        # ---- the same relabelling done in place on the caller's own buffer (no new array object)
        buf = np.array(D, dtype=float); pbuf = np.array([float(t) for t in pv])
        ra = guarded(npc.npc, pbuf, buf, combine=(user if comb == "callable" else comb), plus1=plus1)
        buf[:, :] = buf[:, perm]; pbuf[:] = pbuf[perm]
        rb = guarded(npc.npc, pbuf, buf, combine=(user if comb == "callable" else comb), plus1=plus1)
        ctx.count("pair-relabel-in-place")
        if ra[0] != "ok" or rb[0] != "ok" or ra[1] != r0[1] or (rb[1] != r2[1] if r2[0] == "ok" else False):
            det.update({"issue": "npc on a buffer relabelled in place differs from npc on a fresh relabelled copy (result depends on the array object, not its contents)",
                        "perm": perm, "fresh": [float(r0[1]), float(r2[1]) if r2[0] == "ok" else None],
                        "in_place": [ra[1:] if ra[0] != "ok" else float(ra[1]), rb[1:] if rb[0] != "ok" else float(rb[1])]})
            ctx.violation("oracle", det, site="npc")
        # ---- rank-based: strictly increasing transformation of one column
        jcol = ctx.rng.randrange(n)
        f = ctx.rng.choice([lambda v: 3 * v + 1, lambda v: v ** 3, lambda v: math.exp(v / 3.0), lambda v: -1.0 / (v + 1),
                            lambda v: 1e-11 * v, lambda v: 3 + 1e-12 * v, lambda v: 1e9 * v - 7, lambda v: 2.0 ** -40 * v])
        D3 = [[(f(row[j]) if j == jcol else row[j]) for j in range(n)] for row in D]
        r3 = call(pv, D3, comb, plus1)
        ctx.count("pair-rank-transform"); ctx.case(("rank", jcol, tuple(pv), tuple(map(tuple, D)), comb, plus1), True)
        if r3[0] != "ok" or r3[1] != r0[1]:
            det.update({"issue": "a strictly increasing transformation of a column changed the result", "column": jcol,
                        "before": float(r0[1]), "after": r3[1:] if r3[0] != "ok" else float(r3[1])})
            ctx.violation("oracle", det, site="npc")
        # ---- the same on an integer matrix whose entries lie beyond 2^53 (ids, nanosecond timestamps): int64 is ranked exactly,
        #      so an increasing integer map of a column must not change the result either
        if ctx.rng.random() < 0.3:
            off = ctx.rng.choice([2**53, 2**53 + 1, 1_700_000_000_000_000_000, 2**62 - 100])
            gmap = ctx.rng.choice([lambda v: v + off, lambda v: off + 3 * v, lambda v: off - 3 * (10 - v) + (v % 2)])
            Dint = np.array([[(gmap(int(row[j])) if j == jcol else int(row[j])) for j in range(n)] for row in D], dtype=np.int64)
            strictly = all((gmap(a_) < gmap(b_)) == (a_ < b_) for a_ in range(0, 10) for b_ in range(0, 10))
            if strictly:
                r4 = guarded(npc.npc, np.array([float(t) for t in pv]), Dint, combine=(user if comb == "callable" else comb), plus1=plus1)
                r5 = guarded(npc.npc, np.array([float(t) for t in pv]), np.array(D, dtype=np.int64), combine=(user if comb == "callable" else comb), plus1=plus1)
                ctx.count("pair-rank-transform-int64")
                if r4[0] != "ok" or r5[0] != "ok" or r4[1] != r0[1] or r5[1] != r0[1]:
                    det.update({"issue": "an int64 matrix (entries beyond 2^53 in one column, increasing integer map) gives another result than the small-integer / float matrix with the same ranks",
                                "column": jcol, "float_matrix": float(r0[1]), "int64_small": r5[1:] if r5[0] != "ok" else float(r5[1]),
                                "int64_large": r4[1:] if r4[0] != "ok" else float(r4[1]), "large_column": [int(v) for v in Dint[:, jcol]]})
                    ctx.violation("oracle", det, site="npc")
        # ---- the same ranks stored in narrow / unsigned integer types (counts) or shifted to the bottom of a signed type
        if ctx.rng.random() < 0.3 and all(0 <= int(v) <= 100 and int(v) == v for row in D for v in row):
            dtn = ctx.rng.choice([np.uint8, np.uint16, np.uint32, np.uint64, np.int8, np.int16])
            Dn = np.array(D, dtype=np.int64)
            if np.issubdtype(dtn, np.signedinteger):
                Dn[:, jcol] = Dn[:, jcol] + np.iinfo(dtn).min      # the column's smallest entries sit at the minimum of the type
            Dn = Dn.astype(dtn)
            r6 = guarded(npc.npc, np.array([float(t) for t in pv]), Dn, combine=(user if comb == "callable" else comb), plus1=plus1)
            ctx.count("pair-rank-transform-" + np.dtype(dtn).name)
            if r6[0] != "ok" or r6[1] != r0[1]:
                det.update({"issue": "the same within-column ranks stored as " + np.dtype(dtn).name + " give another result than the float matrix",
                            "float_matrix": float(r0[1]), "narrow": r6[1:] if r6[0] != "ok" else float(r6[1]), "stored_column": [int(v) for v in Dn[:, jcol]]})
                ctx.violation("oracle", det, site="npc")
        if name != "liptak":
            ge, amb = npc_exact(pv, D, name, plus1)
            if k0 is None or not (ge + c - amb <= k0 <= ge + c):      # exact ties between different p-vectors may be lost in doubles, never gained
                det.update({"issue": "the global p-value is not (c + #{rows whose combined statistic >= observed})/(c + B)", "returned": float(r0[1]),
                            "expected": f"{ge + c}/{B + c}"})
                ctx.violation("oracle", det, site="npc"); continue
        if name != "liptak" and k0 is not None:
            if amb == 0:
                ops.append(f"npc|{int(plus1)}|{name}|{rats(pv)}|{rows(D)}"); meta.append((det, Fr(k0, B + c)))
    # ---- valid combining functions that are only defined on (0, 1] (NaN beyond 1): npc must return its value for every observed
    #      vector in (0, 1]^n, also when an entry is above 0.9, and must not decrease when an entry is raised
    for _ in range(ctx.n(150, 1500)):
        B = ctx.rng.randint(2, 12); n = ctx.rng.randint(2, 4)
        D = [[ctx.rng.randint(0, 6) for _ in range(n)] for _ in range(B)]
        cname, cf = ctx.rng.choice([("sum sqrt(1-p)", lambda p: np.sum(np.sqrt(1 - np.asarray(p, dtype=float)))),
                                    ("the library's liptak function object", npc.liptak),
                                    ("-sum p / (2 - p)", lambda p: -np.sum(np.asarray(p, dtype=float) / (2 - np.asarray(p, dtype=float)))),
                                    ("sum log(2 - p) sqrt(1 - p)", lambda p: np.sum(np.log(2 - np.asarray(p, dtype=float)) * np.sqrt(1 - np.asarray(p, dtype=float))))])
        grid = [0.05, 0.3, 0.5, 0.8, 0.9, 0.91, 0.95, 0.99, 1.0]
        pv = [ctx.rng.choice(grid) for _ in range(n)]
        i_ = ctx.rng.randrange(n); pv[i_] = ctx.rng.choice([0.3, 0.8, 0.9]); hi_ = list(pv); hi_[i_] = ctx.rng.choice([0.91, 0.95, 0.999, 1.0])
        Dn = np.array(D, dtype=float)
        P = np.array([[np.sum(Dn[:, j] >= Dn[r_, j]) / B for j in range(n)] for r_ in range(B)])
        def ref(v):
            with np.errstate(all="ignore"):
                st = np.array([cf(row) for row in P]); o = cf(np.array(v))
            return int(np.sum(st > o + 1e-9)), int(np.sum(st >= o - 1e-9))
        ra = guarded(npc.npc, np.array(pv), Dn.copy(), cf, False); rb = guarded(npc.npc, np.array(hi_), Dn.copy(), cf, False)
        ctx.case(("partial-domain", cname, tuple(pv), tuple(hi_), tuple(map(tuple, D))), True); ctx.count("combiner-defined-on-(0,1]-only")
        det = {"call": "npc", "combine": cname, "plus1": False, "pvalues": pv, "pvalues_with_one_entry_raised": hi_, "distr": D}
        bad = None
        for v_, r_ in ((pv, ra), (hi_, rb)):
            if r_[0] != "ok":
                bad = {"issue": "a valid combining function (non-increasing on (0,1]^n) is refused / fails for an observed vector in (0,1]^n", "vector": v_, "returned": r_[1:]}; break
            lo_, up_ = ref(v_); k_ = numerator_of(r_[1], B)
            if k_ is None or not (lo_ <= k_ <= up_):
                bad = {"issue": "global p-value is not #{rows whose combined statistic >= observed}/B", "vector": v_, "returned": float(r_[1]), "bracket": [lo_, up_]}; break
        if bad is None and float(rb[1]) < float(ra[1]) - 1e-12:
            bad = {"issue": "raising one observed partial p-value decreased the global p-value", "before": float(ra[1]), "after": float(rb[1])}
        if bad:
            det.update(bad); ctx.violation("oracle", det, site="npc")
    # ---- combiner formulas and antitonicity
    for _ in range(ctx.n(300, 4000)):
        n = ctx.rng.randint(1, 6)
        p = np.array([ctx.rng.randint(1, 999) / 1000 for _ in range(n)])
        size = np.array([ctx.rng.randint(1, 50) for _ in range(n)], dtype=ctx.rng.choice([float, float, np.int64, np.int16, np.int8, np.uint8]))
        vals = {"fisher": guarded(npc.fisher, p), "liptak": guarded(npc.liptak, p), "tippett": guarded(npc.tippett, p),
                "inverse_n_weight": guarded(npc.inverse_n_weight, p, size)}
        want = {"fisher": -2 * sum(math.log(v) for v in p), "liptak": float(sum(norm.ppf(1 - v) for v in p)),
                "tippett": max(1 - v for v in p), "inverse_n_weight": -sum(v / math.sqrt(float(s)) for v, s in zip(p, size))}
        ctx.case(("comb", tuple(p), tuple(size)), True); ctx.count("combiner-formulas")
        if ctx.rng.random() < 0.3:      # one common sample size given as a scalar (int, float, 0-d array): still the weighted *sum*
            sc_ = ctx.rng.choice([4, 9.0, np.int64(16), np.array(25.0), np.float32(7)])
            vs_ = guarded(npc.inverse_n_weight, p, sc_); ws_ = -sum(v / math.sqrt(float(sc_)) for v in p); ctx.count("inverse_n_weight-scalar-size")
            if vs_[0] != "ok" or np.ndim(vs_[1]) != 0 or abs(float(vs_[1]) - ws_) > 1e-6 * max(1, abs(ws_)):
                ctx.violation("oracle", {"call": "inverse_n_weight", "pvalues": p.tolist(), "size": repr(sc_), "returned": str(vs_[1:])[:120], "expected": ws_,
                                         "issue": "with one common sample size the statistic is not the scalar -sum(p)/sqrt(size)"}, site="inverse_n_weight")
        i = ctx.rng.randrange(n); q = p.copy(); q[i] = min(0.9995, q[i] + ctx.rng.choice([0.0005, 0.01, 0.2]))
        vals2 = {"fisher": guarded(npc.fisher, q), "liptak": guarded(npc.liptak, q), "tippett": guarded(npc.tippett, q),
                 "inverse_n_weight": guarded(npc.inverse_n_weight, q, size)}
        for kname in vals:
            v = vals[kname]
            if v[0] != "ok" or abs(v[1] - want[kname]) > 1e-9 * max(1, abs(want[kname])):
                ctx.violation("oracle", {"call": kname, "pvalues": p.tolist(), "size": size.tolist(), "returned": v[1:], "expected": want[kname],
                                         "issue": "combining function differs from its formula"}, site=kname)
            elif vals2[kname][0] != "ok" or vals2[kname][1] > v[1] + 1e-12:
                ctx.violation("oracle", {"call": kname, "pvalues": p.tolist(), "raised": q.tolist(), "size": size.tolist(),
                                         "issue": "combining function increased when a p-value was raised", "before": v[1], "after": vals2[kname][1:]}, site=kname)
    # ---- a preallocated buffer refilled in place with new contents between two calls (a simulation loop): the second result must be
    #      the one a fresh array with those contents gives (nothing may be remembered by object identity)
    for _ in range(ctx.n(80, 800)):
        B = ctx.rng.randint(3, 15); n = ctx.rng.randint(2, 4); plus1 = ctx.rng.random() < 0.5
        comb_ = ctx.rng.choice(["fisher", "tippett", "liptak"])
        D1 = [[ctx.rng.randint(0, 9) for _ in range(n)] for _ in range(B)]; D2 = [[ctx.rng.randint(0, 9) for _ in range(n)] for _ in range(B)]
        pvf = np.array([ctx.rng.randint(1, 19) / 20 for _ in range(n)])
        buf = np.array(D1, dtype=float)
        ra = guarded(npc.npc, pvf, buf, comb_, plus1)
        buf[...] = np.array(D2, dtype=float)
        rb = guarded(npc.npc, pvf, buf, comb_, plus1)
        rf = guarded(npc.npc, pvf.copy(), np.array(D2, dtype=float), comb_, plus1)
        ctx.case(("refill", tuple(map(tuple, D1)), tuple(map(tuple, D2)), comb_, plus1), True); ctx.count("buffer-refilled-in-place")
        if ra[0] != "ok" or rb[0] != "ok" or rf[0] != "ok" or rb[1] != rf[1]:
            ctx.violation("oracle", {"call": "npc", "combine": comb_, "plus1": plus1, "pvalues": pvf.tolist(), "first_contents": D1, "second_contents": D2,
                                     "issue": "npc on a buffer refilled in place differs from npc on a fresh array with the same contents (something is remembered by object identity)",
                                     "refilled_buffer": str(rb[1:])[:60], "fresh_array": str(rf[1:])[:60]}, site="npc")
    # ---- user combining functions that are NOT symmetric in their arguments (per-test weights): the result must be the rank
    #      p-value of the definition with every weight staying on its own test, and relabelling tests *with their weights* changes nothing
    for _ in range(ctx.n(200, 2500)):
        B = ctx.rng.randint(3, 20); n = ctx.rng.randint(2, 4); plus1 = ctx.rng.random() < 0.5; c = 1 if plus1 else 0
        D = [[ctx.rng.randint(0, ctx.rng.choice([2, 4, 9])) for _ in range(n)] for _ in range(B)]
        kindp = ctx.rng.choice(["sorted", "reversed", "random"])
        vals = sorted(ctx.rng.sample(range(1, B + c + 1), min(n, B + c))); vals += [vals[-1]] * (n - len(vals))
        if kindp == "reversed":
            vals = vals[::-1]
        elif kindp == "random":
            ctx.rng.shuffle(vals)
        pv = [Fr(v, B + c) for v in vals]
        w = ctx.rng.sample([Fr(1), Fr(1, 2), Fr(1, 4), Fr(2), Fr(4), Fr(1, 8)], n)
        wa = np.array([float(t) for t in w])
        f_w = lambda p, wa=wa: -np.dot(wa, p)
        name_w = "negwsum:" + " ".join(str(t) for t in w)
        r0 = guarded(npc.npc, np.array([float(t) for t in pv]), np.array(D, dtype=float), combine=f_w, plus1=plus1)
        det = {"call": "npc", "pvalues": [str(t) for t in pv], "distr": D, "combine": "lambda p: -dot(w, p)", "weights": [str(t) for t in w], "plus1": plus1}
        ctx.case(("weighted", tuple(pv), tuple(map(tuple, D)), tuple(w), plus1), True, det); ctx.count("weighted-user-combiner-" + kindp)
        ge, amb = npc_exact(pv, D, name_w, plus1)
        k0 = numerator_of(r0[1], B + c) if r0[0] == "ok" else None
        if k0 is None or not (ge + c - amb <= k0 <= ge + c):
            det.update({"issue": "weighted user combiner: not (c + #{rows whose combined statistic >= observed})/(c + B) with every weight on its own test",
                        "returned": str(r0[1:])[:80], "expected": f"{ge + c}/{B + c}", "ambiguous_ties": amb}); ctx.violation("oracle", det, site="npc"); continue
        perm = list(range(n)); ctx.rng.shuffle(perm)
        wp = np.array([float(w[j]) for j in perm])
        r1 = guarded(npc.npc, np.array([float(pv[j]) for j in perm]), np.array([[row[j] for j in perm] for row in D], dtype=float), combine=(lambda p, wp=wp: -np.dot(wp, p)), plus1=plus1)
        if amb == 0 and (r1[0] != "ok" or r1[1] != r0[1]):
            det.update({"issue": "relabelling the partial tests together with their weights changed the global p-value", "perm": perm, "before": float(r0[1]), "after": str(r1[1:])[:80]})
            ctx.violation("oracle", det, site="npc")
    # ---- many small p-values: products around the underflow boundary of doubles (1e-308 normal, 5e-324 smallest subnormal).
    #      No formula comparison here (np.prod legitimately underflows to 0 and Fisher becomes +inf); what must survive is
    #      antitonicity of the combining functions and monotonicity of npc in every observed p-value.
    for _ in range(ctx.n(120, 1200)):
        k = ctx.rng.randint(98, 125); base = ctx.rng.choice([1e-3, 1e-3, 2e-3, 5e-4])
        p = np.full(k, base); i = ctx.rng.randrange(k)
        lo_v, hi_v = sorted(ctx.rng.sample([1e-12, 1e-9, 1e-6, 1e-4, 1e-3, 1e-2, 0.5], 2))
        plo, phi = p.copy(), p.copy(); plo[i] = lo_v; phi[i] = hi_v
        ctx.case(("underflow", k, base, i, lo_v, hi_v), True); ctx.count("combiner-underflow-boundary")
        for kname, fnc in (("fisher", npc.fisher), ("liptak", npc.liptak), ("tippett", npc.tippett)):
            a, b = guarded(fnc, plo), guarded(fnc, phi)
            if a[0] != "ok" or b[0] != "ok" or not (b[1] <= a[1]):
                ctx.violation("oracle", {"call": kname, "n_pvalues": k, "all_equal_to": base, "coordinate": i, "lower_value": lo_v, "higher_value": hi_v,
                                         "issue": "combining function increased when a p-value was raised (product near the underflow boundary)",
                                         "at_lower": str(a[1:])[:60], "at_higher": str(b[1:])[:60]}, site=kname)
        if ctx.rng.random() < 0.3:
            B = ctx.rng.randint(5, 30); plus1 = ctx.rng.random() < 0.5
            D = np.array([[ctx.rng.random() for _ in range(k)] for _ in range(B)])
            a, b = guarded(npc.npc, plo, D, "fisher", plus1), guarded(npc.npc, phi, D, "fisher", plus1)
            ctx.count("npc-underflow-boundary")
            if a[0] != "ok" or b[0] != "ok" or b[1] < a[1] - 1e-15:
                ctx.violation("oracle", {"call": "npc", "combine": "fisher", "plus1": plus1, "B": B, "n_pvalues": k, "all_equal_to": base, "coordinate": i,
                                         "lower_value": lo_v, "higher_value": hi_v, "issue": "raising a partial p-value lowered the global p-value (wide table)",
                                         "before": str(a[1:])[:60], "after": str(b[1:])[:60], "distr_seed_note": "distr drawn from the check's PRNG; rerun with the same VERIF_SEED"}, site="npc")
    # ---- rejected shapes, non-monotone user combiner
    bads = [([0.5], [[1.0]], "fisher"), ([0.2, 0.3], [[1.0, 2.0, 3.0]], "tippett"), ([0.2, 0.3, 0.4], [[1.0, 2.0]], "liptak"),
            ([], [[]], "fisher")]
    # every mismatch of len(pvalues) against the number of columns, including matrices handed over transposed (rows == len(pvalues))
    for n_p in range(2, 6):
        for B_ in (1, 2, 3, 4, 5, 7, 200):
            for m_ in range(1, 7):
                if m_ != n_p and ctx.rng.random() < (1.0 if ctx.thorough() else 0.35):
                    bads.append(([0.1 * (k + 1) for k in range(n_p)], [[float((i * 7 + j * 3) % 11) for j in range(m_)] for i in range(B_)], ctx.rng.choice(["fisher", "tippett", "liptak"])))
    bads += [([0.2, 0.3, 0.4], [[float((i + j) % 5) for j in range(4)] for i in range(3)], "fisher"), ([0.2, 0.3, 0.4], [[float((i * j) % 7) for j in range(200)] for i in range(3)], "tippett")]
    for pvals, D, comb in bads:
        r = guarded(npc.npc, np.array(pvals), np.array(D), comb)
        ctx.case(("reject", tuple(pvals), comb), True); ctx.count("rejected-shapes")
        if not (r[0] == "exc" and r[1] == "ValueError"):
            ctx.violation("oracle", {"call": "npc", "pvalues": pvals, "distr": D, "issue": "bad shapes not rejected with ValueError", "returned": r[1:]}, site="npc")
    r = guarded(npc.npc, np.array([0.2, 0.3]), np.array([[1.0, 2.0], [2.0, 1.0]]), lambda p: np.sum(p))
    ctx.case(("reject-increasing",), True)
    if not (r[0] == "exc" and r[1] == "ValueError"):
        ctx.violation("oracle", {"call": "npc", "issue": "increasing user combining function not rejected", "returned": r[1:]}, site="npc")
    ops.append("npc|1|possum|1/5 3/10|1 2;2 1"); meta.append((None, "ValueError"))
    ops.append("npc|1|fisher|1/2|1"); meta.append((None, "ValueError"))
    ops.append("npc|1|fisher|1/5 3/10|1 2 3"); meta.append((None, "ValueError"))
    outs = run_model(ops)
    agree = True
    for o, (det, want) in zip(outs, meta):
        ok = (o == "ValueError") if want == "ValueError" else (o != "ValueError" and frac(o) == want)
        if not ok:
            agree = False
            ctx.violation("correspondence", {"model": o, "impl": str(want), "input": det}, site="npc", no_input=True)
    ctx.block("npc-model-vs-impl", agree, len(ops))


def replay(rep):
    from permute import npc
    d = rep["first"]["detail"]; d = d.get("input", d)
    print("recorded:", rep["first"]["detail"])
    if d and d.get("call") == "npc" and "distr" in d and d.get("combine"):
        comb = (lambda p: -np.sum(p)) if d["combine"] == "callable" else d["combine"]
        print("now ->", npc.npc(np.array([float(Fr(v)) for v in d["pvalues"]]), np.array(d["distr"], dtype=float), combine=comb, plus1=d["plus1"]))
    return 0
