"""C05 — p-value, observed statistic and returned distribution are mutually consistent."""
from fractions import Fraction as Fr
import copy
import numpy as np
from .common import guarded, run_model, rat, rats, frac, close, numerator_of, F
from . import randtests as rt
from .prng import RecSHA256
from .npcutil import scripted_experiment

RULE = ("all thirteen call sites (two_sample, two_sample_shift, one_sample, corr, spearman_corr, k_sample, "
        "bivariate_k_sample, sim_corr, stratified_permutationtest, stratified_two_sample, simulate_ts_dist, sim_npc partial "
        "p-values, westfall_young raw p-values) on generated inputs with heavy ties (binary / constant data, observed = min or "
        "max of dist), statistic callables returning NumPy, float and int values, every alternative, both plus1, run with "
        "keep_dist=True and False under the same seed; the implementation's own returned dist and observed statistic "
        "(doubles, hence exact rationals) are fed to the model's counting functions; non-trivial = the dist ties the "
        "observed value or an extreme observed value; distinct by parameters and seed")
LEVEL = ("theorems corePValue_greater/less/twoSided, corrPValue_eq_core, upperPValue_eq_core, corePValue_bounds(_plus1), "
         "cnt_cover, *_consistent for every call site, strat_greater_eq, strat_less_partial, strat_less_counterexample; the "
         "model's p-value formulas are evaluated on the dist the implementation returned")
ASSUMPTIONS = ["order comparisons of finite doubles coincide with those of the corresponding rationals (no float model is needed here)",
               "sim_corr and stratified_permutationtest derive 'less'/'two-sided' from the upper count only: recorded as a known finding"]


def expected_p(alt, plus1, reps, dist, obs):
    c = 1 if plus1 else 0
    up = Fr(sum(1 for v in dist if v >= obs) + c, reps + c)
    dn = Fr(sum(1 for v in dist if v <= obs) + c, reps + c)
    return {"greater": up, "less": dn, "two-sided": min(Fr(1), 2 * min(up, dn))}[alt]


def run(ctx):
    ops, meta = [], []
    per = ctx.n(70, 1200)
    names = list(rt.FUNCS)
    for name in names:
        fn = rt.FUNCS[name]
        for _ in range(per):
            p = fn.gen(ctx.rng)
            p["ret"] = ctx.rng.choice(["np", "float", "int"])
            # heavy ties: collapse the data onto very few values
            if ctx.rng.random() < 0.45:
                for key in ("x", "y", "resp"):
                    if key in p and p[key] is not None and name not in ("spearman_corr", "corr", "sim_corr"):
                        vals = ctx.rng.choice([[0.0, 1.0], [1.0], [0.0, 0.0, 1.0], [2.0, 3.0]])
                        p[key] = [ctx.rng.choice(vals) for _ in p[key]]
                if p.get("stat") == "t":
                    p["stat"] = "mean"
                if name == "stratified_permutationtest" and p.get("stat") == "mean":
                    p["stat"] = "callable"
            p["keep"] = True
            seed = ctx.rng.randint(0, 10**9)
            r, seen = fn.call(p, RecSHA256(seed))
            det = {"call": name, "params": p, "seed": seed}
            alt = p.get("alt", "greater"); plus1 = p["plus1"]; reps = p["reps"]
            if r[0] != "ok":
                if r[0] == "exc" and r[1] in ("ZeroDivisionError", "FloatingPointError"):
                    continue
                det.update({"issue": "call failed", "returned": r[1:]}); ctx.violation("oracle", det, site=fn.site); continue
            res = fn.unpack(p, r[1])
            try:
                dist = [F(v) for v in res["dist"]]; obs = F(res["obs"])
            except (ValueError, OverflowError):
                ctx.count("skipped-nonfinite-statistic"); continue
            tie = any(v == obs for v in dist); extreme = all(v <= obs for v in dist) or all(v >= obs for v in dist)
            ctx.case((name, repr(sorted(p.items(), key=lambda kv: kv[0])), seed), tie or extreme, det if tie else None)
            ctx.count(name); ctx.count("tie-with-observed" if tie else "no-tie"); ctx.count("ret-" + p["ret"])
            det["alternative"] = alt
            want = expected_p(alt, plus1, reps, dist, obs)
            c = 1 if plus1 else 0
            why = None
            if len(dist) != reps:
                why = f"len(dist) = {len(dist)} != reps = {reps}"
            elif not close(res["p"], want, rel=1e-12, ab=1e-12):
                why = f"p-value {float(res['p'])} is not (#{{simulated values at least as extreme}} + c)/(reps + c) = {want}"
            elif plus1 and not (1 / (reps + 1) - 1e-12 <= res["p"] <= 1 + 1e-12):
                why = "p-value outside [1/(reps+1), 1] with plus1"
            elif not (-1e-12 <= res["p"] <= 1 + 1e-12):
                why = "p-value outside [0, 1]"
            if why:
                det.update({"issue": why, "returned_p": float(res["p"]), "observed": float(obs), "dist": [float(v) for v in dist][:40]})
                ctx.violation("oracle", det, site=fn.site)
            # keep_dist changes neither the p-value nor the statistic for a given seed
            if "keep" in fn.gen(ctx.rng):
                p2 = dict(p); p2["keep"] = False
                r2, _ = fn.call(p2, RecSHA256(seed))
                if r2[0] != "ok" or r2[1][0] != r[1][0] or not (r2[1][1] == r[1][1] or (r2[1][1] != r2[1][1] and r[1][1] != r[1][1])):
                    det2 = dict(det); det2.update({"issue": "keep_dist changes the p-value or the statistic under the same seed",
                                                   "keep_dist_true": [float(r[1][0]), float(r[1][1])], "keep_dist_false": r2[1:] if r2[0] != "ok" else [float(r2[1][0]), float(r2[1][1])]})
                    ctx.violation("oracle", det2, site=fn.site)
            kind = {"corr": "pcorr", "spearman_corr": "pcorr", "k_sample": "pupper", "bivariate_k_sample": "pupper",
                    "sim_corr": "pstrat", "stratified_permutationtest": "pstrat"}.get(name, "pcore")
            if kind == "pupper":
                ops.append(f"pupper|{int(plus1)}|{reps}|{rat(obs)}|{rats(dist)}")
            else:
                ops.append(f"{kind}|{alt}|{int(plus1)}|{reps}|{rat(obs)}|{rats(dist)}")
            meta.append((det, float(res["p"]), fn.site))
    # ---- simulate_ts_dist, sim_npc partial p-values, westfall_young raw p-values
    from permute import irr, npc
    for _ in range(per):
        R = ctx.rng.randint(2, 7); Ns = ctx.rng.randint(2, 9); reps = ctx.rng.randint(1, 25); plus1 = ctx.rng.random() < 0.5
        shape = ctx.rng.choice(["random", "constant-rows", "mostly-unanimous"])
        if shape == "constant-rows":          # every permutation ties with the observed value
            m = np.array([[ctx.rng.randint(0, 1)] * Ns for _ in range(R)])
        elif shape == "mostly-unanimous":
            m = np.array([[1] * Ns for _ in range(R)]); m[ctx.rng.randrange(R), ctx.rng.randrange(Ns)] = 0
            if ctx.rng.random() < 0.5:
                m[ctx.rng.randrange(R), ctx.rng.randrange(Ns)] = 0
        else:
            m = np.array([[ctx.rng.randint(0, 1) for _ in range(Ns)] for _ in range(R)])
        ctx.count("ts_dist-" + shape)
        seed = ctx.rng.randint(0, 10**9)
        # the reference value: the statistic of the ratings (None), or an override at / just above / well above / below it
        ovr = ctx.rng.choice([None, None, "own", "own+", 0.9, 1.0, 0.0, 0.5])
        if ovr in ("own", "own+"):
            own_ = guarded(irr.compute_ts, m)
            ovr = None if own_[0] != "ok" else (float(own_[1]) if ovr == "own" else float(np.nextafter(float(own_[1]), 2.0)))
        ctx.count("ts_dist-reference-" + ("data" if ovr is None else "override"))
        r = guarded(irr.simulate_ts_dist, m, ovr, reps, True, seed, plus1)
        r2 = guarded(irr.simulate_ts_dist, m, ovr, reps, False, seed, plus1)
        det = {"call": "simulate_ts_dist", "ratings": m.tolist(), "obs_ts": ovr, "num_perm": reps, "plus1": plus1, "seed": seed, "alternative": "greater"}
        ctx.case(("tsd", tuple(map(tuple, m.tolist())), reps, plus1, seed, ovr), True); ctx.count("simulate_ts_dist")
        if r[0] != "ok" or r2[0] != "ok":
            det.update({"issue": "call failed", "returned": [r[1:], r2[1:]]}); ctx.violation("oracle", det, site="simulate_ts_dist"); continue
        res = r[1]; dist = [F(v) for v in res["dist"]]; obs = F(res["obs_ts"])
        want = expected_p("greater", plus1, reps, dist, obs)
        if ovr is not None and float(res["obs_ts"]) != float(ovr):
            det.update({"issue": "the supplied obs_ts is not the reference value that is returned and compared against", "returned_obs_ts": float(res["obs_ts"])})
            ctx.violation("oracle", det, site="simulate_ts_dist"); continue
        if len(dist) != reps or not close(res["pvalue"], want, rel=1e-12) or int(res["geq"]) != sum(1 for v in dist if v >= obs) \
                or r2[1]["pvalue"] != res["pvalue"] or int(r2[1]["geq"]) != int(res["geq"]):
            det.update({"issue": "pvalue / geq inconsistent with the returned dist, or keep_dist changes them", "returned": {k: (v.tolist() if hasattr(v, 'tolist') else v) for k, v in res.items()}})
            ctx.violation("oracle", det, site="simulate_ts_dist")
        ops.append(f"pupper|{int(plus1)}|{reps}|{rat(obs)}|{rats(dist)}"); meta.append((det, float(res["pvalue"]), "simulate_ts_dist"))
    from .c18 import hazard_block
    hazard_block(ctx)       # shapes whose reference value does not survive a float round trip: keep_dist modes must agree
    for _ in range(per):
        reps = ctx.rng.randint(1, 15); n = ctx.rng.randint(2, 4)
        lo_v = ctx.rng.choice([0, -3])
        tv = [[ctx.rng.randint(lo_v, 3) for _ in range(n)] for _ in range(reps)]
        ts = ctx.rng.choice([list(ctx.rng.choice(tv)), [max(r_[c] for r_ in tv) for c in range(n)], [min(r_[c] for r_ in tv) for c in range(n)]])
        kinds = [ctx.rng.choice(["np", "float", "int"]) for _ in range(n)]
        # alternatives of westfall_young: one string for all tests, or a list with one entry per test (equal or mixed)
        two = ctx.rng.choice([[False] * n, [True] * n, [ctx.rng.random() < 0.5 for _ in range(n)], [ctx.rng.random() < 0.5 for _ in range(n)]])
        names = ["two-sided" if t_ else "greater" for t_ in two]
        alts_arg = names[0] if (len(set(two)) == 1 and ctx.rng.random() < 0.6) else names
        # the same statistics in units where their magnitude is extreme (squares / products of them leave the double range)
        sc = ctx.rng.choice([1, 1, 1, 1e-200, 1e160, 2.0 ** -600, 2.0 ** 600, 1e-320])
        if sc != 1:
            kinds = [ctx.rng.choice(["np", "float"]) for _ in range(n)]; ctx.count("statistics-of-extreme-magnitude")
        tv_i = [[v * sc for v in r_] for r_ in tv] if sc != 1 else tv; ts_i = [v * sc for v in ts] if sc != 1 else ts
        for which in ("sim_npc", "westfall_young"):
            e, tests, _ = scripted_experiment(tv_i, ts_i, kinds)
            if which == "sim_npc":
                r = guarded(npc.sim_npc, e, tests, combine="tippett", reps=reps)
                raw = None if r[0] != "ok" else [r[1][2][c] for c in range(n)]
            else:
                meth = ctx.rng.choice(["minP", "maxT"])
                r = guarded(npc.westfall_young, e, tests, method=meth, alternatives=alts_arg, reps=reps)
                raw = None if r[0] != "ok" else [r[1][1][c] for c in range(n)]
            wy = which == "westfall_young"
            det = {"call": which, "observed": ts, "table": tv, "all_statistics_multiplied_by": sc, "reps": reps, "return_kinds": kinds, "alternative": (alts_arg if wy else "greater")}
            if wy:
                det["method"] = meth; ctx.count("westfall_young-alternatives-" + ("string" if isinstance(alts_arg, str) else ("mixed-list" if len(set(two)) > 1 else "list")))
            ctx.case((which, tuple(map(tuple, tv)), tuple(ts), str(alts_arg) if wy else ""), True); ctx.count(which + "-partial-p")
            if raw is None:
                det.update({"issue": "call failed", "returned": r[1:]}); ctx.violation("oracle", det, site=which); continue
            for c in range(n):
                val = (lambda v: abs(v)) if (wy and two[c]) else (lambda v: v)      # two-sided: absolute values; one-sided: signed
                want = Fr(sum(1 for r_ in tv if val(r_[c]) >= val(ts[c])) + 1, reps + 1)
                if not close(raw[c], want, rel=1e-12):
                    det.update({"issue": f"partial/raw p-value of test {c} is not (count+1)/(reps+1) in the direction of its own alternative", "returned": [float(v) for v in raw], "expected": str(want)})
                    ctx.violation("oracle", det, site=which); break
                ops.append(f"pupper|1|{reps}|{rat(val(ts[c]))}|{rats([val(r_[c]) for r_ in tv])}"); meta.append((det, float(raw[c]), which))
    # the observed statistic is the statistic of the data exactly as given: recorded-draw replay against the model
    o2, m2 = rt.run_recorded(ctx, list(rt.FUNCS), ctx.n(30, 500))
    outs = run_model(ops + o2)
    rt.compare_recorded(ctx, o2, m2, outs[len(ops):], "observed-statistic-and-dist-model-vs-impl")
    rt.nan_strat_block(ctx, ctx.n(60, 800))      # NaN-coded non-responders (np.nanmean), Model/Nan.lean
    outs = outs[:len(ops)]
    agree = True
    for o, (det, pimpl, site) in zip(outs, meta):
        mp = frac(o.split("|")[0])
        if not close(pimpl, mp, rel=1e-12, ab=1e-12):
            agree = False
            ctx.violation("correspondence", {"issue": "the model's p-value formula applied to the implementation's own dist differs from the returned p-value",
                                             "model": o, "impl_p": pimpl, "input": det}, site=site, no_input=True)
    ctx.block("pvalue-formulas-on-impl-dist", agree, len(ops))


def replay(rep):
    d = rep["first"]["detail"]; d = d.get("input", d)
    print("recorded:", str(rep["first"]["detail"])[:3000])
    if "params" in d:
        fn = rt.FUNCS[d["call"]]
        r, seen = fn.call(d["params"], RecSHA256(d["seed"]))
        print("now ->", str(r)[:1500])
    return 0
