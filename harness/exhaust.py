"""Exhaustive enumeration of the implementation's choice space (scripted generator) against exact
brute-force permutation probabilities — the derandomised, exact check behind C01 / C02 / C04."""
import itertools
from fractions import Fraction as Fr
import numpy as np
from .common import guarded, F
from .prng import enumerate_tree


def tails(vals, obs):
    n = len(vals)
    return Fr(sum(1 for v in vals if v >= obs), n), Fr(sum(1 for v in vals if v <= obs), n)


def impl_tail(call, alt, reps=1, cls=None):
    """exact expectation of the returned p-value over the whole choice tree (plus1=False):
    for reps=1 this is P(hit); also returns P(p == 1) (all repetitions hit) and the leaf count and the
    multiset of requested arities"""
    tot = Fr(0); allhit = Fr(0); wsum = Fr(0); leaves = 0; arities = set()
    for w, res, path in enumerate_tree(lambda g: call(g, alt, reps), cls=cls):
        if res[0] != "ok":
            raise RuntimeError("call failed inside enumeration: " + str(res[1:]))
        pv = F(res[1]).limit_denominator(1000)       # F raises NonFinite (reported as a violation) on NaN / inf
        tot += w * pv; wsum += w; leaves += 1
        if pv == 1:
            allhit += w
        arities.add(tuple((a, k) for _, a, k in path))
    if wsum != 1:
        raise RuntimeError("leaf weights do not sum to 1")
    return tot, allhit, leaves, arities


def within_maps(group):
    """all index maps that permute positions within each stratum (sorted label order)"""
    labs = sorted(set(group))
    idx = [[i for i, g in enumerate(group) if g == k] for k in labs]
    for ps in itertools.product(*[itertools.permutations(ix) for ix in idx]):
        m = list(range(len(group)))
        for ix, p in zip(idx, ps):
            for a, b in zip(ix, p):
                m[a] = b
        yield m


# ---- designs: (name, call(g, alt, reps) -> guarded result of the p-value, exact list of statistic values over the
#      admissible set, exact observed value, expected arity pattern per repetition)
def designs_unstratified(rng, big=False):
    from permute import core, ksample
    out = []
    # two_sample, order-sensitive callable and the mean
    for _ in range(3 if big else 2):
        nx, ny = rng.choice([(1, 2), (2, 1), (2, 2), (2, 3), (3, 2)] + ([(3, 3)] if big else []))
        x = [float(rng.randint(0, 4)) for _ in range(nx)]; y = [float(rng.randint(0, 4)) for _ in range(ny)]
        wx = [rng.randint(-2, 3) for _ in range(nx)]; wy = [rng.randint(-2, 3) for _ in range(ny)]
        for stat in ("mean", "callable"):
            if stat == "mean":
                fpy = "mean"; fex = lambda u, v: sum(u) / len(u) - sum(v) / len(v)
            else:
                fpy = (lambda u, v, wx=wx, wy=wy: float(np.dot(wx, u) + np.dot(wy, v)))
                fex = (lambda u, v, wx=wx, wy=wy: sum(a * b for a, b in zip(wx, u)) + sum(a * b for a, b in zip(wy, v)))
            pool = [F(v) for v in x + y]
            vals = [fex([pool[i] for i in p[:nx]], [pool[i] for i in p[nx:]]) for p in itertools.permutations(range(nx + ny))]
            obs = fex(pool[:nx], pool[nx:])
            call = (lambda g, alt, reps, x=x, y=y, fpy=fpy: guarded(lambda: core.two_sample(np.array(x), np.array(y), reps=reps, stat=fpy, alternative=alt, seed=g, plus1=False)[0]))
            N = nx + ny
            out.append((f"two_sample[{stat}] x={x} y={y} w={wx}{wy}", call, vals, obs, tuple((i + 1, "randbelow") for i in reversed(range(1, N)))))
    # two_sample_shift
    nx, ny = rng.choice([(2, 2), (1, 3), (2, 3)])
    x = [float(rng.randint(0, 4)) for _ in range(nx)]; y = [float(rng.randint(0, 4)) for _ in range(ny)]; d = rng.choice([2, -1, 0.5])
    tab = [(F(v), F(v) - F(d)) for v in x] + [(F(v) + F(d), F(v)) for v in y]
    fex = lambda u, v: sum(u) / len(u) - sum(v) / len(v)
    vals = [fex([tab[i][0] for i in p[:nx]], [tab[i][1] for i in p[nx:]]) for p in itertools.permutations(range(nx + ny))]
    call = (lambda g, alt, reps, x=x, y=y, d=d: guarded(lambda: core.two_sample_shift(np.array(x), np.array(y), reps=reps, shift=d, alternative=alt, seed=g, plus1=False)[0]))
    out.append((f"two_sample_shift x={x} y={y} d={d}", call, vals, fex([F(v) for v in x], [F(v) for v in y]), tuple((i + 1, "randbelow") for i in reversed(range(1, nx + ny)))))
    # two_sample_shift with invertible pairs that are not translations (named 'mean' statistic, both keep_dist paths)
    for kind in ("neg", "square") * (4 if big else 2):
        for _ in range(200):
            nx, ny = rng.choice([(3, 1), (3, 2), (2, 1)] if kind == "neg" else [(2, 2), (3, 2), (2, 3)])   # neg: nx > ny reverses the order of sum(u)
            if kind == "neg":
                f = finv = (lambda u: -u)
                x = [float(rng.randint(-3, 4)) for _ in range(nx)]; y = [float(rng.randint(-3, 4)) for _ in range(ny)]
            else:
                f = (lambda u: u ** 2); finv = (lambda u: np.sqrt(u))
                x = [float(rng.choice([0, 1, 4, 9, 16, 25])) for _ in range(nx)]; y = [float(rng.choice([0, 1, 2, 3, 4])) for _ in range(ny)]
            c0 = np.concatenate([np.array(x), f(np.array(y))]); c1 = np.concatenate([finv(np.array(x)), np.array(y)])
            t0 = [F(v) for v in c0]; t1 = [F(v) for v in c1]
            fex = lambda u, v: sum(u) / len(u) - sum(v) / len(v)
            perms = list(itertools.permutations(range(nx + ny)))
            vals = [fex([t0[i] for i in p_[:nx]], [t1[i] for i in p_[nx:]]) for p_ in perms]
            obs = fex(t0[:nx], t1[nx:])
            # the doubles must classify every arrangement against the observed value exactly as the rationals do
            fl = [float(np.mean(c0[list(p_[:nx])]) - np.mean(c1[list(p_[nx:])])) for p_ in perms]
            ofl = float(np.mean(c0[:nx]) - np.mean(c1[nx:]))
            if all((a >= ofl) == (b >= obs) and (a <= ofl) == (b <= obs) for a, b in zip(fl, vals)):
                break
        for keep in (False, True):
            call = (lambda g, alt, reps, x=x, y=y, f=f, finv=finv, keep=keep: guarded(lambda: core.two_sample_shift(
                np.array(x), np.array(y), reps=reps, shift=(f, finv), alternative=alt, seed=g, plus1=False, keep_dist=keep)[0]))
            out.append((f"two_sample_shift[mean] pair={kind} keep_dist={keep} x={x} y={y}", call, vals, obs,
                        tuple((i + 1, "randbelow") for i in reversed(range(1, nx + ny)))))
    # one_sample
    n = rng.randint(2, 6 if big else 4)
    z = [float(rng.randint(-3, 3)) for _ in range(n)]; w = [rng.randint(-2, 3) for _ in range(n)]
    vals = [sum(wi * s * F(v) for wi, s, v in zip(w, sg, z)) for sg in itertools.product([1, -1], repeat=n)]
    call = (lambda g, alt, reps, z=z, w=w: guarded(lambda: core.one_sample(np.array(z), reps=reps, stat=(lambda u: float(np.dot(w, u))), alternative=alt, seed=g, plus1=False)[0]))
    out.append((f"one_sample z={z} w={w}", call, vals, sum(wi * F(v) for wi, v in zip(w, z)), tuple((2, "randint") for _ in range(n))))
    # corr / spearman_corr on designs whose cross-products are pairwise distinct (no float tie risk)
    for name in ("corr", "spearman_corr"):
        for _ in range(20):
            n = rng.choice([3, 4] + ([5] if big else []))
            xx = rng.sample(range(1, 15), n); yy = rng.sample(range(1, 15), n)
            if name == "spearman_corr":
                rx = [sorted(xx).index(v) + 1 for v in xx]; ry = [sorted(yy).index(v) + 1 for v in yy]
            else:
                rx, ry = xx, yy
            vals = [sum(rx[p[i]] * ry[i] for i in range(n)) for p in itertools.permutations(range(n))]
            obs = sum(a * b for a, b in zip(rx, ry))
            # r is an increasing function of the cross-product; different cross-products are far apart in
            # doubles, so the only float-tie risk is another arrangement with exactly the observed value
            if sum(1 for v in vals if v == obs) == 1:
                break
        fnc = getattr(core, name)
        call = (lambda g, alt, reps, xx=xx, yy=yy, fnc=fnc: guarded(lambda: fnc(np.array(xx, dtype=float), np.array(yy, dtype=float), alternative=alt, reps=reps, seed=g, plus1=False)[1]))
        out.append((f"{name} x={xx} y={yy}", call, [Fr(v) for v in vals], Fr(obs), tuple((n - i, "fy") for i in range(n))))
    # k_sample, callable and anova
    n = rng.choice([3, 4] + ([5] if big else []))
    xv = [float(rng.randint(0, 5)) for _ in range(n)]; g0 = [i % 2 for i in range(n)] if n < 5 else [0, 0, 1, 1, 2]
    vals = [sum(F(a) * g0[p[i]] for i, a in enumerate(xv)) for p in itertools.permutations(range(n))]
    call = (lambda g, alt, reps, xv=xv, g0=g0: guarded(lambda: ksample.k_sample(np.array(xv), np.array(g0), reps=reps, stat=(lambda x, gg, xb: float(np.dot(x, gg))), seed=g, plus1=False)[0]))
    out.append((f"k_sample[callable] x={xv} group={g0}", call, vals, sum(F(a) * b for a, b in zip(xv, g0)), tuple((n - i, "fy") for i in range(n))))
    def anova(xs, gs):
        m = sum(xs) / len(xs); t = Fr(0)
        for k in set(gs):
            gk = [v for v, gg in zip(xs, gs) if gg == k]; t += (sum(gk) / len(gk) - m) ** 2 * len(gk)
        return t
    xs = [F(v) for v in xv]
    vals = [anova(xs, [g0[i] for i in p]) for p in itertools.permutations(range(n))]
    call = (lambda g, alt, reps, xv=xv, g0=g0: guarded(lambda: ksample.k_sample(np.array(xv), np.array(g0), reps=reps, seed=g, plus1=False)[0]))
    out.append((f"k_sample[anova] x={xv} group={g0}", call, vals, anova(xs, g0), tuple((n - i, "fy") for i in range(n))))
    return out


def designs_stratified(rng, big=False):
    from permute import stratified, ksample, irr
    out = []
    def design():
        for _ in range(100):
            sizes = rng.choice([[2, 2], [3, 2], [2, 1, 2], [3, 1], [2, 2, 2]] + ([[3, 3], [4, 2]] if big else []))
            group, cond = [], []
            for gi, s in enumerate(sizes):
                cs = [rng.randint(0, 1) for _ in range(s)]
                if s >= 2 and len(set(cs)) < 2:
                    cs[0], cs[1] = 0, 1
                group += [gi + 1] * s; cond += cs
            idx = list(range(len(group))); rng.shuffle(idx)
            group = [group[i] for i in idx]; cond = [cond[i] for i in idx]
            if len(set(cond)) == 2:
                return group, cond
    # stratified_two_sample: mean and callable
    group, cond = design()
    n = len(group)
    resp = [float(rng.randint(0, 4)) for _ in range(n)]
    order = [int(i) for i in np.array(cond).argsort()]
    g_s = [group[i] for i in order]; c_s = [cond[i] for i in order]; r_s = [F(resp[i]) for i in order]
    nt = sum(1 for c in c_s if c == c_s[0])
    w = [rng.randint(-2, 3) for _ in range(n)]
    for stat in ("mean", "callable"):
        if stat == "mean":
            fex = lambda u: sum(u[:nt]) / nt - sum(u[nt:]) / (len(u) - nt); fpy = "mean"
        else:
            fex = (lambda u, w=w: sum(a * b for a, b in zip(w, u))); fpy = (lambda u, w=w: float(np.dot(w, u)))
        vals = [fex([r_s[i] for i in m]) for m in within_maps(g_s)]
        call = (lambda g, alt, reps, fpy=fpy, group=group, cond=cond, resp=resp: guarded(lambda: stratified.stratified_two_sample(np.array(group), np.array(cond), np.array(resp), stat=fpy, alternative=alt, reps=reps, seed=g, plus1=False)[0]))
        out.append((f"stratified_two_sample[{stat}] group={group} cond={cond} resp={resp}", call, vals, fex(r_s), None))
    # stratified_permutationtest (callable statistic on the permuted condition labels)
    group, cond = design(); n = len(group)
    resp = [float(rng.randint(0, 4)) for _ in range(n)]
    vals = [sum(F(a) * cond[i] for a, i in zip(resp, m)) for m in within_maps(group)]
    call = (lambda g, alt, reps, group=group, cond=cond, resp=resp: guarded(lambda: stratified.stratified_permutationtest(np.array(group), np.array(cond), np.array(resp), alternative=alt, reps=reps, testStatistic=(lambda u: float(np.dot(resp, u))), seed=g, plus1=False)[0]))
    out.append((f"stratified_permutationtest[callable] group={group} cond={cond} resp={resp}", call, vals, sum(F(a) * b for a, b in zip(resp, cond)), None))
    # sim_corr: a single stratum of distinct values so that the statistic is monotone in the cross-product
    for _ in range(50):
        n = 4
        xx = rng.sample(range(1, 15), n); yy = rng.sample(range(1, 15), n)
        vals = [Fr(sum(xx[p[i]] * yy[i] for i in range(n))) for p in itertools.permutations(range(n))]
        obs = Fr(sum(a * b for a, b in zip(xx, yy)))
        if sum(1 for v in vals if v == obs) == 1:
            break
    grp = [3] * n
    call = (lambda g, alt, reps, xx=xx, yy=yy, grp=grp: guarded(lambda: stratified.sim_corr(np.array(xx), np.array(yy), np.array(grp), reps=reps, alternative=alt, seed=g, plus1=False)[0]))
    out.append((f"sim_corr x={xx} y={yy} group={grp}", call, vals, obs, None))
    # bivariate_k_sample (callable)
    group, cond = design(); n = len(group)
    xv = [float(rng.randint(0, 4)) for _ in range(n)]
    vals = [sum(F(a) * cond[i] for a, i in zip(xv, m)) for m in within_maps(group)]
    call = (lambda g, alt, reps, group=group, cond=cond, xv=xv: guarded(lambda: ksample.bivariate_k_sample(np.array(xv), np.array(group), np.array(cond), reps=reps, stat=(lambda x, g1, g2, xb: float(np.dot(x, g2))), seed=g, plus1=False)[0]))
    out.append((f"bivariate_k_sample[callable] x={xv} group1={group} group2={cond}", call, vals, sum(F(a) * b for a, b in zip(xv, cond)), None, "upper"))
    # simulate_ts_dist: every rater's row permuted independently
    R, Ns = rng.choice([(2, 3), (3, 2), (2, 2)] + ([(3, 3)] if big else []))
    rat_ = [[rng.randint(0, 1) for _ in range(Ns)] for _ in range(R)]
    def cts(m):
        return Fr(sum(1 for i in range(Ns) for a in range(R) for b in range(a + 1, R) if m[a][i] == m[b][i]), Ns * R * (R - 1) // 2)
    vals = [cts([[rat_[a][i] for i in ps[a]] for a in range(R)]) for ps in itertools.product(itertools.permutations(range(Ns)), repeat=R)]
    call = (lambda g, alt, reps, rat_=rat_: guarded(lambda: irr.simulate_ts_dist(np.array(rat_), num_perm=reps, seed=g, plus1=False)["pvalue"]))
    out.append((f"simulate_ts_dist ratings={rat_}", call, vals, cts(rat_), None, "upper"))
    return out
