"""C13 — hypergeom_conf_interval returns exact test-inversion bounds that cover."""
from fractions import Fraction as Fr
from math import comb
import numpy as np
from .common import guarded, run_model, rat, F

RULE = ("every (N, n, x) with N <= 10 (quick) / 22 (thorough), three alternatives, several confidence levels and "
        "starting points G; populations of 10^3 .. 1.2*10^7 (incl. 2^16+1, 2^20-1, 2^20+5) with samples of 5..60, limits checked one step inside / outside with exact tails; non-trivial = 0 < x < n (both limits come from the search); distinct by arguments; "
        "coverage computed exactly over all x for every true G")
LEVEL = ("theorems hgLower_spec / hgUpper_spec (limits are the least / greatest G reaching the level), "
         "hg_coverage_lower / hg_coverage_upper (for every true G), hg_trivial_limits, HGOrder.hypergeomCI_ordered / hg_*_nested; model validated exhaustively "
         "against utils.hypergeom_conf_interval")
ASSUMPTIONS = ["SciPy evaluates the hypergeometric cdf in doubles: cases where an exact tail probability is within 1e-12 of the "
               "level at the returned or the model's limit are excluded from the equality comparison and counted",
               "lower <= upper for tail levels in (0, 1/2] and nesting in the level are theorems (HGOrder.hypergeomCI_ordered, hg_lower_nested, "
               "hg_upper_nested, from the coupling inequality hyperCdf_succ_ge) and are also checked on the implementation"]
CLS = [0.95, 0.9, 0.975, 0.5, 0.99, 0.8, 0.3, 0.05, 0.75, 0.875]
EXT = [1 - 1e-9, 0.999999, 1 - 1e-12, 1 - 2.0 ** -40, 1 - 1e-11, 1 - 2.0 ** -50]      # levels so close to 1 that 1 - cl is far below the smallest tail of a small population
ALTS = ["two-sided", "lower", "upper"]


def pm(N, G, n, k):
    if k < 0 or k > n or k > G or n - k > N - G:
        return Fr(0)
    return Fr(comb(G, k) * comb(N - G, n - k), comb(N, n))


def sf(N, G, n, x):
    return sum(pm(N, G, n, k) for k in range(x, n + 1))


def cdf(N, G, n, x):
    return sum(pm(N, G, n, k) for k in range(0, x + 1))


def level(cl, alt):
    return (1 - F(cl)) / 2 if alt == "two-sided" else 1 - F(cl)


def exact_ci(n, x, N, cl, alt):
    a = level(cl, alt)
    lo, hi = 0, N
    if alt != "upper" and x > 0:
        lo = next(G for G in range(0, N + 1) if sf(N, G, n, x) >= a)
    if alt != "lower" and x < n:
        hi = next(G for G in range(N, -1, -1) if cdf(N, G, n, x) >= a)
    return lo, hi


def near_tie(n, x, N, cl, alt, cands):
    a = level(cl, alt)
    for G in cands:
        for G2 in (G - 1, G, G + 1):
            if 0 <= G2 <= N:
                tol = min(Fr(1, 10**12), a / 4)      # (levels next to 1: a tail of exactly 0 is not "within rounding" of a = 1e-12)
                if abs(sf(N, G2, n, x) - a) <= tol or abs(cdf(N, G2, n, x) - a) <= tol:
                    return True
    return False


def run(ctx):
    from permute import utils
    ops, meta = [], []
    NMAX = ctx.n(10, 22)
    ctx.exhaustive = True
    table = {}
    for N in range(1, NMAX + 1):
        for n in range(1, N + 1):
            for alt in ALTS:
                cls = (CLS + EXT) if (ctx.thorough() or N <= 5) else ctx.rng.sample(CLS, 2) + ([ctx.rng.choice(EXT)] if ctx.rng.random() < 0.3 else [])
                for cl in cls:
                    for x in range(0, n + 1):
                        starts = [None] + ([0, N, N // 2, x] if (ctx.thorough() or ctx.rng.random() < 0.25) else [])
                        res = []
                        for G0 in starts:
                            r = guarded(utils.hypergeom_conf_interval, n, x, N, cl, alt, G0) if G0 is not None else \
                                guarded(utils.hypergeom_conf_interval, n, x, N, cl, alt)
                            res.append(r)
                        det = {"call": "hypergeom_conf_interval", "n": n, "x": x, "N": N, "cl": cl, "alternative": alt}
                        ctx.case((n, x, N, cl, alt), 0 < x < n, det if 0 < x < n else None)
                        ctx.count("interior" if 0 < x < n else "boundary-x"); ctx.count("alt-" + alt)
                        r = res[0]
                        if r[0] != "ok":
                            det.update({"issue": "call failed", "returned": r[1:]}); ctx.violation("oracle", det, site="hypergeom_conf_interval"); continue
                        lo, hi = r[1]
                        if any(rr[0] != "ok" or tuple(rr[1]) != (lo, hi) for rr in res[1:]):
                            det.update({"issue": "result depends on the starting point G", "starts": starts,
                                        "returned": [rr[1:] if rr[0] != "ok" else list(rr[1]) for rr in res]})
                            ctx.violation("oracle", det, site="hypergeom_conf_interval"); continue
                        if not (float(lo).is_integer() and float(hi).is_integer()):
                            det.update({"issue": "limits are not integers", "returned": [lo, hi]}); ctx.violation("oracle", det, site="hypergeom_conf_interval"); continue
                        lo, hi = int(lo), int(hi)
                        want = exact_ci(n, x, N, cl, alt)
                        table[(N, n, alt, cl, x)] = (lo, hi)
                        if (lo, hi) != want:
                            # exact ties between a tail probability and the level: SciPy's cdf is not exact there in general, so such cases
                            # are bracketed — except for N <= 5 with a dyadic level (cl = 1/2, 3/4, 7/8: the level itself is exact in doubles), where
                            # the unchanged code agrees with exact arithmetic on every input (validated exhaustively), so ">= a" versus "> a" is decided there
                            if not (N <= 5 and cl in (0.5, 0.75, 0.875)) and near_tie(n, x, N, cl, alt, [lo, hi, want[0], want[1]]):
                                ctx.bracketed += 1; continue
                            det.update({"issue": "not the exact test-inversion limits", "returned": [lo, hi], "expected": list(want)})
                            ctx.violation("oracle", det, site="hypergeom_conf_interval"); continue
                        if alt == "two-sided" and cl >= 0.5 and not (x <= lo <= hi <= N - (n - x)):
                            det.update({"issue": "x <= lower <= upper <= N-(n-x) fails", "returned": [lo, hi]})
                            ctx.violation("oracle", det, site="hypergeom_conf_interval"); continue
                        ops.append(f"hgci|{alt}|{n}|{x}|{N}|{rat(cl)}"); meta.append((det, (lo, hi)))
                    # exact coverage for every true G from the returned limits
                    if all((N, n, alt, cl, x) in table for x in range(n + 1)):
                        a = level(cl, alt)
                        need = 1 - (a if alt != "upper" else 0) - (a if alt != "lower" else 0)
                        for G in range(0, N + 1):
                            cov = sum(pm(N, G, n, x) for x in range(n + 1)
                                      if table[(N, n, alt, cl, x)][0] <= G <= table[(N, n, alt, cl, x)][1])
                            ctx.count("coverage-evaluations")
                            if cov < need - Fr(1, 10**9):
                                ctx.violation("oracle", {"call": "hypergeom_conf_interval", "N": N, "n": n, "cl": cl, "alternative": alt, "true_G": G,
                                                         "issue": "coverage below the requested level", "coverage": cov, "required": need,
                                                         "limits_by_x": [table[(N, n, alt, cl, x)] for x in range(n + 1)]}, site="hypergeom_conf_interval")
                                break
    # ---- large populations (ballot-sized N, lengths past powers of two), small samples: the returned limits are checked
    #      against the defining inequalities one step inside and outside (exact big-integer tails)
    # ---- a census (n = N): the number of good items is known, so every interval is [x, x], whatever the level and the starting value
    for _ in range(ctx.n(150, 1500)):
        N = ctx.rng.randint(1, 120); x = ctx.rng.randint(0, N); cl = ctx.rng.choice(CLS[:6]); alt = ctx.rng.choice(ALTS)
        args = (N, x, N, cl, alt) + (() if ctx.rng.random() < 0.7 else (ctx.rng.randint(0, N),))
        r = guarded(utils.hypergeom_conf_interval, *args, secs=60)
        want = (x if alt != "upper" else 0, x if alt != "lower" else N)
        ctx.case(("census", N, x, cl, alt, len(args)), True); ctx.count("census")
        if r[0] != "ok" or (int(r[1][0]), int(r[1][1])) != want:
            ctx.violation("oracle", {"call": "hypergeom_conf_interval", "n": N, "x": x, "N": N, "cl": cl, "alternative": alt, "G_start": args[5] if len(args) > 5 else None,
                                     "issue": "census: the interval is not the known number of good items", "returned": str(r[1:])[:100], "expected": list(want)}, site="hypergeom_conf_interval")
    for _ in range(ctx.n(110, 900)):
        if ctx.rng.random() < 0.45:
            # mid-sized populations with a sizeable sampling fraction and very few good (or bad) items in the sample: the true limits
            # then sit at the ends x and N-(n-x) of the feasible range
            N = ctx.rng.choice([280, 300, 400, 513, 700]); n = ctx.rng.randint(N // 10, N // 2)
            x = ctx.rng.choice([1, 1, 2, n - 1, n - 1, n - 2, 0, n, 3])
        else:
            N = ctx.rng.choice([1000, 5000, 2**16 + 1, 2**20 - 1, 2**20 + 5, 1200000, 1500000, 3 * 10**6, 12345678])
            n = ctx.rng.randint(5, 60); x = ctx.rng.choice([0, 1, n, n - 1, ctx.rng.randint(0, n), ctx.rng.randint(0, n)])
        cl = ctx.rng.choice(CLS + EXT[:2]); alt = ctx.rng.choice(ALTS); a = level(cl, alt)
        r = guarded(utils.hypergeom_conf_interval, n, x, N, cl, alt, secs=60)
        det = {"call": "hypergeom_conf_interval", "n": n, "x": x, "N": N, "cl": cl, "alternative": alt}
        ctx.case(("large", n, x, N, cl, alt), True, det); ctx.count("large-population")
        if r[0] != "ok":
            det.update({"issue": "call failed", "returned": r[1:]}); ctx.violation("oracle", det, site="hypergeom_conf_interval"); continue
        lo, hi = int(r[1][0]), int(r[1][1])
        tie = lambda v: abs(v - a) <= Fr(1, 10**7) * a
        why = None
        if alt != "upper" and x > 0:
            s_in, s_out = sf(N, lo, n, x), (sf(N, lo - 1, n, x) if lo > 0 else Fr(0))
            if tie(s_in) or tie(s_out):
                ctx.bracketed += 1
            elif not (s_in >= a and (lo == 0 or s_out < a)):
                why = f"lower limit {lo} is not the smallest G with P_G(X >= x) >= {float(a)}: P at the limit {float(s_in):.6g}, one below {float(s_out):.6g}"
        elif lo != 0:
            why = "lower limit should be 0"
        if why is None:
            if alt != "lower" and x < n:
                c_in, c_out = cdf(N, hi, n, x), (cdf(N, hi + 1, n, x) if hi < N else Fr(0))
                if tie(c_in) or tie(c_out):
                    ctx.bracketed += 1
                elif not (c_in >= a and (hi == N or c_out < a)):
                    why = f"upper limit {hi} is not the largest G with P_G(X <= x) >= {float(a)}: P at the limit {float(c_in):.6g}, one above {float(c_out):.6g}"
            elif hi != N:
                why = "upper limit should be N"
        if why:
            det.update({"issue": why, "returned": [lo, hi]}); ctx.violation("oracle", det, site="hypergeom_conf_interval")
    # the same calls again in random order, interleaved across alternatives / levels: results must not depend on history
    keys = list(table)
    ctx.rng.shuffle(keys)
    for (N, n, alt, cl, x) in keys[:ctx.n(1500, 20000)]:
        r = guarded(utils.hypergeom_conf_interval, n, x, N, cl, alt)
        ctx.count("shuffled-repeat-calls")
        if r[0] != "ok" or (int(r[1][0]), int(r[1][1])) != table[(N, n, alt, cl, x)]:
            ctx.violation("oracle", {"call": "hypergeom_conf_interval", "n": n, "x": x, "N": N, "cl": cl, "alternative": alt,
                                     "issue": "the same call returns a different interval later in the process (result depends on the call history)",
                                     "first": list(table[(N, n, alt, cl, x)]), "later": str(r[1:])[:80]}, site="hypergeom_conf_interval")
    outs = run_model(ops)
    agree = True
    for o, (det, got) in zip(outs, meta):
        if tuple(int(v) for v in o.split()) != got:
            agree = False
            ctx.violation("correspondence", {"model": o, "impl": list(got), "input": det}, site="hypergeom_conf_interval", no_input=True)
    ctx.block("hypergeom_ci-model-vs-impl", agree, len(ops))


def replay(rep):
    from permute import utils
    d = rep["first"]["detail"]; d = d.get("input", d)
    print("recorded:", rep["first"]["detail"])
    try:
        print("now ->", utils.hypergeom_conf_interval(d["n"], d.get("x", 1), d["N"], d["cl"], d["alternative"]))
    except Exception as e:  # noqa
        print("now -> raises", type(e).__name__, e)
    return 0
