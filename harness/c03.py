"""C03 — every randomization is an admissible rearrangement; caller data is not modified."""
from collections import Counter
from fractions import Fraction as Fr
import copy
import numpy as np
from .common import guarded, run_model, ints, rows, rows3
from . import randtests as rt
from .prng import RecSHA256, RecRandomState, Draws

RULE = ("helpers permute / permute_within_groups / permute_rows / randomize_group / randomize_in_strata on int, float and "
        "object (string) arrays with recorded draws replayed through the model; every array handed to a statistic callable in "
        "all ten randomised tests (checked for admissibility directly and against the model); byte snapshots of every caller "
        "array before/after each call, with repeated calls on the same arrays; non-trivial = a non-identity rearrangement "
        "was produced; distinct by inputs and seed")
LEVEL = ("theorems fy_perm, pyShuffle_perm, tsOrders_perm, two_sample_rearr, sbi_perm, signFlip_abs, pwg_stratum_perm, "
         "pwg_perm, prows_rowwise_perm (for every draw vector, hence every repetition); model validated against the helpers "
         "and against the arrays the real tests hand to their statistics")
ASSUMPTIONS = ["'bit-identical after the call' is an aliasing property of Python objects: an immutable functional model satisfies it by "
               "construction and cannot exhibit its failure; it is checked by byte snapshots in the harness only (partial)",
               "object labels are interned as integers (their rank in np.unique order) on the Lean side"]


def intern(a):
    vals = a.tolist()
    if len({type(v) for v in vals}) > 1:      # labels of mixed types (numbers together with text): keyed by type and value
        u = sorted({(type(v).__name__, v) for v in vals}, key=lambda tv: (tv[0], str(tv[1])))
        m = {tv: i for i, tv in enumerate(u)}
        return [m[(type(v).__name__, v)] for v in vals], u
    u = list(np.unique(a))
    m = {v: i for i, v in enumerate(u)}
    return [m[v] for v in vals], u


def typed(seq):
    return Counter((type(v).__name__, v) for v in seq)


def run(ctx):
    from permute import utils, npc
    ops, meta = [], []

    def arr(n, kind):
        if kind == "int":
            return np.array([ctx.rng.randint(-3, 9) for _ in range(n)])
        if kind == "float":
            return np.array([ctx.rng.randint(-6, 6) / 2 for _ in range(n)])
        if kind == "mixed":      # an object array holding numbers together with text (a label column read from a spreadsheet)
            return np.array([ctx.rng.choice([1, 2, "ctrl", "1", 2.5, "T", -3]) for _ in range(n)], dtype=object)
        return np.array([ctx.rng.choice(["a", "b", "cc", "T", "ctl"]) for _ in range(n)], dtype=object)

    for _ in range(ctx.n(300, 5000)):
        which = ctx.rng.choice(["permute", "pwg", "prows", "rgroup", "rstrata"])
        kind = ctx.rng.choice(["int", "float", "object"])
        g = RecSHA256(ctx.rng.randint(0, 10**9)) if ctx.rng.random() < 0.7 else RecRandomState(ctx.rng.randint(0, 10**9))
        n = ctx.rng.randint(1, 9)
        det = {"helper": which, "dtype": kind}
        if which == "permute":
            if kind == "object" and ctx.rng.random() < 0.5:
                kind = "mixed"; det["dtype"] = "object (mixed types)"
            x = arr(n, kind); snap = x.copy()
            r = guarded(utils.permute, x, g)
            det["x"] = [repr(v) for v in x.tolist()] if kind == "mixed" else x.tolist()
            ok = r[0] == "ok" and np.array_equal(x, snap) and np.shape(r[1]) == x.shape and Counter(np.array(r[1]).tolist()) == Counter(x.tolist()) \
                and (kind != "mixed" or typed(np.array(r[1], dtype=object).tolist()) == typed(x.tolist()))
            if ok:
                codes, _ = intern(np.concatenate([x, np.array(r[1], dtype=x.dtype)]) if kind not in ("object", "mixed") else np.array(list(x) + list(r[1]), dtype=object))
                try:
                    d = Draws(g.log); cs = d.fy(n); assert d.done()
                    ops.append(f"fy|{ints(codes[:n])}|{ints(cs)}"); meta.append((det, codes[n:]))
                except (LookupError, AssertionError) as ex:
                    det["issue"] = "generator used differently from the model: " + str(ex); ctx.violation("correspondence", det, site="permute", no_input=True)
            nontriv = r[0] == "ok" and list(r[1]) != list(x)
        elif which == "pwg":
            x = arr(n, kind); grp = np.array([ctx.rng.choice([1, 2, 5]) for _ in range(n)]) if ctx.rng.random() < 0.7 else arr(n, "object")
            sx, sg = x.copy(), grp.copy()
            r = guarded(utils.permute_within_groups, x, grp, g)
            det.update({"x": x.tolist(), "group": grp.tolist()})
            ok = r[0] == "ok" and np.array_equal(x, sx) and np.array_equal(grp, sg) and np.shape(r[1]) == x.shape and \
                all(Counter(np.array(r[1])[grp == k].tolist()) == Counter(x[grp == k].tolist()) for k in np.unique(grp))
            if ok:
                both = np.array(list(x) + list(r[1]), dtype=object) if kind == "object" else np.concatenate([x, np.array(r[1], dtype=x.dtype)])
                codes, _ = intern(both); gc, _ = intern(grp)
                try:
                    d = Draws(g.log); dr = [d.fy(int((grp == k).sum())) for k in np.unique(grp)]; assert d.done()
                    ops.append(f"pwg|{ints(codes[:n])}|{ints(gc)}|{rows(dr, ints)}"); meta.append((det, codes[n:]))
                except (LookupError, AssertionError) as ex:
                    det["issue"] = "generator used differently from the model: " + str(ex); ctx.violation("correspondence", det, site="permute_within_groups", no_input=True)
            nontriv = r[0] == "ok" and list(r[1]) != list(x)
        elif which == "prows":
            R, C = ctx.rng.randint(1, 4), ctx.rng.randint(1, 5)
            m = np.array([[ctx.rng.randint(0, 3) for _ in range(C)] for _ in range(R)]); sm = m.copy()
            r = guarded(utils.permute_rows, m, g)
            det["m"] = m.tolist()
            ok = r[0] == "ok" and np.array_equal(m, sm) and np.shape(r[1]) == m.shape and all(Counter(np.array(r[1])[i].tolist()) == Counter(m[i].tolist()) for i in range(R))
            if ok:
                try:
                    d = Draws(g.log); dr = [d.fy(C) for _ in range(R)]; assert d.done()
                    ops.append(f"prows|{rows(m.tolist(), ints)}|{rows(dr, ints)}"); meta.append((det, np.array(r[1]).tolist()))
                except (LookupError, AssertionError) as ex:
                    det["issue"] = "generator used differently from the model: " + str(ex); ctx.violation("correspondence", det, site="permute_rows", no_input=True)
            nontriv = r[0] == "ok" and np.array(r[1]).tolist() != m.tolist()
        else:
            strat = which == "rstrata"
            grp = arr(n, ctx.rng.choice(["int", "object"]))
            cov = np.array([[ctx.rng.choice([1, 2, 3]), ctx.rng.randint(0, 5)] for _ in range(n)])
            resp = np.array([[ctx.rng.randint(0, 9)] for _ in range(n)])
            e = npc.Experiment(grp, resp, cov, npc.Experiment.Randomizer(randomize=(npc.randomize_in_strata if strat else npc.randomize_group), seed=g))
            before = copy.deepcopy((e.group.tolist(), e.response.tolist(), e.covariate.tolist()))
            r = guarded((npc.randomize_in_strata if strat else npc.randomize_group), e)
            det.update({"group": before[0], "strata": cov[:, 0].tolist()})
            newg = e.group.tolist()
            ok = r[0] == "ok" and e.response.tolist() == before[1] and e.covariate.tolist() == before[2] and len(newg) == n and \
                (Counter(newg) == Counter(before[0]) if not strat else all(Counter(np.array(newg, dtype=object)[cov[:, 0] == s].tolist()) == Counter(np.array(before[0], dtype=object)[cov[:, 0] == s].tolist()) for s in np.unique(cov[:, 0])))
            if ok:
                codes, _ = intern(np.array(before[0] + newg, dtype=object))
                try:
                    d = Draws(g.log)
                    if strat:
                        dr = [d.sbi(int((cov[:, 0] == s).sum())) for s in np.unique(cov[:, 0])]
                    else:
                        dr = [d.sbi(n)]
                    assert d.done()
                    ops.append(f"groupseq|{int(strat)}|{ints(codes[:n])}|{ints(cov[:, 0])}|{rows(dr, ints)}"); meta.append((det, codes[n:]))
                except (LookupError, AssertionError) as ex:
                    det["issue"] = "generator used differently from the model: " + str(ex); ctx.violation("correspondence", det, site=which, no_input=True)
            nontriv = newg != before[0]
        ctx.case((which, kind, repr(det)), bool(nontriv), det); ctx.count("helper-" + which); ctx.count("dtype-" + kind)
        if not ok:
            det.update({"issue": "helper output is not an admissible rearrangement of its input (or the input was modified)", "returned": str(r)[:300]})
            ctx.violation("oracle", det, site={"pwg": "permute_within_groups", "prows": "permute_rows", "rgroup": "randomize_group", "rstrata": "randomize_in_strata"}.get(which, which))
    # ---- label / data buffers rewritten in place between two calls (a simulation loop over preallocated arrays): the second call must
    #      behave as on fresh arrays with those contents (nothing may be remembered by object identity)
    from permute import utils as _ut, stratified as _st0, ksample as _ks0
    for _ in range(ctx.n(60, 600)):
        n = ctx.rng.randint(4, 9)
        g1 = [ctx.rng.choice([1, 2, 3]) for _ in range(n)]; g2 = [ctx.rng.choice([1, 2]) for _ in range(n)]
        if g1 == g2:
            g2[0] = 3 - g2[0] if g2[0] in (1, 2) else 1
        xv = np.arange(n) * 1.0; seed_ = ctx.rng.randint(0, 10**6)
        G = np.array(g1)
        which = ctx.rng.choice(["permute_within_groups", "sim_corr", "bivariate_k_sample", "stratified_permutationtest"])
        cond_ = np.array([0, 1] * (n // 2) + [0] * (n % 2))
        def run_(Garr, sd):
            if which == "permute_within_groups":
                return _ut.permute_within_groups(xv, Garr, sd).tolist()
            if which == "sim_corr":
                r_ = _st0.sim_corr(xv, xv[::-1] ** 2, Garr, reps=4, seed=sd); return [np.asarray(v_, dtype=float).tolist() for v_ in r_]
            if which == "bivariate_k_sample":
                r_ = _ks0.bivariate_k_sample(xv, Garr, cond_, reps=4, seed=sd, keep_dist=True); return [float(r_[0]), float(r_[1]), np.asarray(r_[2]).tolist()]
            r_ = _st0.stratified_permutationtest(Garr, cond_, xv, reps=4, seed=sd, testStatistic=lambda c_: float(np.dot(c_, xv))); return [float(r_[0]), float(r_[1]), np.asarray(r_[2]).tolist()]
        a = guarded(run_, G, seed_)
        G[...] = np.array(g2)                 # same object, new labels
        b = guarded(run_, G, seed_)
        f = guarded(run_, np.array(g2), seed_)
        ctx.case(("relabel-in-place", which, tuple(g1), tuple(g2), seed_), True); ctx.count("labels-rewritten-in-place-" + which)
        if a[0] != "ok" or b[0] != "ok" or f[0] != "ok" or repr(b[1]) != repr(f[1]):
            ctx.violation("oracle", {"call": which, "first_labels": g1, "second_labels": g2, "seed": seed_,
                                     "issue": "after the label array was rewritten in place the call differs from the same call on a fresh array with those labels (strata remembered by object identity)",
                                     "rewritten": str(b[1:])[:200], "fresh": str(f[1:])[:200]}, site=which)
    # ---- a user statistic that raises half-way through: the call fails, the caller's arrays are still bit-identical
    from permute import core as _core, ksample as _ks, stratified as _st
    for _ in range(ctx.n(60, 600)):
        n = ctx.rng.randint(4, 9)
        x = np.array([float(ctx.rng.randint(-5, 9)) for _ in range(n)]); y = np.array([float(ctx.rng.randint(-5, 9)) for _ in range(n)])
        grp = np.array([ctx.rng.choice([1, 2]) for _ in range(n)]); grp[0], grp[1] = 1, 2
        cond = np.array([0, 1] * (n // 2) + [0] * (n % 2))
        kth = ctx.rng.randint(1, 4); state = {"k": 0}
        def boom(*a, state=state, kth=kth):
            state["k"] += 1
            for arr_ in a:                       # a statistic may also scribble on what it is handed
                if isinstance(arr_, np.ndarray) and arr_.flags.writeable and arr_.size and ctx_scribble[0]:
                    arr_[...] = 0
            if state["k"] >= kth:
                raise RuntimeError("user statistic failed")
            return 0.0
        ctx_scribble = [False]      # (a statistic that writes into its arguments changes the caller's data by its own doing where the library
                                    #  hands it the caller's array, e.g. x in k_sample: not demanded of the library)
        which = ctx.rng.choice(["two_sample", "one_sample", "k_sample", "stratified_two_sample", "stratified_permutationtest", "bivariate_k_sample"])
        snaps = [v.copy() for v in (x, y, grp, cond)]
        seed_ = ctx.rng.choice([ctx.rng.randint(0, 10**6), np.random.RandomState(ctx.rng.randint(0, 10**6))])
        call = {"two_sample": lambda: _core.two_sample(x, y, reps=5, stat=boom, seed=seed_, keep_dist=ctx.rng.random() < 0.5),
                "one_sample": lambda: _core.one_sample(x, y, reps=5, stat=boom, seed=seed_),
                "k_sample": lambda: _ks.k_sample(x, grp, reps=5, stat=boom, seed=seed_),
                "bivariate_k_sample": lambda: _ks.bivariate_k_sample(x, grp, cond, reps=5, stat=boom, seed=seed_),
                "stratified_two_sample": lambda: _st.stratified_two_sample(grp, cond, x, stat=boom, reps=5, seed=seed_),
                "stratified_permutationtest": lambda: _st.stratified_permutationtest(grp, cond, x, reps=5, testStatistic=boom, seed=seed_)}[which]
        r = guarded(call)
        ctx.case(("error-path", which, kth, ctx_scribble[0], tuple(x.tolist())), True); ctx.count("statistic-raises-" + which)
        if not all(np.array_equal(a_, b_) for a_, b_ in zip((x, y, grp, cond), snaps)):
            ctx.violation("input-modified", {"call": which, "issue": "a call that ended in an exception (user statistic raised in evaluation %d%s) left the caller's arrays changed" % (kth, ", and wrote into its arguments" if ctx_scribble[0] else ""),
                                             "before": [v.tolist() for v in snaps], "after": [v.tolist() for v in (x, y, grp, cond)], "outcome": str(r)[:120]}, site=which)
    # ---- arrays handed to statistics: admissibility oracle + caller arrays untouched over repeated calls
    for name in list(rt.FUNCS):
        fn = rt.FUNCS[name]
        for _ in range(ctx.n(40, 600)):
            p = fn.gen(ctx.rng)
            if "stat" in p:
                p["stat"] = "callable"
            arrays = {k: np.array(v) for k, v in p.items() if isinstance(v, list) and k in ("x", "y", "group", "cond", "resp", "g1", "g2")}
            snaps = {k: v.tobytes() for k, v in arrays.items()}
            # monkey: call through fn.call uses fresh arrays; call the real function on *these* arrays instead
            seen_all = []
            for rep_call in range(2):
                r, seen = call_on(name, p, arrays, RecSHA256(ctx.rng.randint(0, 10**9)))
                seen_all.append(seen)
                det = {"call": name, "params": p}
                if r[0] != "ok":
                    det.update({"issue": "call failed", "returned": r[1:]}); ctx.violation("oracle", det, site=fn.site); break
                if any(arrays[k].tobytes() != snaps[k] for k in arrays):
                    det.update({"issue": "a caller array was modified by the call", "arrays": [k for k in arrays if arrays[k].tobytes() != snaps[k]], "call_number": rep_call + 1})
                    ctx.violation("oracle", det, site=fn.site); break
                why = admissible(name, p, seen)
                if why:
                    det.update({"issue": why}); ctx.violation("oracle", det, site=fn.site); break
            ctx.case((name, repr(sorted(p.items(), key=lambda kv: kv[0]))), True); ctx.count("callable-args-" + name)
    for _ in range(ctx.n(80, 1200)):
        n = ctx.rng.randint(3, 8)
        strat = ctx.rng.random() < 0.6
        grp = [ctx.rng.choice(["T", "C"]) for _ in range(n)]; grp[0], grp[1] = "T", "C"
        cov = [[ctx.rng.choice([1, 2, 2]), ctx.rng.randint(0, 4)] for _ in range(n)]
        if strat and ctx.rng.random() < 0.5:      # strata with different label compositions (one all "T", one mixed)
            grp = ["T" if c_[0] == 1 else ctx.rng.choice(["T", "C", "C"]) for c_ in cov]
        resp = [[float(ctx.rng.randint(0, 9)), float(ctx.rng.randint(0, 9))] for _ in range(n)]
        e = npc.Experiment(grp, resp, cov, npc.Experiment.Randomizer(randomize=(npc.randomize_in_strata if strat else npc.randomize_group), seed=ctx.rng.randint(0, 10**6)))
        no_ = ctx.rng.choice([False, False, np.False_, 0, np.int64(n) > 100]); ctx.count("in_place-given-as-" + type(no_).__name__)
        tests = npc.Experiment.make_test_array(npc.Experiment.TestFunc.one_way_anova, [0, 1])
        before = (e.group.tobytes() if e.group.dtype != object else repr(e.group.tolist()), repr(e.response.tolist()), repr(e.covariate.tolist()))
        which = ctx.rng.choice(["randomize", "sim_npc", "westfall_young-minP", "westfall_young-maxT"])
        sd = ctx.rng.choice([None, ctx.rng.randint(0, 10**6)])
        if which == "randomize":
            r = guarded(e.randomize, no_, sd)
            if r[0] == "ok":      # the returned copy: same data, labels rearranged admissibly (within strata for the stratified randomizer)
                c_ = r[1]; cg = list(getattr(c_, "group", [])); st_ = [v[0] for v in cov]
                okc = isinstance(c_, npc.Experiment) and c_ is not e and np.array(c_.response).tolist() == np.array(e.response).tolist() and \
                    np.array(c_.covariate).tolist() == np.array(e.covariate).tolist() and len(cg) == n and \
                    (Counter(cg) == Counter(grp) if not strat else all(Counter(g_ for g_, s_ in zip(cg, st_) if s_ == s0) == Counter(g_ for g_, s_ in zip(grp, st_) if s_ == s0) for s0 in set(st_)))
                if not okc:
                    ctx.violation("oracle", {"call": "Experiment.randomize", "in_place": repr(no_), "stratified_randomizer": strat, "group": grp, "strata": st_, "seed": sd,
                                             "issue": "the randomisation returned by randomize(in_place=False) is not an admissible rearrangement of the labels (within strata) on a copy of the data",
                                             "returned_group": [str(v) for v in cg]}, site="Experiment")
        elif which == "sim_npc":
            r = guarded(npc.sim_npc, e, tests, "tippett", no_, ctx.rng.randint(1, 4), sd)
        else:
            r = guarded(npc.westfall_young, e, tests, which.split("-")[1], "greater", no_, ctx.rng.randint(1, 4), sd)
        after = (e.group.tobytes() if e.group.dtype != object else repr(e.group.tolist()), repr(e.response.tolist()), repr(e.covariate.tolist()))
        ctx.case(("exp-copy", which, strat, tuple(grp), sd), True); ctx.count("experiment-in_place=False-" + which + ("-stratified" if strat else ""))
        if r[0] != "ok" or before != after:
            ctx.violation("oracle", {"call": which, "in_place": repr(no_), "stratified_randomizer": strat, "group": grp, "strata": [c_[0] for c_ in cov], "seed": sd,
                                     "issue": "an Experiment passed with in_place=False was modified (or the call failed)", "returned": str(r)[:200],
                                     "group_after": e.group.tolist()}, site="Experiment")
    # one-sample data held in unsigned bytes / words: every array handed to the statistic is the data with some signs flipped (|value| kept)
    from permute import core as _core
    for _ in range(ctx.n(20, 200)):
        n_ = ctx.rng.randint(2, 7); dtu = ctx.rng.choice([np.uint8, np.uint16, np.uint8]); xs = [ctx.rng.choice([200, 3, 17, 255, 0, 128, 1]) for _ in range(n_)]
        seen_ = []
        r = guarded(_core.one_sample, np.array(xs, dtype=dtu), None, reps=ctx.rng.randint(2, 8), stat=(lambda u, seen_=seen_: (seen_.append(np.array(u, dtype=float).copy()), float(np.sum(u)))[1]),
                    alternative="greater", seed=ctx.rng.randint(0, 10**6))
        ctx.case(("one_sample-unsigned", tuple(xs), np.dtype(dtu).name), True); ctx.count("one_sample-unsigned-data")
        badu = r[0] != "ok" or any(len(a_) != n_ or any(abs(abs(float(a_[i])) - xs[i]) > 0 for i in range(n_)) for a_ in seen_)
        if badu:
            ctx.violation("oracle", {"call": "one_sample", "x": xs, "dtype": np.dtype(dtu).name, "issue": "the statistic received an array that is not the data with some signs flipped",
                                     "received": [a_.tolist() for a_ in seen_[:4]], "returned": str(r[1:])[:120] if r[0] != "ok" else None}, site="one_sample")
    # permute_incidence_fixed_sums must not touch the caller's matrix, whatever its dtype / memory layout
    for _ in range(ctx.n(60, 800)):
        a, b = ctx.rng.randint(2, 5), ctx.rng.randint(2, 5)
        m = np.array([[ctx.rng.randint(0, 1) for _ in range(b)] for _ in range(a)])
        m[0, 0], m[0, 1], m[1, 0], m[1, 1] = 1, 0, 0, 1          # at least one checkerboard
        dt = ctx.rng.choice([np.int64, np.int8, np.uint8, np.int32, float, bool])
        mm = m.astype(dt)
        if ctx.rng.random() < 0.3:
            mm = np.asfortranarray(mm)
        snap = mm.tobytes(order="A"); k = ctx.rng.randint(1, 4)
        r = guarded(utils.permute_incidence_fixed_sums, mm, k, ctx.rng.randint(0, 10**6))
        ctx.case(("incidence-snapshot", tuple(map(tuple, m.tolist())), np.dtype(dt).name, k), True); ctx.count("incidence-dtype-" + np.dtype(dt).name)
        if r[0] != "ok" or mm.tobytes(order="A") != snap:
            ctx.violation("oracle", {"call": "permute_incidence_fixed_sums", "matrix": m.tolist(), "dtype": np.dtype(dt).name, "k": k,
                                     "issue": "the caller's incidence matrix was modified (or the call failed)", "returned": str(r)[:200],
                                     "matrix_after": mm.astype(int).tolist()}, site="permute_incidence_fixed_sums")
    o2, m2 = rt.run_recorded(ctx, [n_ for n_ in rt.FUNCS if n_ not in ("corr", "spearman_corr", "sim_corr")], ctx.n(25, 400))
    outs = run_model(ops + o2)
    agree = True
    for o, (det, want) in zip(outs[:len(ops)], meta):
        got = [[int(v) for v in r.split()] for r in o.split(";")] if ";" in o or det["helper"] == "prows" else [int(v) for v in o.split()]
        if det["helper"] in ("rgroup", "rstrata"):
            got = got[-1] if got and isinstance(got[0], list) else got
        if got != want:
            agree = False
            ctx.violation("correspondence", {"model": o, "impl": want, "input": det}, site=det["helper"], no_input=True)
    ctx.block("helpers-model-vs-impl", agree, len(ops))
    rt.compare_recorded(ctx, o2, m2, outs[len(ops):], "statistic-arguments-model-vs-impl")


def call_on(name, p, A, prng, pairs=False):
    """call the real function on the caller-owned arrays A with a recording callable"""
    from permute import core, ksample, stratified
    seen = []
    rec1 = lambda u: (seen.append(np.array(u).copy()), float(np.sum(np.asarray(u, dtype=float))))[1]
    rec2 = lambda u, v: (seen.append((np.array(u).copy(), np.array(v).copy())), float(np.sum(u) - np.sum(v)))[1]
    kw = dict(reps=p["reps"], seed=prng, plus1=p["plus1"])
    if name == "two_sample":
        return guarded(core.two_sample, A["x"], A["y"], stat=rec2, alternative=p["alt"], keep_dist=p["keep"], **kw), seen
    if name == "two_sample_shift":
        sh_ = p["shift"]
        if pairs and p.get("pair"):       # the same shift given as a pair of functions (goes through potential_outcomes)
            sh_ = ((lambda u, d=p["shift"]: u + d), (lambda u, d=p["shift"]: u - d))
        if pairs and p.get("pairkind"):
            from .randtests import PAIRS
            sh_ = PAIRS[p["pairkind"]]
        return guarded(core.two_sample_shift, A["x"], A["y"], stat=rec2, alternative=p["alt"], keep_dist=p["keep"], shift=sh_, **kw), seen
    if name == "one_sample":
        return guarded(core.one_sample, A["x"], A.get("y"), stat=rec1, alternative=p["alt"], keep_dist=p["keep"], **kw), seen
    if name in ("corr", "spearman_corr"):
        return guarded(getattr(core, name), A["x"], A["y"], alternative=p["alt"], **kw), seen
    if name == "k_sample":
        st = lambda x, g, xb: (seen.append((np.array(x).copy(), np.array(g).copy())), float(np.dot(x, g)))[1]
        return guarded(ksample.k_sample, A["x"], A["group"], stat=st, keep_dist=p["keep"], **kw), seen
    if name == "bivariate_k_sample":
        st = lambda x, g1, g2, xb: (seen.append((np.array(x).copy(), np.array(g1).copy(), np.array(g2).copy())), float(np.dot(x, g2)))[1]
        return guarded(ksample.bivariate_k_sample, A["x"], A["g1"], A["g2"], stat=st, keep_dist=p["keep"], **kw), seen
    if name == "stratified_permutationtest":
        return guarded(stratified.stratified_permutationtest, A["group"], A["cond"], A["resp"], alternative=p["alt"], testStatistic=rec1, **kw), seen
    if name == "sim_corr":
        return guarded(stratified.sim_corr, A["x"], A["y"], A["group"], alternative=p["alt"], **kw), seen
    if name == "stratified_two_sample":
        return guarded(stratified.stratified_two_sample, A["group"], A["cond"], A["resp"], stat=rec1, alternative=p["alt"], keep_dist=p["keep"], **kw), seen
    raise KeyError(name)


def admissible(name, p, seen):
    """the statement of C03 applied to every array a statistic received"""
    C = Counter
    if name in ("two_sample", "two_sample_shift"):
        nx, ny = len(p["x"]), len(p["y"])
        d = p.get("shift", 0) if name == "two_sample_shift" else 0
        # unit i has treatment value t_i and control value c_i; a rearrangement shows each unit once
        units = [(v, v - d) for v in p["x"]] + [(v + d, v) for v in p["y"]]
        for u, v in seen:
            if len(u) != nx or len(v) != ny:
                return f"group sizes changed: {len(u)}, {len(v)}"
            pool = C(units)
            for t in u.tolist():
                k = next((q for q in pool if q[0] == t and pool[q] > 0), None)
                if k is None:
                    return f"first-sample value {t} is not the treatment outcome of an unused unit"
                pool[k] -= 1
            for t in v.tolist():
                k = next((q for q in pool if q[1] == t and pool[q] > 0), None)
                if k is None:
                    return f"second-sample value {t} is not the control outcome of an unused unit"
                pool[k] -= 1
    elif name == "one_sample":
        z = p["x"] if p["y"] is None else [a - b for a, b in zip(p["x"], p["y"])]
        for u in seen:
            if len(u) != len(z) or any(abs(a) != abs(b) for a, b in zip(u.tolist(), z)):
                return f"the sign-flip test changed more than signs: {u.tolist()} from {z}"
    elif name == "k_sample":
        for x, g in seen:
            if x.tolist() != p["x"] or C(g.tolist()) != C(p["group"]) or len(g) != len(p["group"]):
                return f"labels {g.tolist()} are not a rearrangement of {p['group']} (or x changed)"
    elif name == "bivariate_k_sample":
        g1 = np.array(p["g1"])
        for x, a, b in seen:
            if x.tolist() != p["x"] or a.tolist() != p["g1"] or any(C(b[g1 == k].tolist()) != C(np.array(p["g2"])[g1 == k].tolist()) for k in set(p["g1"])):
                return f"group2 labels moved between levels of group1: {b.tolist()}"
    elif name == "stratified_permutationtest":
        g = np.array(p["group"])
        for u in seen:
            if len(u) != len(g) or any(C(np.array(u)[g == k].tolist()) != C(np.array(p["cond"])[g == k].tolist()) for k in set(p["group"])):
                return f"condition labels moved between strata: {np.array(u).tolist()}"
    elif name == "stratified_two_sample":
        o = np.array(p["cond"]).argsort()
        g = np.array(p["group"])[o]; r0 = np.array(p["resp"])[o]
        for u in seen:
            if len(u) != len(g) or any(C(np.array(u)[g == k].tolist()) != C(r0[g == k].tolist()) for k in set(p["group"])):
                return f"responses moved between strata: {np.array(u).tolist()}"
    return None


def replay(rep):
    print("recorded:", str(rep["first"]["detail"])[:3000])
    return 0
