"""C06 — seeded runs are reproducible, isolated from global RNG state, and share draws."""
import copy
import numpy as np
from cryptorandom.cryptorandom import SHA256
from .common import gstate, guarded, run_model
from . import randtests as rt
from .c03 import call_on
from .prng import RecSHA256, RecRandomState
from .npcutil import scripted_experiment

RULE = ("every randomised function and helper (incl. permute_incidence_fixed_sums, sim_npc, westfall_young, "
        "Experiment.randomize) called twice with equal seeds — int, a fresh SHA256 with that seed, RandomState clones — under "
        "different numpy.random states and after different call histories; numpy.random.get_state() compared around every "
        "seeded call; the same seed used with different data values / statistics of the same sizes must show the same unit "
        "rearrangements (decoded from distinct data values); plus recorded-draw replay: the model must reproduce each run "
        "from the seeded generator's log alone; utils.get_prng's decision table over every kind of seed argument (None, numpy.random, ints, numpy ints, floats, bool, str, RandomState and subclass, SHA256 and subclass, and seven rejected kinds) against Model/Prng.lean; non-trivial = every case; distinct by function, parameters and seed")
LEVEL = ("theorems Prng.explicit_seed_isolated, instances_pass_through, number_is_fresh_sha; fy_map, pyShuffle_map, sbi_map, pwg_map, two_sample_shared_orders (the rearrangement is a function of the "
         "draws and the sizes/stratification only); determinism holds by construction in the model (a function of its draw "
         "list); model replay from the log alone validated against every randomised function")
ASSUMPTIONS = ["global interpreter state (numpy.random) is observed by the harness, not modelled (partial)",
               "bit-for-bit equality of full return values is checked on the implementation only"]


def scribble(obj):
    """overwrite every mutable container reachable from a returned result"""
    try:
        if isinstance(obj, np.ndarray):
            if obj.flags.writeable and obj.size:
                obj[...] = -7 if obj.dtype.kind in "iuf" else obj.flat[0]
        elif isinstance(obj, dict):
            for v in obj.values():
                scribble(v)
        elif isinstance(obj, list):
            for v in obj:
                scribble(v)
            obj.append("scribbled")
        elif isinstance(obj, tuple):
            for v in obj:
                scribble(v)
    except Exception:  # noqa
        pass


def same(a, b):
    if isinstance(a, dict) and isinstance(b, dict):
        return a.keys() == b.keys() and all(same(a[k], b[k]) for k in a)
    if isinstance(a, (tuple, list)) and isinstance(b, (tuple, list)):
        return len(a) == len(b) and all(same(x, y) for x, y in zip(a, b))
    if a is None or b is None:
        return a is b
    try:
        return bool(np.array_equal(np.asarray(a, dtype=float), np.asarray(b, dtype=float), equal_nan=True))
    except (TypeError, ValueError):
        return bool(np.array_equal(np.asarray(a, dtype=object), np.asarray(b, dtype=object)))


def run(ctx):
    from permute import utils, npc, irr
    names = list(rt.FUNCS)
    for name in names:
        fn = rt.FUNCS[name]
        for _ in range(ctx.n(40, 600)):
            p = fn.gen(ctx.rng)
            seed = ctx.rng.choice([0, 0, 1, 2**31 - 1, 2**40 + 7]) if ctx.rng.random() < 0.3 else ctx.rng.randint(0, 2**31)
            det = {"call": name, "params": p, "seed": seed}
            arrays = lambda: {k: np.array(v) for k, v in p.items() if isinstance(v, list) and k in ("x", "y", "group", "cond", "resp", "g1", "g2")}
            np.random.seed(ctx.rng.randint(0, 10**6))
            st0 = gstate()
            r1, _ = call_on(name, p, arrays(), seed if ctx.rng.random() < 0.7 else np.int64(seed), pairs=True)
            touched = gstate() != st0
            # what came back is copied for the comparisons and then scribbled over, as a client may do with arrays it was handed:
            # later calls must not be affected (no result object shared with internal state or with later results)
            r1_live = r1; r1 = copy.deepcopy(r1)
            call_on(name, p, arrays(), seed + 1, pairs=True)           # another call in between must not change what the first call handed back
            if not same(r1_live[1] if r1_live[0] == "ok" else None, r1[1] if r1[0] == "ok" else None):
                det.update({"issue": "the result handed back by one call changed when the function was called again (a result object is shared with internal state)",
                            "first": str(r1)[:300], "now": str(r1_live)[:300]}); ctx.violation("oracle", det, site=fn.site)
            scribble(r1_live)
            np.random.seed(ctx.rng.randint(0, 10**6)); np.random.random(ctx.rng.randint(0, 5))
            if ctx.rng.random() < 0.5:     # a different call history in between
                utils.permute(np.arange(4), 99); guarded(irr.simulate_ts_dist, np.array([[0, 1], [1, 1]]), None, 2, False, 3)
            r2, _ = call_on(name, p, arrays(), seed, pairs=True)
            r3, _ = call_on(name, p, arrays(), SHA256(seed), pairs=True)
            r4, _ = call_on(name, p, arrays(), np.random.RandomState(seed % (2**32)), pairs=True)
            r5, _ = call_on(name, p, arrays(), np.random.RandomState(seed % (2**32)), pairs=True)
            ctx.case((name, repr(sorted(p.items(), key=lambda kv: kv[0])), seed), True, det); ctx.count(name)
            why = None
            if any(r[0] != "ok" for r in (r1, r2, r3, r4, r5)):
                if all(r[0] == "exc" and r[1] in ("ZeroDivisionError",) for r in (r1, r2, r3)):
                    continue
                why = "a seeded call failed: " + str([r[1:] for r in (r1, r2, r3, r4, r5) if r[0] != "ok"][:1])
            elif touched:
                why = "a call with an explicit seed advanced numpy's global random state"
            elif not same(r1[1], r2[1]):
                why = "two calls with the same int seed (different numpy.random state / history) return different results"
            elif not same(r1[1], r3[1]):
                why = "an int seed and a fresh SHA256 with that seed give different results"
            elif not same(r4[1], r5[1]):
                why = "two RandomState generators in the same starting state give different results"
            if why:
                det.update({"issue": why, "first": str(r1)[:300], "second": str(r2)[:300]}); ctx.violation("oracle", det, site=fn.site)
    # ---- same seed, different data / statistic, same sizes: same unit rearrangements
    from permute import core, ksample, stratified
    for _ in range(ctx.n(80, 1200)):
        nx, ny = ctx.rng.randint(1, 5), ctx.rng.randint(1, 5); n = nx + ny
        seed = ctx.rng.randint(0, 2**31); reps = ctx.rng.randint(1, 8)
        base = np.arange(n, dtype=float)
        seen = {}
        def rec(tag):
            seen[tag] = []
            return lambda u, v: (seen[tag].append((np.array(u).copy(), np.array(v).copy())), float(np.sum(u)))[1]
        ra = guarded(core.two_sample, base[:nx], base[nx:], reps=reps, stat=rec("a"), seed=seed, keep_dist=True)
        v2 = 100.0 + 3 * np.arange(n)[::-1]
        rb = guarded(core.two_sample, v2[:nx], v2[nx:], reps=reps, stat=rec("b"), seed=seed, keep_dist=True, alternative="less", plus1=False)
        ctx.case(("shared", nx, ny, seed, reps), True); ctx.count("shared-rearrangements-two_sample")
        dec = lambda pairs, vals: [[int(np.where(vals == t)[0][0]) for t in np.concatenate([u, v])] for u, v in pairs]
        if ra[0] != "ok" or rb[0] != "ok" or dec(seen["a"], base) != dec(seen["b"], v2):
            ctx.violation("oracle", {"call": "two_sample", "nx": nx, "ny": ny, "seed": seed, "reps": reps,
                                     "issue": "the same seed gives different unit rearrangements for different data values / statistics",
                                     "orders_a": dec(seen.get("a", []), base)[:4], "orders_b": dec(seen.get("b", []), v2)[:4]}, site="two_sample")
        # stratified helper and k_sample relabelling
        grp = np.array([ctx.rng.choice([1, 2, 3]) for _ in range(n)])
        pa = guarded(utils.permute_within_groups, np.arange(n), grp, seed); pb = guarded(utils.permute_within_groups, 50 - 2 * np.arange(n), grp, seed)
        ctx.count("shared-rearrangements-permute_within_groups")
        # a variable with ties / constant within a stratum must be rearranged exactly like the unit ids
        B = np.array([float(ctx.rng.choice([7, 7, 7, 1, 3])) for _ in range(n)])
        k0 = ctx.rng.choice(grp.tolist()); B[grp == k0] = 7.0
        pc = guarded(utils.permute_within_groups, B, grp, seed)
        if pa[0] == "ok" and (pc[0] != "ok" or pc[1].tolist() != B[[int(v) for v in pa[1]]].tolist()):
            ctx.violation("oracle", {"call": "permute_within_groups", "group": grp.tolist(), "seed": seed, "values": B.tolist(),
                                     "issue": "under one seed a variable that is constant within a stratum is rearranged differently from the unit ids (the draws consumed depend on the data values)",
                                     "ids_rearranged": [int(v) for v in pa[1]], "values_rearranged": pc[1].tolist() if pc[0] == "ok" else str(pc[1:])}, site="permute_within_groups")
        if pa[0] != "ok" or pb[0] != "ok" or [int(v) for v in pa[1]] != [int((50 - v) // 2) for v in pb[1]]:
            ctx.violation("oracle", {"call": "permute_within_groups", "group": grp.tolist(), "seed": seed,
                                     "issue": "the same seed gives different within-group rearrangements for different data values"}, site="permute_within_groups")
    # ---- named statistics see the rearrangements a callable sees under the same seed: the arrays recorded by a callable are
    #      fed to an exact evaluation of the named statistic and compared with the dist the named statistic returned
    from fractions import Fraction as Fr
    def fmean(v):
        return sum(Fr(t) for t in v) / len(v)
    for _ in range(ctx.n(80, 1000)):
        seed = ctx.rng.randint(0, 2**31); reps = ctx.rng.randint(1, 6)
        which = ctx.rng.choice(["strat2:mean", "strat2:mean_within_strata", "strat2:mean_within_strata", "two_sample:mean", "k_sample:anova", "stratperm:mean"])
        group, cond = rt.strat_design(ctx.rng); n = len(group)
        if which in ("strat2:mean_within_strata", "stratperm:mean"):
            # every stratum holds both conditions under every rearrangement of the responses / labels: two of each
            group, cond = [], []
            for k_ in ctx.rng.sample([1, 2, 3, 5], ctx.rng.randint(2, 3)):
                sz = ctx.rng.randint(2, 4); group += [k_] * (sz + 2); cond += [0, 1] + [ctx.rng.randint(0, 1) for _ in range(sz)]
            idx = list(range(len(group))); ctx.rng.shuffle(idx); group = [group[i] for i in idx]; cond = [cond[i] for i in idx]; n = len(group)
            if which == "stratperm:mean":
                for k_ in set(group):       # both conditions at least twice in each stratum so every cell stays non-empty
                    ii = [i for i in range(n) if group[i] == k_]
                    cond[ii[0]] = 0; cond[ii[1]] = 1
        resp = ctx.rng.sample(range(-20, 60), n); resp = [float(v) for v in resp]       # distinct values
        ga, ca, ra_ = np.array(group), np.array(cond), np.array(resp)
        seen = []
        det = {"call": which, "group": group, "condition": cond, "response": resp, "seed": seed, "reps": reps}
        ctx.case(("named-vs-callable", which, tuple(group), tuple(cond), tuple(resp), seed, reps), True); ctx.count("named-statistic-shares-rearrangements:" + which)
        if which.startswith("strat2"):
            stat = which.split(":")[1]
            rc_ = guarded(stratified.stratified_two_sample, ga, ca, ra_, stat=lambda u: (seen.append(np.array(u).copy()), 0.0)[1], reps=reps, seed=seed, keep_dist=True)
            rn = guarded(stratified.stratified_two_sample, ga, ca, ra_, stat=stat, reps=reps, seed=seed, keep_dist=True)
            o = [int(i) for i in ca.argsort()]; g_o = [group[i] for i in o]; c_o = [cond[i] for i in o]; nt = sum(1 for c_ in cond if c_ == c_o[0])
            if stat == "mean":
                ex = lambda u: fmean(u[:nt]) - fmean(u[nt:])
            else:
                def ex(u):
                    tot = Fr(0)
                    for k_ in sorted(set(g_o)):
                        m0 = fmean([u[i] for i in range(n) if g_o[i] == k_ and c_o[i] == 0]); m1 = fmean([u[i] for i in range(n) if g_o[i] == k_ and c_o[i] == 1])
                        tot += abs(m0 - m1)
                    return tot
        elif which == "two_sample:mean":
            nx = max(1, min(n - 1, cond.count(0)))
            rc_ = guarded(core.two_sample, ra_[:nx], ra_[nx:], stat=lambda u, v: (seen.append(np.concatenate([u, v])), 0.0)[1], reps=reps, seed=seed, keep_dist=True)
            rn = guarded(core.two_sample, ra_[:nx], ra_[nx:], stat="mean", reps=reps, seed=seed, keep_dist=True)
            ex = lambda u: fmean(u[:nx]) - fmean(u[nx:])
        elif which == "k_sample:anova":
            rc_ = guarded(ksample.k_sample, ra_, ga, stat=lambda x_, g_, xb: (seen.append(np.array(g_).copy()), 0.0)[1], reps=reps, seed=seed, keep_dist=True)
            rn = guarded(ksample.k_sample, ra_, ga, stat="one-way anova", reps=reps, seed=seed, keep_dist=True)
            xb = fmean(resp)
            def ex(g_):
                tot = Fr(0)
                for k_ in sorted(set(int(v) for v in g_)):
                    vals = [resp[i] for i in range(n) if int(g_[i]) == k_]
                    tot += (fmean(vals) - xb) ** 2 * len(vals)
                return tot
        else:
            rc_ = guarded(stratified.stratified_permutationtest, ga, ca, ra_, testStatistic=lambda c_: (seen.append(np.array(c_).copy()), 0.0)[1], reps=reps, seed=seed)
            rn = guarded(stratified.stratified_permutationtest, ga, ca, ra_, testStatistic="mean", reps=reps, seed=seed)
            def ex(c_):
                tot = Fr(0)
                for k_ in sorted(set(group)):
                    m0 = fmean([resp[i] for i in range(n) if group[i] == k_ and int(c_[i]) == 0]); m1 = fmean([resp[i] for i in range(n) if group[i] == k_ and int(c_[i]) == 1])
                    tot += abs(m0 - m1)
                return tot
        if rc_[0] != "ok" or rn[0] != "ok" or len(seen) < reps + 1:
            det.update({"issue": "call failed or the callable was evaluated fewer times than once per repetition plus once", "callable": str(rc_)[:200], "named": str(rn)[:200], "evaluations": len(seen)})
            ctx.violation("oracle", det, site=which.split(":")[0]); continue
        try:
            want = [ex([float(t) for t in a_] if not which.startswith(("k_sample", "stratperm")) else a_) for a_ in seen[-reps:]]
        except ZeroDivisionError:
            ctx.count("skipped-empty-cell"); continue
        dist = list(rn[1][2])
        if len(dist) != reps or any(abs(float(a) - float(b)) > 1e-9 * max(1.0, abs(float(b))) for a, b in zip(dist, want)):
            det.update({"issue": "under one seed the named statistic was evaluated on other rearrangements than a callable receives (the rearrangement depends on the statistic)",
                        "named_dist": [float(v) for v in dist][:6], "statistic_on_the_callables_arrays": [float(v) for v in want][:6]})
            ctx.violation("oracle", det, site=which.split(":")[0])
    # ---- other seeded entry points
    for _ in range(ctx.n(60, 800)):
        seed = ctx.rng.randint(0, 2**31)
        m = np.array([[1, 0, 1, 0], [0, 1, 1, 0], [1, 1, 0, 0]]); k = ctx.rng.randint(1, 5)
        np.random.seed(ctx.rng.randint(0, 10**6)); st0 = gstate()
        a = guarded(utils.permute_incidence_fixed_sums, m, k, seed)
        touched = gstate() != st0
        np.random.seed(ctx.rng.randint(0, 10**6))
        b = guarded(utils.permute_incidence_fixed_sums, m, k, SHA256(seed))
        ctx.case(("inc", seed, k), True); ctx.count("permute_incidence_fixed_sums")
        if a[0] != "ok" or b[0] != "ok" or touched or not np.array_equal(a[1], b[1]):
            ctx.violation("oracle", {"call": "permute_incidence_fixed_sums", "k": k, "seed": seed, "touched_global_state": touched,
                                     "issue": "seeded call not reproducible or it used numpy's global random state"}, site="permute_incidence_fixed_sums")
        # Experiment.randomize / sim_npc / westfall_young with a seed
        gdt = ctx.rng.choice(["int", "object", "float", "list"]); ctx.count("experiment-labels-" + gdt)
        grp = [0, 0, 0, 1, 1, 1, 1] if gdt == "list" else np.array([0, 0, 0, 1, 1, 1, 1], dtype={"int": int, "object": object, "float": float}[gdt])
        resp = np.array([[float(ctx.rng.randint(0, 9)), float(ctx.rng.randint(0, 9))] for _ in range(7)])
        if ctx.rng.random() < 0.3:
            resp = resp.astype(object); ctx.count("experiment-responses-object-dtype")
        grp0, resp0 = copy.deepcopy(grp), resp.copy()
        strat_ = ctx.rng.random() < 0.5
        cov_ = np.array([[0], [1], [0], [1], [0], [1], [1]])
        def mk():
            if strat_:      # the stratified randomizer (covariate column = stratum)
                return npc.Experiment(grp, resp, cov_, npc.Experiment.Randomizer(randomize=npc.randomize_in_strata))
            return npc.Experiment(grp, resp)
        ctx.count("experiment-stratified-randomizer" if strat_ else "experiment-default-randomizer")
        tests = npc.Experiment.make_test_array(npc.Experiment.TestFunc.mean_diff, [0, 1])
        outs = []
        ekind = ctx.rng.choice(["int", "int", "randomstate", "sha256"])
        sd = {"int": lambda: seed, "randomstate": lambda: np.random.RandomState(seed % 2**32), "sha256": lambda: SHA256(seed)}[ekind]
        ctx.count("experiment-seed-" + ekind)
        for trial in range(2):
            np.random.seed(ctx.rng.randint(0, 10**6))
            e, e2, e3, e4 = mk(), mk(), mk(), mk()      # an Experiment built without a seed legitimately draws one from numpy.random
            st0 = gstate()
            r1 = guarded(e.randomize, True, sd()); g1 = e.group.tolist()
            r4 = guarded(e4.randomize, False, sd())       # the copying variant
            g1 = (g1, r4[1].group.tolist() if r4[0] == "ok" else r4, e4.group.tolist())
            r2 = guarded(npc.sim_npc, e2, tests, "fisher", False, 6, sd())
            r3 = guarded(npc.westfall_young, e3, tests, "minP", "greater", False, 6, sd())
            touched = gstate() != st0
            outs.append((g1, r2, r3, touched))
            if list(grp) != list(grp0) or not np.array_equal(resp, resp0):
                ctx.violation("oracle", {"call": "Experiment.randomize/sim_npc/westfall_young", "seed": seed, "labels_given_as": gdt,
                                         "issue": "the arrays an Experiment was built from were rearranged by randomising the Experiment (a later Experiment built from the same arrays starts from other data)",
                                         "labels_before": str(list(grp0)), "labels_after": str(list(grp))}, site="Experiment")
                break
        ctx.case(("exp", seed), True); ctx.count("experiment-seeded")
        if len(outs) < 2:
            continue
        # an int seed and a fresh SHA256 instance with that seed are the same generator (get_prng): same randomisations
        ea, eb, ec, ed = mk(), mk(), mk(), mk()
        xa = guarded(ea.randomize, True, seed); xb = guarded(eb.randomize, True, SHA256(seed))
        ya = guarded(npc.sim_npc, ec, tests, "fisher", False, 5, seed); yb = guarded(npc.sim_npc, ed, tests, "fisher", False, 5, SHA256(seed))
        za = guarded(npc.westfall_young, ec, tests, "minP", "greater", False, 5, seed); zb = guarded(npc.westfall_young, ed, tests, "minP", "greater", False, 5, SHA256(seed))
        ctx.count("experiment-int-seed-vs-sha256-instance")
        if xa[0] != "ok" or xb[0] != "ok" or ea.group.tolist() != eb.group.tolist() or not same(ya[1:], yb[1:]) or str(za[1:]) != str(zb[1:]):
            ctx.violation("oracle", {"call": "Experiment.randomize/sim_npc/westfall_young", "seed": seed,
                                     "issue": "seed given as an int and as a fresh SHA256 instance with that seed give different randomisations",
                                     "int": str((ea.group.tolist(), ya[1:], za[1:]))[:300], "sha256_instance": str((eb.group.tolist(), yb[1:], zb[1:]))[:300]}, site="Experiment")
        if outs[0][3] or outs[1][3] or outs[0][0] != outs[1][0] or not same(outs[0][1][1:], outs[1][1][1:]) or not same(
                [dict(d) if isinstance(d, dict) else d for d in outs[0][2][1]] if outs[0][2][0] == "ok" else None,
                [dict(d) if isinstance(d, dict) else d for d in outs[1][2][1]] if outs[1][2][0] == "ok" else None):
            ctx.violation("oracle", {"call": "Experiment.randomize/sim_npc/westfall_young", "seed": seed, "seed_given_as": ekind, "touched_global_state": [outs[0][3], outs[1][3]],
                                     "issue": "seeded Experiment randomisation / sim_npc / westfall_young not reproducible or not isolated from numpy.random",
                                     "first": str(outs[0])[:400], "second": str(outs[1])[:400]}, site="Experiment")
    # ---- the same Experiment object: a seeded call must not depend on what the object was used for before
    for _ in range(ctx.n(60, 800)):
        n = ctx.rng.randint(3, 7); seed = ctx.rng.randint(0, 2**31)
        grp = [ctx.rng.choice([0, 1]) for _ in range(n)]; grp[0], grp[1] = 0, 1
        resp = [[float(ctx.rng.randint(0, 9))] for _ in range(n)]
        tests = npc.Experiment.make_test_array(npc.Experiment.TestFunc.mean_diff, [0])
        fresh = npc.Experiment(grp, resp); used = npc.Experiment(grp, resp)
        # history on `used`: seeded with the same and with other seeds, in place, then group restored
        for hs in ([seed], [seed, seed + 1], [seed + 5, seed], [seed, seed]):
            pass
        hist = ctx.rng.choice([[seed], [seed, seed + 1], [seed + 5, seed], [seed, seed, seed]])
        for hseed in hist:
            guarded(used.randomize, True, hseed)
            if ctx.rng.random() < 0.5:
                guarded(used.randomize, True, None)
        used.group = np.array(grp, dtype=object)
        which = ctx.rng.choice(["randomize", "sim_npc", "westfall_young"])
        if which == "randomize":
            a = guarded(fresh.randomize, True, seed); b = guarded(used.randomize, True, seed)
            ra, rb = fresh.group.tolist(), used.group.tolist()
        elif which == "sim_npc":
            a = guarded(npc.sim_npc, fresh, tests * 2, "fisher", True, 5, seed); b = guarded(npc.sim_npc, used, tests * 2, "fisher", True, 5, seed)
            ra, rb = (str(a[1:]), fresh.group.tolist()), (str(b[1:]), used.group.tolist())
        else:
            a = guarded(npc.westfall_young, fresh, tests * 2, "minP", "greater", True, 5, seed); b = guarded(npc.westfall_young, used, tests * 2, "minP", "greater", True, 5, seed)
            ra, rb = (str(a[1:]), fresh.group.tolist()), (str(b[1:]), used.group.tolist())
        ctx.case(("same-object", which, seed, tuple(hist)), True); ctx.count("same-object-reseed-" + which)
        if a[0] != "ok" or b[0] != "ok" or ra != rb:
            ctx.violation("oracle", {"call": "Experiment." + which, "seed": seed, "history_of_seeds_on_the_same_object": hist, "group": grp,
                                     "issue": "a seeded in-place call gives a different result on an Experiment that was randomised before than on a fresh one with identical data",
                                     "fresh": str(ra)[:300], "used": str(rb)[:300]}, site="Experiment")
    # ---- utils.get_prng as decision logic, against the model's table (Model/Prng.lean)
    class _Sub(np.random.RandomState):
        pass
    def _values():
        r = ctx.rng
        return [("none", None), ("nprandom", np.random), ("number", r.randint(0, 2**40)), ("number", 0), ("number", np.int64(r.randint(0, 2**31))),
                ("number", np.int32(r.randint(0, 2**31 - 1))), ("number", np.uint8(r.randint(0, 255))), ("number", float(r.randint(0, 2**30))), ("number", True),
                ("string", "seed-%d" % r.randint(0, 999)), ("string", ""), ("randomstate", np.random.RandomState(r.randint(0, 2**31))), ("randomstate", _Sub(3)),
                ("sha256", SHA256(r.randint(0, 2**31))), ("sha256", RecSHA256(r.randint(0, 2**31))), ("other", [1, 2]), ("other", (3,)), ("other", b"abc"),
                ("other", np.array([1])), ("other", 1 + 2j), ("other", {"seed": 1}), ("other", np.random.default_rng(1)), ("other", object())]
    for _ in range(ctx.n(4, 40)):
        vals = _values()
        outs_m = run_model(["getprng|" + k for k, _ in vals])
        for (kind, v), om in zip(vals, outs_m):
            np.random.seed(ctx.rng.randint(0, 10**6)); np.random.random(ctx.rng.randint(0, 4))
            st = np.random.get_state()
            if isinstance(v, SHA256):
                before = (v.baseseed, v.counter, getattr(v, "randbits", None), getattr(v, "randbits_remaining", None))
            elif isinstance(v, np.random.RandomState):
                before = (v.get_state()[1].tobytes(), v.get_state()[2])
            r = guarded(utils.get_prng, v)
            read_global = not np.array_equal(np.random.get_state()[1], st[1]) or np.random.get_state()[2] != st[2]
            if r[0] != "ok":
                got = "ValueError" if "ValueError" in str(r[1]) else "error:" + str(r[1])[:80]
            elif kind == "none":
                np.random.set_state(st); exp_seed = np.random.randint(0, 10**10, dtype=np.int64)
                ref = SHA256(exp_seed)
                got = "fresh-sha256-from-global-draw" if type(r[1]) is SHA256 and (r[1].baseseed, r[1].counter) == (ref.baseseed, ref.counter) \
                    and [r[1].randint(0, 10**6) for _ in range(3)] == [ref.randint(0, 10**6) for _ in range(3)] else "something-else:" + repr(r[1])[:80]
            elif r[1] is np.random.mtrand._rand:
                got = "global-randomstate"
            elif r[1] is v:
                if isinstance(v, SHA256):
                    unchanged = before == (v.baseseed, v.counter, getattr(v, "randbits", None), getattr(v, "randbits_remaining", None))
                else:
                    unchanged = before == (v.get_state()[1].tobytes(), v.get_state()[2])
                got = "same-object" if unchanged else "same-object-but-advanced"
            elif type(r[1]) is SHA256:
                ref = SHA256(v)
                got = "fresh-sha256-of-seed" if (r[1].baseseed, r[1].counter) == (ref.baseseed, ref.counter) \
                    and [r[1].randint(0, 10**6) for _ in range(3)] == [ref.randint(0, 10**6) for _ in range(3)] else "sha256-of-something-else"
            else:
                got = "something-else:" + repr(r[1])[:80]
            # the "none"/"nprandom" rows read the global generator only when drawn from (None draws; np.random is handed out untouched)
            got_line = got + "|" + ("1" if (read_global or kind == "nprandom") else "0")
            ctx.case(("get_prng", kind, type(v).__name__), True); ctx.count("get_prng-" + kind)
            if got_line != om:
                # the table no longer corresponds; is this also an input on which the property itself fails?
                fails = (kind in ("number", "string") and got != "fresh-sha256-of-seed") or \
                        (kind not in ("none", "nprandom") and read_global) or got == "same-object-but-advanced"
                ctx.violation("oracle" if fails else "correspondence",
                              {"call": "utils.get_prng", "seed_argument": repr(v)[:120], "kind": kind, "impl": got_line, "model": om,
                               "issue": ("an explicit seed is not interchangeable with SHA256(seed) / touches numpy's global generator" if fails else
                                         "correspondence Model/Prng.lean getPrng <-> utils.get_prng no longer checks for this kind of seed argument; "
                                         "no input found on which reproducibility/isolation itself fails")}, site="get_prng", no_input=not fails)
    # ---- the model reproduces every run from the seeded generator's log alone
    ops, meta = rt.run_recorded(ctx, names, ctx.n(25, 400))
    outs_m = run_model(ops)
    rt.compare_recorded(ctx, ops, meta, outs_m, "replay-from-log-alone")


def replay(rep):
    print("recorded:", str(rep["first"]["detail"])[:3000])
    return 0
