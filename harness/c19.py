"""C19 — permute_incidence_fixed_sums makes margin-preserving checkerboard swaps only."""
import itertools
import os
import numpy as np
from .common import gstate, guarded, run_model, rows, ints
from .prng import RecSHA256, RecRandomState

RULE = ("every binary matrix of shape 2x2 .. 3x3 (and 2x4, 3x4 in thorough) that admits a checkerboard swap, plus "
        "generated matrices up to 6x7, k in 0..6, int / SHA256 / RandomState seeds with the row and column choices "
        "recorded and replayed through the model; non-trivial = k >= 1; distinct by (matrix, k, seed)")
LEVEL = ("theorems swap_margins, swap_binary, swap_four_cells, run_margins, run_binary, run_diff_le, run_zero for "
         "every matrix, k and attempt sequence; model validated against utils.permute_incidence_fixed_sums on "
         "recorded row/column choices")
ASSUMPTIONS = ["the model consumes the recorded row pair and column picks; that these come from the seeded generator only is "
               "checked by replaying the call under a different numpy.random state (same result, global state untouched)",
               "matrices that admit no swap are outside the property (the function does not terminate on them)"]


def swappable(m):
    n = m.shape[0]
    for a in range(n):
        for b in range(n):
            if a != b and ((m[a] == 1) & (m[b] == 0)).any() and ((m[a] == 0) & (m[b] == 1)).any():
                return True
    return False


def attempts_from_log(log, n):
    """decode the generator log into (s0, s1, pick0, pick1) attempts"""
    out, i = [], 0
    def row_pair(w1, w2):
        pop = list(range(n))
        a = pop[w1 - 1]; last = pop.pop()
        if w1 < n:
            pop[w1 - 1] = last
        return a, pop[w2 - 1]
    while i < len(log):
        e1, e2 = log[i], log[i + 1]
        if not (e1[0] == "randint" and e2[0] == "randint" and e1[1:4] == (1, n + 1, None) and e2[1:4] == (1, n, None)):
            raise LookupError(f"row pair not drawn as random_sample(rows, 2): {e1[:4]} {e2[:4]}")
        s0, s1 = row_pair(e1[4][0], e2[4][0])
        i += 2
        picks = []
        while i < len(log) and log[i][0] in ("randbelow", "choice") and len(picks) < 2:
            e = log[i]
            picks.append(e[2] if e[0] == "randbelow" else ("val", e[2][0], e[1]))
            i += 1
        if len(picks) == 0:
            out.append((s0, s1, 0, 0, False))
        elif len(picks) == 2:
            p = [(v if not isinstance(v, tuple) else v[2].index(v[1])) for v in picks]
            out.append((s0, s1, p[0], p[1], True))
        else:
            raise LookupError("one column pick without the other")
    return out


def run(ctx):
    from permute import utils
    ops, meta = [], []
    mats = []
    shapes = [(2, 2), (2, 3), (3, 2), (3, 3)] + ([(2, 4), (3, 4), (4, 3)] if ctx.thorough() else [])
    for (a, b) in shapes:
        allm = [np.array(v).reshape(a, b) for v in itertools.product((0, 1), repeat=a * b)]
        allm = [m for m in allm if swappable(m)]
        if not ctx.thorough() and len(allm) > 120:
            allm = ctx.rng.sample(allm, 120)
        mats += allm
    ctx.exhaustive = ctx.thorough()
    for _ in range(ctx.n(120, 1500)):
        a, b = ctx.rng.randint(2, 6), ctx.rng.randint(2, 7)
        m = np.array([[1 if ctx.rng.random() < ctx.rng.choice([0.3, 0.5, 0.7]) else 0 for _ in range(b)] for _ in range(a)])
        if swappable(m):
            mats.append(m)
    # tall sparse matrices with one or two swappable row pairs: hundreds of failed draws before each swap
    for _ in range(ctx.n(6, 40)):
        a = ctx.rng.randint(12, 40); b = ctx.rng.randint(3, 6)
        m = np.zeros((a, b), dtype=int)
        fill = ctx.rng.choice([0, 1])          # the other rows are all-0 or all-1: never swappable with anything
        m[:, :] = fill
        i, j = ctx.rng.sample(range(a), 2); c0, c1 = ctx.rng.sample(range(b), 2)
        m[i, :] = 0; m[j, :] = 0; m[i, c0] = 1; m[j, c1] = 1
        if ctx.rng.random() < 0.5:
            m[i, (c0 + 1) % b if (c0 + 1) % b != c1 else (c0 + 2) % b] = 1
        mats.append(m)
    for m in mats:
        for k in ([0, 1, 2, 3] if m.size <= 9 else [ctx.rng.randint(0, 6) if m.shape[0] < 12 else ctx.rng.randint(1, 3)]):
            seedv = ctx.rng.choice([0, 0, 1, 2**33]) if ctx.rng.random() < 0.2 else ctx.rng.randint(0, 10**6)
            kind = ctx.rng.choice(["sha", "sha", "rs", "int", "int"])
            if kind == "rs":
                seedv %= 2**32
            g = RecSHA256(seedv) if kind in ("sha", "int") else RecRandomState(seedv)
            dt = ctx.rng.choice([None, None, float, np.int8, np.uint8, np.int32, bool])
            mm = m.copy() if dt is None else m.astype(dt)
            if ctx.rng.random() < 0.2:
                mm = np.asfortranarray(mm)
            ctx.count("dtype-" + mm.dtype.name)
            snap = mm.copy()
            st0 = gstate()
            r = guarded(utils.permute_incidence_fixed_sums, mm, k, g, secs=60)
            det = {"call": "permute_incidence_fixed_sums", "matrix": m.tolist(), "k": k, "seed": seedv, "generator": kind}
            ctx.case((tuple(map(tuple, m.tolist())), k, seedv, kind), k >= 1, det if k >= 1 else None)
            ctx.count(f"k={k}"); ctx.count("gen-" + kind); ctx.count(f"shape={m.shape[0]}x{m.shape[1]}")
            if r[0] != "ok":
                det.update({"issue": "call failed", "returned": r[1:]}); ctx.violation("oracle", det, site="permute_incidence_fixed_sums"); continue
            out = np.array(r[1])
            why = None
            if not np.array_equal(mm, snap):
                why = "input matrix modified"
            elif out.shape != m.shape or not np.isin(out, (0, 1)).all():
                why = "result is not a binary matrix of the same shape"
            elif not (np.array_equal(out.sum(0), m.sum(0)) and np.array_equal(out.sum(1), m.sum(1))):
                why = "row or column sums changed"
            elif int((out != m).sum()) > 4 * k:
                why = "result differs from the input in more than 4k cells"
            elif k == 0 and not np.array_equal(out, m):
                why = "k = 0 does not return an equal copy"
            elif r[1] is mm or (isinstance(r[1], np.ndarray) and np.shares_memory(r[1], mm)):
                why = "the result shares memory with the caller's matrix (writing to the result would change the input)"
            elif gstate() != st0:
                why = "numpy's global random state was advanced by a seeded call"
            if why is None:
                # reproducible under a different global state
                np.random.seed(ctx.rng.randint(0, 10**6))
                g2 = RecSHA256(seedv) if kind in ("sha", "int") else RecRandomState(seedv)
                r2 = guarded(utils.permute_incidence_fixed_sums, mm, k, (seedv if kind == "int" else g2))
                if r2[0] != "ok" or not np.array_equal(np.array(r2[1]), out):
                    why = "same seed, different numpy.random state: different result"
                if why is None and kind == "int":     # the plain int (and its numpy twin) again, under yet another global state
                    np.random.seed(ctx.rng.randint(0, 10**6))
                    r3 = guarded(utils.permute_incidence_fixed_sums, mm, k, np.int64(seedv) if ctx.rng.random() < 0.5 else seedv)
                    if r3[0] != "ok" or not np.array_equal(np.array(r3[1]), out):
                        why = "an int seed is not equivalent to a fresh SHA256 with that seed / not reproducible"
            if why:
                det.update({"issue": why, "returned": out.tolist()}); ctx.violation("oracle", det, site="permute_incidence_fixed_sums"); continue
            try:
                atts = attempts_from_log(g.log, m.shape[0])
            except (LookupError, IndexError) as ex:
                det.update({"issue": "unexpected use of the generator: " + str(ex)})
                ctx.violation("correspondence", det, site="permute_incidence_fixed_sums", no_input=True); continue
            if sum(1 for a_ in atts if a_[4]) != k:
                det.update({"issue": f"{sum(1 for a_ in atts if a_[4])} column-pick pairs recorded for k = {k} swaps"})
                ctx.violation("correspondence", det, site="permute_incidence_fixed_sums", no_input=True); continue
            ops.append(f"incidence|{k}|{rows(m.tolist(), ints)}|{rows([a_[:4] for a_ in atts], ints)}")
            meta.append((det, out.astype(int).tolist()))
    # ---- text seeds (a documented seed type): the same text gives the same matrix in this process, in a fresh SHA256 of that text,
    #      and in other interpreter runs (Python salts str hashes per process: PYTHONHASHSEED is varied on purpose)
    import subprocess, sys, json as _json
    from cryptorandom.cryptorandom import SHA256 as _SHA
    from .common import REPO
    base = np.array([[1, 0, 1, 0, 1], [0, 1, 1, 0, 0], [1, 1, 0, 0, 1], [0, 0, 1, 1, 0]])
    texts = ["seed-%d" % ctx.rng.randint(0, 999), "abc", "5"]
    here = {}
    for t in texts:
        a = guarded(utils.permute_incidence_fixed_sums, base, 3, t); b = guarded(utils.permute_incidence_fixed_sums, base, 3, t)
        c = guarded(utils.permute_incidence_fixed_sums, base, 3, _SHA(t))
        ctx.case(("text-seed", t), True); ctx.count("text-seeds")
        if a[0] != "ok" or b[0] != "ok" or c[0] != "ok" or not (np.array_equal(a[1], b[1]) and np.array_equal(a[1], c[1])):
            ctx.violation("oracle", {"call": "permute_incidence_fixed_sums", "k": 3, "seed": t, "matrix": base.tolist(),
                                     "issue": "a text seed is not reproducible within the process / not equivalent to a fresh SHA256 of that text"}, site="permute_incidence_fixed_sums")
        here[t] = a[1].tolist() if a[0] == "ok" else None
    code = ("import sys, json, numpy as np; sys.path.insert(0, %r); from permute import utils; "
            "m = np.array(%r); print(json.dumps({t: utils.permute_incidence_fixed_sums(m, 3, t).tolist() for t in %r}))" % (REPO, base.tolist(), texts))
    for hs in (ctx.rng.randint(1, 4000), ctx.rng.randint(4001, 9000)):
        try:
            out = subprocess.run([sys.executable, "-c", code], capture_output=True, text=True, timeout=120, env=dict(os.environ, PYTHONHASHSEED=str(hs)))
            there = _json.loads(out.stdout.strip().splitlines()[-1]) if out.returncode == 0 else None
        except Exception as ex:  # noqa
            there = None; out = None
        ctx.case(("text-seed-other-interpreter", hs), True); ctx.count("other-interpreter-runs")
        if there is None:
            ctx.violation("oracle", {"call": "permute_incidence_fixed_sums in a fresh interpreter", "issue": "call failed", "stderr": (out.stderr[-300:] if out is not None else "")}, site="permute_incidence_fixed_sums")
        elif any(there[t] != here[t] for t in texts):
            bad = [t for t in texts if there[t] != here[t]]
            ctx.violation("oracle", {"call": "permute_incidence_fixed_sums", "k": 3, "seed": bad[0], "matrix": base.tolist(), "PYTHONHASHSEED": hs,
                                     "issue": "the same text seed gives another matrix in another interpreter run", "here": here[bad[0]], "there": there[bad[0]]}, site="permute_incidence_fixed_sums")
    # ---- a matrix buffer refilled in place between two calls: second result as on a fresh array
    for _ in range(ctx.n(40, 400)):
        r_, c_ = ctx.rng.randint(2, 4), ctx.rng.randint(2, 5)
        def rndm():
            while True:
                m_ = np.array([[ctx.rng.randint(0, 1) for _ in range(c_)] for _ in range(r_)])
                if swappable(m_):      # without a checkerboard the function legitimately never returns for k >= 1
                    return m_
        a1, a2 = rndm(), rndm(); sd_ = ctx.rng.randint(0, 10**6); k_ = ctx.rng.randint(0, 3)
        buf = a1.copy(); ra = guarded(utils.permute_incidence_fixed_sums, buf, k_, sd_, secs=20); buf[...] = a2
        rb = guarded(utils.permute_incidence_fixed_sums, buf, k_, sd_, secs=20); rf = guarded(utils.permute_incidence_fixed_sums, a2.copy(), k_, sd_, secs=20)
        ctx.case(("refill", a1.tobytes(), a2.tobytes(), k_, sd_), True); ctx.count("buffer-refilled-in-place")
        if rb[0] != rf[0] or (rb[0] == "ok" and not np.array_equal(rb[1], rf[1])) or not np.array_equal(buf, a2):
            ctx.violation("oracle", {"call": "permute_incidence_fixed_sums", "k": k_, "seed": sd_, "first": a1.tolist(), "second": a2.tolist(),
                                     "issue": "on a matrix refilled in place the result differs from the result on a fresh array with the same contents (or the buffer was modified)",
                                     "refilled": str(rb[1:])[:200], "fresh": str(rf[1:])[:200]}, site="permute_incidence_fixed_sums")
    # ---- rejected inputs
    bads = [("1-D", np.array([0, 1, 1])), ("3-D", np.zeros((2, 2, 2))), ("entries 0,1,2", np.array([[0, 1], [2, 0]])),
            ("entries 0,.5,1", np.array([[1, .5, 0], [0, 1, 1]])), ("all zeros", np.zeros((2, 2))), ("all ones", np.ones((2, 3))),
            ("negative", np.array([[0, -1], [1, 1]]))]
    # entries that are almost but not exactly 0 or 1 (each in a matrix that would otherwise admit a swap)
    for dt_, vals_ in ((np.float64, [np.nextafter(1.0, 0.0), np.nextafter(1.0, 2.0), 5e-324, 1e-300, 1e-17, 1 - 1e-12, float("nan"), float("inf"), 2.0 ** 53]),
                       (np.float32, [np.nextafter(np.float32(1), np.float32(0)), np.nextafter(np.float32(1), np.float32(2)), np.float32(1e-45), np.float32(1e-8)]),
                       (np.float16, [np.nextafter(np.float16(1), np.float16(0)), np.nextafter(np.float16(1), np.float16(2)), np.float16(6e-8)])):
        for v_ in vals_:
            base_ = [[1, 0, 1], [0, 1, 0], [1, 1, 0]]
            i_, j_ = ctx.rng.randrange(3), ctx.rng.randrange(3)
            b_ = np.array(base_, dtype=dt_); b_[i_, j_] = v_
            bads.append((f"{np.dtype(dt_).name} entry {float(v_)!r} at ({i_},{j_})", b_))
    for name, b in bads:
        r = guarded(utils.permute_incidence_fixed_sums, b, 1, 5)
        ctx.case(("reject", name), True); ctx.count("rejected-inputs")
        if not (r[0] == "exc" and r[1] == "ValueError"):
            ctx.violation("oracle", {"call": "permute_incidence_fixed_sums", "input": name, "matrix": b.tolist(),
                                     "issue": "invalid matrix not rejected with ValueError", "returned": r[1:] if r[0] != "ok" else np.array(r[1]).tolist()},
                          site="permute_incidence_fixed_sums")
    for name, b in bads[2:]:
        if b.ndim == 2 and float(b.min()).is_integer() and all(float(v).is_integer() for v in b.ravel()):
            ops.append("incvalid|" + rows(b.astype(int).tolist(), ints)); meta.append((None, "false"))
    outs = run_model(ops)
    agree = True
    for o, (det, want) in zip(outs, meta):
        if det is None:
            ok = o == want
        else:
            mat = [[int(v) for v in r.split()] for r in o.split("|")[0].split(";")]
            ok = mat == want
        if not ok:
            agree = False
            ctx.violation("correspondence", {"model": o[:300], "impl": want, "input": det}, site="permute_incidence_fixed_sums", no_input=True)
    ctx.block("incidence-model-vs-impl", agree, len(ops))


def replay(rep):
    from permute import utils
    d = rep["first"]["detail"]; d = d.get("input", d) if isinstance(d.get("input"), dict) else d
    print("recorded:", rep["first"]["detail"])
    if "matrix" in d and "k" in d:
        print("now ->", utils.permute_incidence_fixed_sums(np.array(d["matrix"]), d["k"], d["seed"]).tolist())
    return 0
