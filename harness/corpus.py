"""Minimised failing inputs of defects found earlier (DESIGN.md §8), replayed first on every run so
that a repaired defect is reported again if it ever returns.  Each entry returns None (holds) or a
detail dict (violation)."""
import numpy as np
from fractions import Fraction as Fr
from .common import guarded
from .npcutil import scripted_experiment


def _c01_spearman():
    from permute import core
    r = guarded(core.spearman_corr, np.array([2, 1, 4, 0, 3]), np.array([0, 2, 4, 3, 1]), reps=20, seed=5, plus1=False)
    if r[0] != "ok" or abs(r[1][0] - 0.1) > 1e-9:
        return {"input": "spearman_corr([2,1,4,0,3],[0,2,4,3,1])", "issue": "statistic is not Spearman's rho = 0.1 (ranks, not argsort)", "returned": str(r)[:200]}
    k = r[1][1] * 20
    if abs(k - round(k)) > 1e-9:
        return {"input": "spearman_corr(..., reps=20, plus1=False)", "issue": "plus1=False is not honoured", "p": float(r[1][1])}


def _c05_one_sample_float():
    from permute import core
    r = guarded(core.one_sample, np.array([1.0, -2.0, 3.0]), stat=lambda u: float(np.mean(u)), keep_dist=True, reps=5, seed=1)
    if r[0] != "ok":
        return {"input": "one_sample(x, stat=lambda u: float(mean(u)), keep_dist=True)", "issue": "fails for a statistic returning a Python float", "returned": r[1:]}


def _c05_wy_float():
    from permute import npc
    e, t, _ = scripted_experiment([[1, 2], [0, 1], [2, 2]], [1, 1], ["float", "float"])
    r = guarded(npc.westfall_young, e, t, reps=3)
    if r[0] != "ok":
        return {"input": "westfall_young with test functions returning Python floats", "issue": "call fails", "returned": r[1:]}


def _c02_t():
    from permute import stratified
    g = np.array([1, 1, 1, 2, 2, 2, 2]); c = np.array([0, 1, 0, 1, 0, 1, 0]); r_ = np.array([1., 2, 4, 3, 3, 5, 0])
    r = guarded(stratified.stratified_two_sample, g, c, r_, stat="t", reps=5, seed=2)
    if r[0] != "ok":
        return {"input": "stratified_two_sample(stat='t')", "issue": "documented statistic option is not usable", "returned": r[1:]}


def _c02_mean_stat():
    from permute import stratified
    g = np.array([0, 0, 0, 1, 1, 1]); c = np.array([0, 1, 2, 0, 1, 2]); r_ = np.array([0., 0, 9, 0, 0, 9])
    a = guarded(stratified.stratified_permutationtest_mean, g, c, r_)
    g2 = np.array([0, 0, 1, 1, 2, 2]); c2 = np.array([0, 1, 0, 1, 0, 1]); r2 = np.array([0., 2, 0, 2, 0, 2])
    b = guarded(stratified.stratified_permutationtest_mean, g2, c2, r2)
    if a[0] != "ok" or abs(a[1] - 2 * np.std([0, 0, 9])) > 1e-9 or b[0] != "ok" or abs(b[1] - 6) > 1e-9:
        return {"input": "2 groups x 3 conditions (0,0,9,0,0,9) and 3 groups x 2 conditions", "issue": "stratified mean statistic keyed on the number of groups instead of conditions", "returned": [str(a), str(b)]}


def _c02_less():
    from permute import stratified
    g = np.array([1, 1, 2, 2]); c = np.array([0, 1, 0, 1]); r_ = np.array([0., 0, 0, 0])
    r = guarded(stratified.stratified_two_sample, g, c, r_, alternative="less", reps=10, seed=3)
    if r[0] != "ok" or abs(r[1][0] - 1.0) > 1e-12:
        return {"input": "stratified_two_sample(constant responses, alternative='less', plus1=True)", "issue": "lower-tail p-value should be 1 (every simulated value ties the observed one)", "returned": str(r)[:200]}


def _c06_incidence():
    from permute import utils
    m = np.array([[1, 0, 1, 0], [0, 1, 1, 0], [1, 1, 0, 0]])
    np.random.seed(1); a = guarded(utils.permute_incidence_fixed_sums, m, 3, 7)
    np.random.seed(2); b = guarded(utils.permute_incidence_fixed_sums, m, 3, 7)
    if a[0] != "ok" or b[0] != "ok" or not np.array_equal(a[1], b[1]):
        return {"input": "permute_incidence_fixed_sums(m, k=3, seed=7) under np.random.seed(1) / seed(2)", "issue": "same seed, different results (row pair drawn from numpy's global state)"}


def _c19_nonbinary():
    from permute import utils
    r = guarded(utils.permute_incidence_fixed_sums, np.array([[1, .5, 0], [0, 1, 1]]), 1, 3)
    if not (r[0] == "exc" and r[1] == "ValueError"):
        return {"input": "[[1,.5,0],[0,1,1]]", "issue": "non-binary matrix accepted", "returned": str(r)[:200]}


def _c07_zero():
    from permute import npc
    tv = [[0, 4], [2, 1], [2, 3], [2, 5], [5, 2], [4, 1], [4, 2], [1, 3], [1, 2], [2, 3]]
    e, t, _ = scripted_experiment(tv, [3, 5])
    r = guarded(npc.sim_npc, e, t, combine="fisher", reps=10)
    if r[0] != "ok" or abs(r[1][0] - 1 / 11) > 1e-12:
        return {"input": {"table": tv, "observed": [3, 5], "combine": "fisher"}, "issue": "sim_npc global p-value is not 1/11 (observed row lost to rounding)", "returned": str(r)[:200]}


def _c07_float32():
    from permute import npc
    st = {"i": -1}
    def rnd(d):
        st["i"] += 1; return d
    tv = [[0, 4], [2, 1]]; ts = [3, 5]
    tests = [(lambda d, c=c: np.float32(ts[c] if st["i"] < 0 else tv[st["i"]][c])) for c in range(2)]
    e = npc.Experiment([0, 1], [[0], [1]], randomizer=npc.Experiment.Randomizer(randomize=rnd))
    r = guarded(npc.sim_npc, e, tests, combine="fisher", reps=2)
    if r[0] != "ok" or abs(r[1][0] - 1 / 3) > 1e-12:
        return {"input": "sim_npc with test functions returning np.float32, table [[0,4],[2,1]], observed [3,5]", "issue": "global p-value is not 1/3 (float32 ranks lost the observed row)", "returned": str(r)[:200]}


def _c09_order():
    from permute import npc
    rs = np.random.RandomState(4); distr = rs.uniform(size=(200, 3))
    r = guarded(npc.fwer_minp, np.array([0.3, 0.01, 0.2]), distr, "fisher")
    if r[0] != "ok" or not (r[1][1] <= r[1][2] <= r[1][0]):
        return {"input": "fwer_minp((0.3, 0.01, 0.2), distr)", "issue": "adjusted p-values are not attached to the right hypotheses", "returned": str(r)[:200]}


def _c10_minp():
    from permute import npc
    e, t, _ = scripted_experiment([[0, 0, -1], [-2, 2, 1], [1, 2, 3], [3, 0, 0]], [1, 3, -2])
    r = guarded(npc.westfall_young, e, t, method="minP", alternatives="two-sided", reps=4)
    if r[0] != "ok" or abs(r[1][0][1] - 0.6) > 1e-12:
        return {"input": "minP two-sided, table [[0,0,-1],[-2,2,1],[1,2,3],[3,0,0]], observed [1,3,-2]", "issue": "adjusted p-value of hypothesis 1 is not 0.6", "returned": str(r)[:300]}


def _c10_float32():
    from permute import npc
    tv = [[-2, -2], [-2, 2], [2, 2], [0, -2], [-2, 2], [0, 0], [-1, -1], [1, -2], [-1, 2], [1, 1]]
    e, t, _ = scripted_experiment(tv, [-2, -2], ["int", "f32"])
    r = guarded(npc.westfall_young, e, t, method="minP", alternatives="two-sided", reps=10)
    if r[0] != "ok" or abs(r[1][0][1] - 8 / 11) > 1e-12 or r[1][0][1] < r[1][1][1] - 1e-12:
        return {"input": "minP two-sided, second test function returns np.float32", "issue": "adjusted p-value below the raw one (single-precision per-permutation p-values)", "returned": str(r)[:300]}


def _c10_maxt():
    from permute import npc
    e, t, _ = scripted_experiment([[-0.224]], [-0.211])
    r = guarded(npc.westfall_young, e, t, method="maxT", alternatives="greater", reps=1)
    if r[0] != "ok" or abs(r[1][0][0] - 0.5) > 1e-12:
        return {"input": "maxT 'greater', simulated -0.224, observed -0.211", "issue": "one-sided maxT used absolute values", "returned": str(r)[:200]}


def _c10_mixed_maxt():
    from permute import npc
    e, t, _ = scripted_experiment([[1, -3]], [3, 1])
    r = guarded(npc.westfall_young, e, t, method="maxT", alternatives=["two-sided", "greater"], reps=1)
    if r[0] != "ok" or abs(r[1][0][0] - 0.5) > 1e-12 or abs(r[1][0][1] - 0.5) > 1e-12:
        return {"input": "maxT, one randomisation (1, -3), observed (3, 1), alternatives ['two-sided', 'greater']",
                "issue": "mixed list of alternatives: hypotheses not ordered / stepped down on their own scales (expected (1/2, 1/2))", "returned": str(r)[:200]}


def _c11_ties():
    from permute import npc
    h = guarded(npc.adjust_p, np.array([0.01, 0.01, 0.5]), "holm-bonferroni"); b = guarded(npc.adjust_p, np.array([0.01, 0.01, 0.5]), "benjamini-hochberg")
    if h[0] != "ok" or b[0] != "ok" or not np.allclose(h[1], [0.03, 0.03, 0.5], atol=1e-12) or not np.allclose(b[1], [0.015, 0.015, 0.5], atol=1e-12):
        return {"input": "adjust_p((0.01, 0.01, 0.5))", "issue": "tied p-values: not the textbook Holm (0.03) / BH (0.015) values", "returned": [str(h), str(b)]}


def _c12_kwargs():
    from permute import utils
    r = guarded(utils.binom_conf_interval, 10, 3, xtol=1e-8)
    if r[0] != "ok":
        return {"input": "binom_conf_interval(10, 3, xtol=1e-8)", "issue": "documented solver keyword not accepted", "returned": r[1:]}


def _c13_nan():
    from permute import utils
    r = guarded(utils.hypergeom_conf_interval, 2, 1, 5)
    if r[0] != "ok" or tuple(r[1]) != (1, 4):
        return {"input": "hypergeom_conf_interval(2, 1, 5)", "issue": "not (1, 4)", "returned": str(r)[:200]}


def _c15_last():
    from permute import sprt
    r = guarded(sprt.sprt, lambda x: 100 if len(x) == 3 else 1, .05, .05, [1, 1, 1])
    if r[0] != "ok" or r[1][0] != [True, False]:
        return {"input": "ratio 100 only on the whole sample of length 3", "issue": "the last observation is not examined", "returned": str(r)[:200]}


def _c15_float32():
    from permute import sprt as S
    x = [1] * 116 + [0] * 84
    for dt in (np.float32, np.float16):
        r = guarded(S.bernoulli_lh_ratio, np.array(x, dtype=dt), 0.5, 0.625)
        if r[0] != "ok" or not (abs(float(r[1]) - 5.58094360256345) <= 1e-9):
            return {"input": f"bernoulli_lh_ratio(116 ones and 84 zeros stored as {np.dtype(dt).name}, 0.5, 0.625)",
                    "issue": "the ratio depends on the dtype the 0/1 sample is stored in (expected 5.58094360256345)", "returned": str(r)[:200]}


CORPUS = {
    "C01": [("D1-spearman", "spearman_corr", _c01_spearman)],
    "C02": [("D3-strat-t", "stratified_two_sample", _c02_t), ("D4-mean-statistic", "stratified_permutationtest_mean", _c02_mean_stat),
            ("D5-strat2-less", "stratified_two_sample", _c02_less)],
    "C05": [("D2-one_sample-float", "one_sample", _c05_one_sample_float), ("D2-wy-float", "westfall_young", _c05_wy_float),
            ("D5-strat2-less", "stratified_two_sample", _c02_less), ("D1-spearman-plus1", "spearman_corr", _c01_spearman)],
    "C06": [("D6-incidence-global-rng", "permute_incidence_fixed_sums", _c06_incidence)],
    "C19": [("D6-incidence-global-rng", "permute_incidence_fixed_sums", _c06_incidence), ("D6b-nonbinary", "permute_incidence_fixed_sums", _c19_nonbinary)],
    "C07": [("D7-simnpc-zero", "sim_npc", _c07_zero), ("D15-float32", "sim_npc", _c07_float32)],
    "C09": [("D8-fwer-order", "fwer_minp", _c09_order)],
    "C10": [("D9a-minP", "westfall_young", _c10_minp), ("D9b-maxT", "westfall_young", _c10_maxt), ("D16-float32", "westfall_young", _c10_float32),
            ("D17-mixed-maxT", "westfall_young", _c10_mixed_maxt)],
    "C11": [("D10-ties", "adjust_p", _c11_ties)],
    "C12": [("D11-kwargs", "binom_conf_interval", _c12_kwargs)],
    "C13": [("D12-nan", "hypergeom_conf_interval", _c13_nan)],
    "C15": [("D13-last-observation", "sprt", _c15_last), ("D18-float32-sample", "bernoulli_lh_ratio", _c15_float32)],
}


def run_corpus(ctx):
    entries = CORPUS.get(ctx.prop, [])
    ok = True
    for name, site, fn in entries:
        d = fn()
        ctx.case(("corpus", name), True); ctx.count("corpus")
        if d is not None:
            ok = False
            d["corpus_entry"] = name
            ctx.violation("oracle", d, site=site)
    if entries:
        ctx.block("corpus-of-past-defects", ok, len(entries))
