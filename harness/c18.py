"""C18 — IRR concordance statistic equals the fraction of agreeing rater pairs."""
import itertools
from fractions import Fraction as Fr
import numpy as np
from .common import F, guarded, run_model, rat, rats, rows, rows3, ints, frac, fracs, close, numerator_of, fields
from .prng import RecSHA256, Draws

RULE = ("all binary matrices with R in 2..4 raters and Ns in 1..4 items (exhaustive in thorough, sampled in quick) "
        "plus generated larger ones; simulate_ts_dist with obs_ts overrides under recorded draws; simulate_npc_dist "
        "on generated perm_distr / size vectors; non-trivial = raters disagree on some item; distinct by matrix")
LEVEL = ("theorems computeTsNum_eq_pairs, computeTs_eq_fraction, computeTs_range, computeTs_one_iff, invariance under "
         "rater order and label swap, tsDist_reference; model validated against irr.compute_ts, simulate_ts_dist, "
         "simulate_npc_dist")
ASSUMPTIONS = ["invariance under item order: Extra.computeTs_perm_items, and checked on the implementation",
               "inverse_n_weight's size**(-1/2) weights are taken as the doubles NumPy computes"]


def pairs_oracle(m):
    R, Ns = len(m), len(m[0])
    agree = sum(1 for i in range(Ns) for a in range(R) for b in range(a + 1, R) if m[a][i] == m[b][i])
    return Fr(agree, Ns * R * (R - 1) // 2)


ROUND_TRIP_HAZARDS = [(B, k) for B in range(2, 70) for k in range(1, B + 1) if int((k / B) * B) != k]


def run(ctx):
    from permute import irr
    ops, meta = [], []
    mats = []
    for R in range(2, 5):
        for Ns in range(1, 5):
            allm = list(itertools.product((0, 1), repeat=R * Ns))
            if not ctx.thorough() and len(allm) > 300:
                allm = ctx.rng.sample(allm, 300)
            mats += [np.array(v).reshape(R, Ns) for v in allm]
    ctx.exhaustive = ctx.thorough()
    for _ in range(ctx.n(200, 3000)):
        R = ctx.rng.randint(2, 9) if ctx.rng.random() < 0.7 else ctx.rng.randint(10, 40); Ns = ctx.rng.randint(1, 12)
        pr = ctx.rng.choice([0.1, 0.5, 0.9])
        mats.append(np.array([[1 if ctx.rng.random() < pr else 0 for _ in range(Ns)] for _ in range(R)]))
    dts = [np.int64, np.int8, np.uint8, np.uint16, np.uint64, bool, float, np.int32]
    for m in mats:
        R, Ns = m.shape
        m = m.astype(ctx.rng.choice(dts)) if ctx.rng.random() < 0.5 else m
        ctx.count("dtype-" + m.dtype.name)
        snap = m.copy()
        r = guarded(irr.compute_ts, m)
        ml = m.astype(int).tolist()
        want = pairs_oracle(ml)
        nontriv = any(len(set(m[:, i])) > 1 for i in range(Ns))
        ctx.case(tuple(map(tuple, ml)), nontriv, {"ratings": ml} if R * Ns <= 12 else None); ctx.count(f"R={R}")
        det = {"call": "compute_ts", "ratings": ml}
        if r[0] != "ok" or not close(r[1], want) or not np.array_equal(m, snap):
            det.update({"issue": "not the fraction of agreeing rater pairs", "returned": r[1:], "expected": want}); ctx.violation("oracle", det, site="compute_ts"); continue
        v = r[1]
        if not (0 <= v <= 1) or ((v == 1) != all((m[a] == m[0]).all() for a in range(R))):
            det.update({"issue": "range / equals-1-iff-all-agree fails", "returned": float(v)}); ctx.violation("oracle", det, site="compute_ts"); continue
        pr_ = list(range(R)); ctx.rng.shuffle(pr_); pi = list(range(Ns)); ctx.rng.shuffle(pi)
        for name, m2 in (("raters reordered", m[pr_]), ("items reordered", m[:, pi]), ("labels exchanged", (1 - m.astype(np.int64)).astype(m.dtype))):
            r2 = guarded(irr.compute_ts, m2)
            if r2[0] != "ok" or abs(r2[1] - v) > 1e-12:
                det.update({"issue": "not invariant: " + name, "before": float(v), "after": r2[1:]}); ctx.violation("oracle", det, site="compute_ts")
        ops.append("computets|" + rows(ml, ints)); meta.append(("ts", det, float(v)))
    # ---- simulate_ts_dist with recorded draws
    for _ in range(ctx.n(250, 3000)):
        R = ctx.rng.randint(2, 6); Ns = ctx.rng.randint(2, 9); reps = ctx.rng.randint(1, 20)
        if ctx.rng.random() < 0.35:       # few distinct values: many permutations tie with the reference
            m = np.array([[1] * Ns for _ in range(R)])
            for _k in range(ctx.rng.randint(0, 3)):
                m[ctx.rng.randrange(R), ctx.rng.randrange(Ns)] = 0
        else:
            m = np.array([[ctx.rng.randint(0, 1) for _ in range(Ns)] for _ in range(R)])
        obsF = ctx.rng.choice([None, None, Fr(1, 2), pairs_oracle(m.tolist()), Fr(0), Fr(1)])
        obs = None if obsF is None else float(obsF)     # the double image of the exact reference value
        if obsF is not None and obsF.denominator == 1 and ctx.rng.random() < 0.6:
            # a whole-number reference (0 = no agreement, 1 = perfect agreement) given as another numeric type
            obs = ctx.rng.choice([int(obsF), np.int64(int(obsF)), np.float32(int(obsF)), bool(int(obsF))]); ctx.count("obs_ts-given-as-" + type(obs).__name__)
        plus1 = ctx.rng.random() < 0.5; keep = ctx.rng.random() < 0.5
        g = RecSHA256(ctx.rng.randint(0, 10**9))
        snap = m.copy()
        r = guarded(irr.simulate_ts_dist, m, obs, reps, keep, g, plus1)
        det = {"call": "simulate_ts_dist", "ratings": m.tolist(), "obs_ts": None if obs is None else float(obs), "obs_ts_type": type(obs).__name__, "num_perm": reps, "keep_dist": keep, "plus1": plus1}
        ctx.case(("tsdist", tuple(map(tuple, m.tolist())), None if obs is None else float(obs), type(obs).__name__, reps, plus1, keep), True, det); ctx.count("simulate_ts_dist")
        if r[0] != "ok" or not np.array_equal(m, snap):
            det.update({"issue": "call failed or ratings modified", "returned": r[1:]}); ctx.violation("oracle", det, site="simulate_ts_dist"); continue
        res = r[1]
        # the other keep_dist mode under the same seed must count the same
        r_other = guarded(irr.simulate_ts_dist, m, obs, reps, not keep, RecSHA256(g.baseseed), plus1)
        if r_other[0] != "ok" or int(r_other[1]["geq"]) != int(res["geq"]) or r_other[1]["pvalue"] != res["pvalue"]:
            det.update({"issue": "geq / pvalue differ between keep_dist=True and keep_dist=False under the same seed",
                        "this_mode": [int(res["geq"]), float(res["pvalue"])], "other_mode": str(r_other[1:])[:200] if r_other[0] != "ok" else [int(r_other[1]["geq"]), float(r_other[1]["pvalue"])]})
            ctx.violation("oracle", det, site="simulate_ts_dist"); continue
        ref = obsF if obsF is not None else pairs_oracle(m.tolist())
        c = 1 if plus1 else 0
        why = None
        if not close(res["obs_ts"], Fr(ref)) or res["num_perm"] != reps:
            why = "reference value is not obs_ts / the statistic of the ratings as passed"
        elif keep and (len(res["dist"]) != reps or int(res["geq"]) != int(np.sum(np.array(res["dist"]) >= res["obs_ts"]))):
            why = "geq is not the number of simulated values >= the reference"
        elif not close(res["pvalue"], Fr(int(res["geq"]) + c, reps + c)):
            why = "pvalue is not (geq + plus1)/(num_perm + plus1)"
        if why:
            det.update({"issue": why, "returned": {k: (v.tolist() if hasattr(v, "tolist") else v) for k, v in res.items()}})
            ctx.violation("oracle", det, site="simulate_ts_dist"); continue
        try:
            d = Draws(g.log)
            draws = [[d.fy(Ns) for _ in range(R)] for _ in range(reps)]
            assert d.done()
        except (LookupError, AssertionError) as ex:
            det.update({"issue": "unexpected use of the generator: " + str(ex)}); ctx.violation("correspondence", det, site="simulate_ts_dist", no_input=True); continue
        ops.append(f"tsdist|{int(plus1)}|{'-' if obsF is None else rat(obsF)}|{rows(m.tolist(), ints)}|{rows3(draws)}")
        meta.append(("tsdist", det, res))
    hazard_block(ctx)
    # ---- overrides that no ratings matrix can produce (outside [0,1], infinite, NaN as read from a table with a missing entry):
    #      still "the supplied obs_ts is the reference": geq counts the simulated values >= it (none are >= NaN)
    for _ in range(ctx.n(60, 600)):
        R_ = ctx.rng.randint(2, 5); Ns_ = ctx.rng.randint(1, 6); reps_ = ctx.rng.randint(1, 12)
        m_ = np.array([[ctx.rng.randint(0, 1) for _ in range(Ns_)] for _ in range(R_)])
        obs_, wantgeq = ctx.rng.choice([(float("nan"), 0), (np.float64("nan"), 0), (float("inf"), 0), (float("-inf"), reps_), (2.0, 0), (-0.5, reps_), (1.0000000000000002, 0)])
        plus1_ = ctx.rng.random() < 0.5; sd_ = ctx.rng.randint(0, 10**6); c_ = 1 if plus1_ else 0
        rk = guarded(irr.simulate_ts_dist, m_, obs_, reps_, True, sd_, plus1_); rn = guarded(irr.simulate_ts_dist, m_, obs_, reps_, False, sd_, plus1_)
        ctx.case(("odd-override", m_.tobytes(), R_, Ns_, repr(obs_), reps_, plus1_), True); ctx.count("obs_ts-override-" + repr(float(obs_)))
        okk = all(r_[0] == "ok" and int(r_[1]["geq"]) == wantgeq and (r_[1]["obs_ts"] == obs_ or (obs_ != obs_ and r_[1]["obs_ts"] != r_[1]["obs_ts"]))
                  and close(r_[1]["pvalue"], Fr(wantgeq + c_, reps_ + c_)) for r_ in (rk, rn))
        if not okk:
            ctx.violation("oracle", {"call": "simulate_ts_dist", "ratings": m_.tolist(), "obs_ts": repr(obs_), "num_perm": reps_, "plus1": plus1_, "seed": sd_,
                                     "issue": "the supplied obs_ts is not used as the reference (geq must count the simulated values >= it)",
                                     "expected_geq": wantgeq, "keep_dist=True": str(rk[1:])[:300], "keep_dist=False": str(rn[1:])[:300]}, site="simulate_ts_dist")
    # ---- a ratings buffer refilled in place between two calls: second result as on a fresh array
    for _ in range(ctx.n(40, 400)):
        R_ = ctx.rng.randint(2, 5); Ns_ = ctx.rng.randint(1, 6)
        a1 = np.array([[ctx.rng.randint(0, 1) for _ in range(Ns_)] for _ in range(R_)]); a2 = np.array([[ctx.rng.randint(0, 1) for _ in range(Ns_)] for _ in range(R_)])
        buf = a1.copy(); ra = guarded(irr.compute_ts, buf); buf[...] = a2
        rb = guarded(irr.compute_ts, buf); rf = guarded(irr.compute_ts, a2.copy())
        sb = guarded(irr.simulate_ts_dist, buf, None, 4, True, 5, True); sf = guarded(irr.simulate_ts_dist, a2.copy(), None, 4, True, 5, True)
        ctx.case(("refill", a1.tobytes(), a2.tobytes(), R_, Ns_), True); ctx.count("buffer-refilled-in-place")
        okk = rb[0] == "ok" and rf[0] == "ok" and rb[1] == rf[1] and sb[0] == "ok" and sf[0] == "ok" and np.array_equal(np.array(sb[1]["dist"]), np.array(sf[1]["dist"])) and sb[1]["pvalue"] == sf[1]["pvalue"]
        if not okk:
            ctx.violation("oracle", {"call": "compute_ts / simulate_ts_dist", "first": a1.tolist(), "second": a2.tolist(),
                                     "issue": "on a ratings buffer refilled in place the result differs from the result on a fresh array with the same contents",
                                     "refilled": str(rb[1:])[:60] + " " + str(sb[1:])[:160], "fresh": str(rf[1:])[:60] + " " + str(sf[1:])[:160]}, site="compute_ts")
    # ---- what one call handed back must not change when the function is called again (no shared result buffers)
    for keep_ in (True, False):
        m1 = np.array([[1, 0, 1, 1], [1, 1, 0, 1], [0, 0, 1, 1]]); m2 = 1 - m1
        a = guarded(irr.simulate_ts_dist, m1, None, 6, keep_, 11, True)
        snap_ = None if a[0] != "ok" else {k: (np.array(v).copy() if hasattr(v, "__len__") else v) for k, v in a[1].items()}
        b = guarded(irr.simulate_ts_dist, m2, None, 6, keep_, 12, False)
        ctx.case(("stable-result", keep_), True); ctx.count("result-stability")
        okk = a[0] == "ok" and b[0] == "ok" and all((np.array_equal(np.array(a[1][k]), snap_[k]) if hasattr(snap_[k], "__len__") else (a[1][k] == snap_[k] or (a[1][k] is None and snap_[k] is None))) for k in snap_)
        if not okk:
            ctx.violation("oracle", {"call": "simulate_ts_dist", "keep_dist": keep_, "issue": "the result returned by one call changed when simulate_ts_dist was called again (shared result buffer)",
                                     "first_now": str(a[1:])[:300]}, site="simulate_ts_dist")
    # ---- simulate_npc_dist
    for _ in range(ctx.n(150, 2000)):
        B = ctx.rng.randint(2, 25); S = ctx.rng.randint(2, 5)
        D = [[Fr(ctx.rng.randint(0, 8), 8) for _ in range(S)] for _ in range(B)]
        size = [ctx.rng.randint(1, 30) for _ in range(S)]
        plus1 = ctx.rng.random() < 0.5
        use_p = ctx.rng.random() < 0.3
        obs = [Fr(ctx.rng.randint(0, 8), 8) for _ in range(S)]
        pv = [Fr(ctx.rng.randint(1, 64), 64) for _ in range(S)]
        if not use_p and ctx.rng.random() < 0.3:
            # (B, count) pairs whose count does not survive a float round trip, fl(fl(k/B)*B) < k: the count of simulated values
            # at least as large as the observed one must still be the integer k
            B, k_ = ctx.rng.choice(ROUND_TRIP_HAZARDS)
            D = [[Fr(ctx.rng.randint(0, 8), 8) for _ in range(S)] for _ in range(B)]
            col = [Fr(1)] * k_ + [Fr(0)] * (B - k_); ctx.rng.shuffle(col)
            j0 = ctx.rng.randrange(S)
            for i_ in range(B):
                D[i_][j0] = col[i_]
            obs[j0] = Fr(1, 2); ctx.count("npcdist-round-trip-hazard")
        szdt = ctx.rng.choice([float, float, np.int64, np.int32, np.int16, np.int8, np.uint8, np.uint16]); ctx.count("size-dtype-" + np.dtype(szdt).name)
        Df = np.array([[float(v) for v in r_] for r_ in D]); sz = np.array(size, dtype=szdt)
        if not use_p and ctx.rng.random() < 0.3:
            # a distribution saved in single / half precision (eighths are exact there) and double-precision references a hair above or
            # below a stored value: the comparison is between the numbers, not between their roundings to the narrow type
            ndt = ctx.rng.choice([np.float32, np.float16]); Df = Df.astype(ndt); ctx.count("npcdist-stored-as-" + np.dtype(ndt).name)
            obs = [v + ctx.rng.choice([Fr(0), Fr(1, 2**30), -Fr(1, 2**30), Fr(1, 2**40), Fr(1, 2**13) if ndt is np.float16 else Fr(1, 2**26)]) for v in obs]
        if use_p:
            r = guarded(irr.simulate_npc_dist, Df, sz, None, np.array([float(v) for v in pv]), plus1)
        else:
            r = guarded(irr.simulate_npc_dist, Df, sz, np.array([float(v) for v in obs]), None, plus1)
        if use_p and ctx.rng.random() < 0.4:      # references given as well: the supplied p-values are still the ones that are combined
            rboth = guarded(irr.simulate_npc_dist, Df, sz, np.array([float(v) for v in obs]), np.array([float(v) for v in pv]), plus1); ctx.count("npcdist-both-references-and-pvalues")
            if r[0] == "ok" and (rboth[0] != "ok" or abs(rboth[1]["obs_npc"] - r[1]["obs_npc"]) > 1e-12 or rboth[1]["pvalue"] != r[1]["pvalue"]):
                ctx.violation("oracle", {"call": "simulate_npc_dist", "perm_distr": [[str(v) for v in r_] for r_ in D], "size": size, "plus1": plus1, "obs_ts": [str(v) for v in obs],
                                         "pvalues": [str(v) for v in pv], "issue": "p-values supplied by the caller are not the ones combined when obs_ts is given as well",
                                         "with_both": str(rboth[1:])[:200], "pvalues_only": str(r[1:])[:200]}, site="simulate_npc_dist")
        det = {"call": "simulate_npc_dist", "perm_distr": [[str(v) for v in r_] for r_ in D], "size": size, "plus1": plus1,
               "obs_ts": None if use_p else [str(v) for v in obs], "pvalues": [str(v) for v in pv] if use_p else None}
        ctx.case(("npcdist", tuple(map(tuple, D)), tuple(size), plus1, use_p, tuple(obs), tuple(pv)), True); ctx.count("simulate_npc_dist")
        if r[0] != "ok":
            det.update({"issue": "call failed", "returned": r[1:]}); ctx.violation("oracle", det, site="simulate_npc_dist"); continue
        res = r[1]
        c = 1 if plus1 else 0
        pvs = pv if use_p else [Fr(sum(1 for r_ in D if r_[j] >= obs[j]) + c, B + c) for j in range(S)]
        w = [float(s) ** (-1 / 2) for s in size]
        stat = -sum(float(p_) * w_ for p_, w_ in zip(pvs, w))
        if abs(res["obs_npc"] - stat) > 1e-9 or res["num_perm"] != B or not (0 <= res["pvalue"] <= 1):
            det.update({"issue": "obs_npc is not the documented weighted sum of the per-stratum p-values", "returned": {k: float(v) for k, v in res.items()}, "expected_obs_npc": stat})
            ctx.violation("oracle", det, site="simulate_npc_dist"); continue
        wts = (np.array(size, dtype=float) ** (-1 / 2)).tolist()
        ops.append(f"npcdist|{int(plus1)}|{rats(wts)}|{'-' if use_p else rats(obs)}|{rats(pv) if use_p else '-'}|{rows(D)}")
        meta.append(("npcdist", det, res))
    r = guarded(irr.simulate_npc_dist, np.zeros((3, 2)), np.array([1.0, 2.0]))
    if not (r[0] == "exc" and r[1] == "ValueError"):
        ctx.violation("oracle", {"call": "simulate_npc_dist", "issue": "neither obs_ts nor pvalues: not rejected with ValueError", "returned": r[1:]}, site="simulate_npc_dist")
    outs = run_model(ops)
    agree = True
    for o, (kind, det, got) in zip(outs, meta):
        ok = True
        if kind == "ts":
            v, num, pairs = o.split("|")
            ok = close(got, frac(v)) and int(num) == 2 * int(pairs)
        elif kind == "tsdist":
            f = fields(o)
            ok = close(got["obs_ts"], frac(f["obs"])) and int(got["geq"]) == int(f["geq"]) and close(got["pvalue"], frac(f["p"]))
            if ok and got["dist"] is not None:
                ok = len(got["dist"]) == len(fracs(f["dist"])) and all(close(a, b) for a, b in zip(got["dist"], fracs(f["dist"])))
        else:
            if o == "ValueError":
                ok = False
            else:
                cstat, res, pvs = o.split("|")
                B = len(det["perm_distr"])
                k = numerator_of(got["pvalue"], B + 1)
                # the inner npc uses float sums of weighted p-values: accept the model's count up to exact ties
                ok = abs(got["obs_npc"] - float(frac(cstat))) <= 1e-9 and k is not None and abs(k - frac(res) * (B + 1)) <= _ties(det, frac(cstat))
        if not ok:
            agree = False
            ctx.violation("correspondence", {"op": kind, "model": o[:300], "impl": str(got)[:300], "input": det}, site=det["call"], no_input=True)
    ctx.block("irr-model-vs-impl", agree, len(ops))


def hazard_block(ctx):
    from permute import irr
    # ---- reference values whose double image does not survive multiplication by the denominator: (c/d)*d != c.
    #      A comparison carried out on un-normalised counts (or any rescaled form) loses every tie there.
    hazards = []
    for R in range(2, 7):
        for Ns in range(2, 13):
            d = Ns * R * (R - 1)
            t = [y * (y - 1) + (R - y) * (R - y - 1) for y in range(R + 1)]
            reach = {0: []}
            for _i in range(Ns):
                reach = {c + ty: ys + [y] for c, ys in reach.items() for y, ty in enumerate(t)}
            for c, ys in reach.items():
                if (c / d) * d != c or (c / d) * Ns * R * (R - 1) != c:
                    hazards.append((R, Ns, c, ys))
    ctx.rng.shuffle(hazards)
    for (R, Ns, c, ys) in hazards[:ctx.n(30, 400)]:
        m = np.array([[1 if r_ < y else 0 for y in ys] for r_ in range(R)])
        seed = ctx.rng.randint(0, 10**9); reps = 40
        a = guarded(irr.simulate_ts_dist, m, None, reps, True, seed, False)
        b = guarded(irr.simulate_ts_dist, m, None, reps, False, seed, False)
        ctx.case(("hazard", R, Ns, c), True); ctx.count("float-roundtrip-hazard-shapes")
        if a[0] != "ok" or b[0] != "ok":
            ctx.violation("oracle", {"call": "simulate_ts_dist", "ratings": m.tolist(), "issue": "call failed", "returned": str([a[1:], b[1:]])[:200]}, site="simulate_ts_dist"); continue
        want = int(np.sum(np.array(a[1]["dist"]) >= a[1]["obs_ts"]))
        exact = sum(1 for v in a[1]["dist"] if F(v) >= Fr(c, Ns * R * (R - 1)) or abs(float(v) - c / (Ns * R * (R - 1))) < 1e-12)
        if int(a[1]["geq"]) != want or int(b[1]["geq"]) != want or want != exact:
            ctx.violation("oracle", {"call": "simulate_ts_dist", "ratings": m.tolist(), "num_perm": reps, "seed": seed, "concordant_count": c, "denominator": Ns * R * (R - 1),
                                     "issue": "geq is not the number of simulated values >= the reference (ties with the observed value lost)",
                                     "geq_keep_dist_true": int(a[1]["geq"]), "geq_keep_dist_false": int(b[1]["geq"]), "count_from_returned_dist": want, "exact_count": exact}, site="simulate_ts_dist")


def _ties(det, cstat):
    """number of rows whose exact combined statistic ties the observed one (double sums may order them either way)"""
    D = [[Fr(v) for v in r] for r in det["perm_distr"]]
    B = len(D); S = len(D[0])
    w = [Fr(float(s) ** (-1 / 2)) for s in det["size"]]
    P = [[Fr(sum(1 for r2 in D if r2[j] >= r[j]) + 2, B + 1) for j in range(S)] for r in D]
    return sum(1 for r in P if abs(-sum(p * w_ for p, w_ in zip(r, w)) - cstat) < Fr(1, 10**12))


def replay(rep):
    from permute import irr
    d = rep["first"]["detail"]; d = d.get("input", d)
    print("recorded:", rep["first"]["detail"])
    if d.get("call") == "compute_ts":
        print("now ->", irr.compute_ts(np.array(d["ratings"])))
    return 0
