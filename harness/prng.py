"""Instrumented generators (no hook inside /repo is needed: `get_prng` passes instances through).

RecSHA256 / RecRandomState behave exactly like their parents and log every request.
Tree is a scripted generator that enumerates the whole choice space of a small design.
"""
import numpy as np
from fractions import Fraction
from cryptorandom.cryptorandom import SHA256


class RecSHA256(SHA256):
    """SHA256 that logs high-level requests with the raw words each consumed"""

    def __init__(self, seed=None):
        self.log = []
        self._depth = 0
        self._words = None
        super().__init__(seed)

    def __deepcopy__(self, memo):
        """what copy.deepcopy does to a SHA256 (a new instance whose state is set from getstate()), but
        the copy keeps appending to the *same* log, so draws made on deep copies stay visible"""
        new = RecSHA256()
        new.setstate(self.getstate())
        new.log = self.log
        self.log.append(("deepcopy",))
        memo[id(self)] = new
        return new

    # raw words
    def getrandbits(self, k):
        v = super().getrandbits(k)
        if self._words is not None:
            self._words.append((int(k), int(v)))
        else:
            self.log.append(("bits", int(k), int(v)))
        return v

    def _wrap(self, fn):
        outer = self._words is None
        if outer:
            self._words = []
        try:
            r = fn()
            w = list(self._words) if outer else None
        finally:
            if outer:
                self._words = None
        return r, w

    def _randbelow(self, n):
        r, w = self._wrap(lambda: SHA256._randbelow(self, n))
        if w is not None:
            self.log.append(("randbelow", int(n), int(r), w))
        return r

    def random(self, size=None):
        r = super().random(size)
        if size is None:
            self.log.append(("random", None, [float(r)]))
        else:
            self.log.append(("random", int(np.prod(size)), [float(v) for v in np.ravel(r)]))
        return r

    def randint(self, a, b, size=None):
        r, w = self._wrap(lambda: SHA256.randint(self, a, b, size))
        if w is not None:
            self.log.append(("randint", int(a), int(b), None if size is None else int(np.prod(size)),
                             [int(v) for v in np.ravel(r)], w))
        return r


class RecRandomState(np.random.RandomState):
    """RandomState that logs top-level requests (requests NumPy makes to itself while serving one,
    e.g. choice -> randint, are not logged separately)"""

    def __init__(self, *a):
        super().__init__(*a)
        self.log = []
        self._busy = False

    def _top(self, fn, mk):
        if self._busy:
            return fn()
        self._busy = True
        try:
            r = fn()
        finally:
            self._busy = False
        self.log.append(mk(r))
        return r

    def shuffle(self, x):
        before = list(x)
        return self._top(lambda: np.random.RandomState.shuffle(self, x), lambda r: ("shuffle", before, list(x)))

    def randint(self, low, high=None, size=None, dtype=int):
        return self._top(lambda: np.random.RandomState.randint(self, low, high, size, dtype),
                         lambda r: ("randint", int(low), None if high is None else int(high),
                                    None if size is None else int(np.prod(size)), [int(v) for v in np.ravel(r)], None))

    def random(self, size=None):
        return self._top(lambda: np.random.RandomState.random_sample(self, size),
                         lambda r: ("random", None if size is None else int(np.prod(size)), [float(v) for v in np.ravel(r)]))

    def random_sample(self, size=None):
        return self.random(size)

    def choice(self, a, size=None, replace=True, p=None):
        return self._top(lambda: np.random.RandomState.choice(self, a, size, replace, p),
                         lambda r: ("choice", [int(v) for v in np.ravel(a)] if np.ndim(a) else int(a),
                                    [int(v) for v in np.ravel(r)]))


def fy_offsets(u):
    """offsets c_i = int(i + U_i (n - i)) - i as cryptorandom.fykd_sample computes them"""
    n = len(u)
    ind = np.array(range(n))
    JJ = np.array(ind + np.array(list(u), dtype=float) * (n - ind), dtype=int)
    return [int(JJ[i]) - i for i in range(n)]


def decode_pyshuffle(before, after):
    """the unique CPython-shuffle draw vector turning `before` (distinct items) into `after`"""
    x = list(before)
    js = []
    for i in reversed(range(1, len(x))):
        j = x.index(after[i], 0, i + 1)
        js.append(j)
        x[i], x[j] = x[j], x[i]
    assert x == list(after)
    return js


class Draws:
    """cursor over a generator log, handing out model-level draws in the order they were made"""

    def __init__(self, log):
        self.log = [e for e in log if e[0] != "deepcopy"]
        self.i = 0

    def rest(self):
        return self.log[self.i:]

    def done(self):
        return self.i >= len(self.log)

    def next(self, kind):
        if self.i >= len(self.log):
            raise LookupError(f"log exhausted, wanted {kind}")
        e = self.log[self.i]
        if e[0] != kind:
            raise LookupError(f"log has {e[0]} where the model wants {kind}")
        self.i += 1
        return e

    def fy(self, n):
        """offsets for one random_permutation of n items (one random(n) request)"""
        e = self.next("random")
        if e[1] != n:
            raise LookupError(f"random({e[1]}) requested where the model wants random({n})")
        return fy_offsets(e[2])

    def pyshuffle(self, n, current=None):
        """draws of one shuffle of a list of n items: n-1 randbelow(i+1) results, or a decoded
        RandomState shuffle"""
        if self.i < len(self.log) and self.log[self.i][0] == "shuffle":
            e = self.next("shuffle")
            return decode_pyshuffle(e[1], e[2])
        js = []
        for i in reversed(range(1, n)):
            e = self.next("randbelow")
            if e[1] != i + 1:
                raise LookupError(f"randbelow({e[1]}) where the model wants randbelow({i + 1})")
            js.append(e[2])
        return js

    def sbi(self, n, k=None):
        """0-based picks of sample_by_index(n, k): randint(1, n-i+1) for i < k"""
        k = n if k is None else k
        ws = []
        for i in range(k):
            e = self.next("randint")
            if e[1] != 1 or e[2] != n - i + 1 or e[3] is not None:
                raise LookupError(f"randint({e[1]},{e[2]},size={e[3]}) where the model wants randint(1,{n - i + 1})")
            ws.append(e[4][0] - 1)
        return ws

    def bits(self, n):
        e = self.next("randint")
        if e[1] != 0 or e[2] != 2 or e[3] != n:
            raise LookupError(f"randint({e[1]},{e[2]},size={e[3]}) where the model wants randint(0,2,{n})")
        return list(e[4])

    def choice_index(self, seq):
        """index picked by prng.choice(seq)"""
        e = self.log[self.i]
        if e[0] == "randbelow":
            self.i += 1
            if e[1] != len(seq):
                raise LookupError(f"randbelow({e[1]}) where the model wants randbelow({len(seq)})")
            return e[2]
        if e[0] == "choice":
            self.i += 1
            return list(seq).index(e[2][0])
        raise LookupError(f"log has {e[0]} where the model wants a choice")


class Tree(SHA256):
    """scripted generator: follows `prefix`, answers 0 beyond it, records every arity"""

    def __init__(self, prefix=()):
        super().__init__(0)
        self.prefix = list(prefix)
        self.pos = 0
        self.path = []   # (choice, arity, kind)

    def pick(self, arity, kind):
        c = self.prefix[self.pos] if self.pos < len(self.prefix) else 0
        self.pos += 1
        self.path.append((c, arity, kind))
        return c

    def random(self, size=None):
        if size is None:
            raise RuntimeError("scalar random() not scripted")
        n = int(np.prod(size))
        return np.array([(self.pick(n - i, "fy") + 0.5) / (n - i) for i in range(n)], dtype=object)

    def randint(self, a, b, size=None):
        if size is None:
            return a + self.pick(b - a, "randint")
        return np.array([a + self.pick(b - a, "randint") for _ in range(int(np.prod(size)))]).reshape(size)

    def _randbelow(self, n):
        return self.pick(n, "randbelow")

    def getrandbits(self, k):
        raise RuntimeError("raw bits not scripted")


class TreeRS(np.random.RandomState):
    """the same scripted generator, but an instance of numpy.random.RandomState, so that code which
    branches on the generator's type takes its NumPy path.  Every method is uniform over its
    outcomes when the scripted picks are uniform (Fisher-Yates along the first axis for shuffle,
    as NumPy does), so the leaf weights are exact probabilities under an ideal RandomState."""

    def __init__(self, prefix=()):
        super().__init__(0)
        self.prefix = list(prefix)
        self.pos = 0
        self.path = []

    pick = Tree.pick

    def random(self, size=None):
        if size is None:
            raise RuntimeError("scalar random() not scripted")
        n = int(np.prod(size))
        return np.array([(self.pick(n - i, "fy") + 0.5) / (n - i) for i in range(n)], dtype=float)

    random_sample = random

    def randint(self, low, high=None, size=None, dtype=int):
        if high is None:
            low, high = 0, low
        low, high = int(low), int(high)
        if size is None:
            return dtype(low + self.pick(high - low, "randint"))
        return np.array([low + self.pick(high - low, "randint") for _ in range(int(np.prod(size)))], dtype=dtype).reshape(size)

    def shuffle(self, x):
        n = len(x)
        for i in reversed(range(1, n)):
            j = self.pick(i + 1, "randbelow")
            if j != i:
                if isinstance(x, np.ndarray) and x.ndim > 1:
                    tmp = x[i].copy(); x[i] = x[j]; x[j] = tmp
                else:
                    x[i], x[j] = x[j], x[i]

    def permutation(self, x):
        a = np.arange(x) if isinstance(x, (int, np.integer)) else np.array(x)
        self.shuffle(a)
        return a

    def choice(self, a, size=None, replace=True, p=None):
        if p is not None:
            raise RuntimeError("weighted choice not scripted")
        pool = list(range(a)) if isinstance(a, (int, np.integer)) else list(a)
        if size is None:
            return pool[self.pick(len(pool), "choice")]
        out = []
        for _ in range(int(np.prod(size))):
            k = self.pick(len(pool), "choice")
            out.append(pool[k] if replace else pool.pop(k))
        return np.array(out).reshape(size)

    def _unscripted(self, *a, **k):
        raise RuntimeError("generator method not scripted")

    rand = uniform = random_integers = bytes = normal = standard_normal = binomial = randn = tomaxint = _unscripted


def enumerate_tree(run, limit=200000, cls=None):
    """yield (weight, result, path) over the whole choice tree of run(prng)"""
    prefix = []
    leaves = 0
    while True:
        t = (cls or Tree)(prefix)
        res = run(t)
        path = t.path
        w = Fraction(1)
        for c, a, _ in path:
            w *= Fraction(1, a)
        yield w, res, path
        leaves += 1
        if leaves > limit:
            raise RuntimeError("choice tree larger than limit")
        i = len(path) - 1
        while i >= 0 and path[i][0] + 1 >= path[i][1]:
            i -= 1
        if i < 0:
            return
        prefix = [c for c, a, _ in path[:i]] + [path[i][0] + 1]
