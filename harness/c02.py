"""C02 — stratified tests: the p-value estimates the exact within-stratum permutation value."""
from fractions import Fraction as Fr
import numpy as np
from .common import guarded, run_model
from . import randtests as rt
from .prng import TreeRS
from .exhaust import designs_stratified, impl_tail, tails

RULE = ("(a) recorded-draw runs of stratified_permutationtest, stratified_two_sample, sim_corr, bivariate_k_sample on "
        "generated stratifications (unequal and singleton strata, unbalanced conditions, ties, binary responses), every "
        "documented statistic option and callables; every array handed to the statistic / the dist / the observed statistic "
        "/ the p-value are compared with the model fed the same draws (simulate_ts_dist is replayed the same way in C18); "
        "(b) exhaustive enumeration of the implementation's whole choice space for small designs against the exact "
        "within-stratum permutation tails; non-trivial = every case; distinct by parameters")
LEVEL = ("theorems: pwg_stratum_perm / pwg_perm (values never leave their stratum), fy_uniform per stratum, consistency of "
         "the stratified call sites, strat_greater_eq, strat_less_partial + strat_less_counterexample (the recorded finding), "
         "binomial_count; model validated against stratified.py / ksample.py / irr.py")
ASSUMPTIONS = ["ideal uniform raw draws", "sum-of-correlations and sum-of-standard-deviations statistics are not rational: the model supplies the "
               "rearrangements, the harness recomputes the documented statistic in doubles (1e-9)",
               "uniformity over products of within-stratum orders: Uniform2.pwg_injective / pwg_surjective (the draw tuples are in "
               "bijection with the products of within-stratum orders) for duplicate-free data; also checked by exhaustive enumeration"]


def run(ctx):
    designs = designs_stratified(ctx.rng, big=ctx.thorough())
    ok_before = len(ctx.violations)
    for dsg in designs:
        name, call, vals, obs = dsg[:4]
        upper_only = len(dsg) > 5
        site = name.split("[")[0].split(" ")[0]
        up, dn = tails(vals, obs)
        for alt, exact in (("greater", up), ("less", dn)):
            if upper_only and alt == "less":
                continue
            try:
                got, allhit, leaves, arities = impl_tail(call, alt, 1)
            except RuntimeError as ex:
                ctx.violation("oracle", {"design": name, "alternative": alt, "issue": str(ex)}, site=site); continue
            ctx.case(("exh", name, alt), True, {"design": name, "alternative": alt, "leaves": leaves, "exact_tail": str(exact)})
            ctx.count("exhaustive-designs"); ctx.count("exhaustive-leaves", leaves)
            if got != exact:
                ctx.violation("oracle", {"design": name, "alternative": alt,
                                         "issue": "hit probability over the whole choice space differs from the exact within-stratum permutation tail",
                                         "implementation": str(got), "exact": str(exact), "leaves": leaves}, site=site)
            # the same design driven by a scripted generator of type numpy RandomState (code that branches on the generator's type)
            try:
                got_rs, _, leaves_rs, _ = impl_tail(call, alt, 1, cls=TreeRS)
            except RuntimeError as ex:
                ctx.violation("oracle", {"design": name, "alternative": alt, "generator": "RandomState-typed scripted generator", "issue": str(ex)}, site=site); continue
            ctx.count("exhaustive-designs-randomstate"); ctx.count("exhaustive-leaves", leaves_rs)
            if got_rs != exact:
                ctx.violation("oracle", {"design": name, "alternative": alt, "generator": "RandomState-typed scripted generator",
                                         "issue": "hit probability over the whole choice space differs from the exact permutation tail",
                                         "implementation": str(got_rs), "exact": str(exact), "leaves": leaves_rs}, site=site)
    ctx.block("exhaustive-choice-space", len(ctx.violations) == ok_before, len(designs))
    ops, meta = rt.run_recorded(ctx, rt.STRAT, ctx.n(90, 1500))
    # the same array objects refilled in place between calls (a simulation loop over preallocated buffers)
    presets = {}
    for name in rt.STRAT:
        seqs = []
        for _ in range(ctx.n(4, 40)):
            seq = rt.reuse_sequence(rt.FUNCS[name], ctx.rng, 4)
            if name == "stratified_permutationtest":
                # a design on which the named 'mean' statistic is defined: >= 2 groups, both conditions in each
                g, c = [], []
                for k in ctx.rng.sample([1, 2, 3, 5], ctx.rng.randint(2, 3)):
                    sz = ctx.rng.randint(2, 4); cs = [0, 1] + [ctx.rng.randint(0, 1) for _ in range(sz - 2)]
                    g += [k] * sz; c += cs
                for q in seq:
                    perm = list(range(len(g))); ctx.rng.shuffle(perm)
                    q["group"] = [g[i] for i in perm]; q["cond"] = [c[i] for i in perm]
                    q["resp"] = rt.small_values(ctx.rng, len(g)); q["w"] = rt.weights(ctx.rng, len(g)); q["stat"] = "mean"
            seqs += seq
        presets[name] = seqs
    # perfectly separated / binary responses with the t statistic: infinite and NaN statistics, compared in extended reals
    sep = []
    for _ in range(ctx.n(14, 140)):
        g_, c_ = rt.strat_design(ctx.rng); n_ = len(g_)
        if c_.count(0) < 1 or c_.count(1) < 1 or n_ < 3:
            continue
        kind_ = ctx.rng.choice(["separated", "separated", "reversed", "binary"])
        resp_ = [float(v) for v in c_] if kind_ == "separated" else ([float(1 - v) for v in c_] if kind_ == "reversed" else rt.small_values(ctx.rng, n_, "binary"))
        sep.append({"group": g_, "cond": c_, "resp": resp_, "reps": rt.pick_reps(ctx.rng, 10), "alt": ctx.rng.choice(rt.ALTS), "plus1": ctx.rng.random() < 0.5,
                    "keep": ctx.rng.random() < 0.5, "stat": "t", "w": rt.weights(ctx.rng, n_), "noscale": True})
    presets["stratified_two_sample"] = presets.get("stratified_two_sample", []) + sep
    o3, m3 = rt.run_recorded(ctx, rt.STRAT, 0, presets=presets)
    outs = run_model(ops + o3)
    rt.compare_recorded(ctx, ops, meta, outs[:len(ops)], "stratified-model-vs-impl")
    rt.compare_recorded(ctx, o3, m3, outs[len(ops):], "stratified-buffers-refilled-in-place")
    rt.nan_strat_block(ctx, ctx.n(60, 800))      # NaN-coded non-responders (np.nanmean), Model/Nan.lean
    # sim_corr when some stratum has no defined correlation (a single observation, or x or y constant in it): the documented statistic
    # (a sum that includes that stratum) is NaN, nothing is at least as large as NaN, so the upper-tail p-value is (0 + c)/(reps + c)
    import warnings
    from permute import stratified as _st
    for _ in range(ctx.n(30, 300)):
        sizes = [ctx.rng.randint(2, 4) for _ in range(ctx.rng.randint(1, 2))]
        kindu = ctx.rng.choice(["singleton", "x-constant", "y-constant"])
        g_, x_, y_ = [], [], []
        for gi, sz in enumerate(sizes):
            g_ += [gi + 1] * sz; x_ += [float(v) for v in ctx.rng.sample(range(0, 20), sz)]; y_ += [float(v) for v in ctx.rng.sample(range(0, 20), sz)]
        if kindu == "singleton":
            g_.append(9); x_.append(3.0); y_.append(4.0)
        else:
            g_ += [9, 9, 9]; x_ += ([5.0] * 3 if kindu == "x-constant" else [1.0, 2.0, 4.0]); y_ += ([7.0] * 3 if kindu == "y-constant" else [3.0, 1.0, 2.0])
        reps_ = ctx.rng.randint(1, 12); plus1_ = ctx.rng.random() < 0.5; c_ = 1 if plus1_ else 0
        with warnings.catch_warnings():
            warnings.simplefilter("ignore")
            r = guarded(_st.sim_corr, np.array(x_), np.array(y_), np.array(g_), reps=reps_, alternative="greater", seed=ctx.rng.randint(0, 10**6), plus1=plus1_)
        ctx.case(("simcorr-undefined", kindu, tuple(g_), tuple(x_), tuple(y_), reps_, plus1_), True); ctx.count("sim_corr-undefined-stratum-" + kindu)
        okk = r[0] == "ok" and float(r[1][1]) != float(r[1][1]) and abs(float(r[1][0]) - c_ / (reps_ + c_)) <= 1e-12
        if not okk:
            ctx.violation("oracle", {"call": "sim_corr", "x": x_, "y": y_, "group": g_, "reps": reps_, "plus1": plus1_, "alternative": "greater", "undefined_stratum": kindu,
                                     "issue": "a stratum without a defined correlation: the statistic (a sum over all strata) must be NaN and the upper-tail p-value (0 + c)/(reps + c)",
                                     "returned": str(r[1:])[:200]}, site="sim_corr")
    # documented statistic options on the implementation: mean statistic with more than two conditions, 't'
    from permute import stratified
    for _ in range(ctx.n(60, 600)):
        ng = ctx.rng.randint(2, 4); nc = ctx.rng.randint(2, 4)
        group = np.repeat(np.arange(ng), nc * 2); cond = np.tile(np.repeat(np.arange(nc), 2), ng)
        resp = np.array([float(ctx.rng.randint(0, 9)) for _ in range(len(group))])
        r = guarded(stratified.stratified_permutationtest_mean, group, cond, resp)
        want = 0.0
        for g in range(ng):
            ms = [resp[(group == g) & (cond == c)].mean() for c in range(nc)]
            want += abs(ms[0] - ms[1]) if nc == 2 else float(np.std(ms))
        ctx.case(("sptm", ng, nc, tuple(resp)), True); ctx.count(f"mean-statistic-{nc}-conditions")
        if r[0] != "ok" or abs(r[1] - want) > 1e-9:
            ctx.violation("oracle", {"call": "stratified_permutationtest_mean", "groups": ng, "conditions": nc, "response": resp.tolist(),
                                     "issue": "not the documented stratified mean statistic (|difference| for two conditions, standard deviation of the condition means for more)",
                                     "returned": r[1:], "expected": want}, site="stratified_permutationtest_mean")


def replay(rep):
    d = rep["first"]["detail"]
    print("recorded:", str(d)[:3000])
    if "params" in d:
        fn = rt.FUNCS[d["call"]]
        from .prng import RecSHA256, RecRandomState
        g = RecSHA256(d["seed"]) if d["generator"] == "sha" else RecRandomState(d["seed"])
        r, seen = fn.call(d["params"], g)
        print("now ->", str(r)[:1500])
    return 0
