"""C15 — sprt applies Wald's rule to every prefix of the sample; error bounds hold."""
import functools
import itertools
from fractions import Fraction as Fr
import numpy as np
from .common import guarded, run_model, rat, rats, ints, frac, close, F

RULE = ("all 0/1 sequences up to length L (8 quick / 12 thorough) with Bernoulli ratios on dyadic "
        "parameters, plus table-lookup ratio functions (by prefix length, by (length, #ones)) whose values "
        "sit exactly on, just inside and just outside the thresholds, both random_order values; "
        "non-trivial = the loop exits before the last prefix, exactly at the last prefix, or never; "
        "distinct by (parameters, sequence, ratio table)")
LEVEL = ("theorems sprt_eq_spec, sprt_decision_*, lr_eq_product, wald_alpha, wald_beta for every sample "
         "length; model validated against sprt.py exhaustively on short sequences")
ASSUMPTIONS = ["likelihood ratios are evaluated in doubles by the implementation; cases where an exact ratio is "
               "within 1e-9 (relative) of a threshold are excluded from the comparison and counted",
               "Wald bounds are proved for Bernoulli likelihood ratios (the documented use), not arbitrary ones"]

PARAMS = [(Fr(1, 2), Fr(3, 4), Fr(1, 20), Fr(1, 20)),
          (Fr(1, 4), Fr(1, 2), Fr(1, 10), Fr(1, 5)),
          (Fr(1, 2), Fr(1, 4), Fr(1, 8), Fr(1, 8)),
          (Fr(3, 8), Fr(5, 8), Fr(1, 4), Fr(1, 4))]


def spec(lr, alpha, beta, x, random_order):
    """the property statement, executed literally (floats, as the implementation sees them)"""
    A, B = beta / (1 - alpha), (1 - beta) / alpha
    if random_order:
        ts = 1
        for k in range(1, len(x) + 1):
            ts = lr(x[:k])
            if not (A < ts < B):
                break
    else:
        ts = lr(x)
    return [bool(ts >= B), bool((ts <= A) and not (ts >= B))], ts


def sprt_call(S, *a, **k):
    """sprt through the alarm guard; the returned conclusion is copied for the comparisons and then scribbled over in place, as a
    client program may do with a list it was handed: later calls must not be affected (no shared result objects)"""
    r = guarded(S.sprt, *a, **k)
    if r[0] != "ok":
        return r
    dec, ts = r[1][0], r[1][1]
    out = ("ok", (list(dec), ts))
    try:
        if isinstance(dec, list):
            dec.append("scribbled"); dec[0] = not dec[0]; dec[1] = "x"
    except Exception:  # noqa
        pass
    return out


INF_R = Fr(10**30)      # stands for a likelihood ratio of +inf in the tables sent to the model (larger than every threshold used)


class _Ratio:
    """a likelihood-ratio function that is an object with __call__ (not a plain function)"""
    def __init__(self, S, po, pa):
        self.S, self.po, self.pa = S, po, pa

    def __call__(self, x):
        return self.S.bernoulli_lh_ratio(np.array(x), self.po, self.pa) if len(x) else 1.0


def run(ctx):
    from permute import sprt as S
    ops, meta = [], []
    L = ctx.n(8, 12)
    # ---- Bernoulli ratios, exhaustive sequences
    for (po, pa, al, be) in PARAMS:
        lrf = lambda x, po=po, pa=pa: S.bernoulli_lh_ratio(np.array(x), float(po), float(pa)) if len(x) else 1.0
        lens = range(0, L + 1) if ctx.thorough() else [0, 1, 2, 3, 5, L]
        for n in lens:
            seqs = list(itertools.product((0, 1), repeat=n))
            if not ctx.thorough() and len(seqs) > 64:
                seqs = ctx.rng.sample(seqs, 64)
            for x in seqs:
                for ro in (True, False):
                    if n == 0 and not ro:
                        continue
                    x = list(x)
                    # the same ratio function handed over in the other ways callers write it
                    form = ctx.rng.choice(["lambda", "lambda", "partial-pa-first", "partial-po-first", "callable-object"]) if n > 0 else "lambda"
                    if form == "partial-pa-first":
                        lr_arg = functools.partial(S.bernoulli_lh_ratio, pa=float(pa), po=float(po))
                    elif form == "partial-po-first":
                        lr_arg = functools.partial(S.bernoulli_lh_ratio, po=float(po), pa=float(pa))
                    elif form == "callable-object":
                        lr_arg = _Ratio(S, float(po), float(pa))
                    else:
                        lr_arg = lrf
                    ctx.count("ratio-given-as-" + form)
                    r = sprt_call(S, lr_arg, float(al), float(be), x, ro)
                    want = spec(lrf, float(al), float(be), x, ro)
                    key = ("bern", po, pa, al, be, tuple(x), ro)
                    ctx.count("bern-len=%d" % n)
                    if r[0] != "ok":
                        ctx.case(key); ctx.violation("oracle", {"call": "sprt", "error": r[1:], "x": x, "po": po, "pa": pa, "alpha": al, "beta": be, "random_order": ro}, site="sprt"); continue
                    got = r[1]
                    if got[0] != want[0] or not (got[1] == want[1] or close(got[1], F(want[1]))):
                        ctx.case(key)
                        ctx.violation("oracle", {"lr": "bernoulli", "po": po, "pa": pa, "alpha": al, "beta": be, "x": x,
                                                 "random_order": ro, "returned": [got[0], float(got[1])], "expected": [want[0], float(want[1])]}, site="sprt")
                        continue
                    ops.append(f"sprt|{rat(al)}|{rat(be)}|{int(ro)}|{ints(x)}|bern:{rat(po)}:{rat(pa)}")
                    meta.append((key, got, (po, pa, al, be, x, ro)))
    # ---- bernoulli_lh_ratio = product formula
    for _ in range(ctx.n(60, 600)):
        po, pa = Fr(ctx.rng.randint(1, 15), 16), Fr(ctx.rng.randint(1, 15), 16)
        x = [ctx.rng.randint(0, 1) for _ in range(ctx.rng.choice([1, 1, 2, 3, ctx.rng.randint(1, 14)]))]
        cont = ctx.rng.choice(["ndarray", "list", "tuple", "bool-array"]); ctx.count("lh_ratio-input-" + cont)
        xin = {"ndarray": np.array(x), "list": list(x), "tuple": tuple(x), "bool-array": np.array(x, dtype=bool)}[cont]
        r = guarded(S.bernoulli_lh_ratio, xin, float(po), float(pa))
        prod = Fr(1)
        for b in x:
            prod *= (pa / po) if b else ((1 - pa) / (1 - po))
        ctx.case(("lr", po, pa, tuple(x)), True)
        ctx.count("bernoulli_lh_ratio")
        if r[0] != "ok" or not close(r[1], prod):
            ctx.violation("oracle", {"call": "bernoulli_lh_ratio", "x": x, "given_as": cont, "po": po, "pa": pa, "returned": r[1:], "expected": prod}, site="bernoulli_lh_ratio")
        ops.append(f"bernlr|{rat(po)}|{rat(pa)}|{ints(x)}"); meta.append((("lrm", po, pa, tuple(x)), r[1] if r[0] == "ok" else None, None))
    # ---- ratios that are exact rationals a hair inside / outside a threshold, or integers beyond the double range: Wald's rule is a
    #      comparison of real numbers (the thresholds being the doubles beta/(1-alpha), (1-beta)/alpha), not of their roundings
    for _ in range(ctx.n(150, 1500)):
        al_, be_ = ctx.rng.choice([(0.05, 0.05), (0.25, 0.5), (0.5, 0.25), (0.1, 0.2), (0.01, 0.3)])
        Af, Bf = be_ / (1 - al_), (1 - be_) / al_
        hair = Fr(1, 2**90)
        inside = [Fr(Af) + hair, Fr(Bf) - hair, Fr(1), (Fr(Af) + Fr(Bf)) / 2]
        outside = [Fr(Af) - hair, Fr(Bf) + hair, Fr(Af), Fr(Bf), 10**400, Fr(1, 10**400)]
        n_ = ctx.rng.randint(1, 6) if ctx.rng.random() < 0.85 else 0      # (an empty sample: judged once by its own ratio when random_order is off)
        tabx = [ctx.rng.choice(inside if ctx.rng.random() < 0.7 else outside) for _ in range(n_ + 1)]
        x_ = [ctx.rng.randint(0, 1) for _ in range(n_)]; ro_ = ctx.rng.random() < 0.8
        r = sprt_call(S, (lambda xx, tabx=tabx: tabx[len(xx)]), al_, be_, x_, ro_)
        want = spec(lambda xx: tabx[len(xx)], al_, be_, x_, ro_)
        ctx.case(("exact-ratios", al_, be_, tuple(str(v) for v in tabx), ro_), True); ctx.count("exact-rational-or-huge-integer-ratios")
        if r[0] != "ok" or list(r[1][0]) != want[0] or r[1][1] != want[1]:
            ctx.violation("oracle", {"lr": "table of exact ratios by prefix length", "alpha": al_, "beta": be_, "thresholds": [Af, Bf],
                                     "table_minus_thresholds": [[str(Fr(v) - Fr(Af))[:30], str(Fr(v) - Fr(Bf))[:30]] for v in tabx], "x": x_, "random_order": ro_,
                                     "returned": str(r[1:])[:160], "expected_decision": want[0],
                                     "issue": "Wald's rule applied to a rounded ratio (or the call fails): entries within 2^-90 of a threshold are on a definite side of it"}, site="sprt")
    # ---- long samples: the closed form must still be the product of per-observation ratios, and sprt must not
    #      decide where every exact prefix ratio stays inside (A, B)
    for _ in range(ctx.n(25, 250)):
        po, pa = ctx.rng.choice([(Fr(1, 2), Fr(5, 8)), (Fr(1, 2), Fr(3, 8)), (Fr(1, 2), Fr(9, 16)), (Fr(3, 8), Fr(1, 2)), (Fr(1, 100), Fr(99, 100)), (Fr(99, 100), Fr(1, 100)), (Fr(1, 50), Fr(24, 25))])
        n = ctx.rng.choice([200, 600, 990, ctx.rng.randint(995, 1015)])
        ones = max(0, min(n, int(n * float((po + pa) / 2)) + ctx.rng.randint(-8, 8)))
        if po + pa == 1 and po != Fr(1, 2):      # far-apart hypotheses: balanced samples keep the ratio moderate while (pa/po)^ones alone is astronomically large
            n = ctx.rng.choice([200, 260, 300, 310]); ones = n // 2 + ctx.rng.randint(-1, 1)
        x = [1] * ones + [0] * (n - ones); ctx.rng.shuffle(x)
        s = sum(x)
        num = pa ** s * (1 - pa) ** (n - s); den = po ** s * (1 - po) ** (n - s)
        if min(num, den) < Fr(1, 10**313):      # would underflow in doubles: outside what doubles can represent (down to 1e-313 subnormals still carry 9 digits)
            continue
        ldt = ctx.rng.choice([np.int64, np.int8, np.uint8, np.int16, bool, np.float32, np.float16, np.int8]); ctx.count("long-sample-dtype-" + np.dtype(ldt).name)
        r = guarded(S.bernoulli_lh_ratio, np.array(x, dtype=ldt), float(po), float(pa))
        ctx.case(("long-lr", po, pa, n, s, np.dtype(ldt).name), True); ctx.count("long-samples")
        if r[0] != "ok" or not close(r[1], num / den, rel=1e-7):
            ctx.violation("oracle", {"call": "bernoulli_lh_ratio", "po": po, "pa": pa, "length": n, "ones": s, "dtype": np.dtype(ldt).name, "returned": str(r[1:])[:100],
                                     "expected": float(num / den), "issue": "not the product over observations of (pa/po)^x ((1-pa)/(1-po))^(1-x) on a long sample"}, site="bernoulli_lh_ratio")
            continue
        if ctx.rng.random() < 0.4:
            al = be = Fr(1, 20)
            lrf = lambda xx, po=po, pa=pa: S.bernoulli_lh_ratio(np.array(xx), float(po), float(pa)) if len(xx) else 1.0
            rr = sprt_call(S, lrf, float(al), float(be), x, True, secs=120)
            # exact first exit
            A, B = be / (1 - al), (1 - be) / al
            ratio = Fr(1); want = None; near = False
            for k, b in enumerate(x):
                ratio *= (pa / po) if b else ((1 - pa) / (1 - po))
                near |= any(abs(ratio - t) <= Fr(1, 10**9) * t for t in (A, B))
                if not (A < ratio < B):
                    want = ([ratio >= B, ratio <= A and not ratio >= B], ratio); break
            if want is None:
                want = ([False, False], ratio)
            ctx.count("long-sprt")
            if not near and (rr[0] != "ok" or list(rr[1][0]) != list(want[0]) or not close(rr[1][1], want[1], rel=1e-7)):
                ctx.violation("oracle", {"call": "sprt", "lr": "bernoulli", "po": po, "pa": pa, "alpha": al, "beta": be, "length": n, "x_ones": s,
                                         "returned": str(rr[1:])[:120], "expected": [want[0], float(want[1])],
                                         "issue": "long sample: decision / ratio differ from the first-exit rule on exact prefix ratios"}, site="sprt")
    # ---- table look-up ratio functions (exact dyadics; thresholds exactly representable)
    grids = [(Fr(1, 2), Fr(1, 4)), (Fr(1, 4), Fr(1, 2)), (Fr(1, 20), Fr(1, 20)),
             (Fr(1, 2**70), Fr(1, 4)), (Fr(1, 4), Fr(1, 2**70)), (Fr(1, 2**60), Fr(1, 2**60))]      # error rates far below machine epsilon are legal
    for _ in range(ctx.n(400, 6000)):
        al, be = ctx.rng.choice(grids)
        A, B = be / (1 - al), (1 - be) / al
        n = ctx.rng.randint(1, 7)
        inside = [Fr(1), (A + B) / 2, A + (B - A) / 8, B - (B - A) / 8]
        edge = [A, B, A / 2, B * 2, A - Fr(1, 64), B + Fr(1, 64)]
        inside = [Fr(float(v)) for v in inside]; edge = [Fr(float(v)) for v in edge]
        if ctx.rng.random() < 0.25:
            edge = edge + [INF_R, INF_R]       # a ratio of +inf (H0 gives an observed outcome probability 0): at least B, so H0 is rejected
        mode = ctx.rng.choice(["last", "never", "early", "random"])
        tab = [Fr(1)] * (n + 1)
        for k in range(1, n + 1):
            if mode == "never":
                tab[k] = ctx.rng.choice(inside)
            elif mode == "last":
                tab[k] = ctx.rng.choice(inside) if k < n else ctx.rng.choice(edge)
            elif mode == "early":
                tab[k] = ctx.rng.choice(edge) if k == max(1, n // 2) else ctx.rng.choice(inside + edge)
            else:
                tab[k] = ctx.rng.choice(inside + edge)
        tab[0] = ctx.rng.choice(edge + inside)   # a correct loop never looks at the empty prefix
        x = [ctx.rng.randint(0, 1) for _ in range(n)]
        ro = ctx.rng.random() < 0.85
        calls = []
        tabf = [float("inf") if v == INF_R else float(v) for v in tab]
        rk = ctx.rng.choice(["float", "float", "intish", "np", "longdouble"]); ctx.count("ratio-returns-" + rk)
        def lrf(xx, tabf=tabf, calls=calls, rk=rk):
            calls.append(len(xx)); v = tabf[len(xx)]
            if rk == "intish":      # e.g. 2**k: a Python int whenever the ratio is a whole number, a float otherwise
                return int(v) if v == v and abs(v) != float("inf") and v == int(v) else v
            return {"np": np.float64, "longdouble": np.longdouble}.get(rk, float)(v)
        r = sprt_call(S, lrf, float(al), float(be), x, ro)
        want = spec(lambda xx: tabf[len(xx)], float(al), float(be), x, ro)
        if INF_R in tab:
            ctx.count("table-with-infinite-ratio")
        key = ("len", al, be, tuple(tab), n, ro)
        ctx.case(key, True, {"alpha": rat(al), "beta": rat(be), "table_by_prefix_length": [rat(v) for v in tab], "x": x, "random_order": ro})
        ctx.count("table-" + mode)
        if r[0] != "ok" or r[1][0] != want[0] or r[1][1] != want[1]:
            ctx.violation("oracle", {"lr": "by-prefix-length", "table": [rat(v) for v in tab], "alpha": al, "beta": be, "x": x, "random_order": ro,
                                     "returned": r[1:] if r[0] != "ok" else [r[1][0], float(r[1][1])], "expected": [want[0], float(want[1])],
                                     "prefix_lengths_examined": calls, "note": "a table entry of 10^30 stands for +inf"}, site="sprt")
            continue
        near = any(abs(v - t) < Fr(1, 10**9) * max(1, abs(t)) and v != t for v in tab for t in (A, B))
        if near:
            ctx.bracketed += 1; continue
        ops.append(f"sprt|{rat(al)}|{rat(be)}|{int(ro)}|{ints(x)}|lentable:{rats(tab)}")
        meta.append((key, r[1], None))
    outs = run_model(ops)
    agree = True
    for o, (key, got, extra) in zip(outs, meta):
        if key[0] == "lrm":
            a, b = o.split("|")
            if frac(a) != frac(b) or got is None or not close(got, frac(a)):
                agree = False
                ctx.violation("correspondence", {"op": "bernlr", "model": o, "impl": got, "key": key}, site="bernoulli_lh_ratio", no_input=True)
            continue
        dec, ts = o.split("|")
        mdec = [v == "1" for v in dec.split()]
        mts = frac(ts)
        if key[0] == "bern":
            po, pa, al, be, x, ro = extra
            A, B = be / (1 - al), (1 - be) / al
            # exclude sequences where some examined exact ratio is within rounding of a threshold
            if any(abs(v - t) <= Fr(1, 10**9) * abs(t) for t in (A, B)
                   for v in [Fr(pa / po) ** sum(x[:k]) * Fr((1 - pa) / (1 - po)) ** (k - sum(x[:k])) for k in range(0, len(x) + 1)]):
                ctx.bracketed += 1; continue
            ctx.case(key, True)
        if mts == INF_R and got[1] == float("inf"):
            mts = None
        if mdec != list(got[0]) or (mts is not None and not close(got[1], mts)):
            agree = False
            ctx.violation("correspondence", {"op": "sprt", "key": key, "model": o, "impl": [got[0], float(got[1])]}, site="sprt", no_input=True)
    ctx.block("sprt-model-vs-impl", agree, len(ops))


def replay(rep):
    from permute import sprt as S
    d = rep["first"]["detail"]
    print("recorded:", d)
    if d.get("lr") == "by-prefix-length":
        tab = [float(frac(v)) for v in d["table"]]
        print("sprt now ->", S.sprt(lambda xx: tab[len(xx)], float(frac(d["alpha"])), float(frac(d["beta"])), d["x"], d["random_order"]))
    return 0
