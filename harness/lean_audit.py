"""Build the Lean library and audit the property theorems.

For a property id it returns which theorems were checked, the axioms each depends on (as printed by
`#print axioms` in this run) and whether the sources are free of sorry / admit / added axioms /
native_decide / bv_decide / implemented_by / unsafe / maxHeartbeats 0 (outside comments).
The audit result is cached under lean/.lake keyed by a hash of every .lean source and the theorem
list, so an unchanged /verif costs one no-op `lake build`.
"""
import os, re, json, hashlib, subprocess, sys
from .common import LEAN, VERIF

ALLOWED_AXIOMS = {"propext", "Classical.choice", "Quot.sound"}
FORBIDDEN = re.compile(r"\bsorry\b|\badmit\b|^\s*axiom\s|native_decide|bv_decide|implemented_by|"
                       r"\bunsafe\s|maxHeartbeats\s+0\b", re.M)


def _sources():
    out = []
    for root, _, files in os.walk(LEAN):
        if ".lake" in root or os.sep + "wip" in root:
            continue
        for f in sorted(files):
            if f.endswith(".lean") or f in ("lakefile.toml", "theorems.json"):
                out.append(os.path.join(root, f))
    return sorted(out)


def _strip_comments(src):
    # remove nested block comments and line comments
    out, i, depth = [], 0, 0
    while i < len(src):
        if src.startswith("/-", i):
            depth += 1; i += 2; continue
        if src.startswith("-/", i) and depth > 0:
            depth -= 1; i += 2; continue
        if depth == 0:
            if src.startswith("--", i):
                j = src.find("\n", i)
                i = len(src) if j < 0 else j
                continue
            out.append(src[i])
        i += 1
    return "".join(out)


def theorem_table():
    return json.load(open(os.path.join(LEAN, "theorems.json")))


def build_and_audit():
    """returns dict: ok(bool), build_log, axioms{name:[...]}, forbidden[list], missing[list]"""
    srcs = _sources()
    h = hashlib.sha256()
    for p in srcs:
        h.update(p.encode()); h.update(open(p, "rb").read())
    key = h.hexdigest()
    cache_p = os.path.join(LEAN, ".lake", "audit_cache.json")
    r = subprocess.run(["lake", "build"], cwd=LEAN, capture_output=True, text=True, timeout=3000)
    build_ok = r.returncode == 0
    r2 = subprocess.run(["lake", "build", "driver"], cwd=LEAN, capture_output=True, text=True, timeout=1500)
    build_ok = build_ok and r2.returncode == 0
    if build_ok and os.path.exists(cache_p):
        try:
            c = json.load(open(cache_p))
            if c.get("key") == key:
                return c["result"]
        except Exception:
            pass
    res = {"ok": build_ok, "build_log": (r.stdout + r.stderr + r2.stdout + r2.stderr)[-4000:],
           "axioms": {}, "forbidden": [], "missing": []}
    for p in srcs:
        if p.endswith(".lean"):
            for m in FORBIDDEN.finditer(_strip_comments(open(p).read())):
                res["forbidden"].append(f"{os.path.relpath(p, LEAN)}: {m.group(0).strip()}")
    if build_ok:
        table = theorem_table()
        names = sorted({t for ts in table.values() for t in ts})
        os.makedirs(os.path.join(LEAN, ".lake", "audit"), exist_ok=True)
        ap = os.path.join(LEAN, ".lake", "audit", "Audit.lean")
        with open(ap, "w") as f:
            f.write("import PermuteVerif\n")
            for n in names:
                f.write(f"#print axioms {n}\n")
        a = subprocess.run(["lake", "env", "lean", ap], cwd=LEAN, capture_output=True, text=True,
                           timeout=1500)
        txt = a.stdout + a.stderr
        txt1 = re.sub(r"\s+", " ", txt)
        for n in names:
            m = re.search(r"'" + re.escape(n) + r"' depends on axioms: \[([^\]]*)\]", txt1)
            if m:
                res["axioms"][n] = [x.strip() for x in m.group(1).split(",") if x.strip()]
            elif re.search(r"'" + re.escape(n) + r"' does not depend on any axioms", txt1):
                res["axioms"][n] = []
            else:
                res["missing"].append(n)
        if res["missing"]:
            res["build_log"] += "\nAUDIT:\n" + txt[-3000:]
    if build_ok:
        try:
            json.dump({"key": key, "result": res}, open(cache_p, "w"))
        except Exception:
            pass
    return res


def lean_info(prop):
    """evidence-ready summary for one property"""
    res = build_and_audit()
    names = theorem_table().get(prop, [])
    ok = []
    bad = []
    axioms = set()
    for n in names:
        ax = res["axioms"].get(n)
        if ax is None or not set(ax) <= ALLOWED_AXIOMS:
            bad.append(n)
        else:
            ok.append(n); axioms |= set(ax)
    problems = []
    if not res["ok"]:
        problems.append("lake build failed")
    if res["forbidden"]:
        problems.append("forbidden tokens: " + "; ".join(res["forbidden"][:5]))
    if bad:
        problems.append("theorems not checked or with non-standard axioms: " + ", ".join(bad))
    return {
        "theorems": len(names), "theorems_ok": len(ok) if not problems else 0,
        "theorem_names": names, "bad": bad, "problems": problems,
        "checker_cmd": "cd lean && lake build && lake env lean .lake/audit/Audit.lean  # #print axioms on every property theorem",
        "trusted_base": ["Lean 4.33.0 kernel", "axioms: " + ", ".join(sorted(axioms)) if axioms else "axioms: none",
                         "hand-written model validated by the correspondence harness (not verified against the source)",
                         "Driver.lean parser / harness line encoding"],
        "build_log": res["build_log"] if problems else "",
    }


def leanchecker(mods):
    r = subprocess.run(["lake", "env", "leanchecker"] + mods, cwd=LEAN, capture_output=True, text=True,
                       timeout=3000)
    return r.returncode == 0, (r.stdout + r.stderr)[-2000:]
