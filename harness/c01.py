"""C01 — unstratified tests: the p-value estimates the exact permutation p-value."""
from fractions import Fraction as Fr
import numpy as np
from .common import guarded, run_model
from . import randtests as rt
from .prng import TreeRS
from .exhaust import designs_unstratified, impl_tail, tails

RULE = ("(a) recorded-draw runs of two_sample, two_sample_shift, one_sample, corr, spearman_corr, k_sample on generated "
        "data (sizes 1..8, ties, binary, halves), all alternatives, both plus1 / keep_dist, named and callable statistics, "
        "SHA256 and RandomState generators: every array handed to the statistic, the dist, the observed statistic and "
        "the p-value numerator are compared with the model fed the same draws; (b) exhaustive enumeration of the "
        "implementation's whole choice space for small designs (scripted generator): the weighted hit frequency must "
        "equal the exact permutation tail as a fraction, for one repetition and jointly for two; non-trivial = every "
        "case (each has reps >= 1 and a non-identity rearrangement with probability > 1/2); distinct by parameters")
LEVEL = ("theorems: p = (H+c)/(reps+c) and two-sided = min(1, 2 min) (corePValue_*), consistency of every call site, "
         "observed statistic = statistic of the data as given, fy_uniform / pyShuffle_uniform / allBits_spec (valid draw "
         "vectors map bijectively onto the admissible rearrangements, from any starting order), fy_count_transfer and "
         "binomial_count (hit count over choice sequences is binomial); model validated against core.py / ksample.py")
ASSUMPTIONS = ["the raw draws (SHA-256 counter mode / Mersenne Twister) are an ideal uniform source; int(i + U(n-i)) granularity 2^-53",
               "t statistics and correlation coefficients are doubles: simulated values that tie the observed one exactly (or within "
               "1e-9) may be counted either way unless the rearranged arrays are identical to the observed ones (bracket)",
               "reallocation is proved uniform over orderings of the pooled units (what a statistic actually receives) and, by "
               "Uniform2.alloc_fiber / alloc_fiber_draws, over the subsets allocated to the first sample (every subset has the same "
               "number nx!(N-nx)! of draw vectors)"]


def run(ctx):
    # ---- (b) exhaustive choice-space enumeration: the failing-input search and exact oracle
    designs = designs_unstratified(ctx.rng, big=ctx.thorough())
    for dsg in designs:
        name, call, vals, obs, arity = dsg[:5]
        up, dn = tails(vals, obs)
        for alt, exact in (("greater", up), ("less", dn)):
            if name.startswith("k_sample") and alt == "less":
                continue
            try:
                got, allhit, leaves, arities = impl_tail(call, alt, 1)
            except RuntimeError as ex:
                ctx.violation("oracle", {"design": name, "alternative": alt, "issue": str(ex)}, site=name.split("[")[0].split(" ")[0]); continue
            ctx.case(("exh", name, alt), True, {"design": name, "alternative": alt, "leaves": leaves, "exact_tail": str(exact)})
            ctx.count("exhaustive-designs"); ctx.count("exhaustive-leaves", leaves)
            site = name.split("[")[0].split(" ")[0]
            if got != exact:
                ctx.violation("oracle", {"design": name, "alternative": alt, "issue": "hit probability over the whole choice space differs from the exact permutation tail",
                                         "implementation": str(got), "exact": str(exact), "leaves": leaves}, site=site)
            elif arities != {arity}:
                ctx.violation("oracle", {"design": name, "issue": "the generator is asked for draws with other ranges than the design needs",
                                         "requested": [list(a) for a in list(arities)[:3]], "expected": list(arity)}, site=site)
            # the same design driven by a scripted generator of type numpy RandomState (code that branches on the generator's type)
            try:
                got_rs, _, leaves_rs, _ = impl_tail(call, alt, 1, cls=TreeRS)
            except RuntimeError as ex:
                ctx.violation("oracle", {"design": name, "alternative": alt, "generator": "RandomState-typed scripted generator", "issue": str(ex)}, site=site); continue
            ctx.count("exhaustive-designs-randomstate"); ctx.count("exhaustive-leaves", leaves_rs)
            if got_rs != exact:
                ctx.violation("oracle", {"design": name, "alternative": alt, "generator": "RandomState-typed scripted generator",
                                         "issue": "hit probability over the whole choice space differs from the exact permutation tail",
                                         "implementation": str(got_rs), "exact": str(exact), "leaves": leaves_rs}, site=site)
        # two repetitions jointly (persisting list / independence): P(both hit) = p*^2, E[p] = p*
        if len(vals) <= 24:
            try:
                got, allhit, leaves, _ = impl_tail(call, "greater", 2)
            except RuntimeError as ex:
                ctx.violation("oracle", {"design": name, "issue": str(ex)}, site=name.split("[")[0].split(" ")[0]); continue
            ctx.count("exhaustive-two-reps"); ctx.count("exhaustive-leaves", leaves)
            ctx.case(("exh2", name), True)
            if got != up or allhit != up * up:
                ctx.violation("oracle", {"design": name, "issue": "two repetitions: E[p] != p* or P(both hit) != p*^2 (repetitions not independent / not uniform from the persisting state)",
                                         "E_p": str(got), "P_both": str(allhit), "p_star": str(up)}, site=name.split("[")[0].split(" ")[0])
    ctx.block("exhaustive-choice-space", not ctx.violations, len(designs))
    # ---- (a) recorded-draw correspondence
    ops, meta = rt.run_recorded(ctx, rt.UNSTRAT, ctx.n(90, 1500))
    outs = run_model(ops)
    rt.compare_recorded(ctx, ops, meta, outs, "unstratified-model-vs-impl")
    # ---- observed statistic exactly 0 while the permutation distribution is not symmetric about 0 (unequal sizes, skewed pooled data):
    #      the exact two-sided value is 2 * min(P(T <= 0), P(T >= 0)) < 1, computed over all C(N, nx) allocations
    import itertools as _it
    from fractions import Fraction as _Fr
    from permute import core as _core
    for xs, ys in (([0, 0, 0, 4], [1, 1]), ([0, 0, 0, 8], [2, 2]), ([1, 1], [0, 0, 0, 4]), ([0, 0, 0, 0, 5], [1, 1, 1])):
        pool = xs + ys; nx_ = len(xs)
        tv = []
        for sub in _it.combinations(range(len(pool)), nx_):
            u = [pool[i] for i in sub]; v = [pool[i] for i in range(len(pool)) if i not in sub]
            tv.append(_Fr(sum(u), len(u)) - _Fr(sum(v), len(v)))
        lo_ = _Fr(sum(1 for t in tv if t <= 0), len(tv)); up_ = _Fr(sum(1 for t in tv if t >= 0), len(tv)); exact = min(_Fr(1), 2 * min(lo_, up_))
        for keep_, fn_ in ((False, "two_sample"), (True, "two_sample"), (False, "two_sample_shift")):
            reps_ = 3000
            if fn_ == "two_sample":
                r = guarded(_core.two_sample, np.array(xs, dtype=float), np.array(ys, dtype=float), reps=reps_, stat="mean", alternative="two-sided", keep_dist=keep_, seed=12345, plus1=False)
            else:
                r = guarded(_core.two_sample_shift, np.array(xs, dtype=float), np.array(ys, dtype=float), reps=reps_, stat="mean", alternative="two-sided", keep_dist=keep_, seed=12345, shift=0, plus1=False)
            ctx.case(("zero-observed-asymmetric", tuple(xs), tuple(ys), keep_, fn_), True); ctx.count("observed-zero-asymmetric-distribution")
            sd_ = (float(exact) * (1 - float(exact) / 2) / reps_) ** 0.5 + 1e-9      # crude bound on the standard error of 2 * (a binomial proportion)
            if r[0] != "ok" or abs(float(r[1][0]) - float(exact)) > 6 * 2 * sd_:
                ctx.violation("oracle", {"call": fn_, "x": xs, "y": ys, "stat": "mean", "alternative": "two-sided", "keep_dist": keep_, "reps": reps_, "seed": 12345,
                                         "issue": "observed statistic exactly 0 with an asymmetric permutation distribution: the estimate is more than six standard errors from the exact two-sided value",
                                         "exact": str(exact), "returned": str(r[1][0] if r[0] == "ok" else r[1:])[:80]}, site=fn_)


def replay(rep):
    d = rep["first"]["detail"]
    print("recorded:", str(d)[:3000])
    if "params" in d:
        fn = rt.FUNCS[d["call"]]
        from .prng import RecSHA256, RecRandomState
        g = RecSHA256(d["seed"]) if d["generator"] == "sha" else RecRandomState(d["seed"])
        r, seen = fn.call(d["params"], g)
        print("now ->", str(r)[:1500])
    return 0
