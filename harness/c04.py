"""C04 — randomizations are drawn uniformly and independently from the admissible set."""
import itertools, math
from collections import Counter
from fractions import Fraction as Fr
import numpy as np
from .common import guarded, run_model, ints
from .prng import Tree, TreeRS, enumerate_tree, RecSHA256, RecRandomState

RULE = ("exhaustive enumeration (scripted generator) of the whole choice space of permute, permute_within_groups, "
        "permute_rows, randomize_group, randomize_in_strata (incl. label vectors with repeats), of the sign vectors of "
        "one_sample, of the allocations / orders of two_sample (one repetition and two consecutive ones on the persisting "
        "list), of k_sample relabellings: every admissible outcome must be produced with exactly the same total weight and "
        "the requested ranges must be the modelled ones; rejection sampling (raw getrandbits words) replayed through the "
        "model; chi-square over real seeds for SHA256 and RandomState as support; non-trivial = a design with more than one "
        "admissible outcome; distinct by design")
LEVEL = ("theorems fy_exists + fy_inj + fy_uniform, pyShuffle_uniform (from any starting order), sbi_uniform, allBits_spec + "
         "signVector_inj, binomial_count: valid draw vectors correspond one-to-one to admissible rearrangements; the model's "
         "primitives are validated against the helpers on recorded draws (C03) and exhaustively here")
ASSUMPTIONS = ["the raw bit source is an ideal uniform source (SHA-256 in counter mode; NumPy's Mersenne Twister); int(i + U(n-i)) "
               "granularity 2^-53", "NumPy's C-level RandomState.shuffle/choice are trusted to be uniform (chi-square support only)",
               "label vectors with repeated labels: Uniform2.fy_fiber_const / sbi_fiber_const (any two arrangements are produced by "
               "the same number of draw vectors), and checked exhaustively"]


def outcome_weights(run, cls=None):
    tot = Counter(); wsum = Fr(0); leaves = 0; arities = set()
    for w, res, path in enumerate_tree(run, cls=cls):
        tot[res] += w; wsum += w; leaves += 1
        arities.add(tuple((a, k) for _, a, k in path))
    assert wsum == 1
    return tot, leaves, arities


def multiset_perms(v):
    return set(itertools.permutations(v))


def run(ctx):
    from permute import utils, npc, core, ksample
    designs = []
    big = ctx.thorough()
    # permute: distinct and repeated labels, several dtypes
    for v in ([1, 2, 3], [5, 5, 7], ["a", "b", "a", "c"], [0.5, 1.5, 2.5, 3.5]) + (([1, 2, 3, 4, 5],) if big else ()):
        arr = np.array(v, dtype=object) if isinstance(v[0], str) else np.array(v)
        designs.append(("permute " + str(v), "permute", lambda g, arr=arr: tuple(utils.permute(arr, g).tolist()),
                        multiset_perms(v), tuple((len(v) - i, "fy") for i in range(len(v)))))
    # permute_within_groups
    for x, grp in (([1, 2, 3, 4], [0, 0, 1, 1]), ([1, 2, 3, 4, 5], [2, 1, 2, 1, 2]), ([7, 7, 8, 9], [1, 1, 1, 2]),
                   ([1, 2, 3, 4], ["a", "A", "a", "A"]), ([1, 2, 3, 4, 5], ["s1", "s1 ", "s1", "S1", "s1 "]), ([1, 2, 3, 4], [0.5, 0.25, 0.5, 0.25])):      # text labels that differ only in case / padding; fractional labels
        xa, ga = np.array(x), np.array(grp)
        labs = sorted(set(grp))
        adm = set()
        for ps in itertools.product(*[itertools.permutations([x[i] for i in range(len(x)) if grp[i] == k]) for k in labs]):
            out = list(x)
            for k, pvals in zip(labs, ps):
                it = iter(pvals)
                for i in range(len(x)):
                    if grp[i] == k:
                        out[i] = next(it)
            adm.add(tuple(out))
        ar = tuple(itertools.chain.from_iterable(((grp.count(k) - i, "fy") for i in range(grp.count(k))) for k in labs))
        designs.append((f"permute_within_groups {x} {grp}", "permute_within_groups", lambda g, xa=xa, ga=ga: tuple(utils.permute_within_groups(xa, ga, g).tolist()), adm, ar))
    # permute_rows
    m = np.array([[1, 2, 3], [4, 5, 5]])
    adm = {(a, b) for a in itertools.permutations([1, 2, 3]) for b in set(itertools.permutations([4, 5, 5]))}
    designs.append(("permute_rows [[1,2,3],[4,5,5]]", "permute_rows", lambda g, m=m: tuple(map(tuple, utils.permute_rows(m, g).tolist())), adm,
                    tuple((3 - i, "fy") for i in range(3)) * 2))
    # randomize_group / randomize_in_strata
    for labels, strata in ((["T", "T", "C", "C"], None), ([0, 1, 1, 2], None), ([0, 0, 1, 1, 1], [1, 1, 2, 2, 2]), (["a", "b", "a", "b"], [5, 5, 9, 9]),
                           ([0, 1, 1, 0, 2], [1, 0, 0, 1, 1]), (["p", "q", "r", "s", "t", "u"], ["u", "v", "v", "u", "u", "v"]), ([0, 1, 2, 3], [7, 3, 7, 3])):      # strata that are not contiguous blocks
        n = len(labels)
        if strata is None:
            adm = multiset_perms(labels); ar = tuple((n - i, "randint") for i in range(n))
        else:
            labs = sorted(set(strata)); adm = set()
            for ps in itertools.product(*[set(itertools.permutations([labels[i] for i in range(n) if strata[i] == s])) for s in labs]):
                out = list(labels)
                for s, pv in zip(labs, ps):
                    it = iter(pv)
                    for i in range(n):
                        if strata[i] == s:
                            out[i] = next(it)
                adm.add(tuple(out))
            ar = tuple(itertools.chain.from_iterable(((strata.count(s) - i, "randint") for i in range(strata.count(s))) for s in labs))
        def runx(g, labels=labels, strata=strata, n=n):
            cov = None if strata is None else np.array([[s, 0] for s in strata])
            e = npc.Experiment(labels, [[0]] * n, cov, npc.Experiment.Randomizer(randomize=(npc.randomize_group if strata is None else npc.randomize_in_strata), seed=g))
            e.randomize()
            return tuple(e.group.tolist())
        designs.append((f"{'randomize_group' if strata is None else 'randomize_in_strata'} {labels} {strata}", "randomize", runx, adm, ar))
    # sign vectors of one_sample (decoded from the argument of the statistic)
    for n in (2, 3) + ((5,) if big else ()):
        z = np.arange(1, n + 1, dtype=float)
        def runs(g, z=z):
            seen = []
            core.one_sample(z, reps=1, stat=lambda u: (seen.append(tuple(np.sign(u).astype(int).tolist())), 0.0)[1], seed=g)
            return seen[-1]
        designs.append((f"one_sample signs n={n}", "one_sample", runs, set(itertools.product((1, -1), repeat=n)), tuple((2, "randint") for _ in range(n))))
    # two_sample: allocation (subset received by the first sample) and full order; two consecutive repetitions
    for nx, ny in ((1, 1), (1, 2), (2, 2)) + (((2, 3),) if big else ()):
        N = nx + ny; data = np.arange(N, dtype=float)
        def runa(g, nx=nx, data=data, reps=1):
            seen = []
            core.two_sample(data[:nx], data[nx:], reps=reps, keep_dist=True, stat=lambda u, v: (seen.append(tuple(u.tolist()) + ("|",) + tuple(v.tolist())), 0.0)[1], seed=g)
            return tuple(seen[2:])
        orders = {(tuple(float(i) for i in p[:nx]) + ("|",) + tuple(float(i) for i in p[nx:]),) for p in itertools.permutations(range(N))}
        designs.append((f"two_sample orders nx={nx} ny={ny}", "two_sample", runa, orders, tuple((i + 1, "randbelow") for i in reversed(range(1, N)))))
        if N <= 4:
            pairs = {(a[0], b[0]) for a in orders for b in orders}
            designs.append((f"two_sample two consecutive repetitions nx={nx} ny={ny}", "two_sample", lambda g, runa=runa: runa(g, reps=2), pairs,
                            tuple((i + 1, "randbelow") for i in reversed(range(1, N))) * 2))
        if N <= 3 or (big and N <= 4 and nx == ny):
            triples = {(a[0], b[0], c[0]) for a in orders for b in orders for c in orders}
            designs.append((f"two_sample three consecutive repetitions nx={nx} ny={ny}", "two_sample", lambda g, runa=runa: runa(g, reps=3), triples,
                            tuple((i + 1, "randbelow") for i in reversed(range(1, N))) * 3))
    # k_sample relabellings (repeated labels)
    grp = np.array([0, 0, 1, 2])
    def runk(g, grp=grp):
        seen = []
        ksample.k_sample(np.arange(4.0), grp, reps=1, stat=lambda x, gg, xb: (seen.append(tuple(int(v) for v in gg)), 0.0)[1], seed=g)
        return seen[-1]
    designs.append(("k_sample relabellings [0,0,1,2]", "k_sample", runk, multiset_perms([0, 0, 1, 2]), tuple((4 - i, "fy") for i in range(4))))
    # bivariate_k_sample: the treatment labels are rearranged within every block, also when block labels are no treatment labels
    for g1_, g2_ in (([5, 5, 7, 7], [0, 1, 0, 1]), ([3, 3, 3, 4], [0, 1, 2, 0]), ([1, 2, 1, 2, 3], [1, 1, 2, 2, 1])):
        g1a, g2a = np.array(g1_), np.array(g2_)
        def runb(g, g1a=g1a, g2a=g2a):
            seen = []
            ksample.bivariate_k_sample(np.arange(float(len(g1a))), g1a, g2a, reps=1, stat=lambda x_, a_, b_, xb: (seen.append(tuple(int(v) for v in b_)), 0.0)[1], seed=g)
            return seen[-1]
        admb = set()
        labs_ = sorted(set(g1_))
        for combo in itertools.product(*[set(itertools.permutations([g2_[i] for i in range(len(g1_)) if g1_[i] == k_])) for k_ in labs_]):
            out_ = list(g2_)
            for k_, arrangement in zip(labs_, combo):
                for pos_, v_ in zip([i for i in range(len(g1_)) if g1_[i] == k_], arrangement):
                    out_[pos_] = v_
            admb.add(tuple(out_))
        sizes_ = [g1_.count(k_) for k_ in labs_]
        designs.append((f"bivariate_k_sample blocks {g1_} treatments {g2_}", "bivariate_k_sample", runb, admb, tuple((s_ - i, "fy") for s_ in sizes_ for i in range(s_))))
    ctx.exhaustive = True
    all_ok = True
    for name, site, runner, adm, arity, cls in [d + (Tree,) for d in designs] + [d + (TreeRS,) for d in designs]:
        rs = cls is TreeRS
        if rs:
            name = name + " [generator of type numpy RandomState]"
        r = guarded(outcome_weights, runner, cls, secs=180)
        ctx.case(("design", name), len(adm) > 1, {"design": name, "admissible_outcomes": len(adm)}); ctx.count("exhaustive-designs" + ("-randomstate" if rs else ""))
        if r[0] != "ok":
            all_ok = False
            ctx.violation("oracle", {"design": name, "issue": "enumeration failed", "returned": r[1:]}, site=site); continue
        tot, leaves, arities = r[1]
        ctx.count("exhaustive-leaves", leaves)
        want = Fr(1, len(adm))
        uniform_ok = set(tot) == adm and all(w == want for w in tot.values())
        if (arities != {arity} and not rs) or (rs and not uniform_ok):
            # the model of how draws are consumed no longer matches: the leaf weights computed by the scripted
            # generator are then meaningless, so no failing input can be claimed from them
            all_ok = False
            # failing-input search on the real generator: many real seeds, very generous thresholds
            trials = 80 * len(adm)
            cnt = Counter()
            for i in range(trials):
                rr = guarded(runner, np.random.RandomState((ctx.seed * 7919 + i) % 2**32) if rs else RecSHA256(ctx.seed * 7919 + i))
                cnt[rr[1] if rr[0] == "ok" else ("error", str(rr[1:])[:80])] += 1
            chi = sum((cnt.get(o, 0) - 80) ** 2 / 80 for o in adm)
            if set(cnt) - adm or chi > 12 * len(adm) + 60:
                ctx.violation("oracle", {"design": name, "issue": "over real seeds the outcomes are not uniform on the admissible set",
                                         "trials": trials, "chi2": chi, "admissible_outcomes": len(adm), "never_produced": [str(o) for o in adm if cnt.get(o, 0) == 0][:4],
                                         "inadmissible_or_errors": [str(o) for o in set(cnt) - adm][:4], "seeds": f"{'RandomState' if rs else 'SHA256'}({ctx.seed * 7919} + i), i < {trials}"}, site=site)
            else:
                ctx.violation("correspondence", {"design": name, "issue": ("under the scripted RandomState the outcomes are not uniform on the admissible set, but real RandomState seeds show no deviation" if rs else "the generator is asked for draws with other ranges than the model's"),
                                                 "requested": [list(a) for a in list(arities)[:2]], "expected": list(arity), "chi2_over_real_seeds": chi}, site=site, no_input=True)
            continue
        bad = None
        if set(tot) != adm:
            bad = {"issue": "the set of outcomes produced is not the admissible set", "extra": [str(o) for o in list(set(tot) - adm)[:3]], "missing": [str(o) for o in list(adm - set(tot))[:3]]}
        elif any(w != want for w in tot.values()):
            o = max(tot, key=lambda k: tot[k])
            bad = {"issue": "admissible outcomes are not equally likely", "most_likely": str(o), "its_probability": str(tot[o]), "uniform": str(want)}
        if bad:
            all_ok = False
            bad["design"] = name; ctx.violation("oracle", bad, site=site)
    ctx.block("exhaustive-uniformity", all_ok, len(designs))
    # ---- rejection sampling on raw words, both libraries' word widths
    ops, meta = [], []
    for _ in range(ctx.n(150, 2000)):
        g = RecSHA256(ctx.rng.randint(0, 10**9))
        n = ctx.rng.randint(1, 40)
        lst = list(range(n)); g.shuffle(lst)
        w = g.randint(3, 3 + n)
        for e in g.log:
            if e[0] == "randbelow":
                ops.append(f"randbelow|{e[1]}|{ints([v for _, v in e[3]])}"); meta.append(("py", e[1], e[2], [k for k, _ in e[3]]))
            elif e[0] == "randint" and e[5] is not None:
                rng_n = e[2] - e[1]
                ops.append(f"randbelow|{rng_n}|{ints([v for _, v in e[5]])}"); meta.append(("cr", rng_n, e[4][0] - e[1], [k for k, _ in e[5]]))
        ctx.case(("words", n, tuple(lst)), True); ctx.count("rejection-sampling-runs")
    wb = [f"wordbits|{n}" for n in range(1, 70)]
    outs = run_model(ops + wb)
    bits = {n: tuple(int(v) for v in o.split()) for n, o in zip(range(1, 70), outs[len(ops):])}
    agree = True
    for o, (lib, n, res, ks) in zip(outs[:len(ops)], meta):
        want_k = bits[n][0 if lib == "py" else 1] if n < 70 else None
        ok = o != "none" and int(o.split("|")[0]) == res and o.split("|")[1].strip() == "" and (want_k is None or all(k == want_k for k in ks))
        if not ok:
            agree = False
            ctx.violation("correspondence", {"op": "randbelow", "library": lib, "n": n, "model": o, "impl_result": res, "word_bits": ks}, site="randbelow", no_input=True)
    ctx.block("rejection-sampling-model-vs-impl", agree, len(ops))
    successive_independence(ctx)
    # NaN-coded non-responders are units like any other: they are re-allocated within their stratum (recorded draws replayed through Model/Nan.lean)
    from . import randtests as _rt
    _rt.nan_strat_block(ctx, ctx.n(50, 500))
    # ---- seed=None: every call draws its own seed from numpy.random; across fresh calls the outcomes must still be
    #      uniform over the admissible set (a seed drawn from a tiny range shows up as missing outcomes)
    np.random.seed(ctx.seed + 12345)
    x6 = np.arange(6); trials = ctx.n(2880, 14400)
    cnt = Counter(tuple(utils.permute_within_groups(x6, np.zeros(6, dtype=int)).tolist()) for _ in range(trials))
    chi = sum((v - trials / 720) ** 2 / (trials / 720) for v in cnt.values()) + (720 - len(cnt)) * trials / 720
    ctx.case(("unseeded", "pwg6"), True); ctx.count("unseeded-calls", trials)
    if chi > 720 + 12 * 38:      # mean 719, sd ~38
        ctx.violation("oracle", {"call": "permute_within_groups(seed=None)", "issue": "fresh unseeded calls do not spread uniformly over the 720 orders",
                                 "distinct_orders": len(cnt), "chi2_719dof": chi, "trials": trials, "numpy_seed": ctx.seed + 12345}, site="get_prng")
    signs = Counter()
    for _ in range(ctx.n(2560, 12800)):
        seen = []
        core.one_sample(np.arange(1.0, 9.0), reps=1, stat=lambda u: (seen.append(tuple(np.sign(u).astype(int).tolist())), 0.0)[1])
        signs[seen[-1]] += 1
    tr = sum(signs.values()); chi = sum((v - tr / 256) ** 2 / (tr / 256) for v in signs.values()) + (256 - len(signs)) * tr / 256
    ctx.case(("unseeded", "signs8"), True)
    if chi > 256 + 12 * 23:
        ctx.violation("oracle", {"call": "one_sample(seed=None)", "issue": "fresh unseeded calls do not spread uniformly over the 256 sign vectors",
                                 "distinct": len(signs), "chi2_255dof": chi, "trials": tr}, site="get_prng")
    # ---- plain integer seeds handed straight to the helpers (each call builds its own SHA256(seed)): over many seeds the *joint*
    #      outcome must still spread over the whole admissible set (a seed re-used per row / per stratum couples the parts)
    m23 = np.array([[1, 2, 3], [4, 5, 6]]); x5 = np.array([1, 2, 3, 4, 5]); g5 = np.array([1, 1, 2, 2, 2])
    int_helpers = {"permute_rows": (lambda sd: tuple(map(tuple, utils.permute_rows(m23, sd).tolist())), 36),
                   "permute_within_groups": (lambda sd: tuple(utils.permute_within_groups(x5, g5, sd).tolist()), 12),
                   "permute": (lambda sd: tuple(utils.permute(np.array([1, 2, 3]), sd).tolist()), 6)}
    for hname, (fnc, K) in int_helpers.items():
        trials = ctx.n(40, 200) * K
        cnt = Counter()
        for i in range(trials):
            rr = guarded(fnc, int(ctx.seed * 1000003 + i) if i % 3 else np.int64(ctx.seed * 1000003 + i))
            cnt[rr[1] if rr[0] == "ok" else ("error", str(rr[1:])[:60])] += 1
        chi = sum((v - trials / K) ** 2 / (trials / K) for v in cnt.values()) + (K - len(cnt)) * trials / K
        ctx.case(("int-seeds", hname), True); ctx.count("helpers-with-plain-int-seeds")
        if len(cnt) != K or chi > 8 * K + 80:
            ctx.violation("oracle", {"helper": hname, "issue": "over plain integer seeds the joint outcome does not spread uniformly over the admissible set",
                                     "distinct_outcomes": len(cnt), "admissible": K, "chi2": chi, "trials": trials,
                                     "seeds": f"{ctx.seed * 1000003} + i, i < {trials}"}, site=hname)
    # ---- draws made inside two_sample_conf_int (a root search over many p-value evaluations of two_sample_shift): the allocation
    #      of the first repetition of the *second* evaluation, over many integer seeds, must still be uniform over the C(6,3) subsets
    #      (state carried or badly restored between evaluations shows up here, not in the first evaluation)
    xs_ = np.array([10.1, 11.2, 12.3]); ys_ = np.array([0.4, 1.5, 2.6]); reps_ = 2; per_eval = 2 + 2 * reps_
    cnt = Counter(); bad_calls = 0; trials = ctx.n(400, 2400)
    for i in range(trials):
        seen_ = []
        def rec(u, v, seen_=seen_):
            seen_.append((tuple(np.asarray(u).tolist()), tuple(np.asarray(v).tolist()))); return float(np.mean(u) - np.mean(v))
        rr = guarded(core.two_sample_conf_int, xs_, ys_, 0.8, "two-sided", int(ctx.seed * 99991 + i), reps_, rec, secs=60)
        if rr[0] != "ok" or len(seen_) < 2 * per_eval or len(seen_) % per_eval:
            bad_calls += 1; continue
        u, v = seen_[per_eval + 2]          # second evaluation, first repetition
        alloc = tuple(sorted([("x", t) for t in u if t in (10.1, 11.2, 12.3)] + [("y", t) for t in (0.4, 1.5, 2.6) if t not in v]))
        cnt[alloc] += 1
    ok_trials = sum(cnt.values())
    ctx.case(("conf_int-second-evaluation",), True); ctx.count("two_sample_conf_int-evaluations", ok_trials)
    if ok_trials >= trials // 2:
        chi = sum((vv - ok_trials / 20) ** 2 / (ok_trials / 20) for vv in cnt.values()) + (20 - len(cnt)) * ok_trials / 20
        if any(len(a) != 3 for a in cnt) or len(cnt) > 20 or chi > 19 + 12 * 6.2:
            ctx.violation("oracle", {"call": "two_sample_conf_int", "x": xs_.tolist(), "y": ys_.tolist(), "reps": reps_, "issue": "the allocation drawn in the first repetition of the second p-value evaluation is not uniform over the 20 subsets (over integer seeds)",
                                     "chi2_19dof": chi, "distinct": len(cnt), "trials": ok_trials, "seeds": f"{ctx.seed * 99991} + i, i < {trials}",
                                     "most_common": [[str(k_), v_] for k_, v_ in cnt.most_common(3)]}, site="two_sample_conf_int")
    else:
        ctx.notes.append(f"two_sample_conf_int: {bad_calls} of {trials} calls did not follow the expected evaluation pattern; uniformity inside it not assessed")
    # ---- chi-square over real seeds (support only; generous threshold: false alarm probability < 1e-9)
    for gen in ("sha", "rs"):
        cnt = Counter()
        trials = ctx.n(600, 6000)
        for i in range(trials):
            g = RecSHA256(ctx.seed * 100003 + i) if gen == "sha" else np.random.RandomState((ctx.seed * 100003 + i) % 2**32)
            cnt[tuple(utils.permute(np.array([1, 2, 3]), g).tolist())] += 1
        chi = sum((cnt[o] - trials / 6) ** 2 / (trials / 6) for o in itertools.permutations([1, 2, 3]))
        ctx.count(f"chi2-permute-{gen}-x1000", int(chi * 1000))
        ctx.case(("chi", gen), True)
        if chi > 60:
            ctx.violation("oracle", {"issue": "permute over real seeds is far from uniform", "generator": gen, "chi2_5dof": chi, "counts": {str(k): v for k, v in cnt.items()}}, site="permute")


def successive_independence(ctx):
    """One generator object used for many successive randomisations (as every test does with its helper):
    marginal and successive-pair frequencies must be uniform (very generous chi-square thresholds; the
    failure mode looked for is gross: a generator that is re-cloned or re-seeded replays one outcome)."""
    from permute import utils, stratified, irr
    x = np.array([1, 2, 3]); grp = np.array([1, 1, 2, 2, 2]); xs = np.array([1, 2, 3, 4, 5]); m = np.array([[1, 2, 3], [4, 5, 6]])
    helpers = {"permute": (lambda g: tuple(utils.permute(x, g).tolist()), 6),
               "permute_within_groups": (lambda g: tuple(utils.permute_within_groups(xs, grp, g).tolist()), 12),
               "permute_rows": (lambda g: tuple(map(tuple, utils.permute_rows(m, g).tolist())), 36)}
    for gen in ("sha", "rs"):
        for name, (fn, K) in helpers.items():
            trials = ctx.n(40, 200) * K
            g = RecSHA256(ctx.seed * 31 + 7) if gen == "sha" else np.random.RandomState((ctx.seed * 31 + 7) % 2**32)
            seq = [fn(g) for _ in range(trials)]
            cnt = Counter(seq); pairs = Counter(zip(seq[:-1], seq[1:]))
            chi1 = sum((cnt.get(o, 0) - trials / K) ** 2 / (trials / K) for o in cnt) + (K - len(cnt)) * trials / K
            ep = (trials - 1) / (K * K)
            chi2 = sum((v - ep) ** 2 / ep for v in pairs.values()) + (K * K - len(pairs)) * ep
            ctx.case(("succ", gen, name), True); ctx.count(f"successive-draws-{gen}")
            if len(cnt) < K or chi1 > 8 * K + 80 or chi2 > 3 * K * K + 200:
                ctx.violation("oracle", {"helper": name, "generator": gen, "issue": "successive randomisations drawn with one generator object are not uniform / independent",
                                         "distinct_outcomes": len(cnt), "admissible": K, "chi2_marginal": chi1, "chi2_pairs": chi2, "trials": trials,
                                         "seed": ctx.seed * 31 + 7}, site=name)
        # inside a test: the rearrangements seen by the statistic over the repetitions of one call
        seen = []
        g = RecSHA256(ctx.seed + 11) if gen == "sha" else np.random.RandomState((ctx.seed + 11) % 2**32)
        reps = ctx.n(480, 2400)
        r = guarded(stratified.stratified_two_sample, np.array([1, 1, 2, 2, 2]), np.array([0, 1, 0, 1, 1]), np.array([1., 2, 3, 4, 5]),
                    stat=lambda u: (seen.append(tuple(u.tolist())), 0.0)[1], reps=reps, seed=g, keep_dist=True, secs=120)
        cnt = Counter(seen[1:])
        chi = sum((cnt.get(o, 0) - reps / 12) ** 2 / (reps / 12) for o in cnt) + (12 - len(cnt)) * reps / 12
        ctx.case(("succ-test", gen), True); ctx.count(f"successive-draws-{gen}")
        if r[0] != "ok" or len(cnt) != 12 or chi > 180:
            ctx.violation("oracle", {"call": "stratified_two_sample", "generator": gen, "reps": reps,
                                     "issue": "the rearrangements of successive repetitions are not uniform over the 12 admissible ones",
                                     "distinct": len(cnt), "chi2": chi, "seed": ctx.seed + 11}, site="stratified_two_sample")
        seen2 = []
        g = RecSHA256(ctx.seed + 13) if gen == "sha" else np.random.RandomState((ctx.seed + 13) % 2**32)
        r = guarded(irr.simulate_ts_dist, np.array([[1, 0, 0], [1, 1, 0]]), None, ctx.n(300, 1500), True, g, secs=120)
        if r[0] == "ok":
            vals = Counter(np.round(r[1]["dist"], 9).tolist())
            ctx.case(("succ-irr", gen), True)
            if len(vals) < 2:
                ctx.violation("oracle", {"call": "simulate_ts_dist", "generator": gen, "issue": "every repetition produced the same permuted matrix",
                                         "dist_values": dict(vals)}, site="simulate_ts_dist")


def replay(rep):
    print("recorded:", str(rep["first"]["detail"])[:3000])
    return 0
