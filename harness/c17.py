"""C17 — Experiment randomization histories conserve labels and respect in_place."""
import copy
from collections import Counter
from fractions import Fraction as Fr
import numpy as np
from .common import guarded, run_model, ints, rats, rows, rows3, frac, close, F
from .prng import RecSHA256, Draws

RULE = ("generated histories of randomize / sim_npc / westfall_young calls (length 1..8 quick, 1..12 thorough) on real "
        "Experiment objects with any mix of in_place and seed arguments, both built-in randomizers, string and integer labels, "
        "unequal and singleton strata; the draws of every operation (also those made on deep copies) are recorded and replayed "
        "through the model, and group / response / covariate are snapshotted after every operation; built-in test functions "
        "compared with the model; non-trivial = the history contains an in-place operation that changes the assignment; "
        "distinct by history")
LEVEL = ("theorems randomizeOnce_inv, groupSeq_inv, step_inv, history_inv (for every operation sequence with admissible draws: "
         "responses and covariates unchanged, group a rearrangement of the original labels — within every stratum for the "
         "stratified randomizer), not_in_place_id, in_place_only_group, tfMeanDiff_spec/rejects, tfOneWayAnova_spec; model "
         "validated against npc.Experiment on recorded histories")
ASSUMPTIONS = ["deepcopy / aliasing behaviour is observed by snapshots, not modelled (partial)",
               "a deep-copied SHA256 generator continues from a state derived by cryptorandom's setstate(getstate()); the draws "
               "it makes are recorded through a shared log"]


def intern(labels):
    u = list(np.unique(np.array(labels, dtype=object)))
    return {v: i for i, v in enumerate(u)}


def run(ctx):
    from permute import npc
    ops, meta = [], []
    for _ in range(ctx.n(150, 2500)):
        n = ctx.rng.randint(2, 8)
        strat = ctx.rng.random() < 0.5
        labels = ctx.rng.choice([[0, 1], ["T", "C"], [1, 2, 3], ["a", "b", "c"], [9, 10], [-2, -1, 10]])
        group = [ctx.rng.choice(labels) for _ in range(n)]
        strata = [ctx.rng.choice([1, 2, 2, 5]) for _ in range(n)]
        resp = [[float(ctx.rng.randint(0, 9)), float(ctx.rng.randint(0, 9))] for _ in range(n)]
        cov = [[s, ctx.rng.randint(0, 3)] for s in strata]
        g0 = RecSHA256(ctx.rng.randint(0, 10**9))
        log = g0.log
        e = npc.Experiment(group, resp, cov, npc.Experiment.Randomizer(randomize=(npc.randomize_in_strata if strat else npc.randomize_group), seed=g0))
        tests = npc.Experiment.make_test_array(npc.Experiment.TestFunc.one_way_anova, [0, 1])
        code = intern(group)
        hist = []; states = []; bad = None
        L = ctx.rng.randint(1, ctx.n(8, 12))
        sizes = [strata.count(s) for s in sorted(set(strata))] if strat else [n]
        changed_inplace = False
        for step in range(L):
            kind = ctx.rng.choice(["randomize", "randomize", "simnpc", "wy"])
            ip = ctx.rng.random() < 0.5
            seeded = ctx.rng.random() < 0.4
            if seeded:
                gs = RecSHA256(ctx.rng.randint(0, 10**9)); gs.log = log   # same chronological log
            reps = ctx.rng.randint(1, 3)
            before = (e.group.tolist(), copy.deepcopy(e.response.tolist()), copy.deepcopy(e.covariate.tolist()))
            pos = len(log)
            if kind == "randomize":
                r = guarded(e.randomize, ip, gs if seeded else None); nrand = 1
            elif kind == "simnpc":
                r = guarded(npc.sim_npc, e, tests, "tippett", ip, reps, gs if seeded else None); nrand = reps
            else:
                r = guarded(npc.westfall_young, e, tests, "maxT", "greater", ip, reps, gs if seeded else None); nrand = reps
            desc = {"op": kind, "in_place": ip, "seeded": seeded, "reps": nrand}
            hist.append(desc)
            after = (e.group.tolist(), e.response.tolist(), e.covariate.tolist())
            if r[0] != "ok":
                bad = {"issue": "operation failed", "returned": r[1:]}; break
            if after[1] != before[1] or after[2] != before[2]:
                bad = {"issue": "responses or covariates changed"}; break
            if not ip and after[0] != before[0]:
                bad = {"issue": "in_place=False changed the Experiment's group assignment", "before": before[0], "after": after[0]}; break
            if kind == "randomize" and not ip and (r[1] is e or r[1].response.tolist() != before[1]):
                bad = {"issue": "randomize(in_place=False) did not return its result on a copy"}; break
            cnt_ok = Counter(after[0]) == Counter(group) if not strat else all(
                Counter(np.array(after[0], dtype=object)[np.array(strata) == s].tolist()) == Counter(np.array(group, dtype=object)[np.array(strata) == s].tolist()) for s in set(strata))
            if not cnt_ok:
                bad = {"issue": "the group vector is no longer a rearrangement of the original labels" + (" within each stratum" if strat else ""), "group": after[0], "original": group}; break
            changed_inplace |= ip and after[0] != before[0]
            try:
                d = Draws(log[pos:])
                dr = [[d.sbi(s) for s in sizes] for _ in range(nrand)]
                if not d.done():
                    raise LookupError(f"{len(d.rest())} generator requests beyond the modelled ones")
            except LookupError as ex:
                bad = {"issue": "generator used differently from the model: " + str(ex), "corr": True}; break
            hist[-1]["draws"] = dr
            states.append([code[v] for v in after[0]])
        det = {"call": "Experiment history", "stratified": strat, "group": group, "strata": strata, "history": [{k: v for k, v in h.items() if k != "draws"} for h in hist]}
        ctx.case(("hist", tuple(group), tuple(strata), repr([(h["op"], h["in_place"], h["seeded"]) for h in hist]), id(e) % 1), changed_inplace, det)
        ctx.count("stratified" if strat else "unstratified"); ctx.count(f"length={len(hist)}")
        for h in hist:
            ctx.count("op-" + h["op"] + ("-inplace" if h["in_place"] else "-copy"))
        if bad:
            corr = bad.pop("corr", False)
            det.update(bad); ctx.violation("correspondence" if corr else "oracle", det, site="Experiment", no_input=corr); continue
        def opstr(h):
            if h["op"] == "randomize":
                return f"randomize@{int(h['in_place'])}@{rows(h['draws'][0], ints)}"
            return f"{'simnpc' if h['op'] == 'simnpc' else 'wy'}@{int(h['in_place'])}@{rows3(h['draws'])}"
        ops.append(f"history|{int(strat)}|{ints([code[v] for v in group])}|{ints(strata)}|{'&'.join(opstr(h) for h in hist)}")
        meta.append(("history", det, states))
    # ---- one Randomizer object shared by Experiments of equal size but different stratification (as in the
    #      package's own tests): every randomisation must respect the strata of the Experiment it is applied to
    for _ in range(ctx.n(80, 1000)):
        n = ctx.rng.randint(3, 8)
        shared = npc.Experiment.Randomizer(randomize=npc.randomize_in_strata, seed=ctx.rng.randint(0, 10**6))
        exps = []
        for _k in range(ctx.rng.randint(2, 3)):
            group = [ctx.rng.choice(["T", "C", "P"]) for _ in range(n)]
            strata = [ctx.rng.choice([1, 2, 3]) for _ in range(n)]
            exps.append((npc.Experiment(group, [[float(i)] for i in range(n)], [[s, 0] for s in strata], shared), group, strata))
        tests = npc.Experiment.make_test_array(npc.Experiment.TestFunc.one_way_anova, [0])
        bad = None
        for step in range(ctx.rng.randint(2, 6)):
            e, group, strata = ctx.rng.choice(exps)
            which = ctx.rng.choice(["randomize", "sim_npc", "westfall_young"])
            ip = ctx.rng.random() < 0.6
            if which == "randomize":
                r = guarded(e.randomize, ip); target = r[1] if (r[0] == "ok" and not ip) else e
            elif which == "sim_npc":
                r = guarded(npc.sim_npc, e, tests * 2, "tippett", ip, 2); target = e
            else:
                r = guarded(npc.westfall_young, e, tests, "maxT", "greater", ip, 2); target = e
            if r[0] != "ok":
                bad = {"issue": "operation failed", "returned": r[1:]}; break
            for (ee, g0, st) in exps + ([(target, group, strata)] if target is not e else []):
                now = np.array(ee.group.tolist(), dtype=object)
                if any(Counter(now[np.array(st) == s].tolist()) != Counter(np.array(g0, dtype=object)[np.array(st) == s].tolist()) for s in set(st)):
                    bad = {"issue": "with a Randomizer shared between Experiments, labels moved between the strata of an Experiment",
                           "group_now": now.tolist(), "original": g0, "strata": st, "after_operation": which, "in_place": ip}; break
            if bad:
                break
        ctx.case(("shared-randomizer", n, repr([(g, s) for _, g, s in exps])), True); ctx.count("shared-randomizer-histories")
        if bad:
            bad["call"] = "Experiment history with a shared stratified Randomizer"
            ctx.violation("oracle", bad, site="Experiment")
    # ---- seeded randomisation from the same assignment is reproducible: every kind of seed (int, str, a fresh SHA256, a fresh
    #      RandomState in the same state), both randomizers, unrelated numpy.random activity between the runs
    from cryptorandom.cryptorandom import SHA256 as _SHA
    for _ in range(ctx.n(120, 1200)):
        n = ctx.rng.randint(2, 7); group = [ctx.rng.choice(["x", "y", "z"]) for _ in range(n)]
        seed = ctx.rng.randint(0, 10**9)
        skind = ctx.rng.choice(["int", "int", "str", "sha256", "randomstate", "randomstate"])
        mk = {"int": lambda: seed, "str": lambda: "s%d" % seed, "sha256": lambda: _SHA(seed), "randomstate": lambda: np.random.RandomState(seed % 2**32)}[skind]
        strat = ctx.rng.random() < 0.4
        cov = [[ctx.rng.choice([0, 1])] for _ in range(n)] if strat else None
        def fresh():
            if strat:
                return npc.Experiment(group, [[0.0]] * n, cov, npc.Experiment.Randomizer(randomize=npc.randomize_in_strata))
            return npc.Experiment(group, [[0.0]] * n)
        np.random.seed(ctx.rng.randint(0, 10**6))
        a = fresh(); b = fresh()
        ra = guarded(a.randomize, True, mk())
        np.random.seed(ctx.rng.randint(0, 10**6)); np.random.random(ctx.rng.randint(0, 3))
        rb = guarded(b.randomize, True, mk())
        first = b.group.tolist()
        # the same object again, started from the same assignment with the same seed (after some unseeded use)
        for _k in range(ctx.rng.randint(0, 2)):
            b.randomize()
        b.group = np.array(group, dtype=object); rc_ = guarded(b.randomize, True, mk())
        # the copying variant: the seed, not the history of the object, determines the returned assignment
        np.random.seed(ctx.rng.randint(0, 10**6))
        c1_, c2_ = fresh(), fresh()
        for _k in range(ctx.rng.randint(0, 2)):
            c2_.randomize()
        c2_.group = np.array(group, dtype=object)
        q1, q2 = guarded(c1_.randomize, False, mk()), guarded(c2_.randomize, False, mk())
        # (not compared with the in-place result: copy.deepcopy of a cryptorandom SHA256 continues from a re-derived state,
        #  third-party behaviour, so the copy's assignment is another — equally seed-determined — one)
        if q1[0] != "ok" or q2[0] != "ok" or q1[1].group.tolist() != q2[1].group.tolist():
            ctx.violation("oracle", {"call": "Experiment.randomize(in_place=False)", "group": group, "seed": seed, "seed_given_as": skind, "stratified": strat, "covariate": cov,
                                     "issue": "a seeded randomisation returned as a copy is not determined by the seed (differs between objects with different histories)",
                                     "copies": [str(q1[1].group.tolist() if q1[0] == "ok" else q1[1:]), str(q2[1].group.tolist() if q2[0] == "ok" else q2[1:])], "in_place": first}, site="Experiment")
        ctx.case(("repro", tuple(group), seed, skind, strat), True); ctx.count("seeded-reproducible-" + skind)
        if ra[0] != "ok" or rb[0] != "ok" or rc_[0] != "ok" or a.group.tolist() != first or b.group.tolist() != first:
            ctx.violation("oracle", {"call": "Experiment.randomize", "group": group, "seed": seed, "seed_given_as": skind, "stratified": strat, "covariate": cov,
                                     "issue": "seeded randomisation from the same assignment is not reproducible",
                                     "runs": [a.group.tolist(), first, b.group.tolist()]}, site="Experiment")
    # ---- type checks
    e = npc.Experiment([0, 1], [[1.0], [2.0]])
    tests = npc.Experiment.make_test_array(npc.Experiment.TestFunc.mean_diff, [0])
    weird = [None, 3, "x", [1, 2], {"a": 1}, np.array([1, 2]), (np.array([0, 1]), np.array([[1.0], [2.0]])), (), (1,), (1, 2, 3), npc.randomize_group, npc.Experiment]
    class Randomizer:      # a look-alike: same name, same attributes, not the library's class
        def __init__(self):
            self.randomize = npc.randomize_group; self.prng = None; self.seed = None
        def reset_seed(self, seed=None):
            pass
    weird = weird + [Randomizer(), Randomizer]
    for obj in weird:
        kw_ = ctx.rng.choice([dict(seed=5), dict(seed=np.random.RandomState(3)), dict(reps=3, seed=0), dict(in_place=True, seed=7), dict(reps=0)])
        for what, call in [("sim_npc with data of type " + type(obj).__name__, lambda obj=obj: npc.sim_npc(obj, tests)),
                           ("westfall_young with data of type " + type(obj).__name__, lambda obj=obj: npc.westfall_young(obj, tests)),
                           ("sim_npc (" + ", ".join(kw_) + " given) with data of type " + type(obj).__name__, lambda obj=obj: npc.sim_npc(obj, tests, **kw_)),
                           ("westfall_young (" + ", ".join(kw_) + " given) with data of type " + type(obj).__name__, lambda obj=obj: npc.westfall_young(obj, tests, **kw_)),
                           ("westfall_young maxT (seed given) with data of type " + type(obj).__name__, lambda obj=obj: npc.westfall_young(obj, tests, method="maxT", alternatives=["greater"], seed=11)),
                           ("Experiment with a randomizer of type " + type(obj).__name__, lambda obj=obj: npc.Experiment([0, 1], [[1.0], [2.0]], randomizer=obj))]:
            if obj is None and what.startswith("Experiment"):
                continue            # randomizer=None is the documented default
            r = guarded(call)
            ctx.case(("type", what, repr(obj)[:40]), True); ctx.count("type-checks")
            if not (r[0] == "exc" and r[1] == "ValueError"):
                ctx.violation("oracle", {"issue": what + " is not rejected with ValueError", "object": repr(obj)[:80], "returned": str(r[1:])[:160]}, site="Experiment")
    for what, call in [("sim_npc with data that is not an Experiment", lambda: npc.sim_npc("x", tests)),
                       ("westfall_young with data that is not an Experiment", lambda: npc.westfall_young([1, 2], tests)),
                       ("Experiment with a randomizer that is not a Randomizer", lambda: npc.Experiment([0, 1], [[1.0], [2.0]], randomizer=npc.randomize_group))]:
        r = guarded(call)
        ctx.case(("type", what), True); ctx.count("type-checks")
        if not (r[0] == "exc" and r[1] == "ValueError"):
            ctx.violation("oracle", {"issue": what + " is not rejected with ValueError", "returned": r[1:]}, site="Experiment")
    # ---- built-in test functions and make_test_array
    for _ in range(ctx.n(150, 2000)):
        n = ctx.rng.randint(3, 9)
        labels = ctx.rng.choice([[0, 1], ["T", "C"], [3, 1, 2], [9, 10], [2, 10], [100, 99], [-2, -1], [-10, -9], [10, 9, 100]])
        group = [ctx.rng.choice(labels) for _ in range(n)]
        for l in labels:
            if l not in group:
                group[labels.index(l)] = l
        resp = [[float(ctx.rng.randint(0, 9)), ctx.rng.randint(-4, 4) / 2] for _ in range(n)]
        # a quarter of the cases: response columns on a large baseline (raw counts, timestamps; exact in doubles).  The documented
        # statistics (differences of means, centred sums of squares, scipy's two-pass t) are stable there; comparisons get an
        # absolute slack of a few hundred ulps of the baseline, a cancelling one-pass formula is off by many orders more
        off = float(ctx.rng.choice([2**24, 2**27])) if ctx.rng.random() < 0.25 else 0.0
        if off:
            resp = [[v + off for v in r_] for r_ in resp]; ctx.count("response-on-a-large-baseline")
        slack = 512 * n * 10 * off * 2.0 ** -52
        e = npc.Experiment(group, resp)
        idx_arg = ctx.rng.choice([0, 1, 0, 1, -1, -2])      # -1 / -2 are the legal way to ask for the last / last-but-one column
        idx = idx_arg % 2
        code = intern(group)
        col = [F(r_[idx]) for r_ in resp]
        u = sorted(set(group), key=lambda v: code[v])
        ctx.case(("tf", tuple(group), tuple(map(tuple, resp)), idx), True); ctx.count("test-functions")
        det = {"call": "TestFunc", "group": group, "response": resp, "index": idx_arg}
        arr = npc.Experiment.make_test_array(npc.Experiment.TestFunc.mean_diff, [0, 1])
        if len(u) == 2:
            a = [c for c, g in zip(col, group) if g == u[0]]; b = [c for c, g in zip(col, group) if g == u[1]]
            want = sum(a) / len(a) - sum(b) / len(b)
            r = guarded(npc.Experiment.TestFunc.mean_diff, e, idx_arg); r2 = guarded(arr[idx], e)
            if r[0] != "ok" or not close(r[1], want, ab=1e-12 + slack) or r2[0] != "ok" or r2[1] != r[1]:
                det.update({"issue": "mean_diff is not the difference in means of the first group (sorted label order) against the second, or make_test_array(func, indices)[i](data) != func(data, indices[i])",
                            "returned": [r[1:], r2[1:]], "expected": float(want)}); ctx.violation("oracle", det, site="TestFunc")
            rt_ = guarded(npc.Experiment.TestFunc.ttest, e, idx_arg)
            ops.append(f"testfunc|mean_diff|{idx}|{ints([code[v] for v in group])}|{rows(resp)}"); meta.append(("tf", det, r, slack))
            if len(a) + len(b) > 2 and (len(set(a)) > 1 or len(set(b)) > 1) and len(a) > 0 and len(b) > 0:
                ops.append(f"testfunc|ttest|{idx}|{ints([code[v] for v in group])}|{rows(resp)}"); meta.append(("tt", det, rt_, slack))
        else:
            r = guarded(npc.Experiment.TestFunc.mean_diff, e, idx_arg)
            if not (r[0] == "exc" and r[1] == "ValueError"):
                det.update({"issue": "mean_diff with a number of groups other than two is not rejected", "returned": r[1:]}); ctx.violation("oracle", det, site="TestFunc")
        m = sum(col) / len(col)
        want = sum((sum(c for c, g in zip(col, group) if g == k) / group.count(k) - m) ** 2 * group.count(k) for k in set(group))
        r = guarded(npc.Experiment.TestFunc.one_way_anova, e, idx_arg)
        if r[0] != "ok" or not close(r[1], want, ab=1e-12 + slack):
            det.update({"issue": "one_way_anova is not the size-weighted between-group sum of squares", "returned": r[1:], "expected": float(want)}); ctx.violation("oracle", det, site="TestFunc")
        ops.append(f"testfunc|one_way_anova|{idx}|{ints([code[v] for v in group])}|{rows(resp)}"); meta.append(("tf", det, r, slack))
    # ---- make_test_array(func, indices)[i](data) == func(data, indices[i]) for index lists that are not 0..k-1
    for _ in range(ctx.n(60, 600)):
        n = ctx.rng.randint(4, 8); ncol = ctx.rng.randint(2, 4)
        group = [0, 1] + [ctx.rng.randint(0, 1) for _ in range(n - 2)]
        resp = [[float(ctx.rng.randint(0, 9)) for _ in range(ncol)] for _ in range(n)]
        e = npc.Experiment(group, resp)
        idxs = ctx.rng.choice([[1, 0], [ncol - 1], [ncol - 1, 0], [1, 1, 0], list(reversed(range(ncol))), [ctx.rng.randrange(ncol) for _ in range(ctx.rng.randint(1, 4))]])
        asked = []
        def probe(data, col, asked=asked):
            asked.append(col); return float(np.sum(data.response[:, col]))
        for fn_, fname in ((npc.Experiment.TestFunc.mean_diff, "mean_diff"), (probe, "user function")):
            how_ = ctx.rng.choice(["list", "list", "tuple", "iter", "generator", "map", "range-like", "ndarray"]); ctx.count("make_test_array-indices-as-" + how_)
            ix_arg = {"list": lambda: idxs, "tuple": lambda: tuple(idxs), "iter": lambda: iter(idxs), "generator": lambda: (i_ for i_ in idxs),
                      "map": lambda: map(int, idxs), "range-like": lambda: dict.fromkeys(range(len(idxs))).keys() if idxs == list(range(len(idxs))) else list(idxs),
                      "ndarray": lambda: np.array(idxs)}[how_]()
            arr_ = guarded(npc.Experiment.make_test_array, fn_, ix_arg)
            ctx.case(("mta", tuple(idxs), fname, tuple(group), tuple(map(tuple, resp))), True); ctx.count("make_test_array-index-lists")
            bad = None
            if arr_[0] != "ok" or len(arr_[1]) != len(idxs):
                bad = "make_test_array failed or returned another number of tests than indices"
            else:
                for i_, col in enumerate(idxs):
                    a_, b_ = guarded(arr_[1][i_], e), guarded(fn_, e, col)
                    if a_[0] != "ok" or b_[0] != "ok" or a_[1] != b_[1]:
                        bad = f"make_test_array(func, {idxs})[{i_}](data) != func(data, {col}): {a_[1:]} vs {b_[1:]}"; break
            if bad:
                ctx.violation("oracle", {"call": "make_test_array", "function": fname, "indices": idxs, "group": group, "response": resp, "issue": bad}, site="TestFunc")
    # ---- index lists of mixed kinds handed to a user function (column positions together with names / fractions / tuples): every
    #      test must receive exactly the object that was listed — same type, same value
    for _ in range(ctx.n(30, 300)):
        idxs = ctx.rng.choice([[0, 1, "all"], [1, 2.5], [(0, 1), (1, 2)], ["a", 0], [0, None, 1], [0, 1.0, True], [(0,), (1, 2), 3], [1, "1"], [2**40, 0]])
        got = []
        def recorder(data, ix, got=got):
            got.append(ix); return 0.0
        arr_ = guarded(npc.Experiment.make_test_array, recorder, list(idxs))
        ctx.case(("mta-mixed", repr(idxs)), True); ctx.count("make_test_array-mixed-index-kinds")
        bad = None
        if arr_[0] != "ok" or len(arr_[1]) != len(idxs):
            bad = "make_test_array failed or returned another number of tests than indices"
        else:
            for t_ in arr_[1]:
                guarded(t_, None)
            if len(got) != len(idxs) or any(type(a_) is not type(b_) or a_ != b_ for a_, b_ in zip(got, idxs)):
                bad = f"the tests received {got!r} (types {[type(v).__name__ for v in got]}), listed were {idxs!r}"
        if bad:
            ctx.violation("oracle", {"call": "make_test_array", "function": "user function recording its index", "indices": repr(idxs), "issue": bad}, site="TestFunc")
    # ---- calls that fail half-way (after the randomisation loop has started) must leave an Experiment used with in_place=False untouched
    for _ in range(ctx.n(60, 600)):
        n = ctx.rng.randint(4, 8)
        labels = ctx.rng.choice([[0, 1], ["T", "C"]])
        group = list(labels) + [ctx.rng.choice(labels) for _ in range(n - 2)]
        resp = [[float(ctx.rng.randint(0, 9)), float(ctx.rng.randint(0, 9))] for _ in range(n)]
        strat = ctx.rng.random() < 0.4
        cov = [[ctx.rng.choice([0, 1])] for _ in range(n)] if strat else None
        e = npc.Experiment(group, resp, cov, npc.Experiment.Randomizer(randomize=(npc.randomize_in_strata if strat else npc.randomize_group), seed=ctx.rng.randint(0, 10**6)))
        tests = npc.Experiment.make_test_array(npc.Experiment.TestFunc.mean_diff, [0, 1])
        state = {"k": 0}
        def boom(data, state=state):
            state["k"] += 1
            if state["k"] >= 3:
                raise RuntimeError("user statistic failed")
            return 0.0
        snap = (np.array(e.group, dtype=object).tolist(), np.array(e.response).copy(), None if e.covariate is None else np.array(e.covariate).copy())
        what, call = ctx.rng.choice([
            ("sim_npc with a single test (nothing to combine)", lambda: npc.sim_npc(e, tests[:1], "fisher", False, 4, 3)),
            ("sim_npc with an unknown combining function", lambda: npc.sim_npc(e, tests, "no-such-combiner", False, 4, 3)),
            ("sim_npc with an increasing user combiner", lambda: npc.sim_npc(e, tests, (lambda p: np.sum(p)), False, 4, 3)),
            ("westfall_young with an unknown method", lambda: npc.westfall_young(e, tests, "maxP", "greater", False, 4, 3)),
            ("westfall_young with an unknown alternative in the list", lambda: npc.westfall_young(e, tests, "minP", ["greater", "smaller"], False, 4, 3)),
            ("sim_npc with a user statistic that raises in the third evaluation", lambda: npc.sim_npc(e, [boom, boom], "fisher", False, 4, 3)),
            ("westfall_young with a user statistic that raises in the third evaluation", lambda: npc.westfall_young(e, [boom, boom], "maxT", "greater", False, 4, 3))])
        r = guarded(call)
        ctx.case(("error-path", what, tuple(group), strat), True); ctx.count("error-paths-in_place-False")
        same_ = np.array(e.group, dtype=object).tolist() == snap[0] and np.array_equal(np.array(e.response), snap[1]) and \
            ((e.covariate is None and snap[2] is None) or np.array_equal(np.array(e.covariate), snap[2]))
        if r[0] == "ok" and "raises" not in what and "single" not in what:
            pass       # the library may accept it; the state check below still applies
        if not same_:
            ctx.violation("oracle", {"call": what, "in_place": False, "group_before": snap[0], "group_after": np.array(e.group, dtype=object).tolist(), "stratified": strat,
                                     "issue": "an in_place=False call that ended in an exception left the Experiment modified", "outcome": str(r)[:160]}, site="Experiment")
    outs = run_model(ops)
    agree = True
    for o, mt in zip(outs, meta):
        kind, det, got = mt[:3]; slack = mt[3] if len(mt) > 3 else 0.0
        if kind == "history":
            model = [[int(v) for v in r.split()] for r in o.split(";")] if o.strip() else []
            ok = model == got
        elif kind == "tf":
            ok = got[0] == "ok" and o != "ValueError" and close(got[1], frac(o), ab=1e-12 + slack)
        else:
            key = lambda t: (1 if t >= 0 else -1) * float(t) ** 2
            ok = got[0] == "ok" and o != "ValueError" and close(key(got[1]), frac(o), rel=(1e-4 if slack else 1e-7), ab=(1e-6 if slack else 1e-9))
        if not ok:
            agree = False
            ctx.violation("correspondence", {"op": kind, "model": o[:400], "impl": str(got)[:400], "input": det}, site="Experiment" if kind == "history" else "TestFunc", no_input=True)
    ctx.block("experiment-model-vs-impl", agree, len(ops))


def replay(rep):
    print("recorded:", str(rep["first"]["detail"])[:3000])
    return 0
