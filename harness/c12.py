"""C12 — binom_conf_interval returns Clopper-Pearson bounds with guaranteed coverage."""
from fractions import Fraction as Fr
from math import comb
import math
import numpy as np
from .common import guarded, run_model, rat, F

RULE = ("n in 1..12 with every x (quick) plus generated n up to 60 (200 thorough) and n in 255..1000 with counts at / next to the ends given as fresh ints, NumPy integers or computed from data, levels {.5,.8,.9,.95,.975,.99}, three "
        "alternatives, starting points p and solver keywords; the returned doubles are certified by exact "
        "rational evaluation of the defining tail inequality at +-delta; non-trivial = 0 < x < n; distinct by arguments")
LEVEL = ("theorems binomSf_mono_p / binomSf_strictMono_p, cp_lower_mono_x, cp_*_nested, cp_lower_le_upper, cp_coverage_lower / cp_coverage_upper (coverage for every true p from certified "
         "limits), binomCICert_sound; the certificate checker is the model's executable definition and is run on "
         "every interval the implementation returns")
ASSUMPTIONS = ["root finding is not modelled: each returned limit is certified exactly with slack delta = max(1e-9, 4*xtol + 4*rtol)",
               "monotonicity in x, nesting in cl and lower <= upper follow for any certified limits from CPMono.cp_lower_mono_x / "
               "cp_upper_mono_x / cp_lower_nested / cp_upper_nested / cp_lower_le_upper (strict monotonicity of the tails in p); "
               "lower <= x/n <= upper (cl >= 1/2) is checked on the implementation, not proved"]
CLS = [0.95, 0.9, 0.975, 0.5, 0.99, 0.8, 0.3, 0.05]
ALTS = ["two-sided", "lower", "upper"]


def pmf(n, p, k):
    return comb(n, k) * p ** k * (1 - p) ** (n - k)


def sf(n, p, x):
    if x <= 0:
        return Fr(1)
    if x - 1 < n - x:            # the lower part is the shorter sum
        return 1 - sum(pmf(n, p, k) for k in range(0, x))
    return sum(pmf(n, p, k) for k in range(x, n + 1))


def cdf(n, p, x):
    if x >= n:
        return Fr(1)
    return 1 - sf(n, p, x + 1)


def level(cl, alt):
    return (1 - F(cl)) / 2 if alt == "two-sided" else 1 - F(cl)


def certify(n, x, cl, alt, lo, hi, delta):
    a = level(cl, alt)
    L, U = F(lo), F(hi)
    if alt != "upper" and x > 0:
        if not (sf(n, max(Fr(0), L - delta), x) <= a <= sf(n, min(Fr(1), L + delta), x)):
            return "lower limit is not the root of P_p(X >= x) = a"
    elif L != 0:
        return "lower limit should be 0"
    if alt != "lower" and x < n:
        if not (cdf(n, min(Fr(1), U + delta), x) <= a <= cdf(n, max(Fr(0), U - delta), x)):
            return "upper limit is not the root of P_p(X <= x) = a"
    elif U != 1:
        return "upper limit should be 1"
    return None


def run(ctx):
    from permute import utils
    ops, meta = [], []
    delta = Fr(1, 10**9)
    cases = []
    for n in range(1, ctx.n(9, 14)):
        for alt in ALTS:
            for cl in (CLS if ctx.thorough() else sorted(ctx.rng.sample(CLS, 3))):
                for x in range(0, n + 1):
                    cases.append((n, x, cl, alt, None, {}))
    for _ in range(ctx.n(150, 2500)):
        n = ctx.rng.randint(10, ctx.n(60, 200)); x = ctx.rng.choice([0, n, 1, n - 1, ctx.rng.randint(0, n), ctx.rng.randint(0, n)])
        cl = ctx.rng.choice(CLS + [0.6, 0.999]); alt = ctx.rng.choice(ALTS)
        p0 = ctx.rng.choice([None, None, 0.0, 1.0, 0.5, ctx.rng.random()])
        kw = ctx.rng.choice([{}, {}, {"xtol": 1e-10}, {"rtol": 1e-12}, {"maxiter": 200}, {"xtol": 1e-11, "rtol": 1e-13, "maxiter": 300},
                             {"xtol": 1e-2}, {"xtol": 2e-2, "rtol": 1e-3}, {"rtol": 1e-3},      # loose tolerances too: legal, and must not stick
                             {"xtol": 1e-16}, {"xtol": 1e-20}, {"xtol": 1e-300, "rtol": 1e-14}, {"xtol": 0.0 + 5e-324},    # absolute tolerances far below machine epsilon are legal for the solver
                             {"maxiter": 3}, {"maxiter": 5}, {"maxiter": 8}])     # too few iterations: the solver may give up loudly, it may not hand back an unconverged limit
        cases.append((n, x, cl, alt, p0, kw))
    # large n with counts at and next to the ends; the arguments as fresh Python ints (distinct objects even when equal:
    # CPython shares small ints only up to 256), NumPy integer scalars, or counts computed from data
    for _ in range(ctx.n(40, 400)):
        n = ctx.rng.choice([255, 256, 257, 258, 300, 511, 512, 700, 1000])
        x = ctx.rng.choice([0, n, n, 1, n - 1, 2, n - 2])
        kind = ctx.rng.choice(["fresh-int", "fresh-int", "np.int64", "np.int32", "from-data"])
        if kind == "fresh-int":
            n_, x_ = int(str(n)), int(str(x))
        elif kind == "np.int64":
            n_, x_ = np.int64(n), np.int64(x)
        elif kind == "np.int32":
            n_, x_ = np.int32(n), np.int32(x)
        else:
            data = [1] * x + [0] * (n - x); n_, x_ = len(data), sum(data)
        cases.append((n_, x_, ctx.rng.choice(CLS), ctx.rng.choice(ALTS), ctx.rng.choice([None, None, 0.5]), {}))
        ctx.count("large-n-" + kind)
    results = {}
    ctx.rng.shuffle(cases)          # arbitrary call order: a result must not depend on earlier calls (caches, sticky keywords)
    for (n, x, cl, alt, p0, kw) in cases:
        r = guarded(utils.binom_conf_interval, n, x, cl, alt, p0, **kw)
        det = {"call": "binom_conf_interval", "n": int(n), "x": int(x), "argument_types": [type(n).__name__, type(x).__name__], "cl": cl,
               "alternative": alt, "p": p0, "kwargs": kw}
        n, x = int(n), int(x)
        ctx.case((n, x, cl, alt, p0, tuple(sorted(kw))), 0 < x < n, det if (kw or p0 is not None) else None)
        ctx.count("alt-" + alt); ctx.count("kwargs" if kw else "no-kwargs"); ctx.count("interior" if 0 < x < n else "boundary-x")
        if r[0] != "ok" and kw.get("maxiter", 100) < 20 and r[1] == "RuntimeError":
            ctx.count("solver-gave-up-loudly"); continue
        if r[0] != "ok":
            det.update({"issue": "call failed", "returned": r[1:]}); ctx.violation("oracle", det, site="binom_conf_interval"); continue
        lo, hi = float(r[1][0]), float(r[1][1])
        d = max(delta, 4 * F(kw.get("xtol", 0)) + 4 * F(kw.get("rtol", 0)))
        why = None
        if not (0.0 <= lo <= 1.0 and 0.0 <= hi <= 1.0 and lo <= hi + 2 * float(d if (kw.get("xtol", 0) > 1e-6 or kw.get("rtol", 0) > 1e-6) else 0)):
            why = "0 <= lower <= upper <= 1 fails"      # (with loose caller-supplied tolerances the two roots may cross by that tolerance)
        elif cl >= 0.5 and not (lo <= x / n + 1e-12 + float(d) and x / n - 1e-12 - float(d) <= hi):      # d: slack allowed by the caller's own solver tolerances
            why = "lower <= x/n <= upper fails"
        else:
            why = certify(n, x, cl, alt, lo, hi, d)
        if why:
            det.update({"issue": why, "returned": [lo, hi]}); ctx.violation("oracle", det, site="binom_conf_interval"); continue
        if p0 is None and not kw:
            results.setdefault((n, cl, alt), {})[x] = (lo, hi)
        if p0 is not None or kw:   # independence of the starting point / solver keywords
            r0 = guarded(utils.binom_conf_interval, n, x, cl, alt)
            tol_ = 1e-7 + 4 * kw.get("xtol", 0) + 4 * kw.get("rtol", 0)
            if r0[0] != "ok" or abs(r0[1][0] - lo) > tol_ or abs(r0[1][1] - hi) > tol_:
                det.update({"issue": "result depends on the starting point p or on solver keywords", "returned": [lo, hi], "default_call": r0[1:]})
                ctx.violation("oracle", det, site="binom_conf_interval"); continue
            why0 = certify(n, x, cl, alt, float(r0[1][0]), float(r0[1][1]), delta)
            if why0:
                det.update({"issue": "a plain call made right after a call with solver keywords is no longer tight: " + why0 + " (keywords of an earlier call stick?)",
                            "returned": [float(r0[1][0]), float(r0[1][1])]})
                ctx.violation("oracle", det, site="binom_conf_interval"); continue
        ops.append(f"cpcert|{alt}|{n}|{x}|{rat(cl)}|{rat(lo)}|{rat(hi)}|{rat(d)}"); meta.append(det)
    # ---- warm starts: a limit returned by one call (or its neighbouring doubles, or the beta quantile) fed back as the starting point p
    from scipy.stats import beta as _beta
    for _ in range(ctx.n(60, 600)):
        n = ctx.rng.randint(2, 60); x = ctx.rng.randint(0, n); cl = ctx.rng.choice([0.95, 0.9, 0.975, 0.99, 0.8, 0.5]); alt = ctx.rng.choice(ALTS)
        r0 = guarded(utils.binom_conf_interval, n, x, cl, alt)
        if r0[0] != "ok":
            ctx.violation("oracle", {"call": "binom_conf_interval", "n": n, "x": x, "cl": cl, "alternative": alt, "issue": "call failed", "returned": r0[1:]}, site="binom_conf_interval"); continue
        lo0, hi0 = float(r0[1][0]), float(r0[1][1])
        a_ = (1 - cl) / 2 if alt == "two-sided" else 1 - cl
        starts = [lo0, hi0, float(np.nextafter(lo0, 0.0)), float(np.nextafter(lo0, 1.0)), float(np.nextafter(hi0, 0.0)), float(np.nextafter(hi0, 1.0))]
        if 0 < x:
            starts.append(float(_beta.ppf(a_, x, n - x + 1)))
        if x < n:
            starts.append(float(_beta.ppf(1 - a_, x + 1, n - x)))
        for p0 in starts:
            if not (0.0 <= p0 <= 1.0):
                continue
            r = guarded(utils.binom_conf_interval, n, x, cl, alt, p0)
            ctx.case(("warm-start", n, x, cl, alt, p0), True); ctx.count("start-at-a-limit")
            det = {"call": "binom_conf_interval", "n": n, "x": x, "cl": cl, "alternative": alt, "p": p0, "default_call": [lo0, hi0]}
            if r[0] != "ok" or abs(float(r[1][0]) - lo0) > 1e-7 or abs(float(r[1][1]) - hi0) > 1e-7:
                det.update({"issue": "result depends on the starting point p (a limit of the interval itself, or a neighbouring double, given as start)", "returned": str(r[1:])[:200]})
                ctx.violation("oracle", det, site="binom_conf_interval"); break
            why = certify(n, x, cl, alt, float(r[1][0]), float(r[1][1]), delta)
            if why:
                det.update({"issue": why, "returned": [float(r[1][0]), float(r[1][1])]}); ctx.violation("oracle", det, site="binom_conf_interval"); break
    # ---- very large n / levels very close to 1: limits next to 0 and 1 (closed forms for x = 1 and x = n-1, beta quantiles otherwise)
    for _ in range(ctx.n(40, 300)):
        if ctx.rng.random() < 0.6:
            n = ctx.rng.choice([10**6, 2 * 10**6, 10**7, 850000, 3 * 10**5]); cl = ctx.rng.choice([0.95, 0.9, 0.975, 0.99])
        else:
            n = ctx.rng.choice([5000, 20000, 1000]); cl = ctx.rng.choice([0.9999, 0.999999, 1 - 1e-9])
        x = ctx.rng.choice([1, 1, 2, n - 1, n - 1, n - 2, 3, n - 3]); alt = ctx.rng.choice(ALTS)
        a_ = (1 - cl) / 2 if alt == "two-sided" else 1 - cl
        xkw = {}
        if ctx.rng.random() < 0.4:      # an explicit start far from the limit together with an iteration budget
            xkw = {"p": ctx.rng.choice([0.0, 0.5, 1.0]), "maxiter": ctx.rng.choice([30, 40, 60, 150])}; ctx.count("far-start-with-maxiter")
        r = guarded(utils.binom_conf_interval, n, x, cl, alt, **xkw)
        if r[0] != "ok" and r[1] == "RuntimeError" and xkw.get("maxiter", 10**9) <= 100:
            # from a far start the bracket handed to Brent's method is wide and 30 - 60 iterations are not always enough (on the unchanged
            # tree about one such call in a hundred gives up, e.g. n = 1000, x = 997, cl = 1 - 1e-9, p = 0.5, maxiter = 30): a loud failure
            # within the caller's own budget is the solver's documented behaviour, an unconverged limit handed back would not be
            ctx.count("solver-gave-up-loudly-within-the-callers-budget"); continue
        want_lo = 0.0 if alt == "upper" else (-math.expm1(math.log1p(-a_) / n) if x == 1 else float(_beta.ppf(a_, x, n - x + 1)))
        want_hi = 1.0 if alt == "lower" else (math.exp(math.log1p(-a_) / n) if x == n - 1 else float(_beta.ppf(1 - a_, x + 1, n - x)))
        ctx.case(("extreme-limits", n, x, cl, alt), True); ctx.count("limits-next-to-0-or-1")
        det = {"call": "binom_conf_interval", "n": n, "x": x, "cl": cl, "alternative": alt, "kwargs": xkw, "expected": [want_lo, want_hi]}
        tol = lambda w: 1e-10 + 1e-7 * min(w, 1 - w)
        if r[0] != "ok" or abs(float(r[1][0]) - want_lo) > tol(want_lo) or abs(float(r[1][1]) - want_hi) > tol(want_hi):
            det.update({"issue": "limits next to 0 / 1 are not the Clopper-Pearson limits (or the call fails)", "returned": str(r[1:])[:200]})
            ctx.violation("oracle", det, site="binom_conf_interval")
    # monotone in x, nested in cl, exact coverage (small n, all x available)
    for (n, cl, alt), byx in results.items():
        if len(byx) != n + 1:
            continue
        for x in range(n):
            if byx[x][0] > byx[x + 1][0] + 1e-9 or byx[x][1] > byx[x + 1][1] + 1e-9:
                ctx.violation("oracle", {"call": "binom_conf_interval", "n": n, "cl": cl, "alternative": alt, "x": x,
                                         "issue": "limits are not monotone in x", "limits_by_x": [byx[k] for k in range(n + 1)]}, site="binom_conf_interval")
                break
        a = level(cl, alt)
        need = 1 - (a if alt != "upper" else 0) - (a if alt != "lower" else 0)
        for pt in [Fr(k, 16) for k in range(0, 17)]:
            cov = sum(pmf(n, pt, x) for x in range(n + 1) if F(byx[x][0]) - delta <= pt <= F(byx[x][1]) + delta)
            ctx.count("coverage-evaluations")
            if cov < need - Fr(1, 10**9):
                ctx.violation("oracle", {"call": "binom_conf_interval", "n": n, "cl": cl, "alternative": alt, "true_p": str(pt),
                                         "issue": "coverage below the requested level", "coverage": float(cov), "required": float(need)}, site="binom_conf_interval")
                break
    for (n, cl, alt), byx in results.items():
        for cl2 in CLS:
            if cl2 > cl and (n, cl2, alt) in results:
                for x in byx:
                    if x in results[(n, cl2, alt)]:
                        w = results[(n, cl2, alt)][x]
                        if w[0] > byx[x][0] + 1e-9 or w[1] < byx[x][1] - 1e-9:
                            ctx.violation("oracle", {"call": "binom_conf_interval", "n": n, "x": x, "alternative": alt, "cl": [cl, cl2],
                                                     "issue": "intervals are not nested in cl", "intervals": [byx[x], w]}, site="binom_conf_interval")
    outs = run_model(ops)
    agree = True
    for o, det in zip(outs, meta):
        if o != "true":
            agree = False
            ctx.violation("correspondence", {"model": o, "issue": "the model's certificate checker rejects the returned interval", "input": det},
                          site="binom_conf_interval", no_input=True)
    ctx.block("binom_ci-certificates", agree, len(ops))


def replay(rep):
    from permute import utils
    d = rep["first"]["detail"]; d = d.get("input", d)
    print("recorded:", rep["first"]["detail"])
    try:
        print("now ->", utils.binom_conf_interval(d["n"], d["x"], d["cl"] if not isinstance(d["cl"], list) else d["cl"][0], d["alternative"], d.get("p"), **d.get("kwargs", {})))
    except Exception as e:  # noqa
        print("now -> raises", type(e).__name__, e)
    return 0
