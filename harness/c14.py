"""C14 — binomial_p / hypergeometric give exact valid tail p-values; bad inputs rejected."""
from fractions import Fraction as Fr
from math import comb
import numpy as np
from .common import guarded, run_model, rat, frac, close

RULE = ("hypergeometric: every admissible (N, n, G, x) with N <= 12 (quick) / 25 (thorough) and every inadmissible "
        "combination nearby; binomial: n <= 40, x in 0..n, p on a dyadic grid incl. 0 and 1 (end points also as int / bool / NumPy scalars); the three alternatives; "
        "populations of 40..200 and samples of 50..400 with extreme observed counts, compared in purely relative terms (1e-8); "
        "non-trivial = a boundary case (x in {0, n}, G in {0, N}, p in {0, 1}) or an interior tail; distinct by arguments")
LEVEL = ("theorems less+greater(x+1)=1, monotonicity in x, validity for every null parameter and alpha (weighted "
         "rank-validity), rejection of inadmissible arguments; model validated exhaustively against utils.py")
ASSUMPTIONS = ["SciPy evaluates cdf/sf in doubles: compared with the exact rational within 1e-9 relative / 1e-12 absolute"]
ALTS = ["greater", "less", "two-sided"]


def hyper_exact(x, N, n, G):
    pm = lambda k: Fr(comb(G, k) * comb(N - G, n - k), comb(N, n)) if 0 <= k <= n and n - k <= N - G and k <= G else Fr(0)
    lo = sum(pm(k) for k in range(0, x + 1)); up = sum(pm(k) for k in range(x, n + 1))
    return {"less": lo, "greater": up, "two-sided": min(Fr(1), 2 * min(lo, up))}


def binom_exact(x, n, p):
    pm = lambda k: comb(n, k) * p ** k * (1 - p) ** (n - k)
    lo = sum(pm(k) for k in range(0, x + 1)); up = sum(pm(k) for k in range(x, n + 1))
    return {"less": lo, "greater": up, "two-sided": min(Fr(1), 2 * min(lo, up))}


def run(ctx):
    from permute import utils
    ops, meta = [], []
    NMAX = ctx.n(9, 25)
    ctx.exhaustive = True
    # ---- hypergeometric: every combination in a box, admissible or not
    for N in range(1, NMAX + 1):   # N = 0 (empty population) is outside the domain: SciPy returns NaN there
        for n in range(0, N + 2):
            for G in range(0, N + 2):
                for x in range(0, min(n, G) + 2):
                    admissible = not (n < x or N < n or N < G or G < x)
                    if not admissible and ctx.tier == "quick" and ctx.rng.random() < 0.7:
                        continue
                    if admissible and N > 12 and ctx.rng.random() < 0.75:
                        ctx.exhaustive = False
                        continue
                    for alt in ALTS:
                        r = guarded(utils.hypergeometric, x, N, n, G, alt)
                        key = ("hg", x, N, n, G, alt)
                        boundary = x in (0, n) or G in (0, N)
                        ctx.case(key, True, {"call": "hypergeometric", "x": x, "N": N, "n": n, "G": G, "alternative": alt} if boundary else None)
                        ctx.count("hg-admissible" if admissible else "hg-inadmissible")
                        det = {"call": "hypergeometric", "x": x, "N": N, "n": n, "G": G, "alternative": alt}
                        if not admissible:
                            if not (r[0] == "exc" and r[1] == "ValueError"):
                                det.update({"issue": "inadmissible arguments not rejected with ValueError", "returned": r[1:]})
                                ctx.violation("oracle", det, site="hypergeometric")
                        else:
                            want = hyper_exact(x, N, n, G)[alt]
                            if r[0] != "ok" or not close(r[1], want):
                                det.update({"issue": "not the exact tail probability", "returned": r[1:], "expected": want})
                                ctx.violation("oracle", det, site="hypergeometric"); continue
                        ops.append(f"hyperp|{alt}|{x}|{N}|{n}|{G}"); meta.append((det, r))
    # ---- binomial
    grid = [Fr(0), Fr(1), Fr(1, 2), Fr(1, 4), Fr(3, 4), Fr(1, 16), Fr(15, 16), Fr(3, 8)]
    ns = list(range(0, 13)) + [20, 40] if ctx.tier == "quick" else list(range(0, 41))
    for n in ns:
        for x in range(0, n + 3):
            for p in (grid if ctx.thorough() else ctx.rng.sample(grid, 4)):
                for alt in ALTS:
                    r = guarded(utils.binomial_p, x, n, float(p), alt)
                    det = {"call": "binomial_p", "x": x, "n": n, "p": str(p), "alternative": alt}
                    ctx.case(("bin", x, n, p, alt), True, det if x in (0, n) and p in (0, 1) else None)
                    ctx.count("binom-admissible" if x <= n else "binom-inadmissible")
                    if x > n:
                        if not (r[0] == "exc" and r[1] == "ValueError"):
                            det.update({"issue": "x > n not rejected with ValueError", "returned": r[1:]})
                            ctx.violation("oracle", det, site="binomial_p")
                    else:
                        want = binom_exact(x, n, p)[alt]
                        if r[0] != "ok" or not close(r[1], want):
                            det.update({"issue": "not the exact tail probability", "returned": r[1:], "expected": want})
                            ctx.violation("oracle", det, site="binomial_p"); continue
                    ops.append(f"binomp|{alt}|{x}|{n}|{rat(p)}"); meta.append((det, r))
    # ---- the end points p = 0 and p = 1 (and 1/2) spelled as int / bool / NumPy scalars
    for _ in range(ctx.n(150, 1500)):
        n = ctx.rng.randint(1, 25); x = ctx.rng.choice([0, n, ctx.rng.randint(0, n)]); alt = ctx.rng.choice(ALTS)
        pq, spell = ctx.rng.choice([(Fr(1), 1), (Fr(1), True), (Fr(1), np.int64(1)), (Fr(1), np.int32(1)), (Fr(1), np.float32(1)), (Fr(0), 0), (Fr(0), False),
                                    (Fr(0), np.int64(0)), (Fr(1, 2), np.float32(0.5)), (Fr(1), 1.0), (Fr(0), 0.0), (Fr(1, 4), np.float64(0.25))])
        r = guarded(utils.binomial_p, x, n, spell, alt)
        det = {"call": "binomial_p", "x": x, "n": n, "p": str(pq), "p_given_as": type(spell).__name__, "alternative": alt}
        ctx.case(("bin-spell", x, n, str(pq), type(spell).__name__, alt), True); ctx.count("binom-p-as-" + type(spell).__name__)
        want = binom_exact(x, n, pq)[alt]
        if r[0] != "ok" or not close(r[1], want):
            det.update({"issue": "not the exact tail probability", "returned": r[1:], "expected": want})
            ctx.violation("oracle", det, site="binomial_p")
    # ---- larger populations / samples with extreme observed values: tiny tails must be right to relative precision
    #      (no absolute tolerance: a p-value of 1e-12 reported as 1.3e-12 rejects too often)
    for _ in range(ctx.n(250, 2500)):
        alt = ctx.rng.choice(ALTS)
        u_ = ctx.rng.random()
        if u_ < 0.25:
            # a negligible sampling fraction (N >= 1000 n): still the hypergeometric, not its binomial limit
            N = ctx.rng.choice([2000, 5000, 10**4, 10**6, 10**7 + 3]); n = ctx.rng.randint(2, 6); G = ctx.rng.choice([1, 2, 10, N // 200, N // 7, N // 2, N - 3])
            lo_x, hi_x = max(0, n - (N - G)), min(n, G)
            x = ctx.rng.randint(lo_x, hi_x)
            want = hyper_exact(x, N, n, G)[alt]; r = guarded(utils.hypergeometric, x, N, n, G, alt)
            det = {"call": "hypergeometric", "x": x, "N": N, "n": n, "G": G, "alternative": alt}; site = "hypergeometric"; ctx.count("negligible-sampling-fraction")
        elif u_ < 0.33:
            # large balanced populations (n and G near N/2): single pmf terms are ~1e-600 relative to the binomial coefficients involved
            N = ctx.rng.choice([1040, 1500, 2000, 3000]); n = N // 2 - ctx.rng.choice([0, 0, 1, 7]); G = N // 2 - ctx.rng.choice([0, 0, 3, 20])
            lo_x, hi_x = max(0, n - (N - G)), min(n, G)
            mid = n * G // N; sd_ = max(1, int((n * G * (N - G) * (N - n) / (N * N * (N - 1))) ** 0.5))
            x = min(max(mid + ctx.rng.choice([0, 1, -1, 2, -2, 3, -3, 5, -5]) * sd_ + ctx.rng.randint(-2, 2), lo_x), hi_x)
            want = hyper_exact(x, N, n, G)[alt]; r = guarded(utils.hypergeometric, x, N, n, G, alt)
            det = {"call": "hypergeometric", "x": x, "N": N, "n": n, "G": G, "alternative": alt}; site = "hypergeometric"; ctx.count("large-balanced-population")
        elif u_ < 0.7:
            N = ctx.rng.choice([40, 60, 100, 150, 200]); n = ctx.rng.randint(N // 5, N // 2); G = ctx.rng.randint(N // 5, N // 2)
            lo_x, hi_x = max(0, n - (N - G)), min(n, G)
            x = ctx.rng.choice([hi_x, hi_x - 1, hi_x - 2, hi_x - 4, lo_x, lo_x + 1, lo_x + 3, ctx.rng.randint(lo_x, hi_x)])
            x = min(max(x, lo_x), hi_x)
            want = hyper_exact(x, N, n, G)[alt]; r = guarded(utils.hypergeometric, x, N, n, G, alt)
            det = {"call": "hypergeometric", "x": x, "N": N, "n": n, "G": G, "alternative": alt}; site = "hypergeometric"
        elif u_ < 0.78:
            # null probabilities far below machine epsilon (rare events) or next to 1: 1 - p must not be formed in doubles
            n = ctx.rng.choice([3, 10, 40, 200]); tiny = ctx.rng.choice([Fr(1, 10**10), Fr(1, 10**20), Fr(1, 2**60), Fr(1, 10**100), Fr(1, 10**6)])
            p = Fr(float(tiny)) if ctx.rng.random() < 0.7 else Fr(float(1 - float(ctx.rng.choice([Fr(1, 10**10), Fr(1, 2**40), Fr(1, 10**6)]))))
            x = ctx.rng.choice([1, 1, 2, 0, n, n - 1, 3]); x = min(max(x, 0), n)
            want = binom_exact(x, n, p)[alt]; r = guarded(utils.binomial_p, x, n, float(p), alt)
            det = {"call": "binomial_p", "x": x, "n": n, "p": float(p), "alternative": alt}; site = "binomial_p"; ctx.count("null-probability-next-to-0-or-1")
        else:
            n = ctx.rng.choice([50, 100, 200, 400]); p = ctx.rng.choice([Fr(1, 2), Fr(1, 4), Fr(1, 16), Fr(15, 16), Fr(3, 8)])
            x = ctx.rng.choice([0, 1, 3, n, n - 1, n - 3, ctx.rng.randint(0, n)])
            want = binom_exact(x, n, p)[alt]; r = guarded(utils.binomial_p, x, n, float(p), alt)
            det = {"call": "binomial_p", "x": x, "n": n, "p": str(p), "alternative": alt}; site = "binomial_p"
        ctx.case(("tail-rel", repr(det)), True); ctx.count("relative-precision-tails"); ctx.count("tiny-tail" if want < Fr(1, 10**9) else "ordinary-tail")
        fin = r[0] == "ok" and float(r[1]) == float(r[1]) and abs(float(r[1])) != float("inf")
        if not fin or not (abs(Fr(float(r[1])) - want) <= Fr(1, 10**8) * want + Fr(1, 10**290)):
            det.update({"issue": "tail probability wrong in relative terms", "returned": r[1:], "expected": float(want)})
            ctx.violation("oracle", det, site=site)
    # ---- very many trials: the central tails of a fair coin in closed form, P(X <= n/2) = P(X >= n/2) = 1/2 + C(n, n/2) / 2^(n+1),
    #      the central term from Stirling's series (relative error below 1e-14 for n >= 10^6)
    import math as _m
    for n in ([2 * 10**6, 10**7, 10**8, 2**31] + ([3 * 10**6 + 2, 2**33] if ctx.thorough() else [])):
        pmf_c = _m.sqrt(2 / (_m.pi * n)) * (1 - 1 / (4 * n) + 1 / (32 * n * n))
        for alt_ in ("less", "greater", "two-sided"):
            want_ = 0.5 + pmf_c / 2 if alt_ != "two-sided" else 1.0
            r = guarded(utils.binomial_p, n // 2, n, 0.5, alt_, secs=60)
            ctx.case(("huge-n", n, alt_), True); ctx.count("very-many-trials")
            if r[0] != "ok" or not (abs(float(r[1]) - want_) <= 1e-11):
                ctx.violation("oracle", {"call": "binomial_p", "x": n // 2, "n": n, "p": 0.5, "alternative": alt_, "expected": want_,
                                         "issue": "central tail of a fair coin with very many trials is not 1/2 + C(n, n/2)/2^(n+1)", "returned": str(r[1:])[:100]}, site="binomial_p")
    # ---- sequences of calls with identical arguments in every order of the alternatives: a value must not depend
    #      on which alternative was asked for before
    for _ in range(ctx.n(400, 4000)):
        order = ctx.rng.sample(ALTS, 3) + [ctx.rng.choice(ALTS)]
        if ctx.rng.random() < 0.5:
            n = ctx.rng.randint(1, 30); x = ctx.rng.randint(0, n); p = ctx.rng.choice(grid)
            want = binom_exact(x, n, p)
            got = [guarded(utils.binomial_p, x, n, float(p), a) for a in order]
            det = {"call": "binomial_p", "x": x, "n": n, "p": str(p), "order_of_alternatives": order}
            site = "binomial_p"
        else:
            N = ctx.rng.randint(1, 30); n = ctx.rng.randint(0, N); G = ctx.rng.randint(0, N)
            x = ctx.rng.randint(max(0, n - (N - G)), min(n, G)) if max(0, n - (N - G)) <= min(n, G) else 0
            if x > min(n, G):
                continue
            want = hyper_exact(x, N, n, G)
            got = [guarded(utils.hypergeometric, x, N, n, G, a) for a in order]
            det = {"call": "hypergeometric", "x": x, "N": N, "n": n, "G": G, "order_of_alternatives": order}
            site = "hypergeometric"
        ctx.case(("seq", repr(det)), True); ctx.count("call-sequences")
        for a, r in zip(order, got):
            if r[0] != "ok" or not close(r[1], want[a]):
                det.update({"issue": f"'{a}' called after {order[:order.index(a)]} is not the exact tail probability", "alternative": a,
                            "returned": str(r[1:])[:80], "expected": want[a]})
                ctx.violation("oracle", det, site=site); break
    # ---- less(x) + greater(x+1) = 1 and monotonicity on the implementation
    for _ in range(ctx.n(150, 1500)):
        N = ctx.rng.randint(1, 30); n = ctx.rng.randint(0, N); G = ctx.rng.randint(0, N)
        xs = [x for x in range(0, min(n, G) + 1)]
        vals_l = [guarded(utils.hypergeometric, x, N, n, G, "less") for x in xs]
        vals_g = [guarded(utils.hypergeometric, x, N, n, G, "greater") for x in xs]
        ctx.case(("hg-id", N, n, G), True); ctx.count("hg-identities")
        if any(v[0] != "ok" for v in vals_l + vals_g):
            continue
        for i in range(len(xs) - 1):
            if abs(vals_l[i][1] + vals_g[i + 1][1] - 1) > 1e-9 or vals_l[i][1] > vals_l[i + 1][1] + 1e-12 or vals_g[i][1] < vals_g[i + 1][1] - 1e-12:
                ctx.violation("oracle", {"call": "hypergeometric", "N": N, "n": n, "G": G, "x": xs[i],
                                         "issue": "less(x)+greater(x+1)=1 or monotonicity in x fails",
                                         "less": [float(v[1]) for v in vals_l], "greater": [float(v[1]) for v in vals_g]}, site="hypergeometric")
                break
    outs = run_model(ops)
    agree = True
    for o, (det, r) in zip(outs, meta):
        if o == "ValueError":
            ok = r[0] == "exc" and r[1] == "ValueError"
        else:
            ok = r[0] == "ok" and close(r[1], frac(o))
        if not ok:
            agree = False
            ctx.violation("correspondence", {"model": o[:80], "impl": r[1:] if r[0] != "ok" else float(r[1]), "input": det}, site=det["call"], no_input=True)
    ctx.block("tails-model-vs-impl", agree, len(ops))


def replay(rep):
    from permute import utils
    d = rep["first"]["detail"]; d = d.get("input", d)
    print("recorded:", rep["first"]["detail"])
    try:
        if d["call"] == "hypergeometric":
            print("now ->", utils.hypergeometric(d["x"], d["N"], d["n"], d["G"], d["alternative"]))
        else:
            print("now ->", utils.binomial_p(d["x"], d["n"], float(Fr(d["p"])), d["alternative"]))
    except Exception as e:  # noqa
        print("now -> raises", type(e).__name__, e)
    return 0
