"""C11 — adjust_p equals the textbook Bonferroni, Holm and Benjamini-Hochberg adjustments."""
import itertools
from fractions import Fraction as Fr
import numpy as np
from .common import guarded, run_model, rats, fracs, close, F

RULE = ("all vectors of length 1..4 over the grid {0,1/4,1/2,3/4,1} (exhaustive in thorough, sampled in quick) "
        "plus generated vectors of length 1..40 on grids k/(reps+1) in any order and long vectors (32..4097 entries, ties, all p >= 1/n); non-trivial = the vector has a "
        "tie or is not sorted; distinct by vector content and method")
LEVEL = ("theorems holm_eq_spec / bh_eq_spec / bonferroni_spec (right hypothesis gets the textbook value), "
         "*_ties (tie order irrelevant), adjust_chain_sorted, *_sorted for every vector; model validated "
         "against npc.adjust_p")
ASSUMPTIONS = ["products p*(n-rank+1) are evaluated in doubles by the implementation: values compared within 1e-9 relative / 1e-12 absolute",
               "np.argsort(kind='stable') is a stable sort (validated by the correspondence on tied inputs)"]
METHODS = ["holm-bonferroni", "bonferroni", "benjamini-hochberg"]


def textbook(p, method):
    n = len(p)
    order = sorted(range(n), key=lambda i: (p[i], i))
    s = [p[i] for i in order]
    if method == "bonferroni":
        return [min(Fr(1), n * v) for v in p]
    out = [None] * n
    if method == "holm-bonferroni":       # running maximum of min(1, (n-j) p_(j))
        vals, cur = [], Fr(0)
        for j in range(n):
            cur = max(cur, min(Fr(1), (n - j) * s[j])); vals.append(cur)
    else:                                 # running minimum from the top of min(1, n p_(j) / (j+1))
        vals, cur = [None] * n, Fr(1)
        for j in range(n - 1, -1, -1):
            cur = min(cur, min(Fr(1), n * s[j] / (j + 1))); vals[j] = cur
    for k, i in enumerate(order):
        out[i] = vals[k]
    return out


def gen(ctx):
    vs = []
    grid = [Fr(0), Fr(1, 4), Fr(1, 2), Fr(3, 4), Fr(1)]
    small = [v for n in range(1, 5) for v in itertools.product(grid, repeat=n)]
    if not ctx.thorough():
        small = ctx.rng.sample(small, 250)
    else:
        ctx.exhaustive = True
    vs += [list(v) for v in small]
    for _ in range(ctx.n(400, 6000)):
        n = ctx.rng.randint(1, 8) if ctx.rng.random() < 0.93 else ctx.rng.randint(9, 40)
        den = ctx.rng.choice([5, 11, 21, 101, 1001])
        mode = ctx.rng.random()
        if mode < 0.5:
            v = [Fr(ctx.rng.randint(1, den), den) for _ in range(n)]
        elif mode < 0.8:   # heavy ties
            base = [Fr(ctx.rng.randint(1, den), den) for _ in range(ctx.rng.randint(1, 3))]
            v = [ctx.rng.choice(base) for _ in range(n)]
        else:              # small values (multipliers matter)
            v = [Fr(ctx.rng.randint(1, 6), den * 4) for _ in range(n)]
        vs.append(v)
    # very small p-values (1e-20 .. 1e-300): distinct values that 1 - p cannot tell apart; compared in purely relative terms
    for _ in range(ctx.n(60, 600)):
        n = ctx.rng.randint(2, 7); e = ctx.rng.choice([20, 20, 17, 60, 300])
        v = [Fr(ctx.rng.randint(1, 9), 10**e) for _ in range(n)]
        if ctx.rng.random() < 0.5:
            v[ctx.rng.randrange(n)] = Fr(ctx.rng.randint(1, 9), 10)
        if ctx.rng.random() < 0.2:
            v[ctx.rng.randrange(n)] = Fr(0)
        vs.append(v)
    # long vectors (lengths on and just past powers of two), ties and values above 1/n
    for _ in range(ctx.n(5, 40)):
        n = ctx.rng.choice([32, 33, 64, 65, 257, 1025, 4097])
        den = ctx.rng.choice([21, 101, 100003])
        v = [Fr(ctx.rng.randint(1, den), den) for _ in range(n)]
        if ctx.rng.random() < 0.4:
            v = [max(t, Fr(1, n)) for t in v]           # every raw p-value >= 1/n
        vs.append(v)
    return vs


def run(ctx):
    from permute import npc
    ops, meta = [], []
    for v in gen(ctx):
        pf = np.array([float(x) for x in v])
        exact = [Fr(float(x)) for x in v]       # the doubles the implementation sees
        tie = len(set(exact)) < len(exact)
        unsorted = any(exact[i] > exact[i + 1] for i in range(len(exact) - 1))
        res = {}
        bad = None
        for m in METHODS:
            snap = pf.copy()
            arg = pf
            if m != "bonferroni" and ctx.rng.random() < 0.2:       # plain Python sequences are accepted for Holm and BH (array_like)
                arg = pf.tolist() if ctx.rng.random() < 0.6 else tuple(pf.tolist()); ctx.count("python-sequence-input")
            r = guarded(npc.adjust_p, arg, m)
            ctx.case((tuple(exact), m), tie or unsorted, {"pvalues": [str(x) for x in v], "method": m})
            ctx.count(f"n={len(v)}"); ctx.count("ties" if tie else "no-ties")
            if not np.array_equal(snap, pf):
                ctx.violation("input-modified", {"pvalues": [str(x) for x in v], "method": m}, site="adjust_p")
            if r[0] != "ok":
                bad = {"method": m, "error": r[1:]}; break
            out = [float(t) for t in r[1]]
            want = textbook(exact, m)
            tiny = any(0 < x < Fr(1, 10**15) for x in exact)
            cl = (lambda a, b: abs(F(a) - b) <= Fr(1, 10**9) * b) if tiny else close      # no absolute tolerance for tiny p-values
            if len(out) != len(want) or not all(cl(a, b) for a, b in zip(out, want)):
                bad = {"method": m, "returned": out, "textbook": [float(t) for t in want]}; break
            # equal raw p-values receive equal adjusted values; order preserved (pairwise for short vectors; for long ones
            # the elementwise comparison with the textbook values above already implies both)
            for i in range(len(v) if len(v) <= 64 else 0):
                for j in range(len(v)):
                    if exact[i] == exact[j] and out[i] != out[j]:
                        bad = {"method": m, "returned": out, "issue": f"tied p-values {i},{j} get different adjusted values"}
                    if exact[i] < exact[j] and out[i] > out[j] + 1e-12:
                        bad = {"method": m, "returned": out, "issue": f"order of p-values {i},{j} not preserved"}
            if bad:
                break
            res[m] = out
            if len(v) <= 300:       # the model sorts by insertion (quadratic)
                ops.append(f"adjust|{m}|{rats(exact)}"); meta.append((m, exact, out))
        if bad is None and len(res) == 3:
            for i in range(len(v)):
                chain = [float(exact[i]), res["benjamini-hochberg"][i], res["holm-bonferroni"][i], res["bonferroni"][i], 1.0]
                if any(chain[k] > chain[k + 1] + 1e-12 for k in range(4)):
                    bad = {"issue": "p <= BH <= Holm <= Bonferroni <= 1 fails", "index": i, "chain": chain}
            # relabelling permutes the output
            perm = list(range(len(v))); ctx.rng.shuffle(perm)
            for m in METHODS:
                r2 = guarded(npc.adjust_p, pf[perm], m)
                if r2[0] != "ok" or not all(abs(float(a) - res[m][perm[k]]) <= 1e-12 for k, a in enumerate(r2[1])):
                    bad = {"issue": "relabelling does not permute the output", "method": m, "perm": perm,
                           "returned": r2[1:] if r2[0] != "ok" else [float(t) for t in r2[1]], "original": res[m]}
        if bad is not None:
            bad["pvalues"] = [str(x) for x in v]
            ctx.violation("oracle", bad, site="adjust_p")
    # every vector length 1..N (not a sample of lengths): a method must not fail or go wrong for particular numbers of hypotheses
    def float_oracle(pf_, m_):
        n_ = len(pf_)
        if m_ == "bonferroni":
            return np.minimum(1.0, n_ * pf_)
        o_ = np.argsort(pf_, kind="stable"); s_ = pf_[o_]; out_ = np.empty(n_)
        if m_ == "holm-bonferroni":
            out_[o_] = np.maximum.accumulate(np.minimum(1.0, (n_ - np.arange(n_)) * s_))
        else:
            out_[o_] = np.minimum.accumulate(np.minimum(1.0, n_ * s_ / np.arange(1, n_ + 1))[::-1])[::-1]
        return out_
    NLEN = ctx.n(700, 3200)
    for n_ in range(1, NLEN + 1):
        kindv = ctx.rng.choice(["spread", "small", "ties"])
        if kindv == "spread":
            pf_ = np.array([ctx.rng.random() for _ in range(n_)])
        elif kindv == "small":
            pf_ = np.array([ctx.rng.random() / n_ for _ in range(n_)])
        else:
            pf_ = np.array([ctx.rng.randint(1, 7) / 64 for _ in range(n_)])
        for m in (METHODS if n_ <= 300 or ctx.thorough() else [ctx.rng.choice(METHODS), "benjamini-hochberg"]):
            r = guarded(npc.adjust_p, pf_.copy(), m)
            want = float_oracle(pf_, m)
            if r[0] == "ok" and np.shape(r[1]) == (n_,) and np.any(np.array(r[1], dtype=float) < pf_):
                ctx.violation("oracle", {"method": m, "n": n_, "issue": "an adjusted p-value is below the raw one", "index": int(np.argmax(np.array(r[1], dtype=float) < pf_))}, site="adjust_p"); break
            if r[0] != "ok" or np.shape(r[1]) != (n_,) or not np.allclose(np.array(r[1], dtype=float), want, rtol=1e-12, atol=0):
                ctx.violation("oracle", {"method": m, "n": n_, "pvalues": pf_[:8].tolist(), "issue": f"adjust_p fails or deviates from the definition for vectors of length {n_}",
                                         "returned": str(r[1:])[:200], "expected_head": want[:8].tolist()}, site="adjust_p"); break
        ctx.count("every-length-1..N")
    ctx.case(("every-length", NLEN), True)
    # p-values at the very bottom of the double range (subnormal): p <= adjusted still holds exactly, nothing collapses to 0
    for vec_ in ([5e-324, 5e-324], [5e-324, 1e-323, 5e-324], [1e-320, 3e-322, 5e-324, 1.0], [5e-324], [2.5e-323, 5e-324, 0.5, 5e-324], [1e-310, 1e-315, 1e-320]):
        for m in METHODS:
            pf_ = np.array(vec_); r = guarded(npc.adjust_p, pf_.copy(), m); want = float_oracle(pf_, m)
            ctx.case(("subnormal", tuple(vec_), m), True); ctx.count("subnormal-p-values")
            if r[0] != "ok" or np.any(np.array(r[1], dtype=float) < pf_) or np.any(np.abs(np.array(r[1], dtype=float) - want) > 4 * 5e-324 + 1e-12 * want):
                ctx.violation("oracle", {"method": m, "pvalues": vec_, "issue": "subnormal p-values: adjusted value below the raw one or off the definition", "returned": str(r[1:])[:160],
                                         "expected": want.tolist()}, site="adjust_p")
    # vectors the caller cannot (and the function need not) write to: read-only arrays, views of immutable buffers, broadcast rows
    for _ in range(ctx.n(30, 300)):
        n_ = ctx.rng.randint(1, 9); m = ctx.rng.choice(METHODS)
        base_ = np.array([ctx.rng.randint(1, 99) / 100 for _ in range(n_)])
        kind_ = ctx.rng.choice(["writeable=False", "frombuffer", "broadcast_to", "strided-readonly"])
        if kind_ == "writeable=False":
            ro = base_.copy(); ro.flags.writeable = False
        elif kind_ == "frombuffer":
            ro = np.frombuffer(base_.tobytes(), dtype=float)
        elif kind_ == "broadcast_to":
            ro = np.broadcast_to(base_, (3, n_))[1]
        else:
            big_ = np.repeat(base_, 2); big_.flags.writeable = False; ro = big_[::2]
        r = guarded(npc.adjust_p, ro, m); rf = guarded(npc.adjust_p, base_.copy(), m)
        ctx.case(("read-only", kind_, m, tuple(base_)), True); ctx.count("read-only-input-" + kind_)
        if r[0] != "ok" or rf[0] != "ok" or not np.array_equal(np.array(r[1]), np.array(rf[1])) or not np.array_equal(np.array(ro), base_):
            ctx.violation("oracle", {"method": m, "pvalues": base_.tolist(), "input_kind": kind_, "issue": "adjust_p fails (or differs) on a legal vector held in a read-only array",
                                     "returned": str(r[1:])[:200], "on_a_writeable_copy": str(rf[1:])[:120]}, site="adjust_p")
    # a buffer refilled in place with new p-values between two calls: second result as on a fresh array
    for _ in range(ctx.n(40, 400)):
        n_ = ctx.rng.randint(1, 8); m = ctx.rng.choice(METHODS)
        v1 = np.array([ctx.rng.randint(1, 99) / 100 for _ in range(n_)]); v2 = np.array([ctx.rng.randint(1, 99) / 100 for _ in range(n_)])
        buf = v1.copy(); ra = guarded(npc.adjust_p, buf, m); buf[...] = v2
        rb = guarded(npc.adjust_p, buf, m); rf = guarded(npc.adjust_p, v2.copy(), m)
        ctx.case(("refill", m, tuple(v1), tuple(v2)), True); ctx.count("buffer-refilled-in-place")
        if rb[0] != "ok" or rf[0] != "ok" or not np.array_equal(np.array(rb[1]), np.array(rf[1])):
            ctx.violation("oracle", {"method": m, "first": v1.tolist(), "second": v2.tolist(), "issue": "adjust_p on a buffer refilled in place differs from adjust_p on a fresh array with the same contents",
                                     "refilled": str(rb[1:])[:120], "fresh": str(rf[1:])[:120]}, site="adjust_p")
    # what one call handed back must not change when the function is called again (no shared result buffers)
    for m in METHODS:
        for n_ in (1, 3, 8):
            a = guarded(npc.adjust_p, np.array([0.01 * (k + 1) for k in range(n_)]), m)
            keep = None if a[0] != "ok" else np.array(a[1], dtype=float).copy()
            b = guarded(npc.adjust_p, np.array([0.9 - 0.05 * k for k in range(n_)]), m)
            ctx.case(("stable-result", m, n_), True); ctx.count("result-stability")
            if a[0] != "ok" or b[0] != "ok" or not np.array_equal(np.array(a[1], dtype=float), keep):
                ctx.violation("oracle", {"method": m, "n": n_, "issue": "the array returned by one call changed when adjust_p was called again (shared result buffer)",
                                         "first_now": str(a[1:])[:200], "first_then": None if keep is None else keep.tolist()}, site="adjust_p")
    # unknown method names raise ValueError
    for name in ("nonsense", "holm", "", "Bonferroni", "bonferonni", "BH", "{method}", "{}", "holm-{bonferroni}", "{:>10}", "{0}", "%s", "%(name)s", "{",
                 "benjamini-hochberg ", " holm-bonferroni", "holm_bonferroni", "bonferroni\n", "\x00",
                 # the legal names with their parts swapped / abbreviated / in other spellings found in docstrings and papers
                 "bonferroni-holm", "hochberg-benjamini", "benjamini-hochberg-yekutieli", "holm-sidak", "Holm-Bonferroni", "HOLM-BONFERRONI", "holm bonferroni",
                 "benjamini_hochberg", "fdr", "fdr_bh", "b", "h", "bonferroni-", "-bonferroni", "holm-bonferroni-", "sidak", "hommel", "none", "None"):
        for vec in ([0.3], [0.1, 0.2], [0.5, 0.5, 0.01], [0.0, 1.0, 0.2, 0.2]):
            r = guarded(npc.adjust_p, np.array(vec), name)
            ctx.case(("badmethod", name, len(vec)), True); ctx.count("unknown-method")
            if not (r[0] == "exc" and r[1] == "ValueError"):
                ctx.violation("oracle", {"issue": "unknown method not rejected with ValueError", "method": name, "pvalues": [str(v) for v in vec], "returned": str(r[1:])[:200]}, site="adjust_p")
    outs = run_model(ops)
    agree = True
    for o, (m, exact, out) in zip(outs, meta):
        mv = fracs(o)
        if len(mv) != len(out) or not all(close(a, b) for a, b in zip(out, mv)):
            agree = False
            ctx.violation("correspondence", {"op": "adjust", "method": m, "pvalues": [str(x) for x in exact], "model": o, "impl": out},
                          site="adjust_p", no_input=True)
    ctx.block("adjust_p-model-vs-impl", agree, len(ops))


def replay(rep):
    from permute import npc
    d = rep["first"]["detail"]
    print("recorded:", d)
    p = np.array([float(Fr(x)) for x in d["pvalues"]])
    for m in METHODS:
        print(m, "->", npc.adjust_p(p, m))
    return 0
